//go:build verif

package consul

import (
	"fmt"
	"time"

	"github.com/hashicorp/go-hclog"
	"github.com/hashicorp/raft"

	"github.com/hashicorp/consul/acl"
	"github.com/hashicorp/consul/agent/consul/state"
	"github.com/hashicorp/consul/agent/rpc/middleware"

	"github.com/hashicorp/consul/acl/resolver"
	"github.com/hashicorp/consul/agent/consul/fsm"
	"github.com/hashicorp/consul/agent/structs"
)

// VerifACLEnv is the part of a Server that token resolution touches (config, FSM/state store,
// loggers, the real ACLResolver), built without Raft/Serf/RPC for the C09 harness. Nothing here
// re-implements behaviour: every method forwards to the unexported production function.
type VerifACLEnv struct {
	srv *Server
}

// VerifNewACLEnv wires a real ACLResolver. backend == nil selects the production
// serverACLResolverBackend (identities come from the state store of f, primary datacenter);
// otherwise the given backend is used (client agents / secondaries resolve through RPC).
func VerifNewACLEnv(f *fsm.FSM, backend ACLResolverBackend, settings ACLResolverSettings) (*VerifACLEnv, error) {
	logger := hclog.NewNullLogger()
	s := &Server{
		config:  &Config{Datacenter: settings.Datacenter, PrimaryDatacenter: settings.Datacenter, NodeName: settings.NodeName},
		fsm:     f,
		loggers: newLoggerStore(logger),
	}
	s.config.ACLResolverSettings = settings
	if backend == nil {
		backend = &serverACLResolverBackend{Server: s}
	}
	r, err := NewACLResolver(&ACLResolverConfig{
		Config: settings,
		Logger: logger,
		CacheConfig: &structs.ACLCachesConfig{
			Identities: 64, Policies: 64, ParsedPolicies: 64, Authorizers: 64, Roles: 64,
		},
		Backend:   backend,
		ACLConfig: newACLConfig(&partitionInfoNoop{}, logger),
	})
	if err != nil {
		return nil, err
	}
	s.ACLResolver = r
	return &VerifACLEnv{srv: s}, nil
}

func (e *VerifACLEnv) ResolveToken(secret string) (resolver.Result, error) {
	return e.srv.ACLResolver.ResolveToken(secret)
}

// Mask runs maskResultsFilteredByACLs on a response meta whose flag is `flag` and returns the flag
// the caller would see.
func (e *VerifACLEnv) Mask(token string, flag bool) bool {
	m := &structs.QueryMeta{ResultsFilteredByACLs: flag}
	maskResultsFilteredByACLs(token, m, e.srv)
	return m.ResultsFilteredByACLs
}

// WaitIdentityFetch returns once no identity fetch for the token is in flight (async-cache runs
// the fetch in the background; singleflight lets us join it).
func (e *VerifACLEnv) WaitIdentityFetch(token string) {
	e.srv.ACLResolver.identityGroup.Do(token, func() (interface{}, error) { return nil, nil })
}

// VerifIsNotFound / VerifIsRemote classify resolution errors for the harness.
func VerifIsRemoteError(err error) bool { return IsACLRemoteError(err) }

// ResolveTokenAndDefaultMeta is the entry point RPC endpoints and agents use.
func (e *VerifACLEnv) ResolveTokenAndDefaultMeta(secret string) (resolver.Result, error) {
	var ctx acl.AuthorizerContext
	return e.srv.ACLResolver.ResolveTokenAndDefaultMeta(secret, nil, &ctx)
}

// ResolvePolicies / ResolveRoles run the cores of ACL.PolicyResolve / ACL.RoleResolve and return the
// identity they resolved.
func (e *VerifACLEnv) ResolvePolicies(secret string) (structs.ACLIdentity, error) {
	id, _, err := e.srv.ACLResolver.resolveTokenToIdentityAndPolicies(secret)
	if err != nil {
		return nil, err
	}
	return id, nil
}
func (e *VerifACLEnv) ResolveRoles(secret string) (structs.ACLIdentity, error) {
	id, _, err := e.srv.ACLResolver.resolveTokenToIdentityAndRoles(secret)
	if err != nil {
		return nil, err
	}
	return id, nil
}

// ---- a server whose Raft is real (single voter, in-memory transport and stores): the ACL RPC
// endpoints and the token reaper run unmodified on it.

func VerifNewACLRaftEnv(f *fsm.FSM, settings ACLResolverSettings) (*VerifACLEnv, error) {
	env, err := VerifNewACLEnv(f, nil, settings)
	if err != nil {
		return nil, err
	}
	s := env.srv
	s.config.ACLsEnabled = true
	s.config.MaxQueryTime = time.Second
	s.config.DefaultQueryTime = time.Second
	s.config.RPCHoldTimeout = time.Second
	s.logger = hclog.NewInterceptLogger(&hclog.LoggerOptions{Level: hclog.Off})
	s.shutdownCh = make(chan struct{})
	s.rpcRecorder = middleware.NewRequestRecorder(hclog.NewNullLogger(), s.IsLeader, settings.Datacenter)

	conf := raft.DefaultConfig()
	conf.LocalID = "n1"
	conf.HeartbeatTimeout = 50 * time.Millisecond
	conf.ElectionTimeout = 50 * time.Millisecond
	conf.LeaderLeaseTimeout = 50 * time.Millisecond
	conf.CommitTimeout = 2 * time.Millisecond
	conf.Logger = hclog.NewNullLogger()
	store := raft.NewInmemStore()
	snaps := raft.NewInmemSnapshotStore()
	addr, trans := raft.NewInmemTransport("")
	if err := raft.BootstrapCluster(conf, store, store, snaps, trans,
		raft.Configuration{Servers: []raft.Server{{ID: conf.LocalID, Address: addr}}}); err != nil {
		return nil, err
	}
	r, err := raft.NewRaft(conf, f, store, store, snaps, trans)
	if err != nil {
		return nil, err
	}
	s.raft = r
	for i := 0; i < 2000 && r.State() != raft.Leader; i++ {
		time.Sleep(2 * time.Millisecond)
	}
	if r.State() != raft.Leader {
		return nil, fmt.Errorf("in-memory raft did not elect itself")
	}
	return env, nil
}

func (e *VerifACLEnv) Shutdown() {
	if e.srv.raft != nil {
		e.srv.raft.Shutdown().Error()
	}
}

func (e *VerifACLEnv) State() *state.Store { return e.srv.fsm.State() }

// RaftApply sends a command through Raft like the RPC write endpoints do.
func (e *VerifACLEnv) RaftApply(t structs.MessageType, msg interface{}) error {
	_, err := e.srv.raftApplyMsgpack(t, msg)
	return err
}

// TokenRead is ACL.TokenRead by secret ID.
func (e *VerifACLEnv) TokenRead(secret string) (*structs.ACLToken, error) {
	ep := &ACL{srv: e.srv, logger: hclog.NewNullLogger()}
	args := &structs.ACLTokenGetRequest{TokenID: secret, TokenIDType: structs.ACLTokenSecret, Datacenter: e.srv.config.Datacenter,
		QueryOptions: structs.QueryOptions{Token: secret}}
	var reply structs.ACLTokenResponse
	if err := ep.TokenRead(args, &reply); err != nil {
		return nil, err
	}
	return reply.Token, nil
}

// TokenList is ACL.TokenList (global and local) as seen with the requester's token.
func (e *VerifACLEnv) TokenList(requester string) ([]*structs.ACLTokenListStub, error) {
	ep := &ACL{srv: e.srv, logger: hclog.NewNullLogger()}
	args := &structs.ACLTokenListRequest{IncludeLocal: true, IncludeGlobal: true, Datacenter: e.srv.config.Datacenter,
		QueryOptions: structs.QueryOptions{Token: requester}}
	var reply structs.ACLTokenListResponse
	if err := ep.TokenList(args, &reply); err != nil {
		return nil, err
	}
	return reply.Tokens, nil
}

// Reap is one run of the expired-token reaper for global tokens.
func (e *VerifACLEnv) Reap() (int, error) { return e.srv.reapExpiredGlobalACLTokens() }
