//go:build verif

package consul

import (
	"bytes"
	"context"
	"fmt"
	"io"
	"time"

	"github.com/hashicorp/go-hclog"
	"github.com/hashicorp/raft"

	"github.com/hashicorp/consul/agent/connect"
	"github.com/hashicorp/consul/agent/connect/ca"
	"github.com/hashicorp/consul/agent/consul/fsm"
	"github.com/hashicorp/consul/agent/consul/state"
	"github.com/hashicorp/consul/agent/structs"
	raftstorage "github.com/hashicorp/consul/internal/storage/raft"
)

// VerifCADelegate12 is the caServerDelegate of the C12 harness: a real FSM / state store;
// every CA request of the CAManager and of the Consul CA provider is encoded with msgpack and
// applied through fsm.Apply with the next Raft index, exactly as Server.raftApplyMsgpack
// hands it to Raft (an error returned by the FSM becomes the error result, response nil).
// OnCA observes every applied CA request (index, request, raw FSM response).
type VerifCADelegate12 struct {
	FSM   *fsm.FSM
	Index uint64
	DC    string
	OnCA  func(idx uint64, req *structs.CARequest, resp interface{})
	// PreCA runs when the CAManager / provider hands a prepared request to "Raft", before
	// anything is applied: the harness samples the store there (nothing may have changed since
	// the last applied command) and may inject a fault: handled=true makes ApplyCARequest
	// return (resp, err) without applying anything (apply failure, or a refused conditional
	// write); the hook may also apply a competing write first and let the request lose its CAS.
	PreCA func(req *structs.CARequest) (resp interface{}, err error, handled bool)
	// Forward answers cross-datacenter RPCs of a secondary-datacenter manager
	// (ConnectCA.Roots, ConnectCA.SignIntermediate); nil: there is no other datacenter.
	Forward func(method, dc string, args interface{}, reply interface{}) error
}

func VerifNewCADelegate12(dc string, startIndex uint64) *VerifCADelegate12 {
	// a real (empty) resource storage backend, so that the FSM can be snapshotted and restored
	backend, err := raftstorage.NewBackend(nil, hclog.NewNullLogger())
	if err != nil {
		panic(err)
	}
	f := fsm.NewFromDeps(fsm.Deps{
		Logger:         hclog.NewNullLogger(),
		NewStateStore:  func() *state.Store { return state.NewStateStore(nil) },
		StorageBackend: backend,
	})
	return &VerifCADelegate12{FSM: f, Index: startIndex, DC: dc}
}

func (d *VerifCADelegate12) apply(t structs.MessageType, msg interface{}) (uint64, interface{}) {
	buf, err := structs.Encode(t, msg)
	if err != nil {
		panic(err)
	}
	d.Index++
	return d.Index, d.FSM.Apply(&raft.Log{Index: d.Index, Term: 1, Type: raft.LogCommand, Data: buf})
}

func (d *VerifCADelegate12) State() *state.Store { return d.FSM.State() }
func (d *VerifCADelegate12) IsLeader() bool      { return true }

func (d *VerifCADelegate12) ProviderState(id string) (*structs.CAConsulProviderState, error) {
	_, s, err := d.FSM.State().CAProviderState(id)
	return s, err
}

// ApplyCARaw applies one CA request and returns the raw FSM response (bool, uint64, error, nil).
func (d *VerifCADelegate12) ApplyCARaw(req *structs.CARequest) (uint64, interface{}) {
	idx, resp := d.apply(structs.ConnectCARequestType, req)
	if d.OnCA != nil {
		d.OnCA(idx, req, resp)
	}
	return idx, resp
}

func (d *VerifCADelegate12) ApplyCARequest(req *structs.CARequest) (interface{}, error) {
	if d.PreCA != nil {
		if resp, err, handled := d.PreCA(req); handled {
			return resp, err
		}
	}
	_, resp := d.ApplyCARaw(req)
	if err, ok := resp.(error); ok {
		return nil, err
	}
	return resp, nil
}

func (d *VerifCADelegate12) ApplyCALeafRequest() (uint64, error) {
	req := structs.CALeafRequest{Op: structs.CALeafOpIncrementIndex, Datacenter: d.DC}
	_, resp := d.apply(structs.ConnectCALeafRequestType|structs.IgnoreUnknownTypeFlag, &req)
	if err, ok := resp.(error); ok {
		return 0, err
	}
	modIdx, ok := resp.(uint64)
	if !ok {
		return 0, fmt.Errorf("Invalid response from updating the leaf cert index")
	}
	return modIdx, nil
}

func (d *VerifCADelegate12) forwardDC(method, dc string, args interface{}, reply interface{}) error {
	if d.Forward != nil {
		return d.Forward(method, dc, args, reply)
	}
	return fmt.Errorf("verif: no other datacenter (%s to %s)", method, dc)
}

func (d *VerifCADelegate12) generateCASignRequest(csr string) *structs.CASignRequest {
	return &structs.CASignRequest{Datacenter: d.DC, CSR: csr}
}

func (d *VerifCADelegate12) ServersSupportMultiDCConnectCA() error { return nil }

// VerifNewCAManager12 builds the real CAManager of a primary-datacenter server over the delegate.
func VerifNewCAManager12(d *VerifCADelegate12, dc string, caConfig *structs.CAConfiguration) *CAManager {
	conf := DefaultConfig()
	conf.ConnectEnabled = true
	conf.Datacenter = dc
	conf.PrimaryDatacenter = dc
	conf.CAConfig = caConfig
	return NewCAManager(d, nil, hclog.NewNullLogger(), conf)
}

// VerifSetTimeNow12 replaces the manager's clock (root expiry check).
func VerifSetTimeNow12(c *CAManager, f func() time.Time) { c.timeNow = f }

// VerifProviderRoot12 returns the ID of the root the manager signs with ("" when none).
func VerifProviderRoot12(c *CAManager) string {
	c.providerLock.RLock()
	defer c.providerLock.RUnlock()
	if c.providerRoot == nil {
		return ""
	}
	return c.providerRoot.ID
}

// VerifProviderID12 returns the provider-state id of the manager's current Consul CA provider.
func VerifProviderID12(c *CAManager) string {
	c.providerLock.RLock()
	defer c.providerLock.RUnlock()
	if c.provider == nil {
		return ""
	}
	return ca.VerifConsulProviderID12(c.provider)
}

// VerifNewCAManager12In builds the real CAManager of a server of datacenter dc whose primary
// datacenter is primaryDC (dc != primaryDC: a secondary, which gets its signing certificate from
// the primary through the delegate's Forward hook).
func VerifNewCAManager12In(d *VerifCADelegate12, dc, primaryDC string, caConfig *structs.CAConfiguration) *CAManager {
	conf := DefaultConfig()
	conf.ConnectEnabled = true
	conf.Datacenter = dc
	conf.PrimaryDatacenter = primaryDC
	conf.CAConfig = caConfig
	return NewCAManager(d, nil, hclog.NewNullLogger(), conf)
}

// VerifSetProviderShim12 installs the provider newProvider returns for provider names other
// than consul / vault / aws-pca (the hook the package's own tests use).
func VerifSetProviderShim12(c *CAManager, p ca.Provider) { c.providerShim = p }

// VerifGetCARoots12 is the body of the ConnectCA.Roots endpoint (Server.getCARoots uses nothing
// of the server but the state store handed in).
func VerifGetCARoots12(st *state.Store) (*structs.IndexedCARoots, error) {
	return (&Server{}).getCARoots(nil, st)
}

// VerifSignIntermediate12 is the body of the ConnectCA.SignIntermediate endpoint after the
// forwarding, primary-datacenter and operator:write checks.
func VerifSignIntermediate12(c *CAManager, csrPEM string) (string, error) {
	provider, _ := c.getCAProvider()
	if provider == nil {
		return "", fmt.Errorf("internal error: CA provider is nil")
	}
	csr, err := connect.ParseCSR(csrPEM)
	if err != nil {
		return "", err
	}
	return provider.SignIntermediate(csr)
}

// VerifSecondaryUpdateRoots12 is what secondaryCARootWatch does with every answer of the primary.
func VerifSecondaryUpdateRoots12(c *CAManager, roots structs.IndexedCARoots) error {
	return c.secondaryUpdateRoots(roots)
}

// VerifRenewIntermediateNow12 forces the intermediate renewal the periodic routine performs
// after half of the certificate's life time.
func VerifRenewIntermediateNow12(c *CAManager) error {
	return c.renewIntermediateNow(context.Background())
}

// VerifProviderRootObj12 returns a copy of the root the manager appends intermediates from.
func VerifProviderRootObj12(c *CAManager) *structs.CARoot {
	c.providerLock.RLock()
	defer c.providerLock.RUnlock()
	if c.providerRoot == nil {
		return nil
	}
	return c.providerRoot.Clone()
}

type verifSink12 struct{ bytes.Buffer }

func (s *verifSink12) ID() string    { return "verif" }
func (s *verifSink12) Cancel() error { return nil }
func (s *verifSink12) Close() error  { return nil }

// SnapshotRestore takes a snapshot of the FSM (as Raft does) and restores it into the same FSM:
// the state store is replaced by one rebuilt from the persisted records only.
func (d *VerifCADelegate12) SnapshotRestore() error {
	snap, err := d.FSM.Snapshot()
	if err != nil {
		return err
	}
	defer snap.Release()
	sink := &verifSink12{}
	if err := snap.Persist(sink); err != nil {
		return err
	}
	return d.FSM.Restore(io.NopCloser(bytes.NewReader(sink.Bytes())))
}
