//go:build verif

package fsm

import (
	"reflect"
	"runtime"
	"strings"

	"github.com/hashicorp/consul/agent/structs"
)

// Export shim for the C01 harness (/verif). Compiled only with -tags verif through a build
// overlay; nothing here exists in the tracked tree.

// VerifC01Table returns the package-level registration table: message type byte -> name of the
// registered handler method (e.g. "applyRegister"), read from the function values themselves.
func VerifC01Table() map[byte]string {
	out := map[byte]string{}
	for msg, fn := range commands {
		name := runtime.FuncForPC(reflect.ValueOf(fn).Pointer()).Name()
		if i := strings.LastIndex(name, "."); i >= 0 {
			name = name[i+1:]
		}
		name = strings.TrimSuffix(name, "-fm")
		out[byte(msg)] = name
	}
	return out
}

// VerifC01Instrument wraps every slot of this FSM's dispatch table so that rec(slot) is called
// when (*FSM).Apply routes an entry to it. The real Apply still does the routing.
func (c *FSM) VerifC01Instrument(rec func(slot byte)) {
	for msg, fn := range c.apply {
		m, f := msg, fn
		c.apply[msg] = func(buf []byte, index uint64) interface{} {
			rec(byte(m))
			return f(buf, index)
		}
	}
}

var _ = structs.RegisterRequestType
