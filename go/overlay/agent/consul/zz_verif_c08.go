//go:build verif

package consul

import "github.com/hashicorp/consul/agent/structs"

// VerifC08Caches exposes the resolver's caches (C08 harness: controllable clock, see
// structs.ACLCaches.VerifC08Age).
func (r *ACLResolver) VerifC08Caches() *structs.ACLCaches { return r.cache }

// VerifC08Quiesce waits for background fetches (async-cache) started for the given token secret:
// a duplicate singleflight call returns only after the in-flight one has finished.
func (r *ACLResolver) VerifC08Quiesce(secret string) {
	noop := func() (interface{}, error) { return nil, nil }
	r.identityGroup.Do(secret, noop)
	r.roleGroup.Do(secret, noop)
	r.policyGroup.Do(secret, noop)
}
