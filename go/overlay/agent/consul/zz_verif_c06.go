//go:build verif

package consul

import (
	"time"

	"github.com/hashicorp/go-memdb"
	"github.com/hashicorp/raft"

	"github.com/hashicorp/consul/agent/consul/fsm"
	"github.com/hashicorp/consul/agent/consul/state"
	"github.com/hashicorp/consul/agent/structs"
)

// Export shim for the C06 correspondence harness (/verif). Compiled only with -tags verif through a
// build overlay; nothing here exists in the tracked tree.

// VerifC06Server is a bare Server whose only live parts are the FSM (state store) it is given, a
// zero raft handle (follower, no leader known) and the query-time limits: exactly what
// Server.blockingQuery -> blockingquery.Query and Server.SetQueryMeta touch for a request without a
// token and without RequireConsistent.
type VerifC06Server struct{ s *Server }

func NewVerifC06Server(f *fsm.FSM, maxQueryTime time.Duration) *VerifC06Server {
	return &VerifC06Server{s: &Server{
		fsm:        f,
		raft:       &raft.Raft{},
		shutdownCh: make(chan struct{}),
		config:     &Config{MaxQueryTime: maxQueryTime, DefaultQueryTime: maxQueryTime},
	}}
}

// BlockingQuery runs the REAL Server.blockingQuery (blockingquery.Query + Server.SetQueryMeta).
func (v *VerifC06Server) BlockingQuery(minIndex uint64, maxTime time.Duration, meta *structs.QueryMeta,
	fn func(ws memdb.WatchSet, st *state.Store) error) error {
	opts := &structs.QueryOptions{MinQueryIndex: minIndex, MaxQueryTime: maxTime}
	return v.s.blockingQuery(opts, meta, fn)
}

// Shutdown closes the server's shutdown channel: the context of every running blockingQuery is cancelled
// (the same branch of the loop as the MaxQueryTime timeout: WatchCtx returns an error, the request answers
// with what it has).
func (v *VerifC06Server) Shutdown() { close(v.s.shutdownCh) }

func VerifC06ErrNotChanged() error { return errNotChanged }

// Sentinels of the blocking-query contract.
func VerifC06ErrNotFound() error { return errNotFound }
