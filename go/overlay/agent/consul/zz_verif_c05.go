//go:build verif

package consul

import (
	"context"
	"fmt"
	"io"
	"sync"
	"time"

	"github.com/hashicorp/go-hclog"
	"github.com/hashicorp/raft"

	"github.com/hashicorp/consul/acl"
	"github.com/hashicorp/consul/acl/resolver"
	"github.com/hashicorp/consul/agent/consul/fsm"
	"github.com/hashicorp/consul/agent/consul/state"
	"github.com/hashicorp/consul/agent/rpc/middleware"
	"github.com/hashicorp/consul/agent/structs"
)

// Export shim for the C05 correspondence harness (/verif): the part of a Server that the Txn RPC
// endpoint touches (config, FSM / state store, loggers, a real ACLResolver over scripted tokens, a real
// single-voter in-memory Raft), so that Txn.Apply / Txn.Read run UNMODIFIED: ForwardRPC, ResolveToken,
// preCheck (kvsPreApply, nodePreApply, servicePreApplyValidate, the vet* functions), raftApply ->
// fsm.applyTxn -> Store.TxnRW, FilterTxnResults. Nothing here re-implements behaviour.

// VerifC05Backend answers token / policy lookups from two maps (a client's view would go by RPC; a
// server's by the state store — both end in the same ACLResolver code, which is not C05's subject).
type VerifC05Backend struct {
	Tokens   map[string]*structs.ACLToken
	Policies map[string]*structs.ACLPolicy
}

func (b *VerifC05Backend) ACLDatacenter() string { return "dc1" }
func (b *VerifC05Backend) ResolveIdentityFromToken(tok string) (bool, structs.ACLIdentity, error) {
	if t, ok := b.Tokens[tok]; ok {
		return true, t, nil
	}
	return true, nil, acl.ErrNotFound
}
func (b *VerifC05Backend) ResolvePolicyFromID(id string) (bool, *structs.ACLPolicy, error) {
	if p, ok := b.Policies[id]; ok {
		return true, p, nil
	}
	return true, nil, acl.ErrNotFound
}
func (b *VerifC05Backend) ResolveRoleFromID(string) (bool, *structs.ACLRole, error) {
	return true, nil, acl.ErrNotFound
}
func (b *VerifC05Backend) IsServerManagementToken(string) bool { return false }
func (b *VerifC05Backend) RPC(context.Context, string, interface{}, interface{}) error {
	return fmt.Errorf("verif: no RPC")
}

// verifC05FSM hands every committed log entry to the real FSM and remembers its index.
type verifC05FSM struct {
	f    *fsm.FSM
	mu   sync.Mutex
	last uint64
	n    int
}

func (w *verifC05FSM) Apply(l *raft.Log) interface{} {
	w.mu.Lock()
	w.last = l.Index
	w.n++
	w.mu.Unlock()
	return w.f.Apply(l)
}
func (w *verifC05FSM) Snapshot() (raft.FSMSnapshot, error) { return w.f.Snapshot() }
func (w *verifC05FSM) Restore(r io.ReadCloser) error       { return w.f.Restore(r) }

type VerifC05Server struct {
	srv  *Server
	wrap *verifC05FSM
	txn  *Txn
}

func VerifC05NewServer(f *fsm.FSM, backend *VerifC05Backend) (*VerifC05Server, error) {
	logger := hclog.NewNullLogger()
	settings := ACLResolverSettings{ACLsEnabled: true, Datacenter: "dc1", NodeName: "srv1",
		ACLPolicyTTL: time.Hour, ACLRoleTTL: time.Hour, ACLTokenTTL: time.Hour, ACLDownPolicy: "deny", ACLDefaultPolicy: "deny"}
	s := &Server{
		config:  &Config{Datacenter: "dc1", PrimaryDatacenter: "dc1", NodeName: "srv1"},
		fsm:     f,
		loggers: newLoggerStore(logger),
	}
	s.config.ACLResolverSettings = settings
	s.config.ACLsEnabled = true
	s.config.MaxQueryTime = time.Second
	s.config.DefaultQueryTime = time.Second
	s.config.RPCHoldTimeout = 30 * time.Second
	s.logger = hclog.NewInterceptLogger(&hclog.LoggerOptions{Level: hclog.Off})
	s.shutdownCh = make(chan struct{})
	s.rpcRecorder = middleware.NewRequestRecorder(hclog.NewNullLogger(), s.IsLeader, "dc1")
	r, err := NewACLResolver(&ACLResolverConfig{
		Config: settings,
		Logger: logger,
		CacheConfig: &structs.ACLCachesConfig{
			Identities: 64, Policies: 64, ParsedPolicies: 64, Authorizers: 64, Roles: 64,
		},
		Backend:   backend,
		ACLConfig: newACLConfig(&partitionInfoNoop{}, logger),
	})
	if err != nil {
		return nil, err
	}
	s.ACLResolver = r

	conf := raft.DefaultConfig()
	conf.LocalID = "srv1"
	// single voter, in-memory transport: nobody to lose the lease to; the
	// quorum is the node itself, so the short timeouts only shorten the self-election at start-up
	conf.HeartbeatTimeout = 5 * time.Millisecond
	conf.ElectionTimeout = 5 * time.Millisecond
	conf.LeaderLeaseTimeout = 5 * time.Millisecond
	conf.CommitTimeout = time.Millisecond
	conf.Logger = hclog.NewNullLogger()
	store := raft.NewInmemStore()
	snaps := raft.NewInmemSnapshotStore()
	addr, trans := raft.NewInmemTransport("")
	if err := raft.BootstrapCluster(conf, store, store, snaps, trans,
		raft.Configuration{Servers: []raft.Server{{ID: conf.LocalID, Address: addr}}}); err != nil {
		return nil, err
	}
	wrap := &verifC05FSM{f: f}
	rf, err := raft.NewRaft(conf, wrap, store, store, snaps, trans)
	if err != nil {
		return nil, err
	}
	s.raft = rf
	deadline := time.Now().Add(120 * time.Second)
	for rf.State() != raft.Leader && time.Now().Before(deadline) {
		time.Sleep(time.Millisecond)
	}
	if rf.State() != raft.Leader {
		return nil, fmt.Errorf("in-memory raft did not elect itself")
	}
	if err := rf.Barrier(120 * time.Second).Error(); err != nil {
		return nil, err
	}
	s.setConsistentReadReady() // what establishLeadership does once the leader's barrier has been applied
	return &VerifC05Server{srv: s, wrap: wrap, txn: &Txn{srv: s, logger: logger}}, nil
}

func (v *VerifC05Server) Shutdown() { v.srv.raft.Shutdown().Error() }

func (v *VerifC05Server) State() *state.Store { return v.srv.fsm.State() }

// Applied returns the index of the last command handed to the FSM and the number of commands so far.
func (v *VerifC05Server) Applied() (uint64, int) {
	v.wrap.mu.Lock()
	defer v.wrap.mu.Unlock()
	return v.wrap.last, v.wrap.n
}

// RaftApply sends a command through Raft like every RPC write endpoint does; it returns the FSM's
// response (an error response comes back as err) and the index the entry was committed at.
func (v *VerifC05Server) RaftApply(t structs.MessageType, msg interface{}) (interface{}, error, uint64) {
	resp, err := v.srv.raftApplyMsgpack(t, msg)
	idx, _ := v.Applied()
	return resp, err, idx
}

// TxnApply is the unmodified Txn.Apply RPC handler.
func (v *VerifC05Server) TxnApply(token string, ops structs.TxnOps) (structs.TxnResponse, error) {
	args := &structs.TxnRequest{Datacenter: "dc1", Ops: ops, WriteRequest: structs.WriteRequest{Token: token}}
	var reply structs.TxnResponse
	err := v.txn.Apply(args, &reply)
	return reply, err
}

// TxnRead is the unmodified Txn.Read RPC handler.
func (v *VerifC05Server) TxnRead(token string, ops structs.TxnOps, consistent bool) (structs.TxnReadResponse, error) {
	args := &structs.TxnReadRequest{Datacenter: "dc1", Ops: ops,
		QueryOptions: structs.QueryOptions{Token: token, RequireConsistent: consistent}}
	var reply structs.TxnReadResponse
	err := v.txn.Read(args, &reply)
	return reply, err
}

// RPC dispatches the two methods the HTTP layer (agent/txn_endpoint.go) calls.
func (v *VerifC05Server) RPC(method string, args, reply interface{}) error {
	switch method {
	case "Txn.Apply":
		return v.txn.Apply(args.(*structs.TxnRequest), reply.(*structs.TxnResponse))
	case "Txn.Read":
		return v.txn.Read(args.(*structs.TxnReadRequest), reply.(*structs.TxnReadResponse))
	}
	return fmt.Errorf("verif: unexpected RPC %s", method)
}

// Resolve is the server's ResolveToken (for the permission table the harness sends to the model).
func (v *VerifC05Server) Resolve(token string) (resolver.Result, error) {
	return v.srv.ResolveToken(token)
}

// VerifC05Filter is the production FilterTxnResults.
func VerifC05Filter(authz acl.Authorizer, rs structs.TxnResults) structs.TxnResults {
	return FilterTxnResults(authz, rs)
}
