//go:build verif

package stream

import "sync/atomic"

// Export shims for the C18 harness (never part of a normal build).

// VerifC18DrainOne performs one iteration of Run synchronously: it takes one batch off
// publishCh (if any) and dispatches it to the topic buffers.
func (e *EventPublisher) VerifC18DrainOne() bool {
	select {
	case u := <-e.publishCh:
		e.publishEvent(u)
		return true
	default:
		return false
	}
}

// VerifC18QueueLen is the number of published-but-not-dispatched batches.
func (e *EventPublisher) VerifC18QueueLen() int { return len(e.publishCh) }

// VerifC18Peek returns the batches Next could return without blocking and whether the
// subscription is still open. It does not advance the subscription.
func (s *Subscription) VerifC18Peek() (batches [][]Event, open bool) {
	open = atomic.LoadUint32(&s.state) == subStateOpen
	item := s.currentItem
	for {
		next, ok := item.NextNoBlock()
		if !ok || next.Err != nil {
			return
		}
		if len(next.Events) > 0 {
			batches = append(batches, next.Events)
		}
		item = next
	}
}
