//go:build verif

package stream

import "sync/atomic"

// Export shims for the C11 harness (never part of a normal build). The harness does not
// start Run; it plays the publisher goroutine itself, one batch at a time.

// VerifC11DrainOne performs exactly one iteration of Run synchronously: it takes one
// batch off publishCh (non-blocking) and hands it to publishEvent.
func (e *EventPublisher) VerifC11DrainOne() bool {
	select {
	case u := <-e.publishCh:
		e.publishEvent(u)
		return true
	default:
		return false
	}
}

// VerifC11QueueLen is the number of committed-but-not-yet-published batches.
func (e *EventPublisher) VerifC11QueueLen() int { return len(e.publishCh) }

// VerifC11ExpireCache plays the snapCacheTTL timers: every cached snapshot is dropped,
// exactly as the time.AfterFunc callbacks of setCachedSnapshotLocked do.
func (e *EventPublisher) VerifC11ExpireCache() int {
	e.lock.Lock()
	defer e.lock.Unlock()
	n := len(e.snapCache)
	for k := range e.snapCache {
		delete(e.snapCache, k)
	}
	return n
}

// VerifC11Ready reports whether Next would return without blocking (an event, an error
// item, or a closed subscription).
func (s *Subscription) VerifC11Ready() bool {
	if atomic.LoadUint32(&s.state) != subStateOpen {
		return true
	}
	item := s.currentItem
	for {
		raw := item.link.next.Load()
		if raw == nil {
			return false
		}
		next := raw.(*bufferItem)
		if next.Err != nil || len(next.Events) > 0 {
			return true
		}
		item = next
	}
}

// VerifC11CachedSnapshot reports whether Subscribe would serve this request from snapCache.
func (e *EventPublisher) VerifC11CachedSnapshot(req *SubscribeRequest) bool {
	e.lock.Lock()
	defer e.lock.Unlock()
	return e.getCachedSnapshotLocked(req) != nil
}
