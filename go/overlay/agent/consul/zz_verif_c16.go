//go:build verif

package consul

import (
	"fmt"

	"github.com/hashicorp/consul/acl/resolver"
	"github.com/hashicorp/consul/agent/consul/state"
	"github.com/hashicorp/consul/agent/structs"
)

// VerifCatalogRegisterPre runs what Catalog.Register does between resolving the token and
// raftApply (same calls, same order, on the real unexported helpers): request validation,
// check fix-ups and vetRegisterWithACL against the node's current catalog content. The C16
// harness then applies the (mutated) request through the real FSM, as raftApply would.
func VerifCatalogRegisterPre(authz resolver.Result, st *state.Store, args *structs.RegisterRequest) error {
	if hasPeerNameInRequest(args) {
		return fmt.Errorf("cannot register requests with PeerName in them")
	}
	entMeta, err := st.ValidateRegisterRequest(args)
	if err != nil {
		return err
	}
	if err := nodePreApply(args.Node, string(args.ID)); err != nil {
		return err
	}
	if args.Address == "" && !args.SkipNodeUpdate {
		return fmt.Errorf("Must provide address if SkipNodeUpdate is not set")
	}
	if args.Service != nil {
		if err := servicePreApply(args.Service, authz, args.Service.FillAuthzContext); err != nil {
			return err
		}
	}
	if args.Check != nil {
		args.Checks = append(args.Checks, args.Check)
		args.Check = nil
	}
	for _, check := range args.Checks {
		if check.Node == "" {
			check.Node = args.Node
		}
		checkPreApply(check)
		if check.Type == "" {
			chkType := check.CheckType()
			check.Type = chkType.Type()
		}
	}
	_, ns, err := st.NodeServices(nil, args.Node, entMeta, args.PeerName)
	if err != nil {
		return fmt.Errorf("Node lookup failed: %v", err)
	}
	return vetRegisterWithACL(authz, args, ns)
}

// VerifCatalogDeregisterPre runs what Catalog.Deregister does between resolving the token
// and raftApply.
func VerifCatalogDeregisterPre(authz resolver.Result, st *state.Store, args *structs.DeregisterRequest) error {
	if args.Node == "" {
		return fmt.Errorf("Must provide node")
	}
	var err error
	var ns *structs.NodeService
	if args.ServiceID != "" {
		_, ns, err = st.NodeService(nil, args.Node, args.ServiceID, &args.EnterpriseMeta, args.PeerName)
		if err != nil {
			return fmt.Errorf("Service lookup failed: %v", err)
		}
	}
	var nc *structs.HealthCheck
	if args.CheckID != "" {
		_, nc, err = st.NodeCheck(args.Node, args.CheckID, &args.EnterpriseMeta, args.PeerName)
		if err != nil {
			return fmt.Errorf("Check lookup failed: %v", err)
		}
	}
	return vetDeregisterWithACL(authz, args, ns, nc)
}
