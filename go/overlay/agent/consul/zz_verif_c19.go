//go:build verif

package consul

import (
	"context"
	"reflect"
	"sync"
	"fmt"
	"io"
	"net"
	"os"
	"path/filepath"
	"sync/atomic"
	"time"

	"github.com/hashicorp/consul-net-rpc/net/rpc"
	"github.com/hashicorp/go-hclog"
	"github.com/hashicorp/go-uuid"
	"github.com/hashicorp/raft"
	"github.com/hashicorp/serf/serf"
	"google.golang.org/grpc/keepalive"

	rpcRate "github.com/hashicorp/consul/agent/consul/rate"
	"github.com/hashicorp/consul/agent/consul/state"
	"github.com/hashicorp/consul/agent/consul/stream"
	external "github.com/hashicorp/consul/agent/grpc-external"
	"github.com/hashicorp/consul/agent/grpc-external/limiter"
	grpcint "github.com/hashicorp/consul/agent/grpc-internal"
	"github.com/hashicorp/consul/agent/grpc-internal/balancer"
	"github.com/hashicorp/consul/agent/grpc-internal/resolver"
	"github.com/hashicorp/consul/agent/netutil"
	"github.com/hashicorp/consul/agent/pool"
	"github.com/hashicorp/consul/agent/router"
	"github.com/hashicorp/consul/agent/rpc/middleware"
	"github.com/hashicorp/consul/agent/structs"
	"github.com/hashicorp/consul/agent/token"
	"github.com/hashicorp/consul/sdk/freeport"
	"github.com/hashicorp/consul/tlsutil"
	"github.com/hashicorp/consul/types"
)

// ---------------------------------------------------------------------------
// diff-level exports (the merge walks alone)

type VerifDiff struct {
	Deletes, Upserts            []string
	LocalSkipped, RemoteSkipped int
}

func verifRes(r itemDiffResults) VerifDiff {
	return VerifDiff{r.LocalDeletes, r.LocalUpserts, r.LocalSkipped, r.RemoteSkipped}
}

func VerifDiffPolicies(local structs.ACLPolicies, remote structs.ACLPolicyListStubs, last uint64) VerifDiff {
	return verifRes(diffACLType(&aclPolicyReplicator{local: local, remote: remote}, last))
}
func VerifDiffRoles(local, remote structs.ACLRoles, last uint64) VerifDiff {
	return verifRes(diffACLType(&aclRoleReplicator{local: local, remote: remote}, last))
}
func VerifDiffTokens(local structs.ACLTokens, remote structs.ACLTokenListStubs, last uint64) VerifDiff {
	return verifRes(diffACLType(&aclTokenReplicator{local: local, remote: remote}, last))
}
func VerifDiffConfigEntries(local, remote []structs.ConfigEntry, last uint64) (dels, ups []structs.ConfigEntry) {
	return diffConfigEntries(local, remote, last)
}

const (
	VerifACLBatchDeleteSize = aclBatchDeleteSize
	VerifACLBatchUpsertSize = aclBatchUpsertSize
)

// ---------------------------------------------------------------------------
// round-level exports: two real in-process servers (primary dc1, secondary dc2),
// built the way server_test.go's testServerWithConfig/newDefaultDeps build them,
// with the background replication routines of the secondary stopped so that the
// harness runs exactly one real round at a time.

const VerifMgmtToken = "d9f05e83-a7ae-47ce-839e-c0d53a68c00a"

// verifStale makes the PRIMARY answer the AllowStale batch reads of a replication round
// (ACL.PolicyBatchRead / ACL.TokenBatchRead) the way a server that lags behind the one which
// answered the list request would. net/rpc sends the reply from inside the handler, so the reply
// cannot be edited afterwards; instead the server-side call interceptor of the real primary puts
// the OLDER stored version of the chosen objects (or their absence) into the primary's state
// store just for the duration of that one call - with the old ModifyIndex, straight into memdb,
// no Raft entry - lets the real endpoint answer from it, and restores the current versions.
// The secondary's round code, the endpoint and the wire path are untouched.
type verifStale struct {
	mu       sync.Mutex
	srv      *Server
	policies map[string]*structs.ACLPolicy
	tokens   map[string]*structs.ACLToken
	hits     int
	err      error
}

func (v *verifStale) swapPolicies(ids []string) func() {
	st := v.srv.fsm.State()
	var restore structs.ACLPolicies
	for _, id := range ids {
		old, chosen := v.policies[id]
		if !chosen {
			continue
		}
		_, cur, err := st.ACLPolicyGetByID(nil, id, nil)
		if err != nil || cur == nil {
			continue
		}
		v.hits++
		restore = append(restore, cur)
		if old != nil {
			err = st.ACLPolicyBatchSet(old.ModifyIndex, structs.ACLPolicies{old.Clone()})
		} else {
			err = st.ACLPolicyBatchDelete(cur.ModifyIndex, []string{id})
		}
		if err != nil {
			v.err = err
		}
	}
	return func() {
		for _, cur := range restore {
			if err := st.ACLPolicyBatchSet(cur.ModifyIndex, structs.ACLPolicies{cur.Clone()}); err != nil {
				v.err = err
			}
		}
	}
}

func (v *verifStale) swapTokens(ids []string) func() {
	st := v.srv.fsm.State()
	opts := state.ACLTokenSetOptions{AllowMissingPolicyAndRoleIDs: true}
	var restore structs.ACLTokens
	for _, id := range ids {
		old, chosen := v.tokens[id]
		if !chosen {
			continue
		}
		_, cur, err := st.ACLTokenGetByAccessor(nil, id, nil)
		if err != nil || cur == nil {
			continue
		}
		v.hits++
		restore = append(restore, cur)
		if old != nil {
			err = st.ACLTokenBatchSet(old.ModifyIndex, structs.ACLTokens{old.Clone()}, opts)
		} else {
			err = st.ACLTokenBatchDelete(cur.ModifyIndex, []string{id})
		}
		if err != nil {
			v.err = err
		}
	}
	return func() {
		for _, cur := range restore {
			if err := st.ACLTokenBatchSet(cur.ModifyIndex, structs.ACLTokens{cur.Clone()}, opts); err != nil {
				v.err = err
			}
		}
	}
}

func (v *verifStale) interceptor(recorder *middleware.RequestRecorder) rpc.ServerServiceCallInterceptor {
	base := middleware.GetNetRPCInterceptor(recorder)
	return func(method string, argv, replyv reflect.Value, handler func() error) {
		if method != "ACL.PolicyBatchRead" && method != "ACL.TokenBatchRead" {
			base(method, argv, replyv, handler)
			return
		}
		v.mu.Lock() // held until the current versions are back: ClearStale waits for it
		defer v.mu.Unlock()
		restore := func() {}
		if v.srv != nil {
			arg := argv.Interface()
			if argv.Kind() != reflect.Ptr && argv.CanAddr() {
				arg = argv.Addr().Interface()
			}
			switch a := arg.(type) {
			case *structs.ACLPolicyBatchGetRequest:
				if len(v.policies) > 0 {
					restore = v.swapPolicies(a.PolicyIDs)
				}
			case *structs.ACLTokenBatchGetRequest:
				if len(v.tokens) > 0 {
					restore = v.swapTokens(a.AccessorIDs)
				}
			}
		}
		base(method, argv, replyv, handler)
		restore()
	}
}

// SetStale installs the lagging-server view for the next batch reads (nil value = the lagging
// server does not have the object); ClearStale removes it and reports how many objects of
// batch-read replies were replaced or dropped meanwhile.
func (vp *VerifPair) SetStale(policies map[string]*structs.ACLPolicy, tokens map[string]*structs.ACLToken) {
	vp.stale.mu.Lock()
	defer vp.stale.mu.Unlock()
	vp.stale.policies, vp.stale.tokens, vp.stale.hits = policies, tokens, 0
}

func (vp *VerifPair) ClearStale() (int, error) {
	vp.stale.mu.Lock()
	defer vp.stale.mu.Unlock()
	vp.stale.policies, vp.stale.tokens = nil, nil
	err := vp.stale.err
	vp.stale.err = nil
	return vp.stale.hits, err
}

type VerifPair struct {
	P, S    *Server // primary (dc1), secondary (dc2)
	stale   *verifStale
	cleanup []func()
	logf    io.Closer
}

var verifNodeSeq int64

func verifConfig(dir, dc string) (*Config, []int, error) {
	ports, err := freeport.Take(4) // server, serf_lan, serf_wan, grpc
	if err != nil {
		return nil, nil, err
	}
	config := DefaultConfig()
	config.NodeName = fmt.Sprintf("verif-c19-%s-%d-%d", dc, os.Getpid(), atomic.AddInt64(&verifNodeSeq, 1))
	config.Bootstrap = true
	config.Datacenter = dc
	config.PrimaryDatacenter = "dc1"
	config.DataDir = dir
	config.DevMode = true // in-memory raft log / stable / snapshot stores
	config.RPCAddr = &net.TCPAddr{IP: []byte{127, 0, 0, 1}, Port: ports[0]}
	nodeID, err := uuid.GenerateUUID()
	if err != nil {
		return nil, nil, err
	}
	config.NodeID = types.NodeID(nodeID)

	for i, sc := range []*serf.Config{config.SerfLANConfig, config.SerfWANConfig} {
		sc.MemberlistConfig.BindAddr = "127.0.0.1"
		sc.MemberlistConfig.BindPort = ports[1+i]
		sc.MemberlistConfig.AdvertisePort = ports[1+i]
		sc.MemberlistConfig.SuspicionMult = 2
		sc.MemberlistConfig.ProbeTimeout = 50 * time.Millisecond
		sc.MemberlistConfig.ProbeInterval = 100 * time.Millisecond
		sc.MemberlistConfig.GossipInterval = 100 * time.Millisecond
		sc.MemberlistConfig.DeadNodeReclaimTime = 100 * time.Millisecond
	}
	// the machine may be heavily loaded: do not let the WAN failure detector
	// declare the other datacenter dead
	config.SerfWANConfig.MemberlistConfig.SuspicionMult = 30
	config.SerfWANConfig.MemberlistConfig.ProbeTimeout = 2 * time.Second
	config.SerfWANConfig.MemberlistConfig.ProbeInterval = 5 * time.Second

	config.RaftConfig.LeaderLeaseTimeout = 100 * time.Millisecond
	config.RaftConfig.HeartbeatTimeout = 200 * time.Millisecond
	config.RaftConfig.ElectionTimeout = 200 * time.Millisecond
	config.ReconcileInterval = 300 * time.Millisecond
	config.AutopilotConfig.ServerStabilizationTime = 100 * time.Millisecond
	config.ServerHealthInterval = 50 * time.Millisecond
	config.AutopilotInterval = 100 * time.Millisecond
	config.CoordinateUpdatePeriod = 100 * time.Millisecond
	config.LeaveDrainTime = 1 * time.Millisecond
	config.RPCHoldTimeout = 10 * time.Second
	config.GRPCPort = ports[3]
	config.ConnectEnabled = false
	config.PeeringEnabled = false
	config.DisableFederationStateAntiEntropy = true

	config.ACLsEnabled = true
	config.ACLInitialManagementToken = VerifMgmtToken
	config.ACLResolverSettings.ACLDefaultPolicy = "deny"
	return config, ports, nil
}

func verifDeps(c *Config, logger hclog.InterceptLogger, cleanup *[]func(), stale *verifStale) (Deps, error) {
	icpt := middleware.GetNetRPCInterceptor
	if stale != nil {
		icpt = stale.interceptor
	}
	tls, err := tlsutil.NewConfigurator(c.TLSConfig, logger)
	if err != nil {
		return Deps{}, err
	}
	rb := resolver.NewServerResolverBuilder(resolver.Config{
		Datacenter: c.Datacenter,
		AgentType:  "server",
		Authority:  fmt.Sprintf("verifc19-%d-%s", os.Getpid(), c.NodeName),
	})
	resolver.Register(rb)
	*cleanup = append(*cleanup, func() { resolver.Deregister(rb.Authority()) })
	bb := balancer.NewBuilder(rb.Authority(), hclog.NewNullLogger())
	bb.Register()
	*cleanup = append(*cleanup, bb.Deregister)

	r := router.NewRouter(logger, c.Datacenter, fmt.Sprintf("%s.%s", c.NodeName, c.Datacenter), grpcint.NewTracker(rb, bb))
	connPool := &pool.ConnPool{
		Server:           false,
		SrcAddr:          c.RPCSrcAddr,
		Logger:           logger.StandardLogger(&hclog.StandardLoggerOptions{InferLevels: true}),
		MaxTime:          2 * time.Minute,
		MaxStreams:       4,
		TLSConfigurator:  tls,
		Datacenter:       c.Datacenter,
		DefaultQueryTime: c.DefaultQueryTime,
		MaxQueryTime:     c.MaxQueryTime,
		RPCHoldTimeout:   c.RPCHoldTimeout,
	}
	connPool.SetRPCClientTimeout(c.RPCClientTimeout)
	return Deps{
		EventPublisher:  stream.NewEventPublisher(10 * time.Second),
		Logger:          logger,
		TLSConfigurator: tls,
		Tokens:          new(token.Store),
		Router:          r,
		ConnPool:        connPool,
		GRPCConnPool: grpcint.NewClientConnPool(grpcint.ClientConnPoolConfig{
			Servers:               rb,
			TLSWrapper:            grpcint.TLSWrapper(tls.OutgoingRPCWrapper()),
			UseTLSForDC:           tls.UseTLS,
			DialingFromServer:     true,
			DialingFromDatacenter: c.Datacenter,
		}),
		LeaderForwarder:          rb,
		NewRequestRecorderFunc:   middleware.NewRequestRecorder,
		GetNetRPCInterceptorFunc: icpt,
		EnterpriseDeps:           EnterpriseDeps{},
		XDSStreamLimiter:         limiter.NewSessionLimiter(),
		Registry:                 NewTypeRegistry(),
	}, nil
}

func verifServer(c *Config, logger hclog.InterceptLogger, cleanup *[]func(), stale *verifStale) (*Server, error) {
	c.ACLResolverSettings.ACLsEnabled = c.ACLsEnabled
	c.ACLResolverSettings.NodeName = c.NodeName
	c.ACLResolverSettings.Datacenter = c.Datacenter
	c.ACLResolverSettings.EnterpriseMeta = *c.AgentEnterpriseMeta()
	deps, err := verifDeps(c, logger, cleanup, stale)
	if err != nil {
		return nil, err
	}
	up := make(chan struct{})
	c.NotifyListen = func() { close(up) }
	grpcServer := external.NewServer(deps.Logger.Named("grpc.external"), nil, deps.TLSConfigurator,
		rpcRate.NullRequestLimitsHandler(), keepalive.ServerParameters{}, nil)
	srv, err := NewServer(c, deps, grpcServer, nil, deps.Logger)
	if err != nil {
		return nil, err
	}
	*cleanup = append(*cleanup, func() { srv.Shutdown() })
	select {
	case <-up:
	case <-time.After(60 * time.Second):
		return nil, fmt.Errorf("server %s did not start listening", c.NodeName)
	}
	c.RPCAddr = srv.Listener.Addr().(*net.TCPAddr)
	return srv, nil
}

func verifWait(what string, d time.Duration, f func() error) error {
	deadline := time.Now().Add(d)
	var err error
	for {
		if err = f(); err == nil {
			return nil
		}
		if time.Now().After(deadline) {
			return fmt.Errorf("timeout waiting for %s: %v", what, err)
		}
		time.Sleep(20 * time.Millisecond)
	}
}

// VerifStartPair starts the primary (dc1) and the secondary (dc2, ACL token +
// config-entry replication enabled), joins them over the WAN, stops the
// secondary's background replication routines and only then installs the
// replication token. primaryQueryTime is the primary's DefaultQueryTime: the
// time a fetch with MinQueryIndex >= the primary's index blocks.
func VerifStartPair(dir string, primaryQueryTime time.Duration) (vp *VerifPair, err error) {
	netutil.GetAgentBindAddrFunc = netutil.GetMockGetAgentBindAddrFunc("0.0.0.0")
	if err := os.MkdirAll(dir, 0o755); err != nil {
		return nil, err
	}
	lf, err := os.Create(filepath.Join(dir, "servers.log"))
	if err != nil {
		return nil, err
	}
	vp = &VerifPair{logf: lf, stale: &verifStale{}}
	defer func() {
		if err != nil {
			vp.Close()
			vp = nil
		}
	}()
	mk := func(dc string, mod func(*Config)) (*Server, error) {
		var last error
		for attempt := 0; attempt < 3; attempt++ { // bind address may be taken: retry with new ports
			d := filepath.Join(dir, fmt.Sprintf("%s-%d", dc, attempt))
			if err := os.MkdirAll(d, 0o755); err != nil {
				return nil, err
			}
			c, ports, err := verifConfig(d, dc)
			if err != nil {
				last = err
				continue
			}
			mod(c)
			logger := hclog.NewInterceptLogger(&hclog.LoggerOptions{Name: c.NodeName, Level: hclog.Warn, Output: lf})
			var cl []func()
			var st *verifStale
			if dc == "dc1" {
				st = vp.stale
			}
			srv, err := verifServer(c, logger, &cl, st)
			if err != nil {
				for i := len(cl) - 1; i >= 0; i-- {
					cl[i]()
				}
				freeport.Return(ports)
				last = err
				continue
			}
			vp.cleanup = append(vp.cleanup, cl...)
			vp.cleanup = append(vp.cleanup, func() { freeport.Return(ports) })
			return srv, nil
		}
		return nil, last
	}
	if vp.P, err = mk("dc1", func(c *Config) {
		c.DefaultQueryTime = primaryQueryTime
	}); err != nil {
		return vp, err
	}
	vp.stale.srv = vp.P
	if vp.S, err = mk("dc2", func(c *Config) {
		c.ACLTokenReplication = true
		c.ACLReplicationRate = 100
		c.ACLReplicationBurst = 100
		c.ACLReplicationApplyLimit = 1000000
		c.ConfigReplicationRate = 100
		c.ConfigReplicationBurst = 100
		c.ConfigReplicationApplyLimit = 1000000
	}); err != nil {
		return vp, err
	}
	for _, s := range []*Server{vp.P, vp.S} {
		s := s
		if err = verifWait("leader "+s.config.Datacenter, 120*time.Second, func() error {
			if !s.IsLeader() || !s.isReadyForConsistentReads() {
				return fmt.Errorf("no established leader")
			}
			return nil
		}); err != nil {
			return vp, err
		}
	}
	wanAddr := fmt.Sprintf("127.0.0.1:%d", vp.P.config.SerfWANConfig.MemberlistConfig.BindPort)
	if _, err = vp.S.JoinWAN([]string{wanAddr}); err != nil {
		return vp, err
	}
	// stop the background replicators (the ACL ones never run a round while the
	// replication token is unset; the config one may be parked in a fetch and
	// leaves without applying anything once its context is cancelled)
	if err = vp.Quiesce(120 * time.Second); err != nil {
		return vp, err
	}
	vp.S.tokens.UpdateReplicationToken(VerifMgmtToken, token.TokenSourceConfig)
	vp.P.tokens.UpdateReplicationToken(VerifMgmtToken, token.TokenSourceConfig)
	if err = verifWait("cross-datacenter RPC", 120*time.Second, func() error {
		_, e := vp.S.fetchConfigEntries(0)
		return e
	}); err != nil {
		return vp, err
	}
	if err = verifWait("primary ACL bootstrap", 120*time.Second, func() error {
		_, tok, e := vp.P.fsm.State().ACLTokenGetBySecret(nil, VerifMgmtToken, nil)
		if e != nil {
			return e
		}
		if tok == nil {
			return fmt.Errorf("initial management token not yet created")
		}
		_, e = vp.S.fetchACLPolicies(0)
		return e
	}); err != nil {
		return vp, err
	}
	return vp, nil
}

var verifReplRoutines = []string{
	aclPolicyReplicationRoutineName, aclRoleReplicationRoutineName, aclTokenReplicationRoutineName,
	configReplicationRoutineName, federationStateReplicationRoutineName,
}

// Quiesce stops the secondary's background replication routines and waits until
// their goroutines have returned.
func (vp *VerifPair) Quiesce(d time.Duration) error {
	deadline := time.After(d)
	for _, name := range verifReplRoutines {
		select {
		case <-vp.S.leaderRoutineManager.Stop(name):
		case <-deadline:
			return fmt.Errorf("routine %q did not stop", name)
		}
	}
	return nil
}

// Quiet reports whether none of the background replication routines is running
// (they would be restarted if leadership were re-established).
func (vp *VerifPair) Quiet() bool {
	for _, name := range verifReplRoutines {
		if vp.S.leaderRoutineManager.IsRunning(name) {
			return false
		}
	}
	return vp.S.IsLeader() && vp.P.IsLeader()
}

func (vp *VerifPair) Close() {
	for i := len(vp.cleanup) - 1; i >= 0; i-- {
		vp.cleanup[i]()
	}
	vp.cleanup = nil
	if vp.logf != nil {
		vp.logf.Close()
	}
}

func (vp *VerifPair) srv(secondary bool) *Server {
	if secondary {
		return vp.S
	}
	return vp.P
}

// RunConfigRound executes one real (*Server).replicateConfig round in the secondary.
func (vp *VerifPair) RunConfigRound(ctx context.Context, last uint64) (uint64, bool, error) {
	return vp.S.replicateConfig(ctx, last, hclog.NewNullLogger())
}

// RunACLRound executes one real (*Server).replicateACLType round in the secondary
// through the per-type entry points the background replicators use.
func (vp *VerifPair) RunACLRound(ctx context.Context, kind string, last uint64) (uint64, bool, error) {
	l := hclog.NewNullLogger()
	switch kind {
	case "policy":
		return vp.S.replicateACLPolicies(ctx, l, last)
	case "role":
		return vp.S.replicateACLRoles(ctx, l, last)
	case "token":
		return vp.S.replicateACLTokens(ctx, l, last)
	}
	return 0, false, fmt.Errorf("unknown ACL kind %q", kind)
}

// RunFedRound executes one real federation-state round in the secondary: the
// IndexReplicator.Replicate loop body of replication.go driving the real
// FederationStateReplicator delegate, exactly as NewServer wires them.
func (vp *VerifPair) RunFedRound(ctx context.Context, last uint64) (uint64, bool, error) {
	ir := &IndexReplicator{
		Delegate: &FederationStateReplicator{srv: vp.S, gatewayLocator: vp.S.gatewayLocator},
		Logger:   hclog.NewNullLogger(),
	}
	return ir.Replicate(ctx, last, hclog.NewNullLogger())
}

// SetApplyLimits sets the per-second apply limits the round's loops turn into their ticker
// (time.Second / limit): 1 makes the ticker fire once a second, so that a select between a
// cancelled context and the ticker is decided by the context.
func (vp *VerifPair) SetApplyLimits(n int) {
	vp.S.config.ACLReplicationApplyLimit = n
	vp.S.config.ConfigReplicationApplyLimit = n
	vp.S.config.FederationStateReplicationApplyLimit = n
}

// SetReplicationToken swaps the secondary's replication token (a token without acl:write makes
// the primary redact token secrets).
func (vp *VerifPair) SetReplicationToken(tok string) {
	vp.S.tokens.UpdateReplicationToken(tok, token.TokenSourceConfig)
}

// RemoteIndex is the index the primary's list endpoint reports to the secondary
// right now (the same fetch the round starts with, MinQueryIndex 0 = non-blocking).
func (vp *VerifPair) RemoteIndex(kind string) (uint64, error) {
	switch kind {
	case "policy":
		r, err := vp.S.fetchACLPolicies(0)
		if err != nil {
			return 0, err
		}
		return r.Index, nil
	case "role":
		r, err := vp.S.fetchACLRoles(0)
		if err != nil {
			return 0, err
		}
		return r.Index, nil
	case "token":
		r, err := vp.S.fetchACLTokens(0)
		if err != nil {
			return 0, err
		}
		return r.Index, nil
	case "fed":
		_, _, idx, err := (&FederationStateReplicator{srv: vp.S}).FetchRemote(0)
		return idx, err
	case "cfg":
		r, err := vp.S.fetchConfigEntries(0)
		if err != nil {
			return 0, err
		}
		return r.Index, nil
	}
	return 0, fmt.Errorf("unknown kind %q", kind)
}

// Apply commits one command through the leader's Raft (leaderRaftApply), i.e. the
// same call the replication round itself uses for its writes.
func (vp *VerifPair) Apply(secondary bool, t structs.MessageType, msg any) (any, error) {
	resp, err := vp.srv(secondary).leaderRaftApply("Verif.Apply", t, msg)
	if err != nil {
		return nil, err
	}
	if e, ok := resp.(error); ok {
		return nil, e
	}
	return resp, nil
}

// RPC calls a real RPC endpoint of one of the servers.
func (vp *VerifPair) RPC(secondary bool, method string, args, reply any) error {
	return vp.srv(secondary).RPC(context.Background(), method, args, reply)
}

func (vp *VerifPair) State(secondary bool) *state.Store { return vp.srv(secondary).fsm.State() }

func (vp *VerifPair) RaftLastIndex(secondary bool) uint64 { return vp.srv(secondary).raft.LastIndex() }

type VerifLog struct {
	Index uint64
	Type  structs.MessageType
	Data  []byte // message body without the type byte
}

// RaftCommands returns the command entries with from < index <= to of the Raft log.
func (vp *VerifPair) RaftCommands(secondary bool, from, to uint64) ([]VerifLog, error) {
	s := vp.srv(secondary)
	var out []VerifLog
	for i := from + 1; i <= to; i++ {
		var l raft.Log
		var err error
		if s.raftInmem != nil {
			err = s.raftInmem.GetLog(i, &l)
		} else {
			err = s.raftStore.GetLog(i, &l)
		}
		if err != nil {
			return nil, fmt.Errorf("raft log %d: %v", i, err)
		}
		if l.Type != raft.LogCommand || len(l.Data) == 0 {
			continue
		}
		out = append(out, VerifLog{Index: i, Type: structs.MessageType(l.Data[0]), Data: l.Data[1:]})
	}
	return out, nil
}
