//go:build verif

package consul

import "github.com/hashicorp/consul/agent/structs"

// Verif* export the unexported replication diff functions to the C19 harness.

type VerifDiff struct {
	Deletes, Upserts            []string
	LocalSkipped, RemoteSkipped int
}

func verifRes(r itemDiffResults) VerifDiff {
	return VerifDiff{r.LocalDeletes, r.LocalUpserts, r.LocalSkipped, r.RemoteSkipped}
}

func VerifDiffPolicies(local structs.ACLPolicies, remote structs.ACLPolicyListStubs, last uint64) VerifDiff {
	return verifRes(diffACLType(&aclPolicyReplicator{local: local, remote: remote}, last))
}
func VerifDiffRoles(local, remote structs.ACLRoles, last uint64) VerifDiff {
	return verifRes(diffACLType(&aclRoleReplicator{local: local, remote: remote}, last))
}
func VerifDiffTokens(local structs.ACLTokens, remote structs.ACLTokenListStubs, last uint64) VerifDiff {
	return verifRes(diffACLType(&aclTokenReplicator{local: local, remote: remote}, last))
}
func VerifDiffConfigEntries(local, remote []structs.ConfigEntry, last uint64) (dels, ups []structs.ConfigEntry) {
	return diffConfigEntries(local, remote, last)
}
