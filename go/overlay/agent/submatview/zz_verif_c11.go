//go:build verif

package submatview

import (
	"github.com/hashicorp/go-hclog"

	"github.com/hashicorp/consul/proto/private/pbsubscribe"
)

// VerifC11Client is the client half of a materializer (the real materializer struct, the
// real handler state machine of handler.go) without the goroutine and the transport: the
// C11 harness feeds it the events it takes from a stream.Subscription, exactly as the loop
// bodies of LocalMaterializer.subscribeOnce / RPCMaterializer.subscribeOnce do.
type VerifC11Client struct {
	mat     *materializer
	handler eventHandler
}

func VerifC11NewClient(view View) *VerifC11Client {
	return &VerifC11Client{mat: newMaterializer(hclog.NewNullLogger(), view, nil)}
}

// Start is the prologue of subscribeOnce: it returns the index to put in the request and
// installs initialHandler(index).
func (c *VerifC11Client) Start() uint64 {
	idx := c.mat.currentIndex()
	c.handler = initialHandler(idx)
	return idx
}

// Handle is the loop body of subscribeOnce after a successful Recv/Next.
func (c *VerifC11Client) Handle(e *pbsubscribe.Event) error {
	var err error
	c.handler, err = c.handler(c, e)
	if err != nil {
		c.mat.reset()
	}
	return err
}

// Reset is what RPCMaterializer does when the server answers codes.Aborted.
func (c *VerifC11Client) Reset() { c.mat.reset() }

func (c *VerifC11Client) Index() uint64 { return c.mat.currentIndex() }

func (c *VerifC11Client) Result() (uint64, interface{}) {
	c.mat.lock.Lock()
	defer c.mat.lock.Unlock()
	return c.mat.index, c.mat.view.Result(c.mat.index)
}

func (c *VerifC11Client) updateView(events []*pbsubscribe.Event, index uint64) error {
	return c.mat.updateView(events, index)
}

func (c *VerifC11Client) reset() { c.mat.reset() }
