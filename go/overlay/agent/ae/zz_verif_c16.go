//go:build verif

package ae

import (
	"time"

	"github.com/hashicorp/go-hclog"
)

// VerifNextState runs one transition of the real state machine (nextFSMState) from the
// given state with the given pause flag; the event source is replaced by the given event
// (the same hooks the package's own tests mock).
func VerifNextState(st SyncState, state string, paused bool, ev string) string {
	s := NewStateSyncer(st, time.Hour, make(chan struct{}), hclog.NewNullLogger())
	s.ClusterSize = func() int { return 1 }
	if paused {
		s.Pause()
	}
	s.retrySyncFullEvent = func() event { return event(ev) }
	s.syncChangesEvent = func() event { return event(ev) }
	return string(s.nextFSMState(fsmState(state)))
}

// VerifNewSyncer builds a real StateSyncer whose waiting times are short (retry-after-failure and
// server-up delays of at most a few milliseconds, staggered by the real staggerFn for a one-node
// cluster), so that the C16 harness can run the real Run loop (runFSM, retrySyncFullEventFn,
// syncChangesEventFn, resetNextFullSyncCh, Pause/Resume) against a recording SyncState.
func VerifNewSyncer(st SyncState, interval time.Duration, shutdownCh chan struct{}) *StateSyncer {
	s := NewStateSyncer(st, interval, shutdownCh, hclog.NewNullLogger())
	s.ClusterSize = func() int { return 1 }
	s.serverUpInterval = 2 * time.Millisecond
	s.retryFailInterval = 2 * time.Millisecond
	return s
}
