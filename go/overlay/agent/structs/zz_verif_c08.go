//go:build verif

package structs

import (
	"time"

	lru "github.com/hashicorp/golang-lru"
)

// VerifC08Lens reports how many parsed policies and compiled authorizers the caches hold
// (C08 harness: cache contents are part of the state compared with the model).
func (c *ACLCaches) VerifC08Lens() (parsed int, authorizers int) {
	if c == nil {
		return 0, 0
	}
	if c.parsedPolicies != nil {
		parsed = c.parsedPolicies.Len()
	}
	if c.authorizers != nil {
		authorizers = c.authorizers.Len()
	}
	return
}

// VerifC08Age makes every identity / policy / role cache entry older by d — a controllable clock
// for the C08 harness (the caches read time.Now directly; nothing else in resolution depends on time).
func (c *ACLCaches) VerifC08Age(d time.Duration) {
	if c == nil {
		return
	}
	for _, cache := range []*lru.TwoQueueCache{c.identities, c.policies, c.roles} {
		if cache == nil {
			continue
		}
		for _, k := range cache.Keys() {
			raw, ok := cache.Peek(k)
			if !ok {
				continue
			}
			switch e := raw.(type) {
			case *IdentityCacheEntry:
				e.CacheTime = e.CacheTime.Add(-d)
			case *PolicyCacheEntry:
				e.CacheTime = e.CacheTime.Add(-d)
			case *RoleCacheEntry:
				e.CacheTime = e.CacheTime.Add(-d)
			}
		}
	}
}
