//go:build verif

package structs

// VerifC08Lens reports how many parsed policies and compiled authorizers the caches hold
// (C08 harness: cache contents are part of the state compared with the model).
func (c *ACLCaches) VerifC08Lens() (parsed int, authorizers int) {
	if c == nil {
		return 0, 0
	}
	if c.parsedPolicies != nil {
		parsed = c.parsedPolicies.Len()
	}
	if c.authorizers != nil {
		authorizers = c.authorizers.Len()
	}
	return
}
