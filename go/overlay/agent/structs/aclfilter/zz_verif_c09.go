//go:build verif

package aclfilter

import _ "embed"

// VerifFilterSource is the source text of filter.go of the tree the harness was built from. The C09
// harness parses it (go/ast) to check that every case of the Filter.Filter type switch is exercised.
//
//go:embed filter.go
var VerifFilterSource string
