module verif/tools

go 1.23
