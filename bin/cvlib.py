"""Shared machinery of /verif/bin/check (see DESIGN.md §2)."""
import fcntl, json, os, re, shutil, subprocess, sys, time, hashlib

VERIF = os.path.dirname(os.path.dirname(os.path.abspath(__file__)))
REPO = os.environ.get("VERIF_REPO", "/repo")
LEAN = os.path.join(VERIF, "lean")
OVERLAY_SRC = os.path.join(VERIF, "go", "overlay")
ALLOWED_AXIOMS = {"propext", "Classical.choice", "Quot.sound"}

def go_env():
    env = dict(os.environ)
    env["GOFLAGS"] = "-mod=mod"
    env["GOPROXY"] = "off"
    env.pop("GOTOOLCHAIN", None)   # go.mod needs the cached 1.26.x toolchain (auto switch)
    env.pop("GOSUMDB", None)
    env.setdefault("GOMEMLIMIT", "12GiB")
    return env

def scratch_dir(tag):
    base = os.environ.get("VERIF_SCRATCH_BASE", "/var/tmp")
    d = os.path.join(base, "verif-%s-%d" % (tag, os.getpid()))
    shutil.rmtree(d, ignore_errors=True)
    os.makedirs(d)
    return d

def render_overlay(scratch):
    """Map every file under go/overlay/<rel> to /repo/<rel> (no tracked change in /repo)."""
    rep = {}
    for root, _dirs, files in os.walk(OVERLAY_SRC):
        for f in files:
            src = os.path.join(root, f)
            rel = os.path.relpath(src, OVERLAY_SRC)
            rep[os.path.join(REPO, rel)] = src
    path = os.path.join(scratch, "overlay.json")
    with open(path, "w") as fh:
        json.dump({"Replace": rep}, fh, indent=1)
    return path

def run(cmd, cwd=None, env=None, timeout=None, stdin=None, stdout=subprocess.PIPE):
    t0 = time.time()
    p = subprocess.run(cmd, cwd=cwd, env=env, timeout=timeout, stdin=stdin,
                       stdout=stdout, stderr=subprocess.STDOUT, text=True)
    return p.returncode, (p.stdout or ""), time.time() - t0

def build_harness(pid, scratch, race=False):
    """Build the harness of property `pid` from /repo's current working tree (+ overlay)."""
    ov = render_overlay(scratch)
    out = os.path.join(scratch, "harness-" + pid.lower())
    cmd = ["go", "build", "-tags", "verif", "-overlay", ov, "-o", out]
    if race:
        cmd.append("-race")
    cmd.append("./internal/verifharness/" + pid.lower())
    rc, log, dt = run(cmd, cwd=REPO, env=go_env(), timeout=3000)
    return rc, log, dt, out

class LeanLock:
    """lake writes into lean/.lake and factgen rewrites CV/Generated: serialise."""
    def __enter__(self):
        self.fh = open(os.path.join(LEAN, ".cvlock"), "w")
        fcntl.flock(self.fh, fcntl.LOCK_EX)
        return self
    def __exit__(self, *a):
        fcntl.flock(self.fh, fcntl.LOCK_UN)
        self.fh.close()

def lake_build(targets):
    rc, log, dt = run(["lake", "build"] + targets, cwd=LEAN, timeout=3000)
    return rc, log, dt

def forbidden_tokens(files):
    """grep for constructs that would weaken the trusted base; comment text is discarded."""
    pat = re.compile(r"\b(sorry|admit|native_decide|bv_decide|implemented_by|unsafe)\b|^\s*axiom\s|maxHeartbeats\s+0\b")
    hits = []
    for f in files:
        try:
            txt = open(f).read()
        except OSError:
            continue
        txt = re.sub(r"/-.*?-/", lambda m: "\n" * m.group(0).count("\n"), txt, flags=re.S)
        for n, line in enumerate(txt.split("\n"), 1):
            code = line.split("--")[0]
            if pat.search(code):
                hits.append("%s:%d: %s" % (os.path.relpath(f, VERIF), n, line.strip()))
    return hits

def audit_axioms(module):
    """Every theorem declared in `module`: name + axioms it depends on (via Audit.lean)."""
    rc, log, dt = run(["lake", "env", "lean", "--run", "Audit.lean", module], cwd=LEAN, timeout=1200)
    thms = []
    for line in log.splitlines():
        if line.startswith("THM "):
            parts = line.split(" ")
            name = parts[1]
            axs = [a for a in parts[2:] if a]
            thms.append((name, axs))
    return rc, log, thms

def module_closure_files(module):
    """Source files of `module` and the CV modules it imports (transitively)."""
    seen, todo, files = set(), [module], []
    while todo:
        m = todo.pop()
        if m in seen or not (m.startswith("CV") or m.startswith("Drv")):
            continue
        seen.add(m)
        path = os.path.join(LEAN, m.replace(".", "/") + ".lean")
        if not os.path.exists(path):
            continue
        files.append(path)
        for line in open(path):
            mm = re.match(r"\s*import\s+(.*)$", line)
            if mm:
                for x in mm.group(1).split():
                    todo.append(x)
    return files

def diff_lines(ops, impl, model):
    """first differing line index (0-based) or None; also length mismatch."""
    n = min(len(impl), len(model))
    for i in range(n):
        if impl[i] != model[i]:
            return i
    if len(impl) != len(model):
        return n
    return None

def load_known_findings():
    known, fixed = [], []
    path = os.path.join(VERIF, "known_findings.txt")
    if os.path.exists(path):
        for line in open(path):
            line = line.strip()
            if line.startswith("known:"):
                m = re.match(r"known:\s+property=(\S+)\s+sig=(\S+)\s*(.*)$", line)
                if m:
                    known.append((m.group(1), m.group(2), m.group(3)))
            elif line.startswith("fixed:"):
                fixed.append(line)
    return known, fixed

def load_props():
    """bin/props/<ID>.json — one file per claimed property."""
    d = {}
    pdir = os.path.join(VERIF, "bin", "props")
    for f in sorted(os.listdir(pdir)):
        if f.endswith(".json"):
            d[f[:-5]] = json.load(open(os.path.join(pdir, f)))
    return d
