/-
Audit tool: `lake env lean --run Audit.lean CV.Props.C19`
prints one line `THM <name> <axiom> <axiom> …` for every theorem declared in the given module,
so that bin/check can count obligations and verify that nothing outside
propext / Classical.choice / Quot.sound is used (no sorryAx, no native_decide axioms).
-/
import Lean
open Lean

abbrev EnvM := StateT Environment IO
instance : MonadEnv EnvM := { getEnv := get, modifyEnv := fun f => modify f }

def main (args : List String) : IO UInt32 := do
  let some modStr := args.head? | do IO.eprintln "usage: Audit <module>"; return 2
  let modName := modStr.toName
  initSearchPath (← findSysroot)
  let env ← importModules #[{ module := modName }] {} (trustLevel := 1024)
  let some modIdx := env.getModuleIdx? modName | do IO.eprintln "module not found"; return 2
  let mut n := 0
  for (name, ci) in env.constants.map₁.toList do
    if env.getModuleIdxFor? name != some modIdx then continue
    match ci with
    | .thmInfo _ =>
      if name.isInternal then continue
      if env.isProjectionFn name then continue
      let last := match name with | .str _ s => s | _ => ""
      if last.startsWith "eq_" || last == "congr_simp" || last.startsWith "_" || last == "injEq"
         || last == "sizeOf_spec" || last == "inj" || last == "noConfusion" then continue
      let (axsArr, _) ← (collectAxioms name : EnvM (Array Name)).run env
      let axs := axsArr.toList.map (·.toString)
      IO.println s!"THM {name} {" ".intercalate axs}"
      n := n + 1
    | _ => pure ()
  IO.println s!"COUNT {n}"
  return 0
