/-
Audit tool: `lake env lean --run Audit.lean CV.Props.C19`
prints one line `THM <name> <axiom> <axiom> …` for every theorem declared in the given module,
so that bin/check can count obligations and verify that nothing outside
propext / Classical.choice / Quot.sound is used (no sorryAx, no native_decide axioms).
-/
import Lean
open Lean

/-- Axioms reachable from a constant, memoised across all theorems of the module (one traversal
    of the dependency closure instead of one per theorem). A constant on the current DFS path
    contributes nothing the second time (inductive ↔ constructor cycles). -/
partial def axiomsOf (env : Environment) (c : Name) : StateM (NameMap NameSet) NameSet := do
  if let some r := (← get).find? c then return r
  modify fun m => m.insert c {}
  let visit (e : Expr) (acc : NameSet) : StateM (NameMap NameSet) NameSet := do
    let mut acc := acc
    for d in e.getUsedConstants do
      let r ← axiomsOf env d
      acc := r.foldl (init := acc) fun a x => a.insert x
    return acc
  let mut res : NameSet := {}
  match env.find? c with
  | some (.axiomInfo v)  => res := res.insert c; res ← visit v.type res
  | some (.defnInfo v)   => res ← visit v.type res; res ← visit v.value res
  | some (.thmInfo v)    => res ← visit v.type res; res ← visit v.value res
  | some (.opaqueInfo v) => res ← visit v.type res; res ← visit v.value res
  | some (.quotInfo _)   => pure ()
  | some (.ctorInfo v)   => res ← visit v.type res
  | some (.recInfo v)    => res ← visit v.type res
  | some (.inductInfo v) =>
      res ← visit v.type res
      for ctor in v.ctors do
        let r ← axiomsOf env ctor
        res := r.foldl (init := res) fun a x => a.insert x
  | none => pure ()
  modify fun m => m.insert c res
  return res

def main (args : List String) : IO UInt32 := do
  let some modStr := args.head? | do IO.eprintln "usage: Audit <module>"; return 2
  let modName := modStr.toName
  initSearchPath (← findSysroot)
  let env ← importModules #[{ module := modName }] {} (trustLevel := 1024)
  let some modIdx := env.getModuleIdx? modName | do IO.eprintln "module not found"; return 2
  let mut n := 0
  let mut memo : NameMap NameSet := {}
  for (name, ci) in env.constants.map₁.toList do
    if env.getModuleIdxFor? name != some modIdx then continue
    match ci with
    | .thmInfo _ =>
      if name.isInternal then continue
      if env.isProjectionFn name then continue
      let last := match name with | .str _ s => s | _ => ""
      if last.startsWith "eq_" || last == "congr_simp" || last.startsWith "_" || last == "injEq"
         || last == "sizeOf_spec" || last == "inj" || last == "noConfusion" then continue
      let (axSet, memo') := (axiomsOf env name).run memo
      memo := memo'
      let axs := axSet.toList.map (·.toString)
      IO.println s!"THM {name} {" ".intercalate axs}"
      n := n + 1
    | _ => pure ()
  IO.println s!"COUNT {n}"
  return 0
