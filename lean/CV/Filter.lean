/-
CV.Filter — model of ACL result filtering (property C09, first half).

Mirrors, as the code is,
  * agent/structs/aclfilter/filter.go   `Filter.Filter` (every case of the type switch) and the
                                         per-type helpers with their loop shapes
  * agent/structs/structs.go            `CheckServiceNode.CanRead`
  * agent/structs/intention.go          `Intention.CanRead`
  * agent/structs/prepared_query.go     `PreparedQuery.GetACLPrefix`
  * agent/consul/filter.go              `FilterEntries` (compaction), `FilterDirEnt`, `FilterTxnResults`
The authorizer is abstract: a record of decision functions (`Authz`). What a token "may read" is
written separately as a specification (`Req`, `Entry`, `entries`) so that the theorems compare the
loops of the code with `List.filter` over the specification.
Go slices are `List`s, Go maps are association lists in iteration order (the order is a parameter;
theorems quantify over it), pointers that may be nil are `Option`s. Core-only Lean; no Mathlib.
-/
import CV.Proto
namespace CV.Filter

/-- The decisions of an `acl.Authorizer` that result filtering consults (`== acl.Allow`). -/
structure Authz where
  nodeRead      : String → Bool
  serviceRead   : String → Bool
  sessionRead   : String → Bool
  keyRead       : String → Bool
  intentionRead : String → Bool
  queryRead     : String → Bool
  aclRead       : Bool
  aclWrite      : Bool

/-! ## Loop shapes -/

/-- `for i := 0; i < len(xs); i++ { if keep(xs[i]) { continue }; removed = true;
      xs = append(xs[:i], xs[i+1:]...); i-- }` — the in-place removal loop used by most filters.
    State: the slice, the index, the `removed` flag. -/
def loopRemove {α : Type} (keep : α → Bool) (xs : List α) (i : Nat) (removed : Bool) : List α × Bool :=
  if h : i < xs.length then
    if keep xs[i] then loopRemove keep xs (i + 1) removed
    else loopRemove keep (xs.eraseIdx i) i true
  else (xs, removed)
termination_by xs.length - i
decreasing_by
  · omega
  · simp [List.length_eraseIdx, h]; omega

/-- `ret := make(T, 0, len(xs)); for _, x := range xs { if !keep(x) { removed = true; continue };
      ret = append(ret, x) }` — the copy-out loop (intentions, service lists, gateway services, ACL lists). -/
def appendLoop {α : Type} (keep : α → Bool) : List α → List α → Bool → List α × Bool
  | [], ret, removed => (ret, removed)
  | x :: xs, ret, removed =>
      if keep x then appendLoop keep xs (ret ++ [x]) removed
      else appendLoop keep xs ret true

/-- `for k, v := range m { if keep(k, v) { continue }; removed = true; delete(m, k) }` over a Go map.
    `todo` is the iteration order (every key once), `m` the map being mutated. -/
def rangeDelete {κ β : Type} [DecidableEq κ] (keep : κ × β → Bool) :
    List (κ × β) → List (κ × β) → Bool → List (κ × β) × Bool
  | [], m, removed => (m, removed)
  | kv :: todo, m, removed =>
      if keep kv then rangeDelete keep todo m removed
      else rangeDelete keep todo (m.filter fun e => e.1 ≠ kv.1) true

/-! ## `FilterEntries` (agent/consul/filter.go): compaction by block moves -/

/-- Go `copy(s[dst:dst+span], s[src:src+span])` (memmove semantics). -/
def move {α : Type} (a : List α) (dst src span : Nat) : List α :=
  a.take dst ++ (a.drop src).take span ++ a.drop (dst + span)

/-- `for src < n && f.Filter(src) { src++ }` -/
def skipDropped {α : Type} (drop : α → Bool) (a : List α) (src : Nat) : Nat :=
  if h : src < a.length then
    if drop a[src] then skipDropped drop a (src + 1) else src
  else src
termination_by a.length - src

/-- `for end < n && !f.Filter(end) { end++ }` -/
def spanEnd {α : Type} (drop : α → Bool) (a : List α) (e : Nat) : Nat :=
  if h : e < a.length then
    if !drop a[e] then spanEnd drop a (e + 1) else e
  else e
termination_by a.length - e

theorem skipDropped_ge {α : Type} (drop : α → Bool) (a : List α) (src : Nat) :
    src ≤ skipDropped drop a src := by
  fun_induction skipDropped drop a src <;> omega

theorem spanEnd_ge {α : Type} (drop : α → Bool) (a : List α) (e : Nat) :
    e ≤ spanEnd drop a e := by
  fun_induction spanEnd drop a e <;> omega

/-- The outer loop `for dst < n { … }`. `fuel` only bounds the recursion (the Go loop has no
    bound); `none` = the loop would not have finished within `fuel` rounds. `compact_terminates`
    (Proofs) shows `a.length + 1` rounds always suffice, and `filterEntries` uses that. -/
def compactLoop {α : Type} (drop : α → Bool) : Nat → List α → Nat → Nat → Option (List α × Nat)
  | 0, _, _, _ => none
  | fuel + 1, a, dst, src =>
    if dst < a.length then
      let src := skipDropped drop a src
      if src == a.length then some (a, dst)
      else
        let e := spanEnd drop a (src + 1)
        let span := e - src
        if span > 0 then compactLoop drop fuel (move a dst src span) (dst + span) (src + span)
        else compactLoop drop fuel a dst src
    else some (a, dst)

/-- `ent[:FilterEntries(&f)]`; `none` would mean the Go loop spins forever. -/
def filterEntries {α : Type} (drop : α → Bool) (a : List α) : Option (List α) :=
  (compactLoop drop (a.length + 1) a 0 0).map fun r => r.1.take r.2

/-! ## Items -/

structure NodeEnt where
  node : String
  id   : Nat
deriving DecidableEq, Repr

/-- ServiceNode / HealthCheck: a node name and a (possibly empty) service name. -/
structure SvcEnt where
  node : String
  svc  : String
  id   : Nat
deriving DecidableEq, Repr

/-- CheckServiceNode: `Node` and `Service` pointers may be nil. -/
structure CSN where
  node : Option String
  svc  : Option String
  id   : Nat
deriving DecidableEq, Repr

structure Ixn where
  src     : String
  srcPeer : Bool        -- `SourcePeer != ""`
  dst     : String
  id      : Nat
deriving DecidableEq, Repr

structure GwSvc where
  gw  : String
  svc : String
  id  : Nat
deriving DecidableEq, Repr

/-- ServiceInfo of a ServiceDump: `GatewayService` and `Node` pointers may be nil. -/
structure SvcInfo where
  gs   : Option (String × String)   -- gateway name, linked service name
  node : Option String
  id   : Nat
deriving DecidableEq, Repr

/-- (service name, id) of a NodeService / (ServiceName, id) of a HealthCheck nested in a node. -/
abbrev Sub := String × Nat

structure NodeInfo where
  node : String
  id   : Nat
  svcs : List Sub
  chks : List Sub
deriving DecidableEq, Repr

/-- token field of a prepared query / SecretID of an ACL token: 0 = empty, 1 = set, 2 = "<hidden>" -/
abbrev Secret := Nat

structure PQ where
  name : String
  tmpl : Bool          -- `Template.Type != ""`
  tok  : Secret
  id   : Nat
deriving DecidableEq, Repr

structure AclObj where
  id     : Nat
  secret : Secret
deriving DecidableEq, Repr

inductive AclKind | token | tokenStub | policy | role | bindingRule | authMethod
deriving DecidableEq, Repr

inductive TxnRes
  | kv (key : String) (id : Nat)
  | node (n : String) (id : Nat)
  | service (s : String) (id : Nat)
  | check (n : String) (s : String) (id : Nat)
  | empty (id : Nat)
deriving DecidableEq, Repr

/-! ## Permission helpers (aclfilter/filter.go, structs) -/

def allowNode (a : Authz) (n : String) : Bool := a.nodeRead n
/-- `allowService`: the empty service name is always allowed. -/
def allowService (a : Authz) (s : String) : Bool := if s = "" then true else a.serviceRead s
def allowSession (a : Authz) (n : String) : Bool := a.sessionRead n
/-- `allowGateway`: read on the gateway and on the linked service (both through `allowService`). -/
def allowGateway (a : Authz) (g : String × String) : Bool :=
  if !allowService a g.1 then false else allowService a g.2

/-- `CheckServiceNode.CanRead` -/
def csnCanRead (a : Authz) (c : CSN) : Bool :=
  match c.node, c.svc with
  | some n, some s => if !a.nodeRead n then false else if !a.serviceRead s then false else true
  | _, _ => false

/-- `Intention.CanRead` -/
def ixnCanRead (a : Authz) (x : Ixn) : Bool :=
  if x.src ≠ "" ∧ x.srcPeer = false ∧ a.intentionRead x.src then true
  else if x.dst ≠ "" ∧ a.intentionRead x.dst then true
  else false

/-- keep-test of `filterServiceDump`; `gs = none` is handled by the caller (panic). -/
def svcInfoKeep (a : Authz) (s : SvcInfo) : Bool :=
  match s.gs with
  | none => false
  | some g =>
    if allowGateway a g then
      match s.node with
      | none => true
      | some n => if allowNode a n then true else false
    else false

/-- `txnResultsFilter.Filter` (true = drop) -/
def txnDrop (a : Authz) : TxnRes → Bool
  | .kv k _ => !a.keyRead k
  | .node n _ => !a.nodeRead n
  | .service s _ => !a.serviceRead s
  | .check n s _ => if s ≠ "" then !a.serviceRead s else !a.nodeRead n
  | .empty _ => false

/-- `redactPreparedQueryTokens` -/
def redactPQ (a : Authz) (q : PQ) : PQ :=
  if a.aclWrite then q else if q.tok ≠ 0 then { q with tok := 2 } else q

/-- `GetACLPrefix` second result -/
def PQ.hasName (q : PQ) : Bool := q.name ≠ "" || q.tmpl

/-- `filterToken` / `filterTokenStub` (secret redaction) and `filterPolicy`/… (no secret) -/
def filterAclObj (a : Authz) (k : AclKind) : Option AclObj → Option AclObj
  | none => none
  | some o =>
    if !a.aclRead then none
    else if (k = .token ∨ k = .tokenStub) ∧ !a.aclWrite then some { o with secret := 2 }
    else some o

/-- `filterTokens` etc.: `final := x; filterX(&final); if final != nil { ret = append(ret, final) }` -/
def filterAclList (a : Authz) (k : AclKind) : List (Option AclObj) → List (Option AclObj) → List (Option AclObj)
  | [], ret => ret
  | x :: xs, ret =>
    match filterAclObj a k x with
    | none => filterAclList a k xs ret
    | some o => filterAclList a k xs (ret ++ [some o])

/-! ## Per-type helpers -/

def filterCSNs (a : Authz) (xs : List CSN) : List CSN × Bool := loopRemove (csnCanRead a) xs 0 false

/-- `filterNodeDump`: outer index loop; per kept node two inner in-place loops that mutate the
    `*NodeInfo` the slice points to. -/
def nodeDumpLoop (a : Authz) (nd : List NodeInfo) (i : Nat) (removed : Bool) : List NodeInfo × Bool :=
  if h : i < nd.length then
    let info := nd[i]
    if !allowNode a info.node then nodeDumpLoop a (nd.eraseIdx i) i true
    else
      let (svcs, r1) := loopRemove (fun s : Sub => allowNode a info.node && allowService a s.1) info.svcs 0 removed
      let (chks, r2) := loopRemove (fun s : Sub => allowNode a info.node && allowService a s.1) info.chks 0 r1
      nodeDumpLoop a (nd.set i { info with svcs := svcs, chks := chks }) (i + 1) r2
  else (nd, removed)
termination_by nd.length - i
decreasing_by
  · simp [List.length_eraseIdx, h]; omega
  · simp; omega

def filterNodeDump (a : Authz) (nd : List NodeInfo) : List NodeInfo × Bool := nodeDumpLoop a nd 0 false

/-- `filterIntentionMatch`: the first named entry without intention:read empties the whole list. -/
def ixnMatchLoop (a : Authz) (all : List String) : List String → List String
  | [] => all
  | n :: rest => if n ≠ "" ∧ !a.intentionRead n then [] else ixnMatchLoop a all rest

/-- body of the loop of `filterPreparedQueries` (no management token) -/
def pqLoop (a : Authz) : List PQ → List PQ → Bool → List PQ × Bool
  | [], ret, rm => (ret, rm)
  | q :: qs, ret, rm =>
    if q.hasName && !a.queryRead q.name then pqLoop a qs ret true
    else if !q.hasName then pqLoop a qs ret rm
    else pqLoop a qs (ret ++ [redactPQ a q]) rm

/-- `filterDatacenterCheckServiceNodes`: `out := make(map)`; per datacenter filter, keep non-empty. -/
def dcLoop (a : Authz) : List (String × List CSN) → List (String × List CSN) → Bool → List (String × List CSN) × Bool
  | [], out, rm => (out, rm)
  | (dc, nodes) :: rest, out, rm =>
    let (ns, r) := filterCSNs a nodes
    let rm := if r then true else rm
    if ns.length > 0 then dcLoop a rest (out ++ [(dc, ns)]) rm else dcLoop a rest out rm

/-- the `IndexedExportedServiceList` case (as repaired: the flag accumulates over peers). -/
def exportedLoop (a : Authz) : List (String × List String) → List (String × List String) → Bool → List (String × List String) × Bool
  | [], out, flag => (out, flag)
  | (peer, svcs) :: rest, out, flag =>
    let (ss, r) := appendLoop (fun s => a.serviceRead s) svcs [] false
    let flag := if r then true else flag
    if ss.length == 0 then exportedLoop a rest out flag else exportedLoop a rest (out ++ [(peer, ss)]) flag

/-- the service loop of `filterNodeServices` BEFORE commit 8c494bd: `allowService` was given the map
    key — the service ID — instead of the service name. Kept only to document the defect. -/
def nodeServicesLoopOld (a : Authz) (n : String) (svcs : List (String × (String × Nat))) :
    List (String × (String × Nat)) × Bool :=
  rangeDelete (fun e : String × (String × Nat) => allowNode a n && allowService a e.1) svcs svcs false

/-- the same case BEFORE commit 6834176 (`v.ResultsFilteredByACLs = f.filterServiceList(…)` inside the
    range): the flag is whatever the last-visited peer produced. Kept only to document the defect. -/
def exportedLoopOld (a : Authz) : List (String × List String) → List (String × List String) → Bool → List (String × List String) × Bool
  | [], out, flag => (out, flag)
  | (peer, svcs) :: rest, out, _ =>
    let (ss, r) := appendLoop (fun s => a.serviceRead s) svcs [] false
    if ss.length == 0 then exportedLoopOld a rest out r else exportedLoopOld a rest (out ++ [(peer, ss)]) r

/-! ## Responses: one constructor per case of the `Filter.Filter` type switch (ACL objects share
two constructors parametrised by `AclKind`) plus the two `agent/consul/filter.go` entry points. -/

inductive Resp
  | csns (xs : List CSN)
  | indexedCSNs (xs : List CSN) (flag : Bool)
  | pqExecute (xs : List CSN) (flag : Bool)
  | topology (t : Option (List CSN × List CSN)) (filteredByACLs : Bool) (flag : Bool)
  | dcCSNs (m : List (String × List CSN)) (flag : Bool)
  | coordinates (xs : List NodeEnt) (flag : Bool)
  | healthChecks (xs : List SvcEnt) (flag : Bool)
  | intentions (xs : List Ixn) (flag : Bool)
  | ixnMatch (entries : List String)
  | nodeDump (dump imported : List NodeInfo) (flag : Bool)
  | serviceDump (xs : List SvcInfo) (flag : Bool)
  | nodes (xs : List NodeEnt) (flag : Bool)
  | nodeServices (ns : Option (String × List (String × (String × Nat)))) (flag : Bool)   -- map key ↦ (service name, id)
  | nodeServiceList (node : Option String) (svcs : List Sub) (flag : Bool)
  | serviceNodes (xs : List SvcEnt) (flag : Bool)
  | services (m : List (String × Nat)) (flag : Bool)
  | sessions (xs : List NodeEnt) (flag : Bool)
  | preparedQueries (xs : List PQ) (flag : Bool)
  | preparedQuery (q : PQ)
  | aclList (k : AclKind) (xs : List (Option AclObj))
  | aclOne (k : AclKind) (x : Option AclObj)
  | serviceList (xs : List String) (flag : Bool)
  | exportedServiceList (m : List (String × List String)) (flag : Bool)
  | gatewayServices (xs : List GwSvc) (flag : Bool)
  | nodesWithGateways (nodes : List CSN) (gws : List GwSvc) (imported : List CSN) (flag : Bool)
  -- agent/consul/filter.go
  | dirEntries (xs : List (String × Nat))
  | txnResults (xs : List TxnRes)
deriving DecidableEq, Repr

def csnNil (c : CSN) : Bool := c.node.isNone || c.svc.isNone

/-- Inputs on which the Go code panics, whatever the authorizer: a nil `ServiceTopology`; a nil
    `GatewayService` in a service dump (`allowGateway` dereferences it); a CheckServiceNode with a nil
    `Node` or `Service` (`CanRead` answers Deny, then the arguments of the "dropping …" debug log
    dereference both). Every element of a slice is visited by the loops, so position is irrelevant. -/
def Resp.panics : Resp → Bool
  | .csns xs | .indexedCSNs xs _ | .pqExecute xs _ => xs.any csnNil
  | .topology none _ _ => true
  | .topology (some (u, d)) _ _ => u.any csnNil || d.any csnNil
  | .dcCSNs m _ => m.any fun e => e.2.any csnNil
  | .serviceDump xs _ => xs.any fun s => s.gs.isNone
  | .nodesWithGateways ns _ imp _ => ns.any csnNil || imp.any csnNil
  | _ => false

/-- The filter proper (what the code computes when it does not panic). -/
def filterCore (a : Authz) : Resp → Resp
  | .csns xs => .csns (filterCSNs a xs).1
  | .indexedCSNs xs _ => let (o, r) := filterCSNs a xs; .indexedCSNs o r
  | .pqExecute xs _ => let (o, r) := filterCSNs a xs; .pqExecute o r
  | .topology none fb flag => .topology none fb flag
  | .topology (some (up, down)) fb flag =>
      let (u, r1) := filterCSNs a up
      let (d, r2) := filterCSNs a down
      if r1 || r2 then .topology (some (u, d)) true true else .topology (some (u, d)) fb flag
  | .dcCSNs m _ => let (o, r) := dcLoop a m [] false; .dcCSNs o r
  | .coordinates xs _ =>
      let (o, r) := loopRemove (fun c : NodeEnt => allowNode a c.node) xs 0 false; .coordinates o r
  | .healthChecks xs _ =>
      let (o, r) := loopRemove (fun c : SvcEnt => allowNode a c.node && allowService a c.svc) xs 0 false
      .healthChecks o r
  | .intentions xs _ => let (o, r) := appendLoop (ixnCanRead a) xs [] false; .intentions o r
  | .ixnMatch es => .ixnMatch (ixnMatchLoop a es es)
  | .nodeDump d imp flag =>
      let (d', r1) := filterNodeDump a d
      let flag := if r1 then true else flag
      let (i', r2) := filterNodeDump a imp
      let flag := if r2 then true else flag
      .nodeDump d' i' flag
  | .serviceDump xs _ => let (o, r) := loopRemove (svcInfoKeep a) xs 0 false; .serviceDump o r
  | .nodes xs _ =>
      let (o, r) := loopRemove (fun c : NodeEnt => allowNode a c.node) xs 0 false; .nodes o r
  | .nodeServices none _ => .nodeServices none false
  | .nodeServices (some (n, svcs)) _ =>
      if !allowNode a n then .nodeServices none true
      else
        let (o, r) := rangeDelete (fun e : String × (String × Nat) => allowNode a n && allowService a e.2.1) svcs svcs false
        .nodeServices (some (n, o)) r
  | .nodeServiceList none svcs _ => .nodeServiceList none svcs false
  | .nodeServiceList (some n) svcs _ =>
      if !allowNode a n then .nodeServiceList none [] true
      else
        let (o, r) := loopRemove (fun s : Sub => allowService a s.1) svcs 0 false
        .nodeServiceList (some n) o r
  | .serviceNodes xs _ =>
      let (o, r) := loopRemove (fun c : SvcEnt => allowNode a c.node && allowService a c.svc) xs 0 false
      .serviceNodes o r
  | .services m _ =>
      let (o, r) := rangeDelete (fun e : String × Nat => allowService a e.1) m m false; .services o r
  | .sessions xs _ =>
      let (o, r) := loopRemove (fun c : NodeEnt => allowSession a c.node) xs 0 false; .sessions o r
  | .preparedQueries xs _ =>
      if a.aclWrite then .preparedQueries xs false
      else let (o, r) := pqLoop a xs [] false; .preparedQueries o r
  | .preparedQuery q => .preparedQuery (redactPQ a q)
  | .aclList k xs => .aclList k (filterAclList a k xs [])
  | .aclOne k x => .aclOne k (filterAclObj a k x)
  | .serviceList xs _ => let (o, r) := appendLoop (fun s => a.serviceRead s) xs [] false; .serviceList o r
  | .exportedServiceList m flag => let (o, r) := exportedLoop a m [] flag; .exportedServiceList o r
  | .gatewayServices xs _ =>
      let (o, r) := appendLoop (fun g : GwSvc => a.serviceRead g.svc) xs [] false; .gatewayServices o r
  | .nodesWithGateways ns gws imp flag =>
      let (n', r1) := filterCSNs a ns
      let flag := if r1 then true else flag
      let (g', r2) := appendLoop (fun g : GwSvc => a.serviceRead g.svc) gws [] false
      let flag := if r2 then true else flag
      let (i', r3) := filterCSNs a imp
      let flag := if r3 then true else flag
      .nodesWithGateways n' g' i' flag
  -- the two compaction entry points: `compact_terminates` shows the `none` arm is never taken
  | .dirEntries xs =>
      match filterEntries (fun e : String × Nat => !a.keyRead e.1) xs with
      | some o => .dirEntries o
      | none => .dirEntries xs
  | .txnResults xs =>
      match filterEntries (txnDrop a) xs with
      | some o => .txnResults o
      | none => .txnResults xs

/-- Would the compaction loop of `FilterEntries` spin forever on this response? (Never: `compact_terminates`.) -/
def Resp.diverges (a : Authz) : Resp → Bool
  | .dirEntries xs => (filterEntries (fun e : String × Nat => !a.keyRead e.1) xs).isNone
  | .txnResults xs => (filterEntries (txnDrop a) xs).isNone
  | _ => false

/-- The filter as observed: `none` = the Go code panics (or would not terminate). -/
def filterResp (a : Authz) (r : Resp) : Option Resp :=
  if r.panics || r.diverges a then none else some (filterCore a r)

/-- The Go type each constructor stands for (as written in the `case` clauses of the switch). -/
def Resp.goType : Resp → String
  | .csns _ => "*structs.CheckServiceNodes"
  | .indexedCSNs _ _ => "*structs.IndexedCheckServiceNodes"
  | .pqExecute _ _ => "*structs.PreparedQueryExecuteResponse"
  | .topology _ _ _ => "*structs.IndexedServiceTopology"
  | .dcCSNs _ _ => "*structs.DatacenterIndexedCheckServiceNodes"
  | .coordinates _ _ => "*structs.IndexedCoordinates"
  | .healthChecks _ _ => "*structs.IndexedHealthChecks"
  | .intentions _ _ => "*structs.IndexedIntentions"
  | .ixnMatch _ => "*structs.IntentionQueryMatch"
  | .nodeDump _ _ _ => "*structs.IndexedNodeDump"
  | .serviceDump _ _ => "*structs.IndexedServiceDump"
  | .nodes _ _ => "*structs.IndexedNodes"
  | .nodeServices _ _ => "*structs.IndexedNodeServices"
  | .nodeServiceList _ _ _ => "*structs.IndexedNodeServiceList"
  | .serviceNodes _ _ => "*structs.IndexedServiceNodes"
  | .services _ _ => "*structs.IndexedServices"
  | .sessions _ _ => "*structs.IndexedSessions"
  | .preparedQueries _ _ => "*structs.IndexedPreparedQueries"
  | .preparedQuery _ => "**structs.PreparedQuery"
  | .aclList .token _ => "*structs.ACLTokens"
  | .aclOne .token _ => "**structs.ACLToken"
  | .aclList .tokenStub _ => "*[]*structs.ACLTokenListStub"
  | .aclOne .tokenStub _ => "**structs.ACLTokenListStub"
  | .aclList .policy _ => "*structs.ACLPolicies"
  | .aclOne .policy _ => "**structs.ACLPolicy"
  | .aclList .role _ => "*structs.ACLRoles"
  | .aclOne .role _ => "**structs.ACLRole"
  | .aclList .bindingRule _ => "*structs.ACLBindingRules"
  | .aclOne .bindingRule _ => "**structs.ACLBindingRule"
  | .aclList .authMethod _ => "*structs.ACLAuthMethods"
  | .aclOne .authMethod _ => "**structs.ACLAuthMethod"
  | .serviceList _ _ => "*structs.IndexedServiceList"
  | .exportedServiceList _ _ => "*structs.IndexedExportedServiceList"
  | .gatewayServices _ _ => "*structs.IndexedGatewayServices"
  | .nodesWithGateways _ _ _ _ => "*structs.IndexedNodesWithGateways"
  | .dirEntries _ => "structs.DirEntries"
  | .txnResults _ => "structs.TxnResults"

/-- Every case of the `Filter.Filter` type switch that this model covers (35 = all of them at the
    pinned commit). The fact obligation `∀ t ∈ Facts.filterCases, t ∈ modelledTypes` attaches here. -/
def modelledTypes : List String := [
  "*structs.CheckServiceNodes", "*structs.IndexedCheckServiceNodes", "*structs.PreparedQueryExecuteResponse",
  "*structs.IndexedServiceTopology", "*structs.DatacenterIndexedCheckServiceNodes", "*structs.IndexedCoordinates",
  "*structs.IndexedHealthChecks", "*structs.IndexedIntentions", "*structs.IntentionQueryMatch",
  "*structs.IndexedNodeDump", "*structs.IndexedServiceDump", "*structs.IndexedNodes",
  "*structs.IndexedNodeServices", "*structs.IndexedNodeServiceList", "*structs.IndexedServiceNodes",
  "*structs.IndexedServices", "*structs.IndexedSessions", "*structs.IndexedPreparedQueries",
  "**structs.PreparedQuery", "*structs.ACLTokens", "**structs.ACLToken", "*[]*structs.ACLTokenListStub",
  "**structs.ACLTokenListStub", "*structs.ACLPolicies", "**structs.ACLPolicy", "*structs.ACLRoles",
  "**structs.ACLRole", "*structs.ACLBindingRules", "**structs.ACLBindingRule", "*structs.ACLAuthMethods",
  "**structs.ACLAuthMethod", "*structs.IndexedServiceList", "*structs.IndexedExportedServiceList",
  "*structs.IndexedGatewayServices", "*structs.IndexedNodesWithGateways"]

/-- The two slice filters of agent/consul/filter.go (not part of the type switch). -/
def extraTypes : List String := ["structs.DirEntries", "structs.TxnResults"]

/-! ## Specification: what each returned thing requires -/

/-- A permission requirement over the authorizer's atoms. -/
inductive Req
  | tt | ff
  | node (n : String) | service (s : String) | session (n : String) | key (k : String)
  | intention (n : String) | query (n : String) | aclRead | aclWrite
  | and (p q : Req) | or (p q : Req)
deriving DecidableEq, Repr

def Req.eval (a : Authz) : Req → Bool
  | .tt => true | .ff => false
  | .node n => a.nodeRead n | .service s => a.serviceRead s | .session n => a.sessionRead n
  | .key k => a.keyRead k | .intention n => a.intentionRead n | .query n => a.queryRead n
  | .aclRead => a.aclRead | .aclWrite => a.aclWrite
  | .and p q => p.eval a && q.eval a
  | .or p q => p.eval a || q.eval a

/-- One thing a response discloses: where it sits (`slot`, e.g. the datacenter / peer / "up"),
    its identity, what reading it requires, and whether its removal is reported by the
    `ResultsFilteredByACLs` flag (`silent` = removed without being reported: un-named prepared
    queries, which only a management token may enumerate). -/
structure Entry where
  slot   : String
  id     : Nat
  name   : String
  req    : Req
  silent : Bool := false
deriving DecidableEq, Repr

def Entry.readable (a : Authz) (e : Entry) : Bool := e.req.eval a

/-- service-name requirement with the "empty name = node-level" convention of `allowService` -/
def Req.svcOpt (s : String) : Req := if s = "" then .tt else .service s

def csnReq (c : CSN) : Req :=
  match c.node, c.svc with
  | some n, some s => .and (.node n) (.service s)
  | _, _ => .ff      -- a half-populated entry is never disclosed

def csnEntries (slot : String) (xs : List CSN) : List Entry :=
  xs.map fun c => ⟨slot, c.id, "csn", csnReq c, false⟩

def ixnReq (x : Ixn) : Req :=
  .or (if x.src ≠ "" ∧ x.srcPeer = false then .intention x.src else .ff)
      (if x.dst ≠ "" then .intention x.dst else .ff)

def nodeInfoEntries (slot : String) (i : NodeInfo) : List Entry :=
  ⟨slot, i.id, "node", .node i.node, false⟩ ::
  (i.svcs.map fun s => ⟨slot, s.2, "node-service", .and (.node i.node) (Req.svcOpt s.1), false⟩) ++
  (i.chks.map fun s => ⟨slot, s.2, "node-check", .and (.node i.node) (Req.svcOpt s.1), false⟩)

def pqReq (q : PQ) : Req := .or .aclWrite (if q.hasName then .query q.name else .ff)

def txnReq : TxnRes → Req
  | .kv k _ => .key k
  | .node n _ => .node n
  | .service s _ => .service s
  | .check n s _ => if s ≠ "" then .service s else .node n
  | .empty _ => .tt

def TxnRes.id : TxnRes → Nat
  | .kv _ i => i | .node _ i => i | .service _ i => i | .check _ _ i => i | .empty i => i

def gwReq (g : String × String) : Req := .and (Req.svcOpt g.1) (Req.svcOpt g.2)

def svcInfoReq (s : SvcInfo) : Req :=
  match s.gs with
  | none => .ff
  | some g => match s.node with
    | none => gwReq g
    | some n => .and (gwReq g) (.node n)

def aclEntries (xs : List (Option AclObj)) : List Entry :=
  xs.filterMap fun o => o.map fun o => ⟨"", o.id, "acl", .aclRead, false⟩

/-- Everything a response discloses, in response order. Services are required by *service name*
    (for `IndexedNodeServices` that is the `Service` field of the map value, not the map key). -/
def entries : Resp → List Entry
  | .csns xs => csnEntries "" xs
  | .indexedCSNs xs _ => csnEntries "" xs
  | .pqExecute xs _ => csnEntries "" xs
  | .topology none _ _ => []
  | .topology (some (u, d)) _ _ => csnEntries "up" u ++ csnEntries "down" d
  | .dcCSNs m _ => m.flatMap fun e => csnEntries e.1 e.2
  | .coordinates xs _ => xs.map fun c => ⟨"", c.id, "coordinate", .node c.node, false⟩
  | .healthChecks xs _ => xs.map fun c => ⟨"", c.id, "check", .and (.node c.node) (Req.svcOpt c.svc), false⟩
  | .intentions xs _ => xs.map fun x => ⟨"", x.id, "intention", ixnReq x, false⟩
  | .ixnMatch es => es.map fun n => ⟨"", 0, n, if n ≠ "" then .intention n else .tt, false⟩
  | .nodeDump d imp _ => d.flatMap (nodeInfoEntries "dump") ++ imp.flatMap (nodeInfoEntries "imported")
  | .serviceDump xs _ => xs.map fun s => ⟨"", s.id, "service-info", svcInfoReq s, false⟩
  | .nodes xs _ => xs.map fun c => ⟨"", c.id, "node", .node c.node, false⟩
  | .nodeServices none _ => []
  | .nodeServices (some (n, svcs)) _ =>
      ⟨"", 0, "node", .node n, false⟩ ::
      svcs.map fun e => ⟨e.1, e.2.2, "node-service", .and (.node n) (Req.svcOpt e.2.1), false⟩
  | .nodeServiceList none _ _ => []
  | .nodeServiceList (some n) svcs _ =>
      ⟨"", 0, "node", .node n, false⟩ ::
      svcs.map fun s => ⟨"", s.2, "node-service", .and (.node n) (Req.svcOpt s.1), false⟩
  | .serviceNodes xs _ => xs.map fun c => ⟨"", c.id, "service-node", .and (.node c.node) (Req.svcOpt c.svc), false⟩
  | .services m _ => m.map fun e => ⟨"", e.2, e.1, Req.svcOpt e.1, false⟩
  | .sessions xs _ => xs.map fun c => ⟨"", c.id, "session", .session c.node, false⟩
  | .preparedQueries xs _ => xs.map fun q => ⟨"", q.id, "query", pqReq q, !q.hasName⟩
  | .preparedQuery q => [⟨"", q.id, "query", .tt, false⟩]
  | .aclList _ xs => aclEntries xs
  | .aclOne _ x => aclEntries [x]
  | .serviceList xs _ => xs.map fun s => ⟨"", 0, s, .service s, false⟩
  | .exportedServiceList m _ => m.flatMap fun e => e.2.map fun s => ⟨e.1, 0, s, .service s, false⟩
  | .gatewayServices xs _ => xs.map fun g => ⟨"", g.id, "gateway-service", .service g.svc, false⟩
  | .nodesWithGateways ns gws imp _ =>
      csnEntries "nodes" ns ++ (gws.map fun g => ⟨"gateways", g.id, "gateway-service", .service g.svc, false⟩) ++
      csnEntries "imported" imp
  | .dirEntries xs => xs.map fun e => ⟨"", e.2, "key", .key e.1, false⟩
  | .txnResults xs => xs.map fun r => ⟨"", r.id, "txn-result", txnReq r, false⟩

/-- Shapes the theorems assume: Go map keys are unique, and a `NodeServiceList` without a node
    carries no services (the catalog endpoint only builds it that way; the code returns such a
    response unfiltered). -/
def Resp.wf : Resp → Bool
  | .nodeServiceList none svcs _ => svcs.isEmpty
  | .nodeServices (some (_, svcs)) _ => decide (svcs.map (·.1)).Nodup
  | .services m _ => decide (m.map (·.1)).Nodup
  | _ => true

/-- `IntentionQueryMatch` is all-or-nothing rather than per entry. -/
def Resp.isIxnMatch : Resp → Bool
  | .ixnMatch _ => true
  | _ => false

/-- Some removed entry is one whose removal the flag reports. -/
def removedReported (a : Authz) (r : Resp) : Bool :=
  (entries r).any fun e => !e.readable a && !e.silent

/-- The `ResultsFilteredByACLs` flag of a response (`none`: the type has no such flag). -/
def Resp.flag : Resp → Option Bool
  | .indexedCSNs _ f | .pqExecute _ f | .topology _ _ f | .dcCSNs _ f | .coordinates _ f
  | .healthChecks _ f | .intentions _ f | .nodeDump _ _ f | .serviceDump _ f | .nodes _ f
  | .nodeServices _ f | .nodeServiceList _ _ f | .serviceNodes _ f | .services _ f | .sessions _ f
  | .preparedQueries _ f | .serviceList _ f | .exportedServiceList _ f | .gatewayServices _ f
  | .nodesWithGateways _ _ _ f => some f
  | _ => none

/-- Responses whose case only ever *sets* the flag (`if removed { flag = true }`): the incoming
    value survives. Every other flagged case assigns it. -/
def Resp.flagAccumulates : Resp → Bool
  | .topology _ _ _ | .nodeDump _ _ _ | .exportedServiceList _ _ | .nodesWithGateways _ _ _ _ => true
  | _ => false

/-- `maskResultsFilteredByACLs` (agent/consul/rpc.go): the flag a caller gets to see.
    `tokenEmpty`: the request carried no token; `ident`: result of resolving the token to an
    identity (`none` = error) as (accessor is the anonymous one ∧ secret is the anonymous one). -/
def maskFlag (tokenEmpty : Bool) (ident : Option Bool) (flag : Bool) : Bool :=
  if tokenEmpty then false
  else match ident with
    | none => false
    | some isAnonymous => if isAnonymous then false else flag

end CV.Filter
