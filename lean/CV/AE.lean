/-
CV.AE — model of the agent's anti-entropy (property C16).

Mirrors, as the code is,
  * agent/local/state.go   `setServiceStateLocked` / `addCheckLocked` / `setCheckStateLocked` /
                           `removeServiceLocked` / `removeCheckLocked` / `UpdateCheck`
                           (local registrations, as `agent/agent.go` drives them),
                           `updateSyncState`, `SyncFull`, `SyncChanges`, `syncNodeInfo`,
                           `syncService` (with piggy-backed checks), `syncCheck`,
                           `deleteService` (with its pruning of pending check removals), `deleteCheck`
  * agent/consul/catalog_endpoint.go + fsm/state  what `Catalog.Register` / `Catalog.Deregister`
                           do to the node's catalog entries (one transaction: node, service, checks;
                           a service-bound check needs its service; deregistering a service removes
                           the checks bound to it; checks carry a server-side copy of the service's
                           name and tags)
  * agent/ae/ae.go         `nextFSMState` (full / partial / retry state machine)

Go maps are association lists read through `get?`; the order in which `SyncChanges` ranges over
the two maps is an explicit parameter (`Order`) and every theorem quantifies over it.
The outcome of every RPC is an explicit parameter as well (`Faults`): ok, refused by ACLs, failed
without effect, or applied with the reply lost.
Core-only Lean; no Mathlib.
-/
import CV.Proto
namespace CV.AE

abbrev Id := String
abbrev AMap (V : Type) := List (Id × V)

namespace AMap
variable {V : Type}

def get? : AMap V → Id → Option V
  | [], _ => none
  | (k', v) :: m, k => if k' = k then some v else get? m k

/-- replace in place, or append -/
def set : AMap V → Id → V → AMap V
  | [], k, v => [(k, v)]
  | (k', v') :: m, k, v => if k' = k then (k, v) :: m else (k', v') :: set m k v

def erase (m : AMap V) (k : Id) : AMap V := m.filter fun p => decide (p.1 ≠ k)

def keys (m : AMap V) : List Id := m.map (·.1)

/-- `for id, v := range m { if !keep id v { delete(m, id) } }`; the record is read through the
    map, so a list that repeats a key behaves like the Go map it denotes -/
def visKeep (keep : Id → V → Bool) (m : AMap V) (k : Id) : Bool :=
  match m.get? k with
  | some v => keep k v
  | none => false

def filterVis (keep : Id → V → Bool) (m : AMap V) : AMap V :=
  m.filter fun p => visKeep keep m p.1

/-- `for id, v := range m { m[id] = f id v }` -/
def mapVals (f : Id → V → V) (m : AMap V) : AMap V := m.map fun p => (p.1, f p.1 p.2)

end AMap

/-! ### definitions (the fields `IsSame` compares, as far as the generators vary them) -/

/-- `structs.NodeService`: `port` stands for every other field `NodeService.IsSame` compares
    (Port, Address, Weights, Meta, Locality, Kind, Proxy, Connect, SocketPath, Ports — see
    `svcSameFields` in CV.AETok, tied to the Go source by a regenerated fact). `ta` is the
    TaggedAddresses map kept sorted by key. -/
structure SvcDef where
  name : String
  tags : List String
  eto  : Bool                    -- EnableTagOverride
  port : Nat
  ta   : List (String × Nat)
deriving DecidableEq, Repr

/-- `structs.HealthCheck`: `sid = ""` is a node-level check; `status` stands for Status+Output;
    `sname`/`stags` are the copies of the service's name and tags that the check row carries;
    `rest` stands for the remaining fields `HealthCheck.IsSame` compares (Name, Notes, Definition —
    see `chkSameFields`), which neither `UpdateCheck` nor the output deferral touches. -/
structure ChkDef where
  sid    : Id
  status : Nat
  sname  : String
  stags  : List String
  rest   : Nat
deriving DecidableEq, Repr

/-- what the servers do not own in a check: everything but the denormalised service name/tags -/
def ChkDef.core (d : ChkDef) : Id × Nat × Nat := (d.sid, d.status, d.rest)

/-- One record of `l.services` / `l.checks`.
    `ghost` is `&ServiceState{Deleted: true}` / `&CheckState{Deleted: true}`: the placeholder for a
    remote-only entry (no definition, no token). -/
inductive Ent (δ : Type) where
  | ghost (inSync : Bool)
  | ent (d : δ) (tok : String) (isLocal inSync deleted : Bool)
deriving DecidableEq, Repr

namespace Ent
variable {δ : Type}
def inSync : Ent δ → Bool
  | ghost b => b
  | ent _ _ _ b _ => b
def deleted : Ent δ → Bool
  | ghost _ => true
  | ent _ _ _ _ b => b
def setInSync (b : Bool) : Ent δ → Ent δ
  | ghost _ => ghost b
  | ent d t l _ del => ent d t l b del
/-- the definition of a registration the agent currently wants in the catalog -/
def live? : Ent δ → Option δ
  | ent d _ _ _ false => some d
  | _ => none
end Ent

/-- `dfr`: the checks whose deferred-output timer (`CheckState.DeferCheck`) is armed. In the code
    as it is an armed timer is always a running one: it is cleared (set to nil) wherever it is
    stopped, or the whole record goes away. -/
structure Local where
  nodeInSync : Bool
  svcs : AMap (Ent SvcDef)
  chks : AMap (Ent ChkDef)
  dfr : List Id := []
deriving DecidableEq, Repr

/-- the catalog's view of the agent's node; `node` is the node-level info that `updateSyncState`
    compares (ID, tagged addresses, locality, meta) -/
structure Cat where
  node : Option Nat
  svcs : AMap SvcDef
  chks : AMap ChkDef
deriving DecidableEq, Repr

structure Cfg where
  nodeVal : Nat
  cfgTok  : String     -- tokens.ConfigFileRegistrationToken()
  userTok : String     -- tokens.UserToken()
  cui : Bool := false  -- config.CheckUpdateInterval > 0: output-only check updates are deferred
  agentTok : String := ""  -- tokens.AgentToken(): node info, reads and every deregistration
deriving DecidableEq, Repr

def Local.empty : Local := ⟨false, [], [], []⟩

def Local.armed (l : Local) (k : Id) : Bool := l.dfr.contains k
def Local.disarm (l : Local) (k : Id) : Local := { l with dfr := l.dfr.filter fun x => x != k }
def Local.arm (l : Local) (k : Id) : Local := if l.dfr.contains k then l else { l with dfr := k :: l.dfr }
def Cat.empty : Cat := ⟨none, [], []⟩

/-! ### server side: Catalog.Register / Catalog.Deregister on the node's entries -/

structure RegReq where
  nodeVal  : Nat
  skipNode : Bool
  svc  : Option (Id × SvcDef)
  chks : List (Id × ChkDef)

/-- `ensureNodeTxn`: a node registration that differs from the stored node in nothing that
    `Node.IsSame` compares is dropped ("We do not need to update anything"). `Node.IsSame` looks
    at ID, name, address, tagged addresses and meta — the part `v % 40` of a node value — but NOT at
    the Locality (`v / 40`), although `ChangesNode` and `updateSyncState` do: a locality-only
    difference is never written (side finding; the rest of the node value stands for itself). -/
def nodeWrite (old : Option Nat) (v : Nat) : Option Nat :=
  match old with
  | none => some v
  | some w => if w % 40 = v % 40 then some w else some v

/-- `ensureRegistrationTxn`, node part: written when missing, or when `ChangesNode` (and then
    subject to `nodeWrite`) -/
def Cat.regNode (c : Cat) (v : Nat) (skip : Bool) : Cat :=
  match c.node with
  | none => { c with node := some v }
  | some _ => if skip then c else { c with node := nodeWrite c.node v }

/-- `ensureCheckTxn` for each check in request order; a check bound to a service that the
    catalog does not hold aborts the whole transaction (`ErrMissingService`). -/
def Cat.regChecks : Cat → List (Id × ChkDef) → Option Cat
  | c, [] => some c
  | c, (k, d) :: rest =>
    if d.sid = "" then Cat.regChecks { c with chks := c.chks.set k d } rest
    else match c.svcs.get? d.sid with
      | none => none
      | some s => Cat.regChecks { c with chks := c.chks.set k { d with sname := s.name, stags := s.tags } } rest

def Cat.register (c : Cat) (r : RegReq) : Option Cat :=
  let c1 := c.regNode r.nodeVal r.skipNode
  let c2 := match r.svc with
    | none => c1
    | some (id, d) => { c1 with svcs := c1.svcs.set id d }
  c2.regChecks r.chks

/-- `deleteServiceTxn`: nothing when the service is unknown, otherwise the service and every
    check bound to it -/
def Cat.deregSvc (c : Cat) (id : Id) : Cat :=
  match c.svcs.get? id with
  | none => c
  | some _ => { c with svcs := c.svcs.erase id, chks := c.chks.filterVis fun _ d => decide (d.sid ≠ id) }

def Cat.deregChk (c : Cat) (k : Id) : Cat := { c with chks := c.chks.erase k }

/-- `DeleteNode` -/
def Cat.deregNode (_ : Cat) : Cat := Cat.empty

/-! ### local registrations (agent/local/state.go as driven by agent/agent.go) -/

inductive Res where
  | ok | err | panic
deriving DecidableEq, Repr

/-- `setServiceStateLocked` via `addServiceLocked`: a re-registration is in sync iff it `IsSame` as
    the record it replaces (whatever that record's own flags were); replacing a placeholder
    dereferences its nil definition. -/
def addSvc1 (l : Local) (id : Id) (d : SvcDef) (tok : String) (isLocal : Bool) : Res × Local :=
  match l.svcs.get? id with
  | none => (.ok, { l with svcs := l.svcs.set id (.ent d tok isLocal false false) })
  | some (.ghost _) => (.panic, l)
  | some (.ent d0 _ _ _ _) => (.ok, { l with svcs := l.svcs.set id (.ent d tok isLocal (d == d0) false) })

/-- `addCheckLocked` + `setCheckStateLocked`: an armed defer timer of the record being replaced is
    handed over to the new record, which is then out of sync -/
def addChk1 (l : Local) (k : Id) (d : ChkDef) (tok : String) (isLocal : Bool) : Res × Local :=
  if d.sid ≠ "" ∧ l.svcs.get? d.sid = none then (.err, l)
  else match l.chks.get? k with
    | none => (.ok, { l with chks := l.chks.set k (.ent d tok isLocal false false) })
    | some (.ghost _) => (.panic, l)
    | some (.ent d0 _ _ _ _) =>
      (.ok, { l with chks := l.chks.set k (.ent d tok isLocal (d == d0 && !l.armed k) false) })

def addChks (l : Local) (tok : String) (isLocal : Bool) : List (Id × ChkDef) → Res × Local
  | [] => (.ok, l)
  | (k, d) :: rest =>
    match addChk1 l k d tok isLocal with
    | (.ok, l') => addChks l' tok isLocal rest
    | r => r

/-- `AddServiceWithChecks` -/
def addSvc (l : Local) (id : Id) (d : SvcDef) (tok : String) (isLocal : Bool) (cs : List (Id × ChkDef)) : Res × Local :=
  match addSvc1 l id d tok isLocal with
  | (.ok, l') => addChks l' tok isLocal cs
  | r => r

/-- `removeServiceLocked` -/
def rmSvc1 (l : Local) (id : Id) : Res × Local :=
  match l.svcs.get? id with
  | some (.ent d tok loc _ false) => (.ok, { l with svcs := l.svcs.set id (.ent d tok loc false true) })
  | _ => (.err, l)

/-- `removeCheckLocked` -/
def rmChk (l : Local) (k : Id) : Res × Local :=
  match l.chks.get? k with
  | some (.ent d tok loc _ false) => (.ok, { l with chks := l.chks.set k (.ent d tok loc false true) })
  | _ => (.err, l)

def rmChks (l : Local) : List Id → Res × Local
  | [] => (.ok, l)
  | k :: rest =>
    match rmChk l k with
    | (.ok, l') => rmChks l' rest
    | r => r

/-- `RemoveServiceWithChecks` -/
def rmSvc (l : Local) (id : Id) (ks : List Id) : Res × Local :=
  match rmSvc1 l id with
  | (.ok, l') => rmChks l' ks
  | r => r

/-- `UpdateCheck`. `status` stands for Status (`status % 3`) and Output (`status / 3`). With
    CheckUpdateInterval > 0 (`cui`) a change of the output alone is stored but not marked out of
    sync: it arms the defer timer (unless one is armed already). -/
def updChk (cui : Bool) (l : Local) (k : Id) (st : Nat) : Local :=
  match l.chks.get? k with
  | some (.ent d tok loc b false) =>
    if d.status = st then l
    else if cui ∧ d.status % 3 = st % 3 then
      ({ l with chks := l.chks.set k (.ent { d with status := st } tok loc b false) }).arm k
    else { l with chks := l.chks.set k (.ent { d with status := st } tok loc false false) }
  | _ => l

/-- the defer timer of check `k` fires (`time.AfterFunc` body in `UpdateCheck`): the timer is
    cleared and — unless the check is pending removal — the check is marked out of sync -/
def fire (l : Local) (k : Id) : Local :=
  if l.armed k then
    match l.chks.get? k with
    | some (.ent d tok loc _ false) => { (l.disarm k) with chks := l.chks.set k (.ent d tok loc false false) }
    | _ => l.disarm k
  else l

/-! ### updateSyncState -/

def specialSvc (id : Id) : Bool := id == "consul"        -- structs.ConsulServiceID
def specialChk (id : Id) : Bool := id == "serfHealth"    -- structs.SerfCheckID
def reservedKey (k : String) : Bool := k.startsWith "consul-"   -- structs.MetaKeyReservedPrefix

/-- map write on the key-sorted representation of TaggedAddresses -/
def taSet : List (String × Nat) → String → Nat → List (String × Nat)
  | [], k, v => [(k, v)]
  | (k', v') :: m, k, v =>
    if k = k' then (k, v) :: m
    else if k < k' then (k, v) :: (k', v') :: m
    else (k', v') :: taSet m k v

def mergeTa (loc rem : List (String × Nat)) : List (String × Nat) :=
  rem.foldl (fun m p => if reservedKey p.1 then taSet m p.1 p.2 else m) loc

/-- the fields the servers own flow back into the local definition: tags under
    EnableTagOverride, `consul-` prefixed tagged addresses -/
def absorb (loc rem : SvcDef) : SvcDef :=
  let d1 := if loc.eto then { loc with tags := rem.tags } else loc
  if d1.ta = rem.ta then d1 else { d1 with ta := mergeTa d1.ta rem.ta }

def usSvc (c : Cat) (id : Id) (e : Ent SvcDef) : Ent SvcDef :=
  match c.svcs.get? id with
  | none => e.setInSync false
  | some rs =>
    match e with
    | .ghost b => .ghost b
    | .ent d tok loc b true => .ent d tok loc b true
    | .ent d tok loc _ false => .ent (absorb d rs) tok loc (absorb d rs == rs) false

/-- `IsSame` with the Output blanked on both sides (what `updateSyncState` compares while the
    defer timer of the check is armed) -/
def sameButOutput (d rc : ChkDef) : Bool :=
  d.sid == rc.sid && d.status % 3 == rc.status % 3 && d.sname == rc.sname && d.stags == rc.stags &&
  d.rest == rc.rest

def usChk (c : Cat) (armed : Id → Bool) (k : Id) (e : Ent ChkDef) : Ent ChkDef :=
  match c.chks.get? k with
  | none => e.setInSync false
  | some rc =>
    match e with
    | .ghost b => .ghost b
    | .ent d tok loc b true => .ent d tok loc b true
    | .ent d tok loc _ false => .ent d tok loc (if armed k then sameButOutput d rc else d == rc) false

/-- placeholders for remote-only entries (the `consul` service and the serf check are skipped) -/
def ghostsFor {δ ρ : Type} (special : Id → Bool) (loc : AMap (Ent δ)) (rem : AMap ρ) : AMap (Ent δ) :=
  rem.filterMap fun p => if loc.get? p.1 = none ∧ special p.1 = false then some (p.1, Ent.ghost false) else none

def updateSyncState (cfg : Cfg) (l : Local) (c : Cat) : Local :=
  { nodeInSync := if c.node = some cfg.nodeVal then l.nodeInSync else false
    svcs := l.svcs.mapVals (usSvc c) ++ ghostsFor specialSvc l.svcs c.svcs
    chks := l.chks.mapVals (usChk c l.armed) ++ ghostsFor specialChk l.chks c.chks
    dfr := l.dfr }

/-! ### SyncChanges -/

inductive Outcome where
  | ok       -- applied, success reported
  | denied   -- ErrPermissionDenied / ErrNotFound (ACL), nothing applied
  | fail     -- any other error, nothing applied
  | lost     -- applied, but the agent sees an error
deriving DecidableEq, Repr

/-- one outcome per RPC of a sync; inside one `SyncChanges` every entry is the subject of at most
    one call, so outcomes are indexed by entry -/
structure Faults where
  readSvcs : Bool      -- Catalog.NodeServiceList succeeded
  readChks : Bool      -- Health.NodeChecks succeeded
  node : Outcome
  svc  : Id → Outcome
  chk  : Id → Outcome

structure Order where
  svcs : List Id
  chks : List Id

/-- the state threaded through `SyncChanges`: `ok = false` once any call reported an error -/
structure St where
  l : Local
  c : Cat
  ok : Bool
deriving DecidableEq, Repr

/-- `aclTokenForServiceSync` / `aclTokenForCheckSync` with their fallbacks -/
def effTok (cfg : Cfg) (tok : String) (isLocal : Bool) : String :=
  if tok ≠ "" then tok
  else if isLocal ∧ cfg.cfgTok ≠ "" then cfg.cfgTok
  else cfg.userTok

/-- does the record of check `k` ride on the registration of service `sid` (token `st`)? -/
def piggyOf (cfg : Cfg) (sid : Id) (st : String) (k : Id) : Option (Ent ChkDef) → Option (Id × ChkDef)
  | some (.ent d tok loc false false) => if d.sid = sid ∧ effTok cfg tok loc = st then some (k, d) else none
  | _ => none

/-- the out-of-sync checks of service `sid` that ride on its registration (same token only) -/
def piggy (cfg : Cfg) (l : Local) (sid : Id) (st : String) : List (Id × ChkDef) :=
  l.chks.filterMap fun p => piggyOf cfg sid st p.1 (l.chks.get? p.1)

def markChks (l : Local) (ks : List Id) : Local :=
  { l with chks := l.chks.mapVals fun k e => if k ∈ ks then e.setInSync true else e }

def markSvc (l : Local) (id : Id) : Local :=
  { l with svcs := l.svcs.mapVals fun k e => if k = id then e.setInSync true else e }

def markChk (l : Local) (k : Id) : Local := markChks l [k]

/-- `syncNodeInfo`; the Bool says whether `SyncChanges` carries on -/
def syncNode (cfg : Cfg) (f : Faults) (s : St) : St × Bool :=
  match f.node with
  | .ok => ({ s with l := { s.l with nodeInSync := true }, c := { s.c with node := nodeWrite s.c.node cfg.nodeVal } }, true)
  | .denied => ({ s with l := { s.l with nodeInSync := true } }, true)
  | .fail => ({ s with ok := false }, false)
  | .lost => ({ s with c := { s.c with node := nodeWrite s.c.node cfg.nodeVal }, ok := false }, false)

def syncService (cfg : Cfg) (f : Faults) (id : Id) (d : SvcDef) (tok : String) (loc : Bool) (s : St) : St :=
  let pg := piggy cfg s.l id (effTok cfg tok loc)
  let req : RegReq := { nodeVal := cfg.nodeVal, skipNode := s.l.nodeInSync, svc := some (id, d), chks := pg }
  match f.svc id with
  | .denied => { s with l := markChks (markSvc s.l id) (pg.map (·.1)) }
  | .fail => { s with ok := false }
  | .ok =>
    match s.c.register req with
    | none => { s with ok := false }
    | some c' => { s with l := { markChks (markSvc s.l id) (pg.map (·.1)) with nodeInSync := true }, c := c' }
  | .lost =>
    match s.c.register req with
    | none => { s with ok := false }
    | some c' => { s with c := c', ok := false }

/-- which check records survive `deleteService id`: all but the pending removals of checks bound
    (locally) to that service -/
def pruneKeep (id : Id) (_ : Id) : Ent ChkDef → Bool
  | .ent d _ _ _ true => decide (d.sid ≠ id)
  | _ => true

/-- `deleteService`: on success the record is dropped together with the pending removals of the
    checks that are bound (locally) to the service -/
def deleteService (f : Faults) (id : Id) (s : St) : St :=
  if id = "" then { s with ok := false }
  else match f.svc id with
  | .denied => { s with l := markSvc s.l id }
  | .fail => { s with ok := false }
  | .ok =>
    { s with
      l := { s.l with
             svcs := s.l.svcs.erase id
             chks := s.l.chks.filterVis (pruneKeep id)
             dfr := s.l.dfr.filter fun k => AMap.visKeep (pruneKeep id) s.l.chks k }
      c := s.c.deregSvc id }
  | .lost => { s with c := s.c.deregSvc id, ok := false }

def svcStep (cfg : Cfg) (f : Faults) (s : St) (id : Id) : St :=
  match s.l.svcs.get? id with
  | none => s
  | some (.ghost _) => deleteService f id s
  | some (.ent _ _ _ _ true) => deleteService f id s
  | some (.ent d tok loc false false) => syncService cfg f id d tok loc s
  | some (.ent _ _ _ true false) => s

/-- `syncCheck` pulls in the associated service when it is registered locally (not pending removal) -/
def checkSvc (l : Local) (sid : Id) : Option (Id × SvcDef) :=
  match l.svcs.get? sid with
  | some (.ent sd _ _ _ false) => some (sid, sd)
  | _ => none

def syncCheck (cfg : Cfg) (f : Faults) (k : Id) (d : ChkDef) (s : St) : St :=
  let req : RegReq := { nodeVal := cfg.nodeVal, skipNode := s.l.nodeInSync, svc := checkSvc s.l d.sid, chks := [(k, d)] }
  match f.chk k with
  | .denied => { s with l := markChk s.l k }
  | .fail => { s with ok := false }
  | .ok =>
    match s.c.register req with
    | none => { s with ok := false }
    | some c' => { s with l := { markChk s.l k with nodeInSync := true }, c := c' }
  | .lost =>
    match s.c.register req with
    | none => { s with ok := false }
    | some c' => { s with c := c', ok := false }

def deleteCheck (f : Faults) (k : Id) (s : St) : St :=
  if k = "" then { s with ok := false }
  else match f.chk k with
  | .denied => { s with l := markChk s.l k }
  | .fail => { s with ok := false }
  | .ok => { s with l := { (s.l.disarm k) with chks := s.l.chks.erase k }, c := s.c.deregChk k }
  | .lost => { s with c := s.c.deregChk k, ok := false }

def chkStep (cfg : Cfg) (f : Faults) (s : St) (k : Id) : St :=
  match s.l.chks.get? k with
  | none => s
  | some (.ghost _) => deleteCheck f k s
  | some (.ent _ _ _ _ true) => deleteCheck f k s
  | some (.ent d _ _ false false) => syncCheck cfg f k d { s with l := s.l.disarm k }   -- timer stopped and cleared
  | some (.ent _ _ _ true false) => s

/-- the keys a `range` visits: the observed order first, then whatever it did not mention -/
def visit (ord : List Id) (keys : List Id) : List Id := ord ++ keys.filter fun k => !ord.contains k

def svcLoop (cfg : Cfg) (ord : Order) (f : Faults) (s : St) : St :=
  (visit ord.svcs s.l.svcs.keys).foldl (svcStep cfg f) s

def chkLoop (cfg : Cfg) (ord : Order) (f : Faults) (s : St) : St :=
  (visit ord.chks s.l.chks.keys).foldl (chkStep cfg f) s

/-- the two loops of `SyncChanges` -/
def syncRest (cfg : Cfg) (ord : Order) (f : Faults) (s : St) : St :=
  chkLoop cfg ord f (svcLoop cfg ord f s)

/-- `SyncChanges`: node info first (an error there returns at once), then the services, then the
    checks, errors accumulated -/
def syncChanges (cfg : Cfg) (ord : Order) (f : Faults) (l : Local) (c : Cat) : St :=
  if l.nodeInSync then syncRest cfg ord f ⟨l, c, true⟩
  else if (syncNode cfg f ⟨l, c, true⟩).2 then syncRest cfg ord f (syncNode cfg f ⟨l, c, true⟩).1
  else (syncNode cfg f ⟨l, c, true⟩).1

/-- `SyncFull`: a failing read leaves everything as it was -/
def syncFull (cfg : Cfg) (ord : Order) (f : Faults) (l : Local) (c : Cat) : St :=
  if f.readSvcs && f.readChks then syncChanges cfg ord f (updateSyncState cfg l c) c
  else ⟨l, c, false⟩

/-! ### agent/ae/ae.go `nextFSMState` -/

inductive AeState where
  | fullSync | partialSync | retryFullSync | done
deriving DecidableEq, Repr

inductive AeEvent where
  | syncFullNotif | syncFullTimer | syncChangesNotif | shutdown
deriving DecidableEq, Repr

inductive AeAct where
  | idle | runFull | runPartial
deriving DecidableEq, Repr

/-- one transition: which sync (if any) is run, and the next state given its success.
    `none` result = the Go code panics ("invalid event"). -/
def aeNext (st : AeState) (paused : Bool) (ev : AeEvent) (syncOk : Bool) : Option (AeAct × AeState) :=
  match st with
  | .fullSync =>
    if paused then some (.idle, .retryFullSync)
    else if syncOk then some (.runFull, .partialSync) else some (.runFull, .retryFullSync)
  | .retryFullSync =>
    match ev with
    | .syncFullNotif | .syncFullTimer => some (.idle, .fullSync)
    | .shutdown => some (.idle, .done)
    | .syncChangesNotif => none
  | .partialSync =>
    match ev with
    | .syncFullNotif | .syncFullTimer => some (.idle, .fullSync)
    | .syncChangesNotif => if paused then some (.idle, .partialSync) else some (.runPartial, .partialSync)
    | .shutdown => some (.idle, .done)
  | .done => some (.idle, .done)

end CV.AE
