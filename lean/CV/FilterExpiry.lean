/-
CV.Filter.Expiry — model of token resolution with expiry (property C09, second half).

Mirrors, as the code is,
  * agent/structs/acl.go          `ACLToken.IsExpired` / `HasExpirationTime`
  * agent/consul/acl.go           `resolveIdentityFromToken`, `fetchAndCacheIdentityFromToken`,
                                  `resolveTokenToIdentityAndPolicies` (first round; policy resolution is
                                  assumed to succeed), `ResolveToken` (outcome classification)
  * agent/consul/acl_server.go    `Server.ResolveIdentityFromToken` (state-store backed, primary DC)
  * agent/consul/rpc.go           `maskResultsFilteredByACLs`
  * agent/consul/acl.go           the retry loops of `resolveTokenToIdentityAndPolicies` and
                                  `resolveTokenToIdentityAndRoles` (`resolveLoop`: up to 5 rounds, the expiry
                                  check in every round, `maybeHandleIdentityErrorDuringFetch`), and the entry
                                  points built on them (`ResolveToken`, `ResolveTokenAndDefaultMeta`, the cores
                                  of `ACL.PolicyResolve` / `ACL.RoleResolve`; agents resolve through the same
                                  `ACLResolver` with the client backend = `Backend.remote`)
  * agent/consul/acl_endpoint.go  expiry handling of `ACL.TokenRead`, `ACL.TokenList`;
    agent/consul/acl_token_exp.go the reaper
What resolving the role and policy links of an identity does with its TTL caches is C08's subject
(CV/AclRpc.lean `collect`, `resolveLinks`); here its result is an oracle (`LinkAns`): the theorems
hold for every answer sequence, so they do not depend on the contents of those caches.
Time is a `Nat` (any unit); `0` is Go's zero `time.Time`. The identity cache is an association list
keyed by the token secret (no eviction: the LRU is assumed large enough). Core-only Lean.
-/
import CV.Proto
namespace CV.Filter.Expiry

structure Token where
  secret   : String
  accessor : String
  exp      : Option Nat        -- `ExpirationTime`: `none` = nil pointer, `some 0` = the zero time
  grants   : List String       -- what the token's policies allow (abstract)
  link     : Nat := 0          -- 0: no links (service identities only), 1: a policy link, 2: a role link
deriving DecidableEq, Repr

/-- `HasExpirationTime`: `t.ExpirationTime != nil && !t.ExpirationTime.IsZero()` -/
def Token.hasExpirationTime (t : Token) : Bool :=
  match t.exp with
  | none => false
  | some e => e ≠ 0

/-- `IsExpired(asOf)`: `if asOf.IsZero() || !t.HasExpirationTime() { return false };
    return t.ExpirationTime.Before(asOf)` — strict: a token is still valid at the expiry instant. -/
def Token.isExpired (t : Token) (asOf : Nat) : Bool :=
  if asOf = 0 || !t.hasExpirationTime then false
  else match t.exp with
    | none => false
    | some e => e < asOf

inductive Down | allow | deny | extendCache | asyncCache
deriving DecidableEq, Repr

structure Cfg where
  ttl  : Nat       -- ACLTokenTTL
  down : Down      -- ACLDownPolicy (ACLDefaultPolicy is fixed to "deny")
deriving DecidableEq, Repr

structure CEntry where
  ident     : Token
  cacheTime : Nat
deriving DecidableEq, Repr

abbrev Cache := List (String × CEntry)

def Cache.get (c : Cache) (secret : String) : Option CEntry := (c.find? fun e => e.1 = secret).map (·.2)
def Cache.remove (c : Cache) (secret : String) : Cache := c.filter fun e => e.1 ≠ secret
def Cache.put (c : Cache) (secret : String) (e : CEntry) : Cache := (secret, e) :: c.remove secret

/-- What the primary answers to `ACL.TokenRead`. -/
inductive Rpc
  | found (t : Token)
  | foreignLocal          -- a local token of another datacenter
  | notFound
  | error
deriving DecidableEq, Repr

/-- Where identities come from. -/
inductive Backend
  | server (store : List Token)   -- primary-DC server: the state store (expired tokens may not be reaped yet)
  | remote (rpc : Rpc)            -- client agent / secondary without token replication
deriving Repr

inductive IdentRes
  | ident (t : Token)
  | notFound
  | remoteErr            -- `ACLRemoteError`
deriving DecidableEq, Repr

/-- `Server.ResolveIdentityFromToken` in the primary datacenter (the anonymous-token synthesis for a
    store without an anonymous token is not modelled). -/
def serverIdentity (store : List Token) (secret : String) (now : Nat) : IdentRes :=
  match store.find? fun t => t.secret = secret with
  | some t => if !t.isExpired now then .ident t else .notFound
  | none => .notFound

/-- `fetchAndCacheIdentityFromToken` -/
def fetchAndCache (cfg : Cfg) (c : Cache) (secret : String) (cached : Option CEntry) (rpc : Rpc) (now : Nat) :
    Cache × IdentRes :=
  match rpc with
  | .found t => (c.put secret ⟨t, now⟩, .ident t)
  | .foreignLocal => (c.remove secret, .remoteErr)      -- PermissionDenied, wrapped into ACLRemoteError by the caller
  | .notFound => (c.remove secret, .notFound)
  | .error =>
    match cached with
    | some ce =>
      if cfg.down = .extendCache ∨ cfg.down = .asyncCache then (c.put secret ⟨ce.ident, now⟩, .ident ce.ident)
      else (c.remove secret, .remoteErr)
    | none => (c.remove secret, .remoteErr)

/-- `resolveIdentityFromToken`. With `async-cache` and a stale entry the cached identity is returned
    at once and the fetch runs in the background; the model lets it finish before the next step. -/
def resolveIdentity (cfg : Cfg) (b : Backend) (c : Cache) (secret : String) (now : Nat) : Cache × IdentRes :=
  match b with
  | .server store => (c, serverIdentity store secret now)
  | .remote rpc =>
    match c.get secret with
    | some ce =>
      if now - ce.cacheTime ≤ cfg.ttl then (c, .ident ce.ident)
      else
        let (c', r) := fetchAndCache cfg c secret (some ce) rpc now
        if cfg.down = .asyncCache then (c', .ident ce.ident) else (c', r)
    | none => fetchAndCache cfg c secret none rpc now

inductive Outcome
  | granted (t : Token)      -- an authorizer compiled from the token's policies, identity = the token
  | notFound                 -- `acl.ErrNotFound`
  | down (allowAll : Bool)   -- primary unreachable: the down-policy authorizer with a "missing" identity
deriving DecidableEq, Repr

/-- `resolveTokenToIdentityAndPolicies` + `ResolveToken`: the expiry check sits after identity
    resolution, whatever its source (store, cache, fetch). -/
def resolveToken (cfg : Cfg) (b : Backend) (c : Cache) (secret : String) (now : Nat) : Cache × Outcome :=
  match resolveIdentity cfg b c secret now with
  | (c', .ident t) => if t.isExpired now then (c', .notFound) else (c', .granted t)
  | (c', .notFound) => (c', .notFound)
  | (c', .remoteErr) => (c', .down (cfg.down = .allow))

/-- `maskResultsFilteredByACLs` on top of `resolveIdentityFromToken`. -/
def mask (cfg : Cfg) (b : Backend) (c : Cache) (secret : String) (anonAccessor anonSecret : String)
    (now : Nat) (flag : Bool) : Cache × Bool :=
  if secret = "" then (c, false)
  else match resolveIdentity cfg b c secret now with
    | (c', .ident t) => if t.accessor = anonAccessor ∧ t.secret = anonSecret then (c', false) else (c', flag)
    | (c', _) => (c', false)

/-! ## All rounds: the retry loops and the entry points built on them -/

/-- What resolving the role / policy links of the identity comes to in one round (RPC mode):
    `ok`; the primary says the *token* is unknown (`acl.ErrNotFound` at top level — also what it says
    for an expired token); permission denied (our view of the token is stale: retry); any other
    failure without usable cached links (`ACLRemoteError`). The first two also drop the identity from
    the cache (`maybeHandleIdentityErrorDuringFetch`). -/
inductive LinkAns | ok | notFound | permDenied | error
deriving DecidableEq, Repr

/-- Which loop: `ResolveToken` (policies, through roles), the core of `ACL.PolicyResolve`, the core of
    `ACL.RoleResolve`. The control flow is the same; they differ in which links they follow. -/
inductive EntryPoint | token | policies | roles
deriving DecidableEq, Repr

/-- Does this entry point perform a link fetch for this identity? -/
def needsLink (ep : EntryPoint) (t : Token) : Bool :=
  match ep with
  | .roles => t.link == 2
  | _ => t.link != 0

/-- One round's inputs from the outside world (RPC mode). -/
structure Round where
  rpc  : Rpc
  link : LinkAns
deriving DecidableEq, Repr

inductive LoopRes
  | ok (t : Token)
  | notFound
  | remoteErr
  | denied          -- `tokenPolicyResolutionMaxRetries` rounds of permission denied: `lastIdentity, nil, lastErr`
  | noScript        -- the caller supplied fewer rounds than the loop consumed (engine: `bad-op`)
deriving DecidableEq, Repr

/-- `resolveTokenToIdentityAndPolicies` / `resolveTokenToIdentityAndRoles`: `for i := 0; i < 5; i++`.
    `store = some _`: server-backed (links are read from the state store, never fail).
    All rounds of one call see the same clock value (they are microseconds apart). -/
def resolveLoop (cfg : Cfg) (ep : EntryPoint) (store : Option (List Token)) :
    Nat → Cache → List Round → String → Nat → Cache × LoopRes
  | 0, c, _, _, _ => (c, .denied)
  | _ + 1, c, [], _, _ => (c, .noScript)
  | fuel + 1, c, r :: rest, secret, now =>
    let b : Backend := match store with
      | some st => .server st
      | none => .remote r.rpc
    match resolveIdentity cfg b c secret now with
    | (c', .ident t) =>
      if t.isExpired now then (c', .notFound)
      else if !needsLink ep t || store.isSome then (c', .ok t)
      else match r.link with
        | .ok => (c', .ok t)
        | .notFound => (c'.remove t.secret, .notFound)
        | .permDenied => resolveLoop cfg ep store fuel (c'.remove t.secret) rest secret now
        | .error => (c', .remoteErr)
    | (c', .notFound) => (c', .notFound)
    | (c', .remoteErr) => (c', .remoteErr)

/-- `tokenPolicyResolutionMaxRetries` = `tokenRoleResolutionMaxRetries` = 5 -/
def maxRetries : Nat := 5

inductive Outcome2
  | granted (t : Token)
  | notFound
  | down (allowAll : Bool)
  | denied
  | noScript
deriving DecidableEq, Repr

/-- `ResolveToken` (= `ResolveTokenAndDefaultMeta` up to enterprise-meta defaulting) over the loop. -/
def resolveTokenAll (cfg : Cfg) (store : Option (List Token)) (c : Cache) (script : List Round) (secret : String)
    (now : Nat) : Cache × Outcome2 :=
  match resolveLoop cfg .token store maxRetries c script secret now with
  | (c', .ok t) => (c', .granted t)
  | (c', .notFound) => (c', .notFound)
  | (c', .remoteErr) => (c', .down (cfg.down = .allow))
  | (c', .denied) => (c', .denied)
  | (c', .noScript) => (c', .noScript)

/-! ## Token endpoints and the reaper (server side, over the state store) -/

/-- `ACL.TokenRead` by secret: an expired token is "not found" although it is still stored. -/
def tokenRead (store : List Token) (secret : String) (now : Nat) : Option Token :=
  match store.find? fun t => t.secret = secret with
  | some t => if t.isExpired now then none else some t
  | none => none

/-- `ACL.TokenList`: expired tokens are skipped. -/
def tokenList (store : List Token) (now : Nat) : List Token := store.filter fun t => !t.isExpired now

/-- `ACLTokenListExpired` as a specification: the tokens with an expiration time before `asOf`. (The
    real index has one-second granularity and the scan stops at the first token that is not yet
    expired, so one run may return only a part of this list; the rest follows within a second.) -/
def listExpired (store : List Token) (asOf : Nat) : List Token := store.filter fun t => t.isExpired asOf

/-- One reaper run deleted the tokens with these accessors: acceptable iff each of them is stored and
    expired (`reapExpiredACLTokens` deletes what `ACLTokenListExpired` returned). -/
def reapOk (store : List Token) (now : Nat) (reaped : List String) : Bool :=
  reaped.all fun a => (listExpired store now).any fun t => t.accessor = a

def reapApply (store : List Token) (reaped : List String) : List Token :=
  store.filter fun t => !reaped.contains t.accessor

end CV.Filter.Expiry
