/-
CV.Filter.Expiry — model of token resolution with expiry (property C09, second half).

Mirrors, as the code is,
  * agent/structs/acl.go          `ACLToken.IsExpired` / `HasExpirationTime`
  * agent/consul/acl.go           `resolveIdentityFromToken`, `fetchAndCacheIdentityFromToken`,
                                  `resolveTokenToIdentityAndPolicies` (first round; policy resolution is
                                  assumed to succeed), `ResolveToken` (outcome classification)
  * agent/consul/acl_server.go    `Server.ResolveIdentityFromToken` (state-store backed, primary DC)
  * agent/consul/rpc.go           `maskResultsFilteredByACLs`
Time is a `Nat` (any unit); `0` is Go's zero `time.Time`. The identity cache is an association list
keyed by the token secret (no eviction: the LRU is assumed large enough). Core-only Lean.
-/
import CV.Proto
namespace CV.Filter.Expiry

structure Token where
  secret   : String
  accessor : String
  exp      : Option Nat        -- `ExpirationTime`: `none` = nil pointer, `some 0` = the zero time
  grants   : List String       -- what the token's policies allow (abstract)
deriving DecidableEq, Repr

/-- `HasExpirationTime`: `t.ExpirationTime != nil && !t.ExpirationTime.IsZero()` -/
def Token.hasExpirationTime (t : Token) : Bool :=
  match t.exp with
  | none => false
  | some e => e ≠ 0

/-- `IsExpired(asOf)`: `if asOf.IsZero() || !t.HasExpirationTime() { return false };
    return t.ExpirationTime.Before(asOf)` — strict: a token is still valid at the expiry instant. -/
def Token.isExpired (t : Token) (asOf : Nat) : Bool :=
  if asOf = 0 || !t.hasExpirationTime then false
  else match t.exp with
    | none => false
    | some e => e < asOf

inductive Down | allow | deny | extendCache | asyncCache
deriving DecidableEq, Repr

structure Cfg where
  ttl  : Nat       -- ACLTokenTTL
  down : Down      -- ACLDownPolicy (ACLDefaultPolicy is fixed to "deny")
deriving DecidableEq, Repr

structure CEntry where
  ident     : Token
  cacheTime : Nat
deriving DecidableEq, Repr

abbrev Cache := List (String × CEntry)

def Cache.get (c : Cache) (secret : String) : Option CEntry := (c.find? fun e => e.1 = secret).map (·.2)
def Cache.remove (c : Cache) (secret : String) : Cache := c.filter fun e => e.1 ≠ secret
def Cache.put (c : Cache) (secret : String) (e : CEntry) : Cache := (secret, e) :: c.remove secret

/-- What the primary answers to `ACL.TokenRead`. -/
inductive Rpc
  | found (t : Token)
  | foreignLocal          -- a local token of another datacenter
  | notFound
  | error
deriving DecidableEq, Repr

/-- Where identities come from. -/
inductive Backend
  | server (store : List Token)   -- primary-DC server: the state store (expired tokens may not be reaped yet)
  | remote (rpc : Rpc)            -- client agent / secondary without token replication
deriving Repr

inductive IdentRes
  | ident (t : Token)
  | notFound
  | remoteErr            -- `ACLRemoteError`
deriving DecidableEq, Repr

/-- `Server.ResolveIdentityFromToken` in the primary datacenter (the anonymous-token synthesis for a
    store without an anonymous token is not modelled). -/
def serverIdentity (store : List Token) (secret : String) (now : Nat) : IdentRes :=
  match store.find? fun t => t.secret = secret with
  | some t => if !t.isExpired now then .ident t else .notFound
  | none => .notFound

/-- `fetchAndCacheIdentityFromToken` -/
def fetchAndCache (cfg : Cfg) (c : Cache) (secret : String) (cached : Option CEntry) (rpc : Rpc) (now : Nat) :
    Cache × IdentRes :=
  match rpc with
  | .found t => (c.put secret ⟨t, now⟩, .ident t)
  | .foreignLocal => (c.remove secret, .remoteErr)      -- PermissionDenied, wrapped into ACLRemoteError by the caller
  | .notFound => (c.remove secret, .notFound)
  | .error =>
    match cached with
    | some ce =>
      if cfg.down = .extendCache ∨ cfg.down = .asyncCache then (c.put secret ⟨ce.ident, now⟩, .ident ce.ident)
      else (c.remove secret, .remoteErr)
    | none => (c.remove secret, .remoteErr)

/-- `resolveIdentityFromToken`. With `async-cache` and a stale entry the cached identity is returned
    at once and the fetch runs in the background; the model lets it finish before the next step. -/
def resolveIdentity (cfg : Cfg) (b : Backend) (c : Cache) (secret : String) (now : Nat) : Cache × IdentRes :=
  match b with
  | .server store => (c, serverIdentity store secret now)
  | .remote rpc =>
    match c.get secret with
    | some ce =>
      if now - ce.cacheTime ≤ cfg.ttl then (c, .ident ce.ident)
      else
        let (c', r) := fetchAndCache cfg c secret (some ce) rpc now
        if cfg.down = .asyncCache then (c', .ident ce.ident) else (c', r)
    | none => fetchAndCache cfg c secret none rpc now

inductive Outcome
  | granted (t : Token)      -- an authorizer compiled from the token's policies, identity = the token
  | notFound                 -- `acl.ErrNotFound`
  | down (allowAll : Bool)   -- primary unreachable: the down-policy authorizer with a "missing" identity
deriving DecidableEq, Repr

/-- `resolveTokenToIdentityAndPolicies` + `ResolveToken`: the expiry check sits after identity
    resolution, whatever its source (store, cache, fetch). -/
def resolveToken (cfg : Cfg) (b : Backend) (c : Cache) (secret : String) (now : Nat) : Cache × Outcome :=
  match resolveIdentity cfg b c secret now with
  | (c', .ident t) => if t.isExpired now then (c', .notFound) else (c', .granted t)
  | (c', .notFound) => (c', .notFound)
  | (c', .remoteErr) => (c', .down (cfg.down = .allow))

/-- `maskResultsFilteredByACLs` on top of `resolveIdentityFromToken`. -/
def mask (cfg : Cfg) (b : Backend) (c : Cache) (secret : String) (anonAccessor anonSecret : String)
    (now : Nat) (flag : Bool) : Cache × Bool :=
  if secret = "" then (c, false)
  else match resolveIdentity cfg b c secret now with
    | (c', .ident t) => if t.accessor = anonAccessor ∧ t.secret = anonSecret then (c', false) else (c', flag)
    | (c', _) => (c', false)

end CV.Filter.Expiry
