/-
C07 — catalog integrity: no orphans, complete cascades, derived views agree.  (work in progress)
-/
import CV.Proofs.StoreCatApply
namespace CV.Props.C07
open CV CV.Store

/-- deregistering a node in one catalog of the shared store model: nothing that remains names the node -/
theorem base_deregister_node_total {s s' : State} {idx : Nat} {name : String}
    (hr : deleteNode s idx name = .ok s') (hfound : (nodeFind s name).isSome = true) :
    (∀ v ∈ s'.svcs, lc v.node ≠ lc name) ∧ (∀ c ∈ s'.chks, lc c.node ≠ lc name) ∧
    (∀ x ∈ s'.sessions, lc x.node ≠ lc name) ∧ nodeFind s' name = none := by
  rcases deleteNode_spec hr with ⟨hnone, _⟩ | h
  · rw [hnone] at hfound; simp at hfound
  · refine ⟨fun v hv => (h.svcs v hv).2, ?_, fun x hx => (h.sess x hx).2, ?_⟩
    · intro c hc
      obtain ⟨c0, _, hsame, hne⟩ := h.chks c hc
      rw [hsame.1]; exact hne
    · unfold nodeFind; rw [h.nodes]; exact tfind_terase_self _ _

end CV.Props.C07
