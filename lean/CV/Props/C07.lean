/-
C07 — catalog integrity: no orphans, complete cascades, derived views agree.

Model: `CV.Store.CatX` (`XState`, `applyX`, `replayX`), the catalog layer built around the shared store
model `CV.Store` (the local catalog and one catalog per peer are each a base `State`; the wrapper adds
service kinds, coordinates, kind-service-names, virtual IPs, usage, config entries, the virtual-ips flag).

Hypothesis of the reachability theorems: `XLog.wf` — the node names the commands hand to the catalog are
NUL-free in their lower-cased spelling (`NF`). memdb builds the two-part primary keys of services and checks
as `lower(node) ++ NUL ++ lower(id)`; with a NUL inside a node name two different (node, id) pairs share a
key and the property is false for the code and for the model alike (the harness never generates such
names; every other string is unconstrained).
-/
import CV.Proofs.StoreCatX
import CV.Proofs.StoreCatVip
import CV.Proofs.StoreCatCex
import CV.Proofs.StoreCatRename
import CV.Proofs.StoreCatUsage
import CV.Proofs.StoreCatSync
import CV.Proofs.StoreCatUsageT
import CV.Proofs.StoreCatUsageC
import CV.Proofs.StoreCatDerived
import CV.Proofs.StoreCatUsageK
import CV.Proofs.StoreCatUsageN
import CV.Proofs.StoreGwProj
import CV.Proofs.StoreGwTopo
import CV.Proofs.StoreGwIngress
import CV.Proofs.StoreGwCfg
namespace CV.Props.C07
open CV CV.Store

/-! ### 1. no orphans, in every reachable state -/

/-- The catalog invariant, spelled out: in EVERY catalog (the local one and each peer's imported one) every
    service instance and every health check has its node, every service-scoped check has its service
    instance, every session its node; every coordinate belongs to a registered local node. -/
def CatInv (s : XState) : Prop :=
  (∀ q, ∀ v ∈ (s.cat q).st.svcs, (nodeFind (s.cat q).st v.node).isSome = true) ∧
  (∀ q, ∀ c ∈ (s.cat q).st.chks, (nodeFind (s.cat q).st c.node).isSome = true ∧
      (c.svcId ≠ "" → (svcFind (s.cat q).st c.node c.svcId).isSome = true)) ∧
  (∀ x ∈ s.loc.st.sessions, (nodeFind s.loc.st x.node).isSome = true) ∧
  (∀ co ∈ s.coords, (nodeFind s.loc.st co.node).isSome = true)

theorem catInv_of_catOK {s : XState} (h : CatOK s) : CatInv s := by
  refine ⟨fun q => (h.orphan q).svc_node, fun q c hc => ⟨(h.orphan q).chk_node c hc, (h.orphan q).chk_svc c hc⟩, ?_, h.coords⟩
  have := (h.orphan "").sess_node
  rw [← loc_eq_cat] at this
  exact this

/-- **No orphans, for every history.** Whatever sequence of commands (register / deregister of nodes,
    services of every kind and checks, local and imported; node renames by ID; coordinate batches; config
    entry writes and deletes; the virtual-ips flag; sessions; KV verbs; transactions) is applied to the empty
    store, the catalog invariant holds in the state reached. Unbounded: all logs, all raft indexes. -/
theorem cat_inv_reachable (log : XLog) (hwf : XLog.wf log) : CatInv (replayX XState.empty log) :=
  catInv_of_catOK (catOK_replayX log _ hwf CatOK.empty)

/-- **One row per primary key**: in every reachable state, in every catalog, two node rows with the same
    (lower-cased) name are the same row, and so are two service rows with the same (node, id) key — the lists are
    strictly sorted by key, as memdb's primary index keeps them. -/
theorem one_row_per_key_reachable (log : XLog) (hwf : XLog.wf log) (q : String) :
    let c := (replayX XState.empty log).cat q
    (∀ a ∈ c.st.nodes, ∀ b ∈ c.st.nodes, a.pk = b.pk → a = b) ∧ (∀ a ∈ c.st.svcs, ∀ b ∈ c.st.svcs, a.pk = b.pk → a = b) := by
  have h := (catOK_replayX log _ hwf CatOK.empty).orphan q
  exact ⟨fun a ha b hb hk => sortedBy_unique h.srt_nodes ha hb hk, fun a ha b hb hk => sortedBy_unique h.srt_svcs ha hb hk⟩

/-- **The wrapper's attribute table is always in step with the service table** (no hypothesis on the log): in
    every reachable state, for every catalog, `ext` has exactly the primary keys of the service table, in the same
    order; hence the joined view `rows` keeps every service row, and the model-internal error `desync` (a service
    row without attributes) is never raised from a reachable state. -/
theorem ext_in_step_reachable (log : XLog) (q : String) :
    let c := (replayX XState.empty log).cat q
    c.ext.map SvcX.pk = c.st.svcs.map Svc.pk ∧ c.rows.length = c.st.svcs.length := by
  have h := syncAll_replayX log XState.empty SyncAll.empty q
  exact ⟨h, rows_length_of_sync h⟩

/-- the invariant is inductive: one committed command preserves it from ANY state that satisfies it -/
theorem cat_inv_step {s : XState} (idx : Nat) (c : XCmd) (hwf : c.wf) (hs : CatOK s) : CatOK (applyX s idx c).1 :=
  catOK_applyX idx c hwf hs

/-! ### 2. cascades -/

/-- **Deregistering a node removes everything that names it**: after a successful node deregistration in
    catalog `p` the node row is gone and no service, check or session of that catalog names the node; for the
    local catalog no coordinate does either. (Also what the rename-by-ID inside `ensureNodeX` runs.) -/
theorem deregister_node_total {s s' : XState} {idx : Nat} {p name : String}
    (h : deregisterX s idx p name "" "" = .ok s') (hfound : (nodeFind (s.cat p).st name).isSome = true) :
    nodeFind (s'.cat p).st name = none ∧
    (∀ v ∈ (s'.cat p).st.svcs, lc v.node ≠ lc name) ∧
    (∀ c ∈ (s'.cat p).st.chks, lc c.node ≠ lc name) ∧
    (∀ x ∈ (s'.cat p).st.sessions, lc x.node ≠ lc name) ∧
    (p = "" → ∀ co ∈ s'.coords, lc co.node ≠ lc name) := by
  have h' : deleteNodeX s p idx name = .ok s' := by simpa [deregisterX] using h
  obtain ⟨st', d, k, c⟩ := deleteNodeX_step h'
  rw [k.st]
  rcases deleteNode_spec d with ⟨hnone, _⟩ | hspec
  · rw [hnone] at hfound; simp at hfound
  · refine ⟨?_, fun v hv => (hspec.svcs v hv).2, ?_, fun x hx => (hspec.sess x hx).2, ?_⟩
    · unfold nodeFind; rw [hspec.nodes]; exact tfind_terase_self _ _
    · intro c hc
      obtain ⟨c0, _, hsame, hne⟩ := hspec.chks c hc
      rw [hsame.1]; exact hne
    · intro hp co hco
      rw [if_pos ⟨hp, hfound⟩] at c
      rw [c] at hco
      simpa using (List.mem_filter.mp hco).2

/-- **Deregistering a service instance removes its checks**: after a successful deregistration of instance
    (`node`, `id`) of catalog `p` the row is gone and no check of that catalog is bound to it. -/
theorem deregister_service_removes_checks {s s' : XState} {idx : Nat} {p node id : String}
    (h : deleteServiceX s p idx node id = .ok s') (hfound : (svcFind (s.cat p).st node id).isSome = true) :
    svcFind (s'.cat p).st node id = none ∧
    ∀ c ∈ (s'.cat p).st.chks, ¬ (lc c.node = lc node ∧ lc c.svcId = lc id) := by
  obtain ⟨st', d, k, _⟩ := deleteServiceX_step h
  rw [k.st]
  obtain ⟨_, a2, _, a4⟩ := deleteService_spec d
  refine ⟨by unfold svcFind; rw [a2]; exact tfind_terase_self _ _, ?_⟩
  intro c hc
  obtain ⟨c0, _, hsame, hnm⟩ := a4 c hc
  rw [hsame.1, hsame.2.2]
  exact hnm hfound

/-- **A check is inserted only under its parents**: a check whose node is absent is refused with
    `missing-node`; one whose node exists but whose service instance does not with `missing-service`; whenever
    the insertion succeeds both parents exist. (On a refusal the transaction is aborted: `apply` returns the
    state unchanged.) -/
theorem check_insert_requires_parents (s : State) (idx : Nat) (p : Bool) (hc : Chk) :
    (nodeFind s hc.node = none → ensureCheck s idx p hc = .error .missingNode) ∧
    ((nodeFind s hc.node).isSome = true → hc.svcId ≠ "" → svcFind s hc.node hc.svcId = none →
        ensureCheck s idx p hc = .error .missingService) ∧
    (∀ s', ensureCheck s idx p hc = .ok s' →
        (nodeFind s hc.node).isSome = true ∧ (hc.svcId ≠ "" → (svcFind s hc.node hc.svcId).isSome = true)) := by
  refine ⟨?_, ?_, ?_⟩
  · intro hnone
    unfold ensureCheck
    generalize fuelFor s = n
    have : checkPrep s idx p hc = .error .missingNode := by
      unfold checkPrep
      extract_lets ex hcA hcB
      have hA : hcA.node = hc.node := by
        unfold hcA
        cases ex with
        | some x => rfl
        | none => dsimp only; split <;> rfl
      have hB : hcB.node = hc.node := by
        unfold hcB
        split
        · exact hA
        · exact hA
      rw [hB, hnone]
    cases n <;> rw [ensureCheckF, this]
  · intro hsome hne hnone
    unfold ensureCheck
    generalize fuelFor s = n
    have : checkPrep s idx p hc = .error .missingService := by
      unfold checkPrep
      extract_lets ex hcA hcB
      have hA : hcA.node = hc.node ∧ hcA.svcId = hc.svcId := by
        unfold hcA
        cases ex with
        | some x => exact ⟨rfl, rfl⟩
        | none => dsimp only; split <;> exact ⟨rfl, rfl⟩
      have hB : hcB.node = hc.node ∧ hcB.svcId = hc.svcId := by
        unfold hcB
        split
        · exact hA
        · exact hA
      rw [hB.1, hB.2]
      cases hq : nodeFind s hc.node with
      | none => rw [hq] at hsome; simp at hsome
      | some _ =>
        simp only
        rw [if_pos hne, hnone]
    cases n <;> rw [ensureCheckF, this]
  · intro s' hok
    have := ensSpec_ensureCheck hok
    exact ⟨this.node_found, this.svc_found⟩

/-- **Rename by node ID moves nothing stale**: a successful registration whose node ID is registered under
    another name (the new name being free) leaves no row that references the old name — no node row, no
    service, no check, no session in that catalog and, for the local catalog, no coordinate. -/
theorem rename_by_id_moves_nothing_stale {s s' : XState} {idx : Nat} {r : XRegReq} {n0 : Node}
    (h : registerX s idx r = .ok s') (hid : r.node.id ≠ "")
    (hby : nodeFindByID (s.cat r.peer).st r.node.id = some n0) (hne : lc n0.name ≠ lc r.node.name)
    (hfree : nodeFind (s.cat r.peer).st r.node.name = none) :
    nodeFind (s'.cat r.peer).st n0.name = none ∧
    (∀ v ∈ (s'.cat r.peer).st.svcs, lc v.node ≠ lc n0.name) ∧
    (∀ c ∈ (s'.cat r.peer).st.chks, lc c.node ≠ lc n0.name) ∧
    (∀ x ∈ (s'.cat r.peer).st.sessions, lc x.node ≠ lc n0.name) ∧
    (r.peer = "" → ∀ co ∈ s'.coords, lc co.node ≠ lc n0.name) := by
  obtain ⟨a, b, c⟩ := rename_by_id_clean h hid hby hne hfree
  exact ⟨a, b.svcs, b.chks, b.sess, c⟩

/-! ### 3. derived views

The full-strength statements (`UsageExact`, `KindNamesExact`, `vipWellFormed` in CV.Store.CatXSpec: each derived
table equals its recomputation from the registrations and config entries) are FALSE for the code and therefore
for the faithful model; each is kept with a counterexample on a reachable state (the same histories are in the
harness corpus and recorded in known_findings.txt) and with the part that does hold. -/

/-- **No two services are ever assigned the same virtual IP** — in every reachable state (no hypothesis on the
    log): the addresses of the service-virtual-ips table are pairwise distinct, there is one row per (peer,
    service), the address on the free list is not an assigned one, and every address handed out lies between 1
    and the counter. -/
theorem vip_unique_reachable (log : XLog) : VipWF (replayX XState.empty log) := vipWF_replayX log

/-- the same invariant is inductive: any command preserves it from any state -/
theorem vip_unique_step {s : XState} (idx : Nat) (c : XCmd) (hs : VipWF s) : VipWF (applyX s idx c).1 :=
  vc_applyX vipWF_closed vipWF_usage vipWF_cfg idx c hs

/-- FULL-STRENGTH `vipWellFormed` fails: "a virtual IP advertised by any catalog instance equals its service's
    current assignment" is false in a reachable state (the address is freed when no instance NAMED like the
    service and no config entry remains, while the sidecars advertise it). -/
theorem vip_agrees_counterexample : ∃ log, XLog.wf log ∧ ¬ VipAgrees (replayX XState.empty log) :=
  ⟨Cex.logVip, Cex.logVip_wf, by rw [Cex.replay_logVip]; exact Cex.t4_not_agree.1⟩

theorem vip_wellformed_counterexample : ∃ log, XLog.wf log ∧ ¬ vipWellFormed (replayX XState.empty log) := by
  obtain ⟨log, hwf, h⟩ := vip_agrees_counterexample
  exact ⟨log, hwf, fun hw => h hw.2.2⟩

/-- PARTIAL: what does hold of `VipAgrees` — at the moment an instance is (re-)registered, the address written
    into its row is the address the table assigns to its Connect name (so a disagreement can only arise later,
    by a free). Together with `vip_unique_reachable` this is `vipWellFormed` minus "…and stays so". -/
theorem vip_agrees_at_registration_partial {s s' : XState} {p node : String} {idx : Nat} {q : SvcReq}
    (h : ensureServiceX s p idx node q = .ok s') :
    ∀ e, extFind (s'.cat p) node q.id = some e → ∀ ip, e.vip = some ip →
      ∃ a ∈ s'.vips, a.pk = vipKey p q.connectTarget ∧ a.ip = ip :=
  ensureServiceX_vip_agrees h

/-- FULL-STRENGTH `KindNamesExact` fails: a connect-enabled row outlives the last instance that served the
    name through Connect (`ensureServiceTxn` only upserts). -/
theorem kind_names_exact_counterexample : ∃ log, XLog.wf log ∧ ¬ KindNamesExact (replayX XState.empty log) :=
  ⟨Cex.logKsn, Cex.logKsn_wf, by rw [Cex.replay_logKsn]; exact Cex.s2_not_exact⟩

/-- FULL-STRENGTH `UsageExact` fails: one instance re-registered under a spelling that differs only in case
    makes the service-names counter 2 in a catalog with a single service instance. -/
theorem usage_exact_counterexample : ∃ log, XLog.wf log ∧ ¬ UsageExact (replayX XState.empty log) ∧
    usageGet (replayX XState.empty log) "service-names" = 2 ∧ (replayX XState.empty log).loc.st.svcs.length = 1 :=
  ⟨Cex.logUsage, Cex.logUsage_wf, by rw [Cex.replay_logUsage]; exact Cex.u2_not_exact⟩

/-- PARTIAL: the part of `UsageExact` proved so far — the `nodes` counter equals its recomputation (the number
    of node rows of the local catalog) in every reachable state. (The other counters are compared with the real
    store line by line on every run; `service-names` and `billable-services` are NOT exact, see the
    counterexample above and known_findings.txt; for `services` / `connect-mesh-*` / `config-entries-*` / `kvs`
    the same argument applies once the remaining tables are shown to hold one row per key.) -/
theorem usage_nodes_exact_partial (log : XLog) (hwf : XLog.wf log) :
    usageGet (replayX XState.empty log) "nodes" = usageOf (replayX XState.empty log) "nodes" := by
  have h := usage_nodes_replayX log XState.empty hwf CatOK.empty (by simp [usageGet, XState.empty, tfind])
  rw [h]
  simp [usageOf]

/-! ### round 2: the derived views against their recomputation, in every reachable state

The model carries a GHOST record (`XState.ghost`; no function reads it, the store has no counterpart, the engine does
not print it): the keys of derived rows at the moments one of the recorded mechanisms fires —
  * `freedAdvertised`: `freeServiceVirtualIP` frees an assignment while a catalog row advertises its address;
  * `staleKsn`: (a) a local instance is re-registered under another kind / name / Connect name (its old keys),
    (b) an instance is deregistered while instances of its name remain, none of its kind (its (kind, name) key),
    (c) a service-defaults entry with a Destination is overwritten by one without (the destination key).
The theorems below say: a derived row can disagree with the recomputation ONLY at a key listed there. -/

/-- hypothesis of the derived-view theorems on a log: the kind of every registered instance is one of the six kinds
    an instance can have (not the two names of derived rows), the kinds of config entries are lower-case and NUL-free
    (every kind consul knows is). No hypothesis on node names. -/
def LogOk (log : XLog) : Prop := XLog.reqOk SvcReq.real log

/-- **Virtual IPs, precisely**: in every reachable state, the virtual IP a catalog row (local or imported) advertises
    is its service's current assignment — or the assignment's key is one that was freed while a row advertised it. -/
theorem vip_agrees_or_freed_reachable (log : XLog) (hw : LogOk log) :
    let s := replayX XState.empty log
    ∀ q, ∀ r ∈ (s.cat q).rows, ∀ ip sn, r.2.vip = some ip → connectName r = some sn →
      (∃ a ∈ s.vips, a.pk = vipKey q sn ∧ a.ip = ip) ∨ vipKey q sn ∈ s.ghost.freedAdvertised :=
  (dinv_replayX log hw).vip

/-- PARTIAL (log hypothesis "no assignment was freed while advertised" — the one known mechanism): the
    FULL-STRENGTH `vipWellFormed` holds in the state reached. -/
theorem vip_wellformed_partial (log : XLog) (hw : LogOk log)
    (hfree : (replayX XState.empty log).ghost.freedAdvertised = []) : vipWellFormed (replayX XState.empty log) := by
  have hv := vipWF_replayX log
  refine ⟨hv.nodup, hv.free_not_assigned, ?_⟩
  intro q r hr ip hip sn hsn
  rcases (dinv_replayX log hw).vip q r hr ip sn hip hsn with h | h
  · exact h
  · rw [hfree] at h; cases h

/-- **kind-service-names is complete**: in every reachable state every pair the registrations and config entries
    give — each local instance under its kind, each name served through Connect under connect-enabled, each
    service-defaults Destination — has its row. -/
theorem kind_names_complete_reachable (log : XLog) (hw : LogOk log) :
    let s := replayX XState.empty log
    ∀ k n, (k, n) ∈ kindNamesOf s → ∃ x ∈ s.kindNames, x.kind = k ∧ lc x.name = n := by
  intro s k n h
  have hc := (dinv_replayX log hw).complete
  unfold kindNamesOf at h
  simp only [List.mem_append, List.mem_map, List.mem_filterMap] at h
  rcases h with (⟨r, hr, he⟩ | ⟨r, hr, he⟩) | ⟨c, hcm, he⟩
  · simp only [Prod.mk.injEq] at he
    obtain ⟨x, hx, h1, h2⟩ := hc.inst r hr
    exact ⟨x, hx, h1.trans he.1, h2.trans he.2⟩
  · cases hq : connectName r with
    | none => rw [hq] at he; simp at he
    | some m =>
      rw [hq] at he
      simp only at he
      split at he
      · simp at he
      · next hne =>
        simp only [Option.some.injEq, Prod.mk.injEq] at he
        obtain ⟨x, hx, h1, h2⟩ := hc.conn r hr m hq hne
        exact ⟨x, hx, h1.trans he.1, h2.trans he.2⟩
  · split at he
    · next hcond =>
      simp only [Option.some.injEq, Prod.mk.injEq] at he
      obtain ⟨x, hx, h1, h2⟩ := hc.dest c hcm hcond.1 hcond.2
      exact ⟨x, hx, h1.trans he.1, h2.trans he.2⟩
    · simp at he

theorem ksnJust_mem {s : XState} {x : KsnRow} (h : KsnJust s x) : (x.kind, lc x.name) ∈ kindNamesOf s := by
  unfold kindNamesOf
  simp only [List.mem_append, List.mem_map, List.mem_filterMap]
  rcases h with ⟨r, hr, h1, h2⟩ | ⟨hk, r, hr, n, hc, hne, hn⟩ | ⟨hk, c, hc, h1, h2, h3⟩
  · exact Or.inl (Or.inl ⟨r, hr, by rw [h1, h2]⟩)
  · exact Or.inl (Or.inr ⟨r, hr, by rw [hc]; simp only [hne, if_false, hk, hn]⟩)
  · exact Or.inr ⟨c, hc, by rw [if_pos ⟨h1, h2⟩, hk, h3]⟩

/-- **kind-service-names is sound, or known**: in every reachable state every row is justified by a local instance /
    a Connect name / a service-defaults Destination — or its key is one the three recorded mechanisms left behind. -/
theorem kind_names_sound_or_known_reachable (log : XLog) (hw : LogOk log) :
    let s := replayX XState.empty log
    ∀ x ∈ s.kindNames, (x.kind, lc x.name) ∈ kindNamesOf s ∨ x.pk ∈ s.ghost.staleKsn := by
  intro s x hx
  rcases (dinv_replayX log hw).sound x hx with h | h
  · exact Or.inl (ksnJust_mem h)
  · exact Or.inr h

/-- PARTIAL (log hypothesis "none of the recorded mechanisms fired"): the FULL-STRENGTH `KindNamesExact` holds. -/
theorem kind_names_exact_partial (log : XLog) (hw : LogOk log)
    (hstale : (replayX XState.empty log).ghost.staleKsn = []) : KindNamesExact (replayX XState.empty log) := by
  intro k n
  constructor
  · rintro ⟨x, hx, rfl, rfl⟩
    rcases kind_names_sound_or_known_reachable log hw x hx with h | h
    · exact h
    · rw [hstale] at h; cases h
  · intro h
    obtain ⟨x, hx, h1, h2⟩ := kind_names_complete_reachable log hw k n h
    exact ⟨x, hx, h1, h2⟩

/-- **Usage counters, exact in every reachable state**: `nodes`, `services`, `connect-mesh-<kind>` for the five
    non-typical kinds and `connect-mesh-connect-native` equal their recomputation from the local catalog
    (hypothesis: NUL-free node names, as for the catalog invariant). -/
theorem usage_catalog_exact_reachable (log : XLog) (hwf : XLog.wf log) :
    let s := replayX XState.empty log
    usageGet s "nodes" = usageOf s "nodes" ∧ usageGet s "services" = usageOf s "services" ∧
    (∀ k ∈ [Kind.connectProxy, .meshGateway, .terminatingGateway, .ingressGateway, .apiGateway],
      usageGet s (connectUsageName k.raw) = (s.loc.rows.filter fun r => r.2.kind == k).length) ∧
    usageGet s "connect-mesh-connect-native" = usageOf s "connect-mesh-connect-native" := by
  intro s
  have h := usageInv_replayX log XState.empty hwf CatOK.empty SyncAll.empty UsageInv.empty
  refine ⟨by rw [h.nodes]; simp [usageOf, s], by rw [h.services]; simp [usageOf, s], ?_, ?_⟩
  · intro k hk
    refine h.kind k ?_
    intro hh; subst hh; simp at hk
  · have := h.native
    simp only [connectUsageName] at this
    simp only [usageOf]
    exact this

/-- **`config-entries-<kind>` is exact in every reachable state**, for every lower-case kind (hypothesis: the kinds of
    the config entries the log writes are lower-case and NUL-free). -/
theorem usage_config_exact_reachable (log : XLog) (hw : XLog.cfgWf log) (k : String) (hk : lc k = k) :
    let s := replayX XState.empty log
    usageGet s ("config-entries-" ++ k) = (s.cfg.filter fun c => c.kind == k).length :=
  usage_cfg_replayX k hk log XState.empty hw CfgOk.empty (by simp [usageGet, XState.empty, tfind])

/-- **`kvs` is exact in every reachable state** (no hypothesis on the log): the counter equals the number of rows of
    the KV table. -/
theorem usage_kvs_exact_reachable (log : XLog) :
    usageGet (replayX XState.empty log) "kvs" = usageOf (replayX XState.empty log) "kvs" := by
  have h := usage_kvs_replayX log XState.empty (by simp [KvQ, KvSorted, XState.empty]) (by simp [usageGet, XState.empty, tfind])
  rw [h]; simp [usageOf]

/-- PARTIAL (`service-names`; log hypothesis `CaseOkAlong`: in no transaction of the run do the local catalog before
    and after together hold two service names that differ only by case — the one known mechanism,
    `usage_exact_counterexample`): the counter equals the number of distinct service names in the state reached. -/
theorem usage_service_names_exact_partial (log : XLog) (hwf : XLog.wf log) (hcase : CaseOkAlong XState.empty log) :
    usageGet (replayX XState.empty log) "service-names" = usageOf (replayX XState.empty log) "service-names" := by
  have h := usage_names_replayX log XState.empty hwf CatOK.empty SyncAll.empty hcase
    (by simp [usageGet, XState.empty, tfind, lcNames])
  rw [h]; simp [usageOf, localServiceNames, lcNames]

/-! ### stage 2: gateway-services and mesh-topology (CV.Store.GwX)

`GState` = `XState` + the two tables, maintained by the hooks consul runs inside `ensureServiceTxn`, `deleteServiceTxn`,
`insertConfigEntryWithTxn`, `deleteConfigEntryTxn`. The engine runs `applyG`; both tables are compared with the real
store after every command (the `xdump` line). -/

/-- **Stage 2 is a conservative extension**: the catalog component and the answer of the G-level step are those of
    `applyX`; hence every theorem above about `replayX` holds of the catalog component of the state the engine keeps. -/
theorem stage2_conservative_step (g : GState) (idx : Nat) (c : XCmd) :
    ((applyG g idx c).1.x, (applyG g idx c).2) = applyX g.x idx c := proj_applyG g idx c

theorem stage2_conservative_reachable (log : XLog) : (replayG GState.empty log).x = replayX XState.empty log :=
  proj_replayG log GState.empty

/-- hypothesis of the mesh-topology theorems on a log, for a set `Gn` of (lower-cased) gateway names: instance kinds are
    real, proxy destinations are NUL-free and are not gateway names, config kinds are lower-case and NUL-free, ingress /
    terminating gateway entries are named in `Gn`. -/
def LogOkG (Gn : List String) (log : XLog) : Prop := XLog.gOk (WG Gn) (WcG Gn) log

/-- **mesh-topology holds no stale sidecar pair, or it is known**: in every reachable state, every row whose downstream
    is not a gateway name is declared by a sidecar registration (of the local or of an imported catalog: upstream `u` of a
    connect-proxy instance with destination `d` gives the pair `u <- d`) — or its key is listed in the ghost record
    `staleTopo`, which is written only when (a) a sidecar instance id is re-registered under another kind / destination /
    upstream spelling, (b) an imported sidecar is deregistered (`cleanupMeshTopology` returns early for peers), (c) a local
    sidecar is deregistered and a leftover reference keeps the row, (d) a connect-native instance is registered with
    upstreams — and only for a pair that is then left without any declaring sidecar. -/
theorem topology_sound_or_known_reachable (Gn : List String) (hGn : ∀ n ∈ Gn, NF n) (hnil : "" ∉ Gn) (log : XLog)
    (hw : LogOkG Gn log) :
    let g := replayG GState.empty log
    ∀ r ∈ g.t.topo, lc r.dn ∉ Gn →
      (∃ q, ∃ s ∈ (g.x.cat q).rows, s.2.kind = .connectProxy ∧ ∃ u ∈ s.2.ups, pk2 u s.2.dest = r.pk) ∨ r.pk ∈ g.gh.staleTopo := by
  intro g r hr hout
  rcases (gi_replayG hGn hnil log hw).sound r hr hout with ⟨q, s, hs, hd⟩ | h
  · exact Or.inl ⟨q, s, hs, declares_iff.mp hd⟩
  · exact Or.inr h

/-- **mesh-topology misses no sidecar pair, or it is known**: in every reachable state every pair a LOCAL sidecar declares
    (downstream not a gateway name) has its row — or its key is listed in `lostTopo`, written only when a registration /
    deregistration removes the row of a pair that a local sidecar still declares: (e) `DeleteAll` when ONE sidecar drops the
    upstream, (f) the last reference went while another declaring sidecar was not referenced. -/
theorem topology_complete_or_known_reachable (Gn : List String) (hGn : ∀ n ∈ Gn, NF n) (hnil : "" ∉ Gn) (log : XLog)
    (hw : LogOkG Gn log) :
    let g := replayG GState.empty log
    ∀ s ∈ g.x.loc.rows, s.2.kind = .connectProxy → lc s.2.dest ∉ Gn → NF s.2.dest → ∀ u ∈ s.2.ups,
      (∃ r ∈ g.t.topo, r.pk = pk2 u s.2.dest) ∨ pk2 u s.2.dest ∈ g.gh.lostTopo := by
  intro g s hs hk hout hnf u hu
  rcases (gi_replayG hGn hnil log hw).complete s hs hk hout hnf u hu with h | h
  · exact Or.inl (hasTopo_iff.mp h)
  · exact Or.inr h

/-- PARTIAL (log hypothesis "none of the recorded sidecar mechanisms fired": both ghost lists empty): on pairs whose
    downstream is not a gateway name, mesh-topology is EXACTLY the set of pairs the sidecar registrations declare — every row
    is declared, every locally declared pair has its row. -/
theorem topology_sidecar_exact_partial (Gn : List String) (hGn : ∀ n ∈ Gn, NF n) (hnil : "" ∉ Gn) (log : XLog)
    (hw : LogOkG Gn log) (hs : (replayG GState.empty log).gh.staleTopo = []) (hl : (replayG GState.empty log).gh.lostTopo = []) :
    let g := replayG GState.empty log
    (∀ r ∈ g.t.topo, lc r.dn ∉ Gn →
      ∃ q, ∃ s ∈ (g.x.cat q).rows, s.2.kind = .connectProxy ∧ ∃ u ∈ s.2.ups, pk2 u s.2.dest = r.pk) ∧
    (∀ s ∈ g.x.loc.rows, s.2.kind = .connectProxy → lc s.2.dest ∉ Gn → NF s.2.dest → ∀ u ∈ s.2.ups,
      ∃ r ∈ g.t.topo, r.pk = pk2 u s.2.dest) := by
  intro g
  refine ⟨fun r hr hout => ?_, fun s hsr hk hout hnf u hu => ?_⟩
  · rcases topology_sound_or_known_reachable Gn hGn hnil log hw r hr hout with h | h
    · exact h
    · rw [hs] at h; cases h
  · rcases topology_complete_or_known_reachable Gn hGn hnil log hw s hsr hk hout hnf u hu with h | h
    · exact h
    · rw [hl] at h; cases h

/-- **the gateway pairs of mesh-topology are complete, or it is known**: in every reachable state every ingress link of
    gateway-services (a row of an ingress gateway for a named service — explicit or expanded from a wildcard) has its
    (service <- gateway) pair in mesh-topology — or its key is listed in `lostIngress`, which is written only right after a
    command that runs `cleanupGatewayWildcards` (a deregistration, the delete of a service-defaults entry): the wildcard link
    of one listener went and `deleteGatewayServiceTopologyMapping` removed the pair another listener's link still needs. -/
theorem topology_ingress_complete_or_known_reachable (Gn : List String) (hGn : ∀ n ∈ Gn, NF n) (hnil : "" ∉ Gn) (log : XLog)
    (hw : LogOkG Gn log) :
    let g := replayG GState.empty log
    ∀ m ∈ g.t.gw, m.kind = .ingressGateway → m.service ≠ "*" →
      (∃ r ∈ g.t.topo, r.pk = pk2 m.service m.gateway) ∨ pk2 m.service m.gateway ∈ g.gh.lostIngress := by
  intro g m hm hk hs
  rcases gic_replayG hGn hnil log hw m hm hk hs with h | h
  · exact Or.inl (hasTopo_iff.mp h)
  · exact Or.inr h

/-- **gateway-services links only configured gateways**: in every reachable state, for every row of gateway-services there
    is an ingress-gateway / terminating-gateway config entry — of the row's gateway kind — named like the row's gateway
    (no link survives the delete of its gateway's entry, no link is created for a gateway without entry). -/
theorem gateway_links_configured_reachable (Gn : List String) (hGn : ∀ n ∈ Gn, NF n) (hnil : "" ∉ Gn) (log : XLog)
    (hw : LogOkG Gn log) :
    let g := replayG GState.empty log
    ∀ m ∈ g.t.gw, ∃ c ∈ g.x.cfg, (c.kind = "ingress-gateway" ∨ c.kind = "terminating-gateway") ∧ c.kind = cfgKindOf m.kind ∧
      lc c.name = lc m.gateway :=
  gcf_replayG hGn hnil log hw

/-- every gateway-services row belongs to a gateway of `Gn` (a gateway whose config entry the log wrote), and the
    gateway-services functions never touch a topology row whose downstream is not a gateway name -/
theorem gateway_rows_named_reachable (Gn : List String) (hGn : ∀ n ∈ Gn, NF n) (hnil : "" ∉ Gn) (log : XLog)
    (hw : LogOkG Gn log) : ∀ m ∈ (replayG GState.empty log).t.gw, lc m.gateway ∈ Gn :=
  (gi_replayG hGn hnil log hw).tok.names

/-! ### non-vacuity -/

/-- a well-formed log exists that exercises registration, a sidecar, a check, a coordinate and a
    deregistration (hypothesis of `cat_inv_reachable` is satisfiable by non-trivial histories) -/
def sampleLog : XLog :=
  [(1, .sysmeta "virtual-ips" (some "true")),
   (2, .register ⟨"", ⟨"n1", "id1", "10.0.0.1", 0, 0⟩, some ⟨"web-sidecar-proxy", "web-sidecar-proxy", 80, .connectProxy, false, "web", ["db"], false, 0⟩,
        [⟨"n1", "c1", "passing", "web-sidecar-proxy", "", "", "", "", 0, 0⟩]⟩),
   (3, .coords [⟨"n1", "", 1⟩]),
   (4, .register ⟨"peer1", ⟨"n1", "id1", "10.0.0.1", 0, 0⟩, some ⟨"api1", "api", 80, .typical, true, "", [], false, 0⟩, []⟩),
   (5, .deregister "" "n1" "" "")]

/-- `NF` of a literal, through the character list (kernel evaluation of `String.map` is not available) -/
theorem NF_of_toList {s : String} (h : nulC ∉ s.toList.map Char.toLower) : NF s := by
  unfold NF lc; rw [String.toList_map]; exact h

theorem sampleLog_wf : XLog.wf sampleLog := by
  intro ic hic
  simp only [sampleLog, List.mem_cons, List.mem_nil_iff, or_false] at hic
  rcases hic with rfl | rfl | rfl | rfl | rfl <;> simp only [XCmd.wf] <;> exact NF_of_toList (by decide)

/-- the same log satisfies the hypothesis of the derived-view theorems -/
theorem sampleLog_ok : LogOk sampleLog := by
  intro ic hic
  simp only [sampleLog, List.mem_cons, List.mem_nil_iff, or_false] at hic
  rcases hic with rfl | rfl | rfl | rfl | rfl <;> simp only [XCmd.reqOk]
  · intro q hq; simp at hq; subst hq; exact ⟨by decide, by decide⟩
  · intro q hq; simp at hq; subst hq; exact ⟨by decide, by decide⟩

/-- the same log satisfies the hypothesis of the mesh-topology theorems for the gateway names the harness uses -/
theorem sampleLog_okG : LogOkG ["ingress-gw", "term-gw"] sampleLog := by
  have hweb : lc "web" = "web" := lc_of_toList _ _ (by decide)
  intro ic hic
  simp only [sampleLog, List.mem_cons, List.mem_nil_iff, or_false] at hic
  rcases hic with rfl | rfl | rfl | rfl | rfl <;> simp only [XCmd.gOk]
  · intro q hq; simp at hq; subst hq
    refine ⟨⟨by decide, by decide⟩, NF_of_toList (by decide), ?_⟩
    show lc "web" ∉ ["ingress-gw", "term-gw"]
    rw [hweb]; decide
  · intro q hq; simp at hq; subst hq
    refine ⟨⟨by decide, by decide⟩, NF_of_toList (by decide), ?_⟩
    show lc "" ∉ ["ingress-gw", "term-gw"]
    rw [lc_eq_empty.mpr rfl]; decide

end CV.Props.C07
