/-
C16 — anti-entropy makes the catalog converge to the agent's local state.
Property theorems only; the model is CV/AE.lean, helper lemmas live in CV/Proofs/AE*.lean.

Standing well-formedness (`WF`): what the agent and the servers themselves maintain —
a registered check is bound to a registered service (`addCheckLocked`, service removed with its
checks), the catalog holds no check of a service it does not hold (`ensureCheckTxn`,
`deleteServiceTxn`), no empty ids. All theorems hold for every map-iteration order (`ord`).

Scope of the model (`CaseDistinct`): the real catalog lower-cases service and check ids in its
index keys while the agent keys its maps case-sensitively; the model keys the catalog exactly.
Model and implementation therefore agree only on histories in which no two ids in play differ
only in case. The convergence theorems carry this as an explicit hypothesis (their proofs, being
about the model, do not use it — it delimits what they say about the implementation); outside it
convergence fails on the implementation (known finding `case-fold:…`, replayed by the harness).
-/
import CV.Proofs.AELocal
import CV.Proofs.AETok
import CV.Generated.FactsC16
set_option linter.unusedVariables false
namespace CV.AE
open AMap

def WF (l : Local) (c : Cat) : Prop := LocalWF l ∧ CatWF c ∧ NoEmptyKey l c

/-- no deferred-output timer is armed (always so with CheckUpdateInterval = 0). While the timer of
    a check is armed `updateSyncState` deliberately ignores its Output, so the catalog may lag
    behind until the timer fires or the check is pushed for another reason. -/
def NoArmed (l : Local) : Prop := ∀ k, l.armed k = false

/-! ## 1. convergence of a clean full sync -/

/-- What "the catalog equals the local registrations" means after a sync that returned `r`,
    started from local state `l`: no error, node info in sync, every local record registered and
    in sync (nothing pending deletion, no placeholder), the catalog holds exactly the registered
    services and — up to the server-side copy of the service name/tags — exactly the registered
    checks (the `consul` service / serf check are left alone when not registered locally). -/
def Converged (cfg : Cfg) (l : Local) (r : St) : Prop :=
  r.ok = true ∧ r.l.nodeInSync = true ∧ r.c.node = some cfg.nodeVal ∧
  (∀ id, Done (r.l.svcs.get? id)) ∧ (∀ k, Done (r.l.chks.get? k)) ∧
  (∀ id, ¬ KeptSvc l id → r.c.svcs.get? id = liveSvc r.l id) ∧
  (∀ k, ¬ KeptChk l k → (r.c.chks.get? k).map ChkDef.core = (liveChk r.l k).map ChkDef.core)

/- Full-strength statement (FALSE for the code as it is, see the counterexample below):
     theorem clean_full_sync_converges : AllOk f → WF l c → Converged cfg l (syncFull cfg ord f l c)
   `deleteService` drops the pending removal of every locally deleted check that is bound
   *locally* to the deregistered service, trusting the server-side cascade; when the catalog's
   copy of that check has been re-bound to another service (drift) it survives. -/

/-- the catalog's copy of the node (if there is one) does not differ from the agent's in its
    Locality only: such a difference is never written by the state store (`nodeWrite`; side
    finding `node_locality_only_difference_never_repaired` below). It concerns the node-info
    clause of `Converged` only — the property proper speaks of services and checks. -/
def NodeRepairable (cfg : Cfg) (c : Cat) : Prop :=
  ∀ w, c.node = some w → w % 40 = cfg.nodeVal % 40 → w = cfg.nodeVal

theorem nodeWrite_repairable (cfg : Cfg) (c : Cat) (h : NodeRepairable cfg c) :
    nodeWrite c.node cfg.nodeVal = some cfg.nodeVal := by
  unfold nodeWrite
  cases hc : c.node with
  | none => rfl
  | some w =>
    simp only
    split
    · rename_i hm; rw [h w hc hm]
    · rfl

/-- Convergence, for all local states, catalogs and iteration orders, under the explicit
    hypothesis that no check pending removal is bound elsewhere in the catalog. -/
theorem clean_full_sync_converges_partial (cfg : Cfg) (ord : Order) (f : Faults) (l : Local) (c : Cat)
    (hf : AllOk f) (hw : WF l c) (hnr : NoRebound l c) (hcd : CaseDistinct l c) (hna : NoArmed l)
    (hnl : NodeRepairable cfg c) :
    Converged cfg l (syncFull cfg ord f l c) := by
  obtain ⟨hrs, hrc, hno, hso, hco⟩ := hf
  obtain ⟨hl, hc, hn⟩ := hw
  have hcov : ∀ l', Covers f l' (fun _ => False) (fun _ => False) :=
    fun l' => ⟨fun id h => (by rw [hso id] at h; cases h), fun k h => (by rw [hco k] at h; cases h),
               fun k d _ h => (by rw [hso d.sid] at h; cases h)⟩
  have g1 : GInv True (fun _ => False) (fun _ => False) (KeptSvc l) (KeptChk l) (updateSyncState cfg l c) c :=
    uss_GInv cfg l c hl hc hn (fun _ => hnr) (fun k h => by rw [hna k] at h; cases h)
  unfold syncFull
  rw [hrs, hrc]; simp only [Bool.and_self, if_true]
  -- the two loops from a state with node info in sync
  have rest : ∀ s : St, GInv True (fun _ => False) (fun _ => False) (KeptSvc l) (KeptChk l) s.l s.c →
      NodeOk cfg s → s.ok = true → Converged cfg l (syncRest cfg ord f s) := by
    intro s g hnode hok
    obtain ⟨d1, d2, d3, d4⟩ := syncRest_clean cfg ord f hso hco s g hnode (hcov s.l)
    have g2 : GInv True (fun _ => False) (fun _ => False) (KeptSvc l) (KeptChk l) (syncRest cfg ord f s).l (syncRest cfg ord f s).c := by
      unfold syncRest
      obtain ⟨ga, b1, b2⟩ := svcFold_GInv cfg f s.l (hcov s.l) (visit ord.svcs s.l.svcs.keys) s g (fun _ => rfl) (fun _ => rfl)
      exact (chkFold_GInv cfg f s.l (hcov s.l) _ _ ga b1 b2).1
    refine ⟨by rw [d3]; exact hok, d4.1, d4.2, d1, d2, ?_, ?_⟩
    · intro id hk
      cases he : (syncRest cfg ord f s).l.svcs.get? id with
      | none =>
        rcases g2.tgt.1 id he with h | h
        · simp [liveSvc, he, h]
        · exact absurd h hk
      | some e =>
        obtain ⟨q1, q2⟩ := d1 id e he
        cases e with
        | ghost b => simp [Ent.deleted] at q1
        | ent d tok loc b del =>
          simp only [Ent.deleted, Ent.inSync] at q1 q2; subst q1 q2
          rcases g2.snd.1 id d tok loc he with h | h
          · exact h.elim
          · simp [liveSvc, he, Ent.live?, h]
    · intro k hk
      cases he : (syncRest cfg ord f s).l.chks.get? k with
      | none =>
        rcases g2.tgt.2 trivial k he with h | h
        · simp [liveChk, he, h]
        · exact absurd h hk
      | some e =>
        obtain ⟨q1, q2⟩ := d2 k e he
        cases e with
        | ghost b => simp [Ent.deleted] at q1
        | ent d tok loc b del =>
          simp only [Ent.deleted, Ent.inSync] at q1 q2; subst q1 q2
          rcases g2.snd.2 k d tok loc he with h | ⟨rc, h, hcore⟩
          · exact h.elim
          · simp [liveChk, he, Ent.live?, h, hcore]
  unfold syncChanges
  by_cases hns : (updateSyncState cfg l c).nodeInSync = true
  · rw [if_pos hns]
    apply rest _ g1 _ rfl
    refine ⟨hns, ?_⟩
    simp only [updateSyncState] at hns
    split at hns
    · assumption
    · cases hns
  · rw [if_neg hns]
    have e1 : (syncNode cfg f ⟨updateSyncState cfg l c, c, true⟩) =
        (⟨{ (updateSyncState cfg l c) with nodeInSync := true }, { c with node := some cfg.nodeVal }, true⟩, true) := by
      unfold syncNode; rw [hno]; simp only [nodeWrite_repairable cfg c hnl]
    rw [e1]; simp only [if_true]
    exact rest _ (GInv_node true (some cfg.nodeVal) g1) ⟨rfl, rfl⟩ rfl

/-! ### the counterexample to the full-strength statement (the known finding) -/

def allOk : Faults := ⟨true, true, .ok, fun _ => .ok, fun _ => .ok⟩
def exCfg : Cfg := { nodeVal := 1, cfgTok := "", userTok := "" }
def exWeb : SvcDef := ⟨"web", ["a"], false, 80, []⟩
def exApi : SvcDef := ⟨"api", [], false, 81, []⟩

/-- `web` and its check `c1` were removed locally (both pending), `api` is registered and in sync;
    behind the agent's back the catalog's `c1` has been bound to `api`. -/
def cexL : Local :=
  { nodeInSync := true
    svcs := [("web", .ent exWeb "" false false true), ("api", .ent exApi "" false true false)]
    chks := [("c1", .ent ⟨"web", 0, "web", ["a"], 0⟩ "" false false true)] }
def cexC : Cat :=
  { node := some 1, svcs := [("web", exWeb), ("api", exApi)], chks := [("c1", ⟨"api", 0, "api", [], 0⟩)] }

theorem allOk_ok : AllOk allOk := ⟨rfl, rfl, rfl, fun _ => rfl, fun _ => rfl⟩

/-- every RPC succeeds, the full sync reports success, the agent has forgotten `c1` — and the
    catalog still holds it -/
theorem clean_full_sync_converges_counterexample :
    (syncFull exCfg ⟨[], []⟩ allOk cexL cexC).ok = true ∧
    (syncFull exCfg ⟨[], []⟩ allOk cexL cexC).l.chks.get? "c1" = none ∧
    (syncFull exCfg ⟨[], []⟩ allOk cexL cexC).c.chks.get? "c1" = some ⟨"api", 0, "api", [], 0⟩ := by
  decide

theorem counterexample_not_converged : ¬ Converged exCfg cexL (syncFull exCfg ⟨[], []⟩ allOk cexL cexC) := by
  intro ⟨_, _, _, _, _, _, h⟩
  obtain ⟨_, h2, h3⟩ := clean_full_sync_converges_counterexample
  have := h "c1" (by unfold KeptChk; decide)
  rw [h3] at this
  simp [liveChk, h2] at this

/-- the witness violates exactly the excluded hypothesis -/
theorem counterexample_is_rebound : ¬ NoRebound cexL cexC := by
  intro h
  have := h "c1" ⟨"web", 0, "web", ["a"], 0⟩ "" false false ⟨"api", 0, "api", [], 0⟩ (by decide) (by decide) (by decide)
  revert this; decide

/-! ## 2. syncing never changes what is registered (except server-owned fields) -/

/-- whatever the RPC outcomes, a partial sync leaves the set of registrations and their
    definitions untouched -/
theorem sync_changes_keeps_registrations (cfg : Cfg) (ord : Order) (f : Faults) (l : Local) (c : Cat) :
    (∀ id, liveSvc (syncChanges cfg ord f l c).l id = liveSvc l id) ∧
    (∀ k, liveChk (syncChanges cfg ord f l c).l k = liveChk l k) := by
  have fold1 : ∀ (ks : List Id) (s : St), (∀ i, liveSvc (ks.foldl (svcStep cfg f) s).l i = liveSvc s.l i) ∧
      (∀ k, liveChk (ks.foldl (svcStep cfg f) s).l k = liveChk s.l k) := by
    intro ks; induction ks with
    | nil => intro s; exact ⟨fun _ => rfl, fun _ => rfl⟩
    | cons i ks ih =>
      intro s; simp only [List.foldl_cons]
      obtain ⟨a, b⟩ := ih (svcStep cfg f s i); obtain ⟨p, q⟩ := svcStep_live cfg f s i
      exact ⟨fun j => by rw [a, p], fun k => by rw [b, q]⟩
  have fold2 : ∀ (ks : List Id) (s : St), (∀ i, liveSvc (ks.foldl (chkStep cfg f) s).l i = liveSvc s.l i) ∧
      (∀ k, liveChk (ks.foldl (chkStep cfg f) s).l k = liveChk s.l k) := by
    intro ks; induction ks with
    | nil => intro s; exact ⟨fun _ => rfl, fun _ => rfl⟩
    | cons i ks ih =>
      intro s; simp only [List.foldl_cons]
      obtain ⟨a, b⟩ := ih (chkStep cfg f s i); obtain ⟨p, q⟩ := chkStep_live cfg f s i
      exact ⟨fun j => by rw [a, p], fun k => by rw [b, q]⟩
  have rest : ∀ s : St, (∀ i, liveSvc (syncRest cfg ord f s).l i = liveSvc s.l i) ∧
      (∀ k, liveChk (syncRest cfg ord f s).l k = liveChk s.l k) := by
    intro s; unfold syncRest chkLoop svcLoop
    obtain ⟨a, b⟩ := fold1 (visit ord.svcs s.l.svcs.keys) s
    obtain ⟨p, q⟩ := fold2 (visit ord.chks (List.foldl (svcStep cfg f) s (visit ord.svcs s.l.svcs.keys)).l.chks.keys)
      (List.foldl (svcStep cfg f) s (visit ord.svcs s.l.svcs.keys))
    exact ⟨fun j => by rw [p, a], fun k => by rw [q, b]⟩
  unfold syncChanges
  split
  · exact rest _
  · obtain ⟨e1, e2, _, _⟩ := syncNode_frame cfg f ⟨l, c, true⟩
    obtain ⟨q1, q2⟩ := live_congr e1 e2
    split
    · obtain ⟨a, b⟩ := rest (syncNode cfg f ⟨l, c, true⟩).1
      exact ⟨fun j => by rw [a, q1], fun k => by rw [b, q2]⟩
    · exact ⟨q1, q2⟩

/-- a full sync changes a registered service only by absorbing the fields the servers own
    (`absorbFrom`: tags under EnableTagOverride, `consul-` tagged addresses); checks not at all -/
theorem full_sync_keeps_registrations (cfg : Cfg) (ord : Order) (f : Faults) (l : Local) (c : Cat)
    (hr : f.readSvcs = true ∧ f.readChks = true) :
    (∀ id, liveSvc (syncFull cfg ord f l c).l id = (liveSvc l id).map (absorbFrom c id)) ∧
    (∀ k, liveChk (syncFull cfg ord f l c).l k = liveChk l k) := by
  unfold syncFull; rw [hr.1, hr.2]; simp only [Bool.and_self, if_true]
  obtain ⟨a, b⟩ := sync_changes_keeps_registrations cfg ord f (updateSyncState cfg l c) c
  exact ⟨fun id => by rw [a, uss_liveSvc], fun k => by rw [b, uss_liveChk]⟩

/-- what `absorb` may touch: never the name, port or the override switch; the tags only under
    EnableTagOverride -/
theorem absorb_server_owned (d rs : SvcDef) :
    (absorb d rs).name = d.name ∧ (absorb d rs).port = d.port ∧ (absorb d rs).eto = d.eto ∧
    (d.eto = false → (absorb d rs).tags = d.tags) := by
  unfold absorb
  simp only
  split <;> split <;> simp_all

/-- … and of the tagged addresses only the `consul-` prefixed keys -/
theorem absorb_keeps_unreserved_tagged_addresses (d rs : SvcDef) (k : String) (hk : reservedKey k = false) :
    taGet (absorb d rs).ta k = taGet d.ta k := absorb_ta d rs k hk

/-! ## 3. soundness of the in-sync marks -/

/-- Sync steps keep the marks sound for every pattern of RPC outcomes and every order: an entry
    marked in sync is held by the catalog unless it is in the refused set, and the refused set
    only has to contain what this sync's ACL refusals cover. -/
theorem sync_preserves_sound (cfg : Cfg) (ord : Order) (f : Faults) (l : Local) (c : Cat) (Rs Rc : Id → Prop)
    (hw : WF l c) (hcov : Covers f l Rs Rc) (hs : SoundExcept Rs Rc l c) :
    SoundExcept Rs Rc (syncChanges cfg ord f l c).l (syncChanges cfg ord f l c).c := by
  have g : GInv False Rs Rc (fun _ => True) (fun _ => True) l c :=
    ⟨hw.1, hw.2.1, hw.2.2, fun h => h.elim, hs, ⟨fun _ _ => Or.inr trivial, fun h => h.elim⟩⟩
  exact (syncChanges_GInv cfg ord f l c hcov g).1.snd

/-- A full sync needs no assumption on the old marks at all: `updateSyncState` recomputes every
    mark from the catalog, so afterwards only this sync's refusals can be unsound — and the checks
    whose defer timer is armed (their Output is ignored on purpose until the timer fires). -/
theorem full_sync_sound (cfg : Cfg) (ord : Order) (f : Faults) (l : Local) (c : Cat) (Rs Rc : Id → Prop)
    (hw : WF l c) (hr : f.readSvcs = true ∧ f.readChks = true) (hcov : Covers f l Rs Rc)
    (harm : ∀ k, l.armed k = true → Rc k) :
    SoundExcept Rs Rc (syncFull cfg ord f l c).l (syncFull cfg ord f l c).c := by
  unfold syncFull; rw [hr.1, hr.2]; simp only [Bool.and_self, if_true]
  have g : GInv False Rs Rc (KeptSvc l) (KeptChk l) (updateSyncState cfg l c) c :=
    uss_GInv cfg l c hw.1 hw.2.1 hw.2.2 (fun h => h.elim) harm
  have hcov' : Covers f (updateSyncState cfg l c) Rs Rc :=
    ⟨hcov.svc, hcov.chk, fun k d h => hcov.rid k d (by rw [← uss_liveChk cfg l c k]; exact h)⟩
  exact (syncChanges_GInv cfg ord f _ c hcov' g).1.snd

/-- entries refused by ACLs are retried at every full sync: after the read phase a mark is on only
    if the catalog holds exactly that definition, so an entry the catalog lacks is out of sync
    again whatever was marked before -/
theorem denied_retried_each_full_sync (cfg : Cfg) (l : Local) (c : Cat) :
    (∀ id e, (updateSyncState cfg l c).svcs.get? id = some e → c.svcs.get? id = none → e.inSync = false) ∧
    (∀ k e, (updateSyncState cfg l c).chks.get? k = some e → c.chks.get? k = none → e.inSync = false) ∧
    (∀ id d tok loc, (updateSyncState cfg l c).svcs.get? id = some (.ent d tok loc true false) → c.svcs.get? id = some d) ∧
    (∀ k d tok loc, l.armed k = false →
        (updateSyncState cfg l c).chks.get? k = some (.ent d tok loc true false) → c.chks.get? k = some d) := by
  refine ⟨?_, ?_, uss_sound_svc cfg l c, fun k d tok loc ha h => uss_sound_chk cfg l c k d tok loc ha h⟩
  · intro id e h hc
    rw [uss_svcs] at h
    cases hl : l.svcs.get? id with
    | none => rw [hl] at h; simp [hc] at h
    | some e0 => rw [hl] at h; simp only [Option.some.injEq] at h; subst h; simp [usSvc, hc]
  · intro k e h hc
    rw [uss_chks] at h
    cases hl : l.chks.get? k with
    | none => rw [hl] at h; simp [hc] at h
    | some e0 => rw [hl] at h; simp only [Option.some.injEq] at h; subst h; simp [usChk, hc]

/-- … and the same holds for DEregistrations: a refusal leaves the entry pending removal *and*
    marked in sync, yet `SyncChanges` looks at the pending removal first, so the entry is handed to
    `deleteService` / `deleteCheck` again by every later sync (partial or full), whatever its mark. -/
theorem refused_deregistration_stays_pending_and_is_retried (cfg : Cfg) (f : Faults) (s : St) (id : Id)
    (e : Ent SvcDef) (he : s.l.svcs.get? id = some e) (hd : e.deleted = true) (hid : id ≠ "") :
    -- the refusal: still there, still pending removal, now marked in sync
    (f.svc id = .denied → ∃ e', (svcStep cfg f s id).l.svcs.get? id = some e' ∧ e'.deleted = true ∧ e'.inSync = true) ∧
    -- whatever the mark, the step is the deregistration attempt
    svcStep cfg f s id = deleteService f id s := by
  have hstep : svcStep cfg f s id = deleteService f id s := by
    unfold svcStep
    cases e with
    | ghost b => rw [he]
    | ent d tok loc b del => simp only [Ent.deleted] at hd; subst hd; rw [he]
  refine ⟨?_, hstep⟩
  intro hden
  rw [hstep]
  unfold deleteService
  rw [if_neg hid, hden]
  refine ⟨e.setInSync true, ?_, by simp [hd], by simp⟩
  simp only [markSvc_svcs, if_true, he, Option.map_some]

theorem refused_check_deregistration_stays_pending_and_is_retried (cfg : Cfg) (f : Faults) (s : St) (k : Id)
    (e : Ent ChkDef) (he : s.l.chks.get? k = some e) (hd : e.deleted = true) (hk : k ≠ "") :
    (f.chk k = .denied → ∃ e', (chkStep cfg f s k).l.chks.get? k = some e' ∧ e'.deleted = true ∧ e'.inSync = true) ∧
    chkStep cfg f s k = deleteCheck f k s := by
  have hstep : chkStep cfg f s k = deleteCheck f k s := by
    unfold chkStep
    cases e with
    | ghost b => rw [he]
    | ent d tok loc b del => simp only [Ent.deleted] at hd; subst hd; rw [he]
  refine ⟨?_, hstep⟩
  intro hden
  rw [hstep]
  unfold deleteCheck
  rw [if_neg hk, hden]
  refine ⟨e.setInSync true, ?_, by simp [hd], by simp⟩
  unfold markChk
  simp only [markChks_chks, List.mem_singleton, if_true, he, Option.map_some]

/-- Consequently the next full sync whose RPCs succeed removes every entry pending removal from
    the catalog and from the local state — in particular one left `Deleted` + `InSync` by a
    refused deregistration (no assumption on `e.inSync`). -/
theorem refused_deregistration_retried_by_next_clean_full_sync (cfg : Cfg) (ord : Order) (f : Faults) (l : Local) (c : Cat)
    (hf : AllOk f) (hw : WF l c) (hnr : NoRebound l c) (hcd : CaseDistinct l c) (hna : NoArmed l)
    (hnl : NodeRepairable cfg c) :
    (∀ id e, l.svcs.get? id = some e → e.deleted = true →
        (syncFull cfg ord f l c).l.svcs.get? id = none ∧ (syncFull cfg ord f l c).c.svcs.get? id = none) ∧
    (∀ k e, l.chks.get? k = some e → e.deleted = true →
        (syncFull cfg ord f l c).l.chks.get? k = none ∧ (syncFull cfg ord f l c).c.chks.get? k = none) := by
  obtain ⟨_, _, _, d1, d2, c1, c2⟩ := clean_full_sync_converges_partial cfg ord f l c hf hw hnr hcd hna hnl
  obtain ⟨k1, k2⟩ := full_sync_keeps_registrations cfg ord f l c ⟨hf.1, hf.2.1⟩
  constructor
  · intro id e he hd
    have hlive : liveSvc (syncFull cfg ord f l c).l id = none := by
      rw [k1]; simp [liveSvc, he, live?_deleted e hd]
    have hgone : (syncFull cfg ord f l c).l.svcs.get? id = none := by
      cases hr : (syncFull cfg ord f l c).l.svcs.get? id with
      | none => rfl
      | some e' =>
        obtain ⟨q1, _⟩ := d1 id e' hr
        have : e'.live? = none := by simpa [liveSvc, hr] using hlive
        rw [deleted_of_not_live e' this] at q1; cases q1
    refine ⟨hgone, ?_⟩
    rw [c1 id (fun hk => by rw [hk.2] at he; cases he), hlive]
  · intro k e he hd
    have hlive : liveChk (syncFull cfg ord f l c).l k = none := by
      rw [k2]; simp [liveChk, he, live?_deleted e hd]
    have hgone : (syncFull cfg ord f l c).l.chks.get? k = none := by
      cases hr : (syncFull cfg ord f l c).l.chks.get? k with
      | none => rfl
      | some e' =>
        obtain ⟨q1, _⟩ := d2 k e' hr
        have : e'.live? = none := by simpa [liveChk, hr] using hlive
        rw [deleted_of_not_live e' this] at q1; cases q1
    refine ⟨hgone, ?_⟩
    have := c2 k (fun hk => by rw [hk.2] at he; cases he)
    rw [hlive] at this
    cases hc : (syncFull cfg ord f l c).c.chks.get? k with
    | none => rfl
    | some rc => rw [hc] at this; simp at this

/-! ## 4. a failing RPC never marks anything -/

/-- the record of a service whose RPC fails (with or without the write having been applied) comes
    out of `SyncChanges` exactly as it went in -/
theorem failure_never_marks_service (cfg : Cfg) (ord : Order) (f : Faults) (l : Local) (c : Cat) (id : Id)
    (h : Failed (f.svc id)) : (syncChanges cfg ord f l c).l.svcs.get? id = l.svcs.get? id := by
  have rest : ∀ s : St, (syncRest cfg ord f s).l.svcs.get? id = s.l.svcs.get? id := by
    intro s; unfold syncRest chkLoop svcLoop
    rw [chkFold_svcs, fold_svcs_failed cfg f id h]
  unfold syncChanges
  split
  · exact rest _
  · obtain ⟨e1, _, _, _⟩ := syncNode_frame cfg f ⟨l, c, true⟩
    split
    · rw [rest, e1]
    · rw [e1]

/-- the record of a check whose own RPC fails, and whose service's RPC (on which it could ride,
    or which could prune it) fails too, comes out of `SyncChanges` exactly as it went in (only its
    defer timer, if one was armed, has been stopped and cleared by the attempted push) -/
theorem failure_never_marks_check (cfg : Cfg) (ord : Order) (f : Faults) (l : Local) (c : Cat) (k : Id) (e : Ent ChkDef)
    (he : l.chks.get? k = some e) (h : Failed (f.chk k))
    (hs : ∀ d tok loc b del, e = .ent d tok loc b del → Failed (f.svc d.sid)) :
    (syncChanges cfg ord f l c).l.chks.get? k = some e := by
  have rest : ∀ s : St, s.l.chks.get? k = some e → (syncRest cfg ord f s).l.chks.get? k = some e := by
    intro s hk; unfold syncRest chkLoop svcLoop
    rw [chkFold_chk_failed cfg f k h]
    exact svcFold_chk_failed cfg f k e hs _ s hk
  unfold syncChanges
  split
  · exact rest _ he
  · obtain ⟨_, e2, _, _⟩ := syncNode_frame cfg f ⟨l, c, true⟩
    split
    · exact rest _ (by rw [e2]; exact he)
    · rw [e2]; exact he

/-! ## 5. local deregistrations are never forgotten -/

/-- Services, full strength: a service pending removal that `SyncChanges` no longer remembers is
    gone from the catalog — for every fault pattern and order. -/
theorem deletions_not_forgotten_service (cfg : Cfg) (ord : Order) (f : Faults) (l : Local) (c : Cat)
    (hw : WF l c) (id : Id) (e : Ent SvcDef) (he : l.svcs.get? id = some e) (hd : e.deleted = true) :
    (∃ e', (syncChanges cfg ord f l c).l.svcs.get? id = some e' ∧ e'.deleted = true) ∨
    (syncChanges cfg ord f l c).c.svcs.get? id = none := by
  have g : GInv False (fun _ => True) (fun _ => True) (fun i => l.svcs.get? i = none) (fun _ => True) l c :=
    ⟨hw.1, hw.2.1, hw.2.2, fun h => h.elim, ⟨fun _ _ _ _ _ => Or.inl trivial, fun _ _ _ _ _ => Or.inl trivial⟩,
     ⟨fun i h => Or.inr h, fun h => h.elim⟩⟩
  obtain ⟨g', _, hlive⟩ := syncChanges_GInv cfg ord f l c ⟨fun _ _ => trivial, fun _ _ => trivial, fun _ _ _ _ => trivial⟩ g
  cases hr : (syncChanges cfg ord f l c).l.svcs.get? id with
  | none =>
    rcases g'.tgt.1 id hr with h | h
    · exact Or.inr h
    · rw [he] at h; cases h
  | some e' =>
    left; refine ⟨e', rfl, deleted_of_not_live e' ?_⟩
    have := hlive id
    simp only [liveSvc, hr, he, Option.bind_some] at this
    rw [this]; exact live?_deleted e hd

/- Checks, full-strength statement (FALSE, same finding as in §1):
     theorem deletions_not_forgotten_check : WF l c → l.chks.get? k = some e → e.deleted →
        still pending ∨ (syncChanges …).c.chks.get? k = none -/

theorem deletions_not_forgotten_check_partial (cfg : Cfg) (ord : Order) (f : Faults) (l : Local) (c : Cat)
    (hw : WF l c) (hnr : NoRebound l c) (k : Id) (e : Ent ChkDef) (he : l.chks.get? k = some e) (hd : e.deleted = true) :
    (∃ e', (syncChanges cfg ord f l c).l.chks.get? k = some e' ∧ e'.deleted = true) ∨
    (syncChanges cfg ord f l c).c.chks.get? k = none := by
  have g : GInv True (fun _ => True) (fun _ => True) (fun _ => True) (fun i => l.chks.get? i = none) l c :=
    ⟨hw.1, hw.2.1, hw.2.2, fun _ => hnr, ⟨fun _ _ _ _ _ => Or.inl trivial, fun _ _ _ _ _ => Or.inl trivial⟩,
     ⟨fun i h => Or.inr trivial, fun _ i h => Or.inr h⟩⟩
  obtain ⟨g', hlive, _⟩ := syncChanges_GInv cfg ord f l c ⟨fun _ _ => trivial, fun _ _ => trivial, fun _ _ _ _ => trivial⟩ g
  cases hr : (syncChanges cfg ord f l c).l.chks.get? k with
  | none =>
    rcases g'.tgt.2 trivial k hr with h | h
    · exact Or.inr h
    · rw [he] at h; cases h
  | some e' =>
    left; refine ⟨e', rfl, deleted_of_not_live e' ?_⟩
    have := hlive k
    simp only [liveChk, hr, he, Option.bind_some] at this
    rw [this]; exact live?_deleted e hd

/-- the same witness as in §1, as a partial sync: the pending removal of `c1` is dropped while
    the catalog holds `c1` -/
theorem deletions_not_forgotten_check_counterexample :
    cexL.chks.get? "c1" = some (.ent ⟨"web", 0, "web", ["a"], 0⟩ "" false false true) ∧
    (syncChanges exCfg ⟨[], []⟩ allOk cexL cexC).l.chks.get? "c1" = none ∧
    (syncChanges exCfg ⟨[], []⟩ allOk cexL cexC).c.chks.get? "c1" ≠ none := by
  decide

/-! ## 6. repair after failure -/

/-- the standing assumptions survive any sync, whatever fails -/
theorem sync_full_preserves_wf (cfg : Cfg) (ord : Order) (f : Faults) (l : Local) (c : Cat)
    (hw : WF l c) (hnr : NoRebound l c) :
    WF (syncFull cfg ord f l c).l (syncFull cfg ord f l c).c ∧
    NoRebound (syncFull cfg ord f l c).l (syncFull cfg ord f l c).c := by
  unfold syncFull
  split
  · have g : GInv True (fun _ => True) (fun _ => True) (KeptSvc l) (KeptChk l) (updateSyncState cfg l c) c :=
      uss_GInv cfg l c hw.1 hw.2.1 hw.2.2 (fun _ => hnr) (fun _ _ => trivial)
    obtain ⟨g', _, _⟩ := syncChanges_GInv cfg ord f _ c ⟨fun _ _ => trivial, fun _ _ => trivial, fun _ _ _ _ => trivial⟩ g
    exact ⟨⟨g'.lwf, g'.cwf, g'.nek⟩, g'.nrb trivial⟩
  · exact ⟨hw, hnr⟩

/-- Whatever went wrong in a full sync (`f₁`, any order), the next full sync whose RPCs succeed
    converges. -/
theorem repair_after_failure (cfg : Cfg) (ord₁ ord₂ : Order) (f₁ f₂ : Faults) (l : Local) (c : Cat)
    (hw : WF l c) (hnr : NoRebound l c) (hf : AllOk f₂)
    (hcd : CaseDistinct (syncFull cfg ord₁ f₁ l c).l (syncFull cfg ord₁ f₁ l c).c) (hna : NoArmed l)
    (hnl : NodeRepairable cfg (syncFull cfg ord₁ f₁ l c).c) :
    Converged cfg (syncFull cfg ord₁ f₁ l c).l
      (syncFull cfg ord₂ f₂ (syncFull cfg ord₁ f₁ l c).l (syncFull cfg ord₁ f₁ l c).c) := by
  obtain ⟨hw', hnr'⟩ := sync_full_preserves_wf cfg ord₁ f₁ l c hw hnr
  have hna' : NoArmed (syncFull cfg ord₁ f₁ l c).l := by
    intro k
    cases h : (syncFull cfg ord₁ f₁ l c).l.armed k with
    | false => rfl
    | true => have := syncFull_armed cfg ord₁ f₁ l c k h; rw [hna k] at this; cases this
  exact clean_full_sync_converges_partial cfg ord₂ f₂ _ _ hf hw' hnr' hcd hna' hnl

/-- `LocalWF` is not an assumption about luck: the operations the agent performs on its local state
    (register a service; add a check for a registered service; remove a check; update a check;
    remove a service together with all the checks bound to it) all preserve it. -/
theorem agent_operations_keep_LocalWF (l l' : Local) (hw : LocalWF l) :
    (∀ id d tok loc, addSvc1 l id d tok loc = (.ok, l') → LocalWF l') ∧
    (∀ k d tok loc, addChk1 l k d tok loc = (.ok, l') → (d.sid ≠ "" → liveSvc l d.sid ≠ none) → LocalWF l') ∧
    (∀ k, rmChk l k = (.ok, l') → LocalWF l') ∧
    (∀ cui k st, LocalWF (updChk cui l k st)) ∧
    (∀ id ks, rmSvc l id ks = (.ok, l') → (∀ k d, liveChk l k = some d → d.sid = id → k ∈ ks) → LocalWF l') :=
  ⟨fun id d tok loc h => (addSvc1_LocalWF l l' id d tok loc h hw).1,
   fun k d tok loc h hs => (addChk1_LocalWF l l' k d tok loc h hs hw).1,
   fun k h => (rmChk_LocalWF l l' k h hw).1,
   fun cui k st => updChk_LocalWF cui l k st hw,
   fun id ks h hall => rmSvc_LocalWF l l' id ks h hall hw⟩

/-! ## 6b. deferred check output (CheckUpdateInterval > 0)

In the model an armed timer is a running timer: `dfr` is one flag per check. The places where
the code stops a timer are exactly the places where the model clears the flag (the push of the
check in `SyncChanges`, and the removal of the record); nothing else takes a check out of `dfr`
except the timer firing. A "stopped but still armed" timer — a check that no output update can
ever push again — is not a state of the model; the harness probes every armed timer of the
implementation for being a running one (monitor `defer:…`). -/

/-- syncing never arms a timer -/
theorem sync_never_arms (cfg : Cfg) (ord : Order) (f : Faults) (l : Local) (c : Cat) (k : Id)
    (h : (syncFull cfg ord f l c).l.armed k = true) : l.armed k = true := syncFull_armed cfg ord f l c k h

/-- the push of an out-of-sync check stops and CLEARS its timer, whatever the RPC outcome, so a
    later output-only update arms a fresh one -/
theorem push_clears_timer (cfg : Cfg) (f : Faults) (s : St) (k : Id) (d : ChkDef) (tok : String) (loc : Bool)
    (he : s.l.chks.get? k = some (.ent d tok loc false false)) :
    (chkStep cfg f s k).l.armed k = false ∧
    ∀ st, st ≠ d.status → st % 3 = d.status % 3 →
      (updChk true { (chkStep cfg f s k).l with chks := (chkStep cfg f s k).l.chks.set k (.ent d tok loc true false) } k st).armed k = true := by
  refine ⟨chkStep_push_disarms cfg f s k d tok loc he, ?_⟩
  intro st h1 h2
  unfold updChk
  simp only [get?_set, if_true]
  rw [if_neg (fun e => h1 e.symm)]
  simp only [h2, and_self, if_true]
  rw [armed_arm]; simp

/-- a firing timer clears itself and marks a registered check out of sync -/
theorem fire_clears_timer_and_marks (l : Local) (k : Id) (d : ChkDef) (tok : String) (loc b : Bool)
    (ha : l.armed k = true) (he : l.chks.get? k = some (.ent d tok loc b false)) :
    (fire l k).armed k = false ∧ (fire l k).chks.get? k = some (.ent d tok loc false false) := by
  refine ⟨by rw [fire_armed]; simp, ?_⟩
  unfold fire
  rw [if_pos ha, he]
  simp [get?_set]

/-- Convergence with timers: once every armed timer has fired, the next full sync whose RPCs
    succeed makes the catalog equal the local registrations (Output included). -/
theorem converges_after_timers_fire (cfg : Cfg) (ord : Order) (f : Faults) (l : Local) (c : Cat)
    (hf : AllOk f) (hw : WF l c) (hnr : NoRebound l c) (hcd : CaseDistinct l c) (hnl : NodeRepairable cfg c) :
    Converged cfg (fireAll l) (syncFull cfg ord f (fireAll l) c) ∧
    (∀ k, liveChk (fireAll l) k = liveChk l k) ∧ (∀ id, liveSvc (fireAll l) id = liveSvc l id) := by
  obtain ⟨s1, s2, s3, s4, s5, _⟩ := fireFold_spec l.dfr l
  have hw' : WF (fireAll l) c := by
    refine ⟨?_, hw.2.1, ?_⟩
    · intro k d h1 h2
      have h1' : liveChk l k = some d := by rw [← s3 k]; exact h1
      have := hw.1 k d h1' h2
      show liveSvc (fireAll l) d.sid ≠ none
      unfold fireAll; rw [s2]; exact this
    · obtain ⟨n1, n2, n3, n4⟩ := hw.2.2
      refine ⟨by show (fireAll l).svcs.get? "" = none; unfold fireAll; rw [s1]; exact n1, ?_, n3, n4⟩
      cases h : (fireAll l).chks.get? "" with
      | none => rfl
      | some e => exact absurd n2 ((s4 "").mp (by unfold fireAll at h; rw [h]; simp))
  have hnr' : NoRebound (fireAll l) c := by
    intro k d tok loc b rc h1 h2 h3
    exact hnr k d tok loc b rc (s5 k d tok loc b h1) h2 h3
  have hcd' : CaseDistinct (fireAll l) c := by
    have hm : ∀ a, Mentions (fireAll l) c a → Mentions l c a := by
      intro a h
      rcases h with h | h | h | h
      · left; unfold fireAll at h; rw [s1] at h; exact h
      · right; left; exact (s4 a).mp h
      · right; right; left; exact h
      · right; right; right; exact h
    intro a b ha hb h; exact hcd a b (hm a ha) (hm b hb) h
  exact ⟨clean_full_sync_converges_partial cfg ord f _ c hf hw' hnr' hcd' (fireAll_noArmed l) hnl, s3, s2⟩

/-! ## 7. the scheduler (agent/ae): a failed full sync is retried as a full sync -/

theorem ae_failed_full_sync_goes_to_retry (ev : AeEvent) :
    aeNext .fullSync false ev false = some (.runFull, .retryFullSync) := rfl

/-- while a full sync is owed, no partial sync runs; the only ways out are a full sync or shutdown -/
theorem ae_retry_runs_no_partial (paused : Bool) (ev : AeEvent) (ok : Bool) (a : AeAct) (n : AeState)
    (h : aeNext .retryFullSync paused ev ok = some (a, n)) : a = .idle ∧ (n = .fullSync ∨ n = .done) := by
  cases ev <;> simp [aeNext] at h <;> obtain ⟨rfl, rfl⟩ := h <;> simp

/-! ## 8. the requests a sync sends: tokens, piggy-backing, silence once converged -/

/-- `aclTokenForServiceSync` / `aclTokenForCheckSync`: a registration carries the record's own token;
    without one, the config-file registration token when the record comes from a config file (and
    such a token is set); otherwise the user (default) token -/
theorem registration_token_rule (cfg : Cfg) (tok : String) (loc : Bool) :
    (tok ≠ "" → effTok cfg tok loc = tok) ∧
    (tok = "" → loc = true → cfg.cfgTok ≠ "" → effTok cfg tok loc = cfg.cfgTok) ∧
    (tok = "" → (loc = false ∨ cfg.cfgTok = "") → effTok cfg tok loc = cfg.userTok) :=
  ⟨effTok_own cfg tok loc, fun h hl hc => by subst h; exact effTok_cfgfile cfg loc hl hc,
   fun h hu => by subst h; exact effTok_user cfg loc hu⟩

/-- every request of a full sync other than the registration of a service or of a check — the two
    reads, node info, every deregistration — carries the agent token (never a service's token:
    it may be gone by the time the service is removed) -/
theorem non_registration_calls_use_agent_token (cfg : Cfg) (ord : Order) (f : Faults) (l : Local) (c : Cat) :
    ∀ call ∈ syncFullTrace cfg ord f l c, call.kind = "sreg" ∨ call.kind = "creg" ∨ call.tok = cfg.agentTok := by
  have hsc : ∀ l' c', ∀ call ∈ syncChangesTrace cfg ord f l' c',
      call.kind = "sreg" ∨ call.kind = "creg" ∨ call.tok = cfg.agentTok := by
    intro l' c'
    apply syncChangesTrace_all
    · exact Or.inr (Or.inr rfl)
    · intro s id call h
      rcases svcCall_spec cfg s id call h with h | h
      · exact Or.inr (Or.inr h.2.2.1)
      · exact Or.inl h.1
    · intro s k call h
      rcases chkCall_spec cfg s k call h with h | h
      · exact Or.inr (Or.inr h.2.2.1)
      · exact Or.inr (Or.inl h.1)
  intro call h
  unfold syncFullTrace at h
  simp only [List.mem_cons] at h
  rcases h with h | h
  · subst h; exact Or.inr (Or.inr rfl)
  · split at h
    · simp only [List.mem_cons] at h
      rcases h with h | h
      · subst h; exact Or.inr (Or.inr rfl)
      · split at h
        · exact hsc _ _ call h
        · simp at h
    · simp at h

/-- a registration carries the effective token of the record it registers, and a check rides on
    a service registration only if it is a live, out-of-sync check of that very service whose own
    effective token is the one the request carries: no check ever picks up a service's privileges -/
theorem piggyback_never_borrows_a_token (cfg : Cfg) (s : St) (id : Id) (call : Call)
    (h : svcCall cfg s id = some call) (hk : call.kind = "sreg") :
    (∃ d tok loc, s.l.svcs.get? id = some (.ent d tok loc false false) ∧ call.tok = effTok cfg tok loc) ∧
    ∀ k ∈ call.piggy, ∃ dk tk lk, s.l.chks.get? k = some (.ent dk tk lk false false) ∧
      dk.sid = id ∧ effTok cfg tk lk = call.tok := by
  rcases svcCall_spec cfg s id call h with h' | h'
  · rw [h'.1] at hk; exact absurd hk (by decide)
  · obtain ⟨_, _, _, d, tok, loc, he, ht, hp⟩ := h'
    refine ⟨⟨d, tok, loc, he, ht⟩, ?_⟩
    intro k hkm
    rw [hp, List.mem_map] at hkm
    obtain ⟨⟨k', dk⟩, hm, rfl⟩ := hkm
    obtain ⟨tk, lk, h1, h2, h3⟩ := piggy_mem hm
    exact ⟨dk, tk, lk, h1, h2, by rw [ht]; exact h3⟩

/-- ... and every such check does ride along (it is registered in the same transaction as its
    service) -/
theorem piggyback_complete (cfg : Cfg) (s : St) (id : Id) (d : SvcDef) (tok : String) (loc : Bool)
    (k : Id) (dk : ChkDef) (tk : String) (lk : Bool)
    (hs : s.l.svcs.get? id = some (.ent d tok loc false false))
    (hc : s.l.chks.get? k = some (.ent dk tk lk false false)) (hb : dk.sid = id)
    (ht : effTok cfg tk lk = effTok cfg tok loc) :
    ∃ call, svcCall cfg s id = some call ∧ call.kind = "sreg" ∧ k ∈ call.piggy := by
  refine ⟨_, by unfold svcCall; rw [hs], rfl, ?_⟩
  simp only [List.mem_map]
  exact ⟨(k, dk), mem_piggy hc hb ht, rfl⟩

/-- a deregistration is issued for a record pending removal whatever its in-sync flag says
    (`case s.Deleted` comes first in `SyncChanges`): a refused deregistration, which leaves the
    record Deleted *and* InSync, is attempted again by every later sync -/
theorem pending_removal_always_calls_deregister (cfg : Cfg) (s : St) (id : Id) (e : Ent SvcDef)
    (he : s.l.svcs.get? id = some e) (hd : e.deleted = true) (hid : id ≠ "") :
    svcCall cfg s id = some { kind := "sdel", id := id, tok := cfg.agentTok } := by
  unfold svcCall; rw [he]
  cases e with
  | ghost b => simp [hid]
  | ent d tok loc b del => simp only [Ent.deleted] at hd; subst hd; simp [hid]

/-- a sync that finds node info in sync and every record registered and in sync sends nothing and
    changes nothing — whatever the servers would have answered -/
theorem quiet_sync_is_silent (cfg : Cfg) (ord : Order) (f : Faults) (l : Local) (c : Cat)
    (hn : l.nodeInSync = true) (hs : ∀ id, Done (l.svcs.get? id)) (hc : ∀ k, Done (l.chks.get? k)) :
    syncChangesTrace cfg ord f l c = [] ∧ syncChanges cfg ord f l c = ⟨l, c, true⟩ := by
  have a := svcLoop_done cfg f ⟨l, c, true⟩ hs (visit ord.svcs l.svcs.keys)
  have b := chkLoop_done cfg f ⟨l, c, true⟩ hc (visit ord.chks l.chks.keys)
  have hl : svcLoop cfg ord f ⟨l, c, true⟩ = ⟨l, c, true⟩ := a.1
  constructor
  · unfold syncChangesTrace restTrace
    rw [if_pos hn, hl]
    simp only [a.2, b.2, List.append_nil]
  · unfold syncChanges syncRest
    rw [if_pos hn, hl]
    exact b.1

/-- once a full sync has converged, partial syncs are silent: no RPC, no change, for every
    iteration order and whatever the servers would answer — until the agent or the catalog changes -/
theorem converged_then_partial_sync_is_silent (cfg : Cfg) (l : Local) (r : St) (ord : Order) (f : Faults)
    (h : Converged cfg l r) :
    syncChangesTrace cfg ord f r.l r.c = [] ∧ syncChanges cfg ord f r.l r.c = ⟨r.l, r.c, true⟩ :=
  quiet_sync_is_silent cfg ord f r.l r.c h.2.1 h.2.2.2.1 h.2.2.2.2.1

/-- the agent registers a service whose id was omitted under its name (`addServiceLocked`) -/
theorem omitted_service_id_is_the_name (l : Local) (d : SvcDef) (tok : String) (loc : Bool) (cs : List (Id × ChkDef)) :
    addSvcN l "" d tok loc cs = addSvc l d.name d tok loc cs := by
  simp [addSvcN]

/-! ## 9. the comparison functions and switches of the Go source, as regenerated facts -/

/-- `(*NodeService).IsSame` compares exactly the fields the model accounts for (receiver and
    argument sides alike); `svcSameFields` says which model field stands for each -/
theorem nodeService_isSame_fields :
    CV.Facts.C16.nodeServiceIsSame = svcSameFields.map (·.1) ∧
    CV.Facts.C16.nodeServiceIsSameOther = svcSameFields.map (·.1) := by decide

theorem healthCheck_isSame_fields :
    CV.Facts.C16.healthCheckIsSame = chkSameFields.map (·.1) ∧
    CV.Facts.C16.healthCheckIsSameOther = chkSameFields.map (·.1) := by decide

/-- the node-info test of `updateSyncState` reads ID, TaggedAddresses, Locality and Meta of the
    catalog's node (not its Address) against the agent's configuration and metadata -/
theorem nodeInfo_compared_fields :
    CV.Facts.C16.nodeInfoCompared = nodeSameFields ∧
    CV.Facts.C16.nodeInfoLocal = ["l.config.NodeID", "l.config.TaggedAddresses", "l.config.NodeLocality", "l.metadata"] := by
  decide

/-- `SyncChanges` tests `Deleted` before `InSync`, for services and for checks -/
theorem syncChanges_arms : CV.Facts.C16.syncChangesArms = syncChangesArms := by decide

/-- the outcome switches of the five RPC helpers have exactly the arms the model's `Outcome`
    distinguishes: success (for a deregistration also "Unknown service/check"), the two ACL errors,
    anything else -/
theorem outcome_arms :
    CV.Facts.C16.outcomeArms = outcomeArms.flatMap (fun p => p.2.map fun a => (p.1, a)) := by decide

/-! ## 10. node info: what a full sync repairs and what it cannot (side finding) -/

/-- the node-info test of `updateSyncState` is exact: node info stays marked in sync only when the
    catalog's copy equals the agent's value (locality included) -/
theorem node_info_marked_iff_equal (cfg : Cfg) (l : Local) (c : Cat) :
    (updateSyncState cfg l c).nodeInSync = true ↔ (l.nodeInSync = true ∧ c.node = some cfg.nodeVal) := by
  simp only [updateSyncState]
  constructor
  · intro h; split at h
    · rename_i hc; exact ⟨h, hc⟩
    · cases h
  · intro ⟨h1, h2⟩; rw [if_pos h2]; exact h1

/-- whatever the catalog held, a successful node-info write leaves a node value that agrees with
    the agent's in everything `Node.IsSame` compares (all but the locality) ... -/
theorem node_write_agrees_up_to_locality (old : Option Nat) (v : Nat) :
    ∃ w, nodeWrite old v = some w ∧ w % 40 = v % 40 := by
  unfold nodeWrite
  cases old with
  | none => exact ⟨v, rfl, rfl⟩
  | some w0 =>
    simp only
    split
    · rename_i h; exact ⟨w0, rfl, h⟩
    · exact ⟨v, rfl, rfl⟩

/-- ... but (side finding, not a C16 violation: the property speaks of services and checks) a
    difference in the Locality alone is never repaired: the catalog's node has locality 1 (value
    41), the agent's none (value 1); the full sync marks node info out of sync, sends it, every RPC
    succeeds — and the catalog still holds 41, so the next full sync starts over -/
theorem node_locality_only_difference_never_repaired :
    (syncFull exCfg ⟨[], []⟩ allOk Local.empty { Cat.empty with node := some 41 }).c.node = some 41 ∧
    (syncFull exCfg ⟨[], []⟩ allOk Local.empty { Cat.empty with node := some 41 }).ok = true ∧
    (updateSyncState exCfg (syncFull exCfg ⟨[], []⟩ allOk Local.empty { Cat.empty with node := some 41 }).l
      (syncFull exCfg ⟨[], []⟩ allOk Local.empty { Cat.empty with node := some 41 }).c).nodeInSync = false ∧
    ¬ NodeRepairable exCfg { Cat.empty with node := some 41 } := by
  refine ⟨by decide, by decide, by decide, ?_⟩
  intro h
  have := h 41 rfl (by decide)
  revert this; decide

/-! ## non-vacuity -/

/-- the counterexample state meets the standing assumptions (so it is the `NoRebound` hypothesis,
    and nothing else, that excludes it) -/
theorem cex_wf : WF cexL cexC := by
  refine ⟨?_, ?_, by unfold NoEmptyKey; decide⟩
  · intro k d h _
    simp only [liveChk, cexL, get?] at h
    split at h <;> simp [Ent.live?] at h
  · intro k rc h hs
    simp only [cexC, get?] at h
    split at h
    · simp only [Option.some.injEq] at h; subst h; decide
    · cases h

/-- a state that meets every hypothesis of the convergence theorem, with real work to do:
    `web` changed locally, its check `c1` new, `db` only in the catalog (to be removed), the
    `consul` service left alone -/
def okL : Local :=
  { nodeInSync := false
    svcs := [("web", .ent exWeb "t1" false false false)]
    chks := [("c1", .ent ⟨"web", 2, "web", ["a"], 0⟩ "t1" false false false)] }
def okC : Cat :=
  { node := none
    svcs := [("web", { exWeb with port := 81 }), ("db", ⟨"db", [], false, 5432, []⟩), ("consul", ⟨"consul", [], false, 8300, []⟩)]
    chks := [("c9", ⟨"db", 0, "db", [], 0⟩)] }

theorem ok_wf : WF okL okC := by
  refine ⟨?_, ?_, by unfold NoEmptyKey; decide⟩
  · intro k d h hs
    simp only [liveChk, okL, get?] at h
    split at h
    · simp only [Option.bind_some, Ent.live?, Option.some.injEq] at h; subst h; decide
    · simp at h
  · intro k rc h hs
    simp only [okC, get?] at h
    split at h
    · simp only [Option.some.injEq] at h; subst h; decide
    · cases h

theorem ok_norebound : NoRebound okL okC := by
  intro k d tok loc b rc h
  simp only [okL, get?] at h
  split at h <;> simp at h

theorem ok_casedistinct : CaseDistinct okL okC := by
  intro a b ha hb h
  have ha' := mentions_mem okL okC a ha
  have hb' := mentions_mem okL okC b hb
  simp only [okL, okC, AMap.keys, List.map, List.cons_append, List.nil_append, List.mem_cons, List.not_mem_nil, or_false] at ha' hb'
  rcases ha' with rfl | rfl | rfl | rfl | rfl | rfl <;> rcases hb' with rfl | rfl | rfl | rfl | rfl | rfl <;>
    first | rfl | (exfalso; revert h; decide)

theorem ok_noderepairable : NodeRepairable exCfg okC := by
  intro w h; simp [okC] at h

example : Converged exCfg okL (syncFull exCfg ⟨["web"], []⟩ allOk okL okC) :=
  clean_full_sync_converges_partial _ _ _ _ _ allOk_ok ok_wf ok_norebound ok_casedistinct (fun _ => rfl) ok_noderepairable

/-- the hypothesis is not idle: ids that differ only in case are excluded -/
example : ¬ CaseDistinct { okL with svcs := ("Web", .ghost false) :: okL.svcs } okC := by
  intro h
  have := h "Web" "web" (Or.inl (by decide)) (Or.inl (by decide)) (by decide)
  revert this; decide

/-- the trace of the converging run above: reads with the agent token, node info, `web` registered
    with its check `c1` riding along under token `t1`, `db` deregistered with the agent token
    (the placeholder of its check `c9` has no definition, so it is not pruned: one more
    deregistration, which finds nothing) -/
example : syncFullTrace { exCfg with agentTok := "at" } ⟨["web", "db"], []⟩ allOk okL okC =
    [{ kind := "rs", id := "", tok := "at" }, { kind := "rc", id := "", tok := "at" },
     { kind := "n", id := "", tok := "at" },
     { kind := "sreg", id := "web", tok := "t1", skip := true, piggy := ["c1"] },
     { kind := "sdel", id := "db", tok := "at" }, { kind := "cdel", id := "c9", tok := "at" }] := by decide

/-- ... and the partial sync that follows is silent -/
example : syncChangesTrace exCfg ⟨[], []⟩ allOk
    (syncFull exCfg ⟨["web"], []⟩ allOk okL okC).l (syncFull exCfg ⟨["web"], []⟩ allOk okL okC).c = [] :=
  (converged_then_partial_sync_is_silent exCfg okL _ ⟨[], []⟩ allOk
    (clean_full_sync_converges_partial exCfg ⟨["web"], []⟩ allOk okL okC allOk_ok ok_wf ok_norebound ok_casedistinct
      (fun _ => rfl) ok_noderepairable)).1

-- executable sanity checks of the same run (tests, not theorems)
#guard (syncFull exCfg ⟨["web"], []⟩ allOk okL okC).c.svcs.get? "db" == none
#guard (syncFull exCfg ⟨["web"], []⟩ allOk okL okC).c.svcs.get? "web" == some exWeb
#guard (syncFull exCfg ⟨["web"], []⟩ allOk okL okC).c.svcs.get? "consul" == some ⟨"consul", [], false, 8300, []⟩
#guard (syncFull exCfg ⟨["web"], []⟩ allOk okL okC).c.chks.get? "c9" == none
#guard ((syncFull exCfg ⟨["web"], []⟩ allOk okL okC).c.chks.get? "c1").map ChkDef.core == some ("web", 2, 0)

end CV.AE
