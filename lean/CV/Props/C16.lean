import CV.AE
namespace CV.AE
theorem placeholder_c16 : True := trivial
end CV.AE
