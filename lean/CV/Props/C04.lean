/-
C04 — locks: one holder, only live sessions, released whenever the session ends.
Property theorems only; the model is CV.Store.* and the helper lemmas live in CV/Proofs/StoreLock.lean.
(`LockInv` is defined in CV/Proofs/StoreLock.lean next to its preservation lemmas.)
-/
import CV.Proofs.StoreLock
namespace CV.Store
open CV

/-- the current lock holder of a key ("" = unlocked or absent) -/
def holder (s : State) (k : Key) : String :=
  match kvFind s k with
  | some x => x.session
  | none => ""

/-- One committed command of ANY type (KV verb, session create/destroy, register, deregister of a
    node / service / check, tombstone reap, prepared-query set/delete, transaction mixing all verbs)
    preserves the lock invariant: every lock holder, every session-check link and every
    session-bound prepared query names a session that exists. -/
theorem lock_inv_step (s : State) (idx : Nat) (c : Cmd) (h : LockInv s) : LockInv (apply s idx c).1 :=
  lockInv_apply idx c h

/-- The lock invariant holds in every reachable state: for every history (every command type, every
    interleaving, arbitrary indexes), starting from the empty store. -/
theorem lock_inv_reachable (log : Log) : LockInv (replay State.empty log) :=
  lockInv_replay _ log lockInv_empty

/-- … and from any state that satisfies it (e.g. a restored snapshot). -/
theorem lock_inv_replay (s : State) (log : Log) (h : LockInv s) : LockInv (replay s log) :=
  lockInv_replay s log h

/-- At most one holder: the lock holder of a key is a function of the key (one `session` field per
    row, one row per lookup). -/
theorem single_holder (s : State) (k : Key) (x y : KV) (hx : kvFind s k = some x) (hy : kvFind s k = some y) :
    x.session = y.session := by
  rw [hx] at hy; cases hy; rfl

/-- In a reachable state the holder of every key is a live session. -/
theorem holder_live (s : State) (h : LockInv s) (k : Key) (hk : holder s k ≠ "") : sessionLive s (holder s k) = true := by
  unfold holder at hk ⊢
  split at hk
  · next x hx => exact sessionLive_of_live (live_of_kvFind hx h hk)
  · exact absurd rfl hk

/-- An acquisition succeeds exactly when the session exists and the key is unlocked or already held
    by the same session (and the request is well-formed: non-empty session and key). -/
theorem acquire_iff (s : State) (idx : Nat) (e : KV) :
    (apply s idx (.kvLock e)).2 = .bool true ↔
      e.session ≠ "" ∧ e.key ≠ [] ∧ sessionLive s e.session = true ∧
      (holder s e.key = "" ∨ holder s e.key = e.session) := by
  rw [apply_lock_true_iff]
  simp only [lockDecision, holder]
  by_cases h1 : e.session = ""
  · simp [h1]
  by_cases h2 : sessionLive s e.session = true
  · by_cases h3 : e.key = []
    · simp [h1, h2, h3]
    · cases hf : kvFind s e.key with
      | none => simp [h1, h2, h3]
      | some x =>
        by_cases h4 : x.session = e.session
        · simp [h1, h2, h3, h4]
        · by_cases h5 : x.session = ""
          · simp [h1, h2, h3, h4, h5]
          · simp [h1, h2, h3, h4, h5]
  · simp [h1, h2]

/-- Only the holder can release: an unlock succeeds exactly when the key exists and is held by the
    requesting session. -/
theorem release_only_holder (s : State) (idx : Nat) (e : KV) :
    (apply s idx (.kvUnlock e)).2 = .bool true ↔
      e.session ≠ "" ∧ e.key ≠ [] ∧ ∃ x, kvFind s e.key = some x ∧ x.session = e.session := by
  rw [apply_unlock_true_iff]
  simp only [unlockDecision]
  by_cases h1 : e.session = ""
  · simp [h1]
  by_cases h3 : e.key = []
  · simp [h1, h3]
  cases hf : kvFind s e.key with
  | none => simp [h1, h3]
  | some x =>
    by_cases h4 : x.session = e.session
    · simp [h1, h3, h4]
    · simp [h1, h3, h4]

/-- Whenever a session ends — by ANY command: destroy (explicit or TTL expiry, which is an ordinary
    destroy through Raft), node deregistration or rename, deletion or critical status of a bound
    check, deletion inside a transaction — then in the state right after that same command no key
    names it as holder, no check link and no prepared query refers to it. -/
theorem session_end_same_step (s : State) (idx : Nat) (c : Cmd) (h : LockInv s) (id : String)
    (hend : sessionLive (apply s idx c).1 id = false) :
    (∀ e ∈ (apply s idx c).1.kvs, e.session = "" ∨ lc e.session ≠ lc id) ∧
    (∀ m ∈ (apply s idx c).1.sessChecks, lc m.session ≠ lc id) ∧
    (∀ q ∈ (apply s idx c).1.queries, q.session = "" ∨ lc q.session ≠ lc id) := by
  have h' := lockInv_apply idx c h
  have hnl : ∀ x : String, lc x = lc id → ¬ Live (apply s idx c).1.sessions x := by
    intro x hx hl
    have : sessionLive (apply s idx c).1 id = true := by
      apply sessionLive_of_live
      obtain ⟨y, hy, hk⟩ := hl
      exact ⟨y, hy, hk.trans hx⟩
    rw [hend] at this; cases this
  refine ⟨?_, ?_, ?_⟩
  · intro e he
    by_cases hs : e.session = ""
    · exact Or.inl hs
    · exact Or.inr (fun hc => hnl _ hc (h'.1 e he hs))
  · intro m hm hc
    exact hnl _ hc (h'.2.1 m hm)
  · intro q hq
    by_cases hs : q.session = ""
    · exact Or.inl hs
    · exact Or.inr (fun hc => hnl _ hc (h'.2.2 q hq hs))

end CV.Store
