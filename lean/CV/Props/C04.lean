/-
C04 — locks: one holder, only live sessions, released whenever the session ends.
Property theorems only; the model is CV.Store.* and the helper lemmas live in CV/Proofs/StoreLock.lean.
(`LockInv` is defined in CV/Proofs/StoreLock.lean next to its preservation lemmas.)
-/
import CV.Proofs.StoreSorted
import CV.Proofs.StoreFuel
namespace CV.Store
open CV

/-- the current lock holder of a key ("" = unlocked or absent) -/
def holder (s : State) (k : Key) : String :=
  match kvFind s k with
  | some x => x.session
  | none => ""

/-- One committed command of ANY type (KV verb, session create/destroy, register, deregister of a
    node / service / check, tombstone reap, prepared-query set/delete, transaction mixing all verbs)
    preserves the lock invariant: every lock holder, every session-check link and every
    session-bound prepared query names a session that exists. -/
theorem lock_inv_step (s : State) (idx : Nat) (c : Cmd) (h : LockInv s) : LockInv (apply s idx c).1 :=
  lockInv_apply idx c h

/-- The lock invariant holds in every reachable state: for every history (every command type, every
    interleaving, arbitrary indexes), starting from the empty store. -/
theorem lock_inv_reachable (log : Log) : LockInv (replay State.empty log) :=
  lockInv_replay _ log lockInv_empty

/-- … and from any state that satisfies it (e.g. a restored snapshot). -/
theorem lock_inv_replay (s : State) (log : Log) (h : LockInv s) : LockInv (replay s log) :=
  lockInv_replay s log h

/-- At most one holder: the lock holder of a key is a function of the key (one `session` field per
    row, one row per lookup). -/
theorem single_holder (s : State) (k : Key) (x y : KV) (hx : kvFind s k = some x) (hy : kvFind s k = some y) :
    x.session = y.session := by
  rw [hx] at hy; cases hy; rfl

/-- In a reachable state the holder of every key is a live session. -/
theorem holder_live (s : State) (h : LockInv s) (k : Key) (hk : holder s k ≠ "") : sessionLive s (holder s k) = true := by
  unfold holder at hk ⊢
  split at hk
  · next x hx => exact sessionLive_of_live (live_of_kvFind hx h hk)
  · exact absurd rfl hk

/-- An acquisition succeeds exactly when the session exists and the key is unlocked or already held
    by the same session (and the request is well-formed: non-empty session and key). -/
theorem acquire_iff (s : State) (idx : Nat) (e : KV) :
    (apply s idx (.kvLock e)).2 = .bool true ↔
      e.session ≠ "" ∧ e.key ≠ [] ∧ sessionLive s e.session = true ∧
      (holder s e.key = "" ∨ holder s e.key = e.session) := by
  rw [apply_lock_true_iff]
  simp only [lockDecision, holder]
  by_cases h1 : e.session = ""
  · simp [h1]
  by_cases h2 : sessionLive s e.session = true
  · by_cases h3 : e.key = []
    · simp [h1, h2, h3]
    · cases hf : kvFind s e.key with
      | none => simp [h1, h2, h3]
      | some x =>
        by_cases h4 : x.session = e.session
        · simp [h1, h2, h3, h4]
        · by_cases h5 : x.session = ""
          · simp [h1, h2, h3, h4, h5]
          · simp [h1, h2, h3, h4, h5]
  · simp [h1, h2]

/-- Only the holder can release: an unlock succeeds exactly when the key exists and is held by the
    requesting session. -/
theorem release_only_holder (s : State) (idx : Nat) (e : KV) :
    (apply s idx (.kvUnlock e)).2 = .bool true ↔
      e.session ≠ "" ∧ e.key ≠ [] ∧ ∃ x, kvFind s e.key = some x ∧ x.session = e.session := by
  rw [apply_unlock_true_iff]
  simp only [unlockDecision]
  by_cases h1 : e.session = ""
  · simp [h1]
  by_cases h3 : e.key = []
  · simp [h1, h3]
  cases hf : kvFind s e.key with
  | none => simp [h1, h3]
  | some x =>
    by_cases h4 : x.session = e.session
    · simp [h1, h3, h4]
    · simp [h1, h3, h4]

/-- Whenever a session ends — by ANY command: destroy (explicit or TTL expiry, which is an ordinary
    destroy through Raft), node deregistration or rename, deletion or critical status of a bound
    check, deletion inside a transaction — then in the state right after that same command no key
    names it as holder, no check link and no prepared query refers to it. -/
theorem session_end_same_step (s : State) (idx : Nat) (c : Cmd) (h : LockInv s) (id : String)
    (hend : sessionLive (apply s idx c).1 id = false) :
    (∀ e ∈ (apply s idx c).1.kvs, e.session = "" ∨ lc e.session ≠ lc id) ∧
    (∀ m ∈ (apply s idx c).1.sessChecks, lc m.session ≠ lc id) ∧
    (∀ q ∈ (apply s idx c).1.queries, q.session = "" ∨ lc q.session ≠ lc id) := by
  have h' := lockInv_apply idx c h
  have hnl : ∀ x : String, lc x = lc id → ¬ Live (apply s idx c).1.sessions x := by
    intro x hx hl
    have : sessionLive (apply s idx c).1 id = true := by
      apply sessionLive_of_live
      obtain ⟨y, hy, hk⟩ := hl
      exact ⟨y, hy, hk.trans hx⟩
    rw [hend] at this; cases this
  refine ⟨?_, ?_, ?_⟩
  · intro e he
    by_cases hs : e.session = ""
    · exact Or.inl hs
    · exact Or.inr (fun hc => hnl _ hc (h'.1 e he hs))
  · intro m hm hc
    exact hnl _ hc (h'.2.1 m hm)
  · intro q hq
    by_cases hs : q.session = ""
    · exact Or.inl hs
    · exact Or.inr (fun hc => hnl _ hc (h'.2.2 q hq hs))

/-- Commands outside the KV verbs (session create / destroy, register, deregister, reap, prepared
    queries) reach the KV table ONLY by releasing or deleting rows: every row afterwards is a row from
    before — identical, or with `session` cleared and `modify` set to the command's index. In particular
    no key appears, no value / flags / lock counter / create index changes, and a released key keeps
    its lock counter. -/
theorem nonkv_only_releases_or_deletes (s : State) (idx : Nat) (c : Cmd) (hc : c.isPlainNonKv = true) :
    ∀ e' ∈ (apply s idx c).1.kvs, ∃ e ∈ s.kvs, RowFrom idx e e' :=
  kc_apply (kvRel_closed idx s) c hc (kvRel_refl idx s)

/-- A row that nobody holds is never touched by those commands. -/
theorem unlocked_rows_survive (s : State) (idx : Nat) (c : Cmd) (hc : c.isPlainNonKv = true)
    (r : KV) (hr : r ∈ s.kvs) (hs : r.session = "") : r ∈ (apply s idx c).1.kvs :=
  kc_apply (survive_closed idx r hs) c hc hr

/-- Session destroy, behaviour `delete`: in the state right after the destroy every remaining row
    descends from a row that the session did NOT hold (so, keys being unique, every key it held is
    gone) — including everything the cascade through session-typed checks removes on top. -/
theorem destroy_deletes_held_keys (s : State) (idx : Nat) (id : String) (sess : Sess)
    (hf : sessFind s id = some sess) (hb : sess.behavior = .delete)
    (hok : (apply s idx (.sessionDestroy id)).2 = .ok) :
    ∀ e' ∈ (apply s idx (.sessionDestroy id)).1.kvs, ∃ e ∈ s.kvs, heldBy id e = false ∧ RowFrom idx e e' :=
  destroy_delete_rows hf hb hok

/-- Session destroy, behaviour `release`: every key the session held is still there, unlocked, with
    the same value, flags, lock counter and create index, stamped with the destroy's index. -/
theorem destroy_releases_held_keys (s : State) (idx : Nat) (id : String) (sess : Sess)
    (hf : sessFind s id = some sess) (hb : sess.behavior = .release)
    (hok : (apply s idx (.sessionDestroy id)).2 = .ok) (e : KV) (he : e ∈ s.kvs) (hh : heldBy id e = true) :
    { e with session := "", modify := idx } ∈ (apply s idx (.sessionDestroy id)).1.kvs :=
  destroy_release_rows hf hb hok e he hh

/-- One row — hence one holder — per key, in every reachable state: the KV table is strictly sorted
    by key after every history. -/
theorem one_row_per_key (log : Log) (a b : KV) (ha : a ∈ (replay State.empty log).kvs)
    (hb : b ∈ (replay State.empty log).kvs) (hk : a.key = b.key) : a = b :=
  kvSorted_unique (kvSorted_replay _ log kvSorted_empty) ha hb hk

/-- … so with behaviour `delete` every key the destroyed session held is absent afterwards. -/
theorem destroy_deleted_keys_absent (s : State) (hs : KvSorted s) (idx : Nat) (id : String) (sess : Sess)
    (hf : sessFind s id = some sess) (hb : sess.behavior = .delete)
    (hok : (apply s idx (.sessionDestroy id)).2 = .ok) (e : KV) (he : e ∈ s.kvs) (hh : heldBy id e = true) :
    ∀ e' ∈ (apply s idx (.sessionDestroy id)).1.kvs, e'.key ≠ e.key := by
  intro e' he' hk
  obtain ⟨e0, he0, hn, hfrom⟩ := destroy_delete_rows hf hb hok e' he'
  have hk0 : e0.key = e.key := by
    rcases hfrom with rfl | ⟨-, rfl⟩
    · exact hk
    · exact hk
  have := kvSorted_unique hs he0 he hk0
  rw [this, hh] at hn
  cases hn

/-- The recursion budget of the invalidation cascade (`deleteSessionTxn` → `updateSessionCheck` →
    `ensureCheckTxn` → `checkSessionsTxn` → `deleteSessionTxn` …) always suffices: for EVERY state the
    model-internal error `Err.fuel` is never produced — every level that consumes fuel removes a
    session row and nothing in the cascade adds one. The model's totalisation hides no behaviour. -/
theorem fuel_suffices (s : State) (idx : Nat) :
    (∀ id, deleteSession s idx id ≠ .error .fuel) ∧ (∀ p hc, ensureCheck s idx p hc ≠ .error .fuel) :=
  ⟨fun id => deleteSession_never_fuel s idx id, fun p hc => ensureCheck_never_fuel s idx p hc⟩

/-! ### non-vacuity -/

/-- node, session bound to a check, a locked key, a session-scoped prepared query -/
def demoLog : Log :=
  [(1, .register ⟨⟨"n1", "", "10.0.0.1", 0, 0⟩, none, [⟨"n1", "c1", "passing", "", "", "", "", "", 0, 0⟩]⟩),
   (2, .sessionCreate ⟨"aaaaaaaa-0000-0000-0000-000000000001", "n1", "", "delete", ["c1"], 0⟩),
   (3, .kvLock ⟨[107], "=v", 0, "aaaaaaaa-0000-0000-0000-000000000001", 0, 0, 0⟩),
   (4, .pqSet "cccccccc-0000-0000-0000-000000000001" "aaaaaaaa-0000-0000-0000-000000000001")]

/- The invariant is not vacuous. The two facts below are TESTS (`#guard`, evaluated by the compiler
   when this file is built; string comparisons do not reduce in the kernel), not theorems:
   there are reachable states with a held lock, a check link and a session-bound query … -/
#guard (replay State.empty demoLog).kvs.map (·.session) == ["aaaaaaaa-0000-0000-0000-000000000001"] &&
    (replay State.empty demoLog).sessChecks.length == 1 && (replay State.empty demoLog).queries.length == 1

/- … and the critical status of the bound check ends the session and (behaviour delete) removes the
   key, the link and the query in that same command. -/
#guard
    let s' := (apply (replay State.empty demoLog) 5
      (.register ⟨⟨"n1", "", "10.0.0.1", 0, 0⟩, none, [⟨"n1", "c1", "critical", "", "", "", "", "", 0, 0⟩]⟩)).1
    s'.sessions.isEmpty && s'.kvs.isEmpty && s'.sessChecks.isEmpty && s'.queries.isEmpty

/- hypotheses of the destroy theorems are satisfiable: the session exists and the destroy succeeds (test) -/
#guard (sessFind (replay State.empty demoLog) "aaaaaaaa-0000-0000-0000-000000000001").isSome &&
    (apply (replay State.empty demoLog) 5 (.sessionDestroy "aaaaaaaa-0000-0000-0000-000000000001")).2 == .ok

end CV.Store
