/-
C18 — resource store: version CAS, stable UIDs, ordered watches.
Property theorems only; helper lemmas live in CV/Proofs/Res*.lean.

Part D  watches: the store + the event publisher (FIFO publish channel drained by `pump`, subject buffers,
        snapshot cache) + `Watch.Next`, for ALL interleavings of store calls, watcher calls and publisher
        steps (an operation sequence of `World` is such an interleaving)
Part A  the sequential specification (`specStep`: `DB.writeCAS`, `DB.deleteCAS`, `DB.read`, …), which is
        also what a linearizable concurrent history is linearizable *to*
Part B  the linearizability checker used on the recorded concurrent histories
Part E  the resource service layer (`Write`, `WriteStatus`, `Delete` of agent/grpc-external/services/resource) on top
        of the store: version CAS, uid carried over / minted, owner and status immutability under `Write`,
        generation minted by `Write` only, stale lifetimes untouched, `retryCAS`
-/
import CV.Proofs.Res
import CV.Proofs.ResProto
import CV.Proofs.ResWatch
import CV.Proofs.ResSvc
namespace CV.Res
open Lin

/-! ## Part A — version CAS and uids -/

/-- **At most one success per presented version.** In any run without a restore in which every write
    stores a version never stored before, at most one *committed* operation (write or delete — the ones
    that publish an event) addresses resource `k` presenting the non-empty version `v`.
    No bound on the length of the run, the number of resources or the interleaving of the callers: the
    run is any sequence the store's lock serialises (see `linearizable_cas_at_most_one`). -/
theorem cas_at_most_one (st : Rows) (ops : List HCall) (hnr : NoRestore ops)
    (hf : FreshFrom (st.map (·.version)) ops) (k : Bytes) (v : String) (hv : v ≠ "") :
    ((trace st ops).filter (committedPresenting k v)).length ≤ 1 :=
  at_most_one_aux k v hv ops st _ hnr hf (fun r hr => List.mem_map.mpr ⟨r, hr, rfl⟩)

/-- The freshness hypothesis is a theorem for `inmem.Backend` (version = decimal of a counter that is
    incremented for every write call, successful or not): for any sequence of calls on a new backend. -/
theorem cas_at_most_one_inmem_backend (ops : List HCall) (hnr : NoRestore ops)
    (k : Bytes) (v : String) (hv : v ≠ "") :
    ((trace [] (backendCalls 0 ops)).filter (committedPresenting k v)).length ≤ 1 :=
  cas_at_most_one [] _ (backendCalls_noRestore ops 0 hnr)
    (backendCalls_fresh ops 0 [] (by simp)) k v hv

/-- **Creations (presented version "") — at most one per lifetime.** As long as no delete of `k` commits,
    at most one operation presenting the empty version commits on `k`: of any number of racing creators
    exactly one wins; a second creation needs a committed delete in between. (Stored versions are
    non-empty: both backends store a decimal.) -/
theorem creates_at_most_one_per_lifetime (st : Rows) (ops : List HCall) (hnr : NoRestore ops)
    (hnw : NonEmptyWrites ops) (hst : ∀ r ∈ st, r.version ≠ "") (k : Bytes)
    (hnd : (trace st ops).all (fun t => !deletesKey k t) = true) :
    ((trace st ops).filter (committedPresenting k "")).length ≤ 1 :=
  creates_at_most_one_aux k ops st (st.map (·.version)) hnr hnw
    (fun r hr => List.mem_map.mpr ⟨r, hr, rfl⟩)
    (by intro h; obtain ⟨r, hr, e⟩ := List.mem_map.mp h; exact hst r hr e) hnd

/-- **UID is stable.** One operation never changes the uid of a resource that exists before and after. -/
theorem uid_stable (st : Rows) (c : HCall) (hc : ∀ rs, c ≠ .restore rs) (k : Bytes) (a b : Res)
    (ha : lookup k st = some a) (hb : lookup k (specStep st c).1 = some b) : b.id.uid = a.id.uid :=
  uid_stable_step st c hc k a b ha hb

/-- … hence over any run: as long as no delete of `k` commits (and nothing is restored), `k` stays
    present and keeps the uid it had — a uid names one lifetime. -/
theorem uid_stable_within_lifetime (k : Bytes) (ops : List HCall) (st : Rows) (a : Res)
    (hnr : NoRestore ops) (ha : lookup k st = some a)
    (hnd : (trace st ops).all (fun t => !deletesKey k t) = true) :
    ∃ b, lookup k (finalRows st ops) = some b ∧ b.id.uid = a.id.uid :=
  uid_stable_run k ops st a hnr ha hnd

/-- **A re-created resource is a distinct lifetime** (single operations): against a stored resource with
    another uid a write is rejected with `ErrWrongUid`, a delete is a silent no-op, a uid-qualified read
    says not found — whatever version is presented — and nothing changes, no event is published. -/
theorem recreated_is_distinct (db : DB) (cur : Res) :
    (∀ res vsn, lookup (idKey res.id) db.rows = some cur → cur.id.uid ≠ res.id.uid →
        db.writeCAS res vsn = (db, .wrongUid, none)) ∧
    (∀ id vsn, lookup (idKey id) db.rows = some cur → cur.id.uid ≠ id.uid →
        db.deleteCAS id vsn = (db, true, none)) ∧
    (∀ id, lookup (idKey id) db.rows = some cur → cur.id.uid ≠ id.uid → id.uid ≠ [] →
        db.read id = .notFound) := by
  refine ⟨?_, ?_, ?_⟩
  · intro res vsn h hu; simp [DB.writeCAS, h, hu]
  · intro id vsn h hu; simp only [DB.deleteCAS, h]; rw [if_pos (fun e => hu e.symm)]
  · intro id h hu hne; simp [DB.read, h, hu, hne]

/-- … and over any run: a client that keeps using the uid `u` of an earlier lifetime for every write and
    delete it sends to `k` can never change the re-created resource (uid ≠ `u`), and none of its
    operations on `k` commits. -/
theorem stale_client_cannot_touch (k u : Bytes) (cur : Res) (hu : cur.id.uid ≠ u)
    (ops : List HCall) (st : Rows) (hs : StaleOn k u ops) (hcur : lookup k st = some cur) :
    lookup k (finalRows st ops) = some cur ∧
    (trace st ops).all (fun t => !(touches k t.1 && t.2.2.isSome)) = true :=
  stale_run k u cur hu ops st hs hcur

/-! ### non-vacuity -/

section examples
def exId (uid : Bytes) : RID := ⟨⟨[100], [1], [97]⟩, ⟨[100], [100]⟩, [120], uid⟩
def exRes (uid : Bytes) (v : String) (d : Nat) : Res := ⟨exId uid, none, v, d⟩

/-- create x, then two writers and a deleter all presenting version "1": exactly one commits -/
def exOps : List HCall :=
  [.write (exRes [1] "1" 0) "", .write (exRes [1] "2" 1) "1", .write (exRes [1] "3" 2) "1", .delete (exId [1]) "1"]

example : NoRestore exOps ∧ FreshFrom (([] : Rows).map (·.version)) exOps := by
  simp only [exOps, NoRestore, FreshFrom]; decide
example : ((trace [] exOps).filter (committedPresenting (idKey (exId [1])) "1")).length = 1 := by decide
example : ((trace [] exOps).map (·.2.1)) = [.w .ok, .w .ok, .w .cas, .d false] := by decide

/-- delete and re-create under a new uid: the holder of the old uid is locked out -/
def exStale : List HCall := [.write (exRes [1] "9" 5) "2", .delete (exId [1]) "2", .read (exId [1])]
example : StaleOn (idKey (exId [1])) [1] exStale := by simp only [exStale, StaleOn]; decide
example : (trace [exRes [2] "2" 0] exStale).map (·.2.1) = [.w .wrongUid, .d true, .r .notFound] := by decide
end examples


/-! ## Part E — the resource service layer (model: CV.ResSvc) -/

namespace Svc

/-- **Update path of `Write`.** Whenever the backend read finds a stored resource `ex` (directly or inside a
    GroupVersion mismatch) and the attempt gets as far as writing, what it hands to `Backend.WriteCAS`
    * carries the *stored* id (so the uid of a live resource cannot change through `Write`) and presents the
      stored version, which for a CAS call is the version the caller presented (**service-level version CAS**:
      a caller version different from the one read ends the attempt with `ErrCASFailure` before anything is written);
    * has the stored owner (**owner immutability**) and the stored status map (**`Write` never changes a status**);
    * has the freshly minted generation;
    and payload / other metadata are the caller's. Holds in every state, i.e. whatever other clients did before. -/
theorem svc_write_update_laws (w : SW) (req : SRes) (h : Hints) (tmfd : Bool) (ex input : SRes)
    (hex : (w.beRead req.r.id).stored? = some ex) (hp : writePlan w req h tmfd = .ok input) :
    input.r.id = ex.r.id ∧ input.r.version = ex.r.version ∧ (req.r.version = "" ∨ req.r.version = ex.r.version) ∧
    input.r.owner = ex.r.owner ∧ input.x.status = ex.x.status ∧ input.x.gen = h.gen ∧
    (req.r.version ≠ "" → input.x.delTs = req.x.delTs ∧ input.x.fins = req.x.fins) ∧
    input.r.data = req.r.data ∧ input.x.other = req.x.other :=
  updatePlan_laws w req h tmfd ex input hex hp

/-- **Create path of `Write`.** When the backend read finds nothing, the resource handed to `WriteCAS` has the
    caller's name with a *minted* uid (never the caller's), no status, no deletion timestamp, the minted
    generation, and presents the caller's version — so with a non-empty version the backend rejects it
    (`DB.writeCAS`: absent ∧ version ≠ "" ⇒ CAS failure). -/
theorem svc_write_create_laws (w : SW) (req : SRes) (h : Hints) (tmfd : Bool) (input : SRes)
    (hnf : w.beRead req.r.id = .notFound) (hp : writePlan w req h tmfd = .ok input) :
    input.r.id = { req.r.id with uid := h.uid } ∧ input.r.version = req.r.version ∧ input.x.status = [] ∧
    input.x.gen = h.gen ∧ input.x.delTs = none ∧ tmfd = false ∧ input.r.data = req.r.data :=
  createPlan_laws w req h tmfd input hnf hp

/-- **A stale writer cannot touch a re-created resource (service layer).** A `Write` that names the uid of another
    lifetime than the stored one is rejected and store and side table are exactly what they were — for CAS and
    non-CAS calls, any GroupVersion, any presented version. (No interference during the call; the minted uid is
    not the stored one — `ulid.Make()` is fresh.) -/
theorem svc_stale_write_untouched (w : SW) (req : SRes) (h : Hints) (tmfd : Bool) (cur : Res)
    (hl : lookup (idKey (defaultId req.r.id)) w.db.rows = some cur)
    (hne : req.r.id.uid ≠ []) (hu : cur.id.uid ≠ req.r.id.uid) (hfresh : cur.id.uid ≠ h.uid) :
    (w.svcWrite [] req h tmfd).1.db = w.db ∧ (w.svcWrite [] req h tmfd).1.ext = w.ext ∧
    ∃ e, (w.svcWrite [] req h tmfd).2.2 = .error e ∧ e ≠ .aborted :=
  stale_write_untouched w req h tmfd cur hl hne hu hfresh

/-- … a stale `Delete` is a no-op that reports success (idempotent delete), no tombstone is written … -/
theorem svc_stale_delete_noop (w : SW) (id : RID) (vsn : String) (h : Hints) (tmfd : Bool) (cur : Res)
    (hl : lookup (idKey (defaultId id)) w.db.rows = some cur) (hne : id.uid ≠ []) (hu : cur.id.uid ≠ id.uid) :
    w.svcDelete [] id vsn h tmfd = (w, [], .ok ()) :=
  stale_delete_noop w id vsn h tmfd cur hl hne hu

/-- … and a stale `WriteStatus` is answered NotFound, nothing changes. -/
theorem svc_stale_status_rejected (w : SW) (id : RID) (key : String) (st : SStat) (vsn : String) (h : Hints) (cur : Res)
    (hl : lookup (idKey (defaultId id)) w.db.rows = some cur) (hne : id.uid ≠ []) (hu : cur.id.uid ≠ id.uid) :
    w.svcWriteStatus [] id key st vsn h = (w, [], .error .notFound) :=
  stale_status_rejected w id key st vsn h cur hl hne hu

/-- **Status writes.** A successful `WriteStatus` attempt stores the resource it read with exactly one status key
    replaced (stamped with the current time): id (uid), owner, payload, metadata and — unlike `Write` — the
    *generation* are unchanged; with a non-empty version it commits only on that version. -/
theorem svc_status_write_laws (w : SW) (id : RID) (key : String) (st : SStat) (vsn : String) (h : Hints)
    (w' : SW) (s' : Sched) (stored : SRes) (hr : statusAttempt w [] id key st vsn h = (w', s', .ok stored)) :
    ∃ r, w.beRead id = .found r ∧ (vsn = "" ∨ vsn = r.r.version) ∧ stored.r.id = r.r.id ∧ stored.r.owner = r.r.owner ∧
      stored.r.data = r.r.data ∧ stored.x.gen = r.x.gen ∧ stored.x.delTs = r.x.delTs ∧ stored.x.fins = r.x.fins ∧
      stored.x.other = r.x.other ∧ stored.x.tomb = r.x.tomb ∧
      stored.x.status = setStatus key { st with upd := h.upd } r.x.status :=
  status_write_laws w id key st vsn h w' s' stored hr

/-- **`retryCAS`** retries nothing but `ErrCASFailure`: any other outcome of an attempt (success, ErrWrongUid, a
    validation error, a gRPC status from a nested call) is the outcome of the call; and a CAS call (non-empty
    version) makes exactly one attempt. -/
theorem svc_retry_only_cas_failure {α : Type} (attempt : SW → Sched → Att α) (n : Nat) (w : SW) (s : Sched)
    (h : (attempt w s).2.2 ≠ .error .aborted) : retry attempt n w s = attempt w s :=
  retry_stops attempt n w s h

theorem svc_cas_call_single_attempt {α : Type} (attempt : SW → Sched → Att α) (vsn : String) (hv : vsn ≠ "")
    (w : SW) (s : Sched) : retry attempt (retries vsn) w s = attempt w s := by
  simp [retries, hv, retry]

/-- **CAS delete — partial.** If the caller names a uid or presents no version (i.e. except for a by-name delete
    that presents a version), `Delete` is either a non-CAS delete or hands the caller's own (id, version) to
    `DeleteCAS`, which the store honours: another version than the stored one removes nothing and fails, another
    uid is a no-op. -/
theorem svc_delete_cas_partial (id : RID) (vsn : String) (ex : SRes) (hyp : id.uid ≠ [] ∨ vsn = "") :
    vsn = "" ∨ (deleteTarget id vsn ex = (id, vsn) ∧
      ∀ (w : SW) (cur : Res), lookup (idKey id) w.db.rows = some cur → (vsn ≠ cur.version ∨ cur.id.uid ≠ id.uid) →
        (w.beDelete id vsn).1 = w) := by
  by_cases hv : vsn = ""
  · exact Or.inl hv
  · right
    have hu : id.uid ≠ [] := by rcases hyp with h | h; exact h; exact absurd h hv
    refine ⟨by simp [deleteTarget, hv, hu], ?_⟩
    intro w cur hl hc
    by_cases huid : id.uid = cur.id.uid
    · have hvv : vsn ≠ cur.version := by
        rcases hc with h | h
        · exact h
        · exact absurd huid.symm h
      simp [SW.beDelete, DB.deleteCAS, hl, huid, hvv]
    · simp [SW.beDelete, DB.deleteCAS, hl, huid]

section svcExamples
def sId (uid : Bytes) : RID := ⟨⟨[100], [118, 50], [65, 114, 116, 105, 115, 116]⟩, ⟨[100], [100]⟩, [97], uid⟩
def sHints : Hints := ⟨[85, 57], "G9", [85, 56], "G8", "T1", "NOW"⟩
/-- artist `a`, uid U1, at version "2" (two writes so far) -/
def sW2 : SW := { db := { rows := [⟨sId [85, 49], none, "2", 4⟩], evIdx := 4 }, ext := [(idKey (sId []), { gen := "G2" })], ctr := 2 }

/-- **The excluded case is real (known finding `svc:delete-by-name-ignores-version`).** A `Delete` by name (empty
    uid) presenting the stale version "1" while version "2" is stored succeeds and removes the resource: the
    presented version is replaced by the stored one. (A tombstone for the exact lifetime is left behind.) -/
theorem svc_delete_by_name_ignores_version_counterexample :
    (sW2.svcDelete [] (sId []) "1" sHints false).2.2 = .ok () ∧
    lookup (idKey (sId [])) (sW2.svcDelete [] (sId []) "1" sHints false).1.db.rows = none ∧
    deleteTarget (sId []) "1" (sW2.full ⟨sId [85, 49], none, "2", 4⟩) = (sId [85, 49], "2") := by
  refine ⟨by decide, by decide, by decide⟩

/-- with the uid presented the same stale delete is refused (and retried by nobody: it is a CAS call) -/
example : (sW2.svcDelete [] (sId [85, 49]) "1" sHints false).2.2 = .error .aborted ∧
    lookup (idKey (sId [])) (sW2.svcDelete [] (sId [85, 49]) "1" sHints false).1.db.rows = some ⟨sId [85, 49], none, "2", 4⟩ := by
  refine ⟨by decide, by decide⟩

/-- non-vacuity of the update / create laws: a non-CAS write by name on `sW2` plans the stored id and version,
    on the empty store it plans a minted uid -/
example : (writePlan sW2 ⟨⟨sId [], none, "", 8⟩, {}⟩ sHints false).toOption.map (fun i => (i.r.id.uid, i.r.version, i.x.gen)) =
    some ([85, 49], "2", "G9") := by decide
example : (writePlan SW.init ⟨⟨sId [], none, "", 8⟩, {}⟩ sHints false).toOption.map (fun i => (i.r.id.uid, i.r.version, i.x.gen)) =
    some ([85, 57], "", "G9") := by decide
/-- a stale writer (uid U7) on `sW2`: rejected with ErrWrongUid -/
example : (sW2.svcWrite [] ⟨⟨sId [85, 55], none, "", 8⟩, {}⟩ sHints false).2.2 = .error .wrongUid := by decide
/-- a status write on `sW2` keeps the generation "G2" and bumps only the version -/
example : (statusAttempt sW2 [] (sId [85, 49]) "k" ⟨"G2", 1, ""⟩ "" sHints).2.2.toOption.map (fun r => (r.x.gen, r.r.version, r.x.status)) =
    some ("G2", "3", [("k", ⟨"G2", 1, "T1"⟩)]) := by decide
/-- a foreign commit between read and write makes a non-CAS `Write` retry and then succeed on the new version;
    the same interference makes a CAS `Write` fail with Aborted -/
example : (sW2.svcWrite [[.write ⟨⟨sId [85, 49], none, "2", 12⟩, {}⟩]] ⟨⟨sId [], none, "", 8⟩, {}⟩ sHints false).2.2.toOption.map (·.r.version) = some "5" := by decide
example : (sW2.svcWrite [[.write ⟨⟨sId [85, 49], none, "2", 12⟩, {}⟩]] ⟨⟨sId [], none, "2", 8⟩, {}⟩ sHints false).2.2 = .error .aborted := by decide
end svcExamples

end Svc

/-! ## Part B — the linearizability checker -/

/-- **`linCheck` is sound**: what it returns is a permutation of the history that respects the real-time
    order (no operation before one that had returned before it was called) and is legal for the
    sequential specification from the empty store. The search strategy is irrelevant: the result is
    re-validated. -/
theorem linCheck_sound (h : List HOp) (hint : List SEv) (l : List HOp) (hl : linCheck h hint = some l) :
    l.Perm h ∧ RespectsRT l ∧ legal [] l = true := by
  unfold linCheck at hl
  simp only at hl
  split at hl
  · split at hl
    · next hv =>
      cases hl
      simp only [validLin, Bool.and_eq_true, decide_eq_true_eq] at hv
      exact ⟨List.isPerm_iff.mp hv.1.1, hv.1.2, hv.2⟩
    · cases hl
  · cases hl

/-- a legal sequence is a run of the specification producing exactly the recorded results -/
theorem legal_iff_trace (st : Rows) (l : List HOp) :
    legal st l = true ↔ (trace st (l.map (·.op))).map (·.2.1) = l.map (·.res) := by
  induction l generalizing st with
  | nil => simp [legal, trace]
  | cons o os ih =>
    simp only [legal, List.map_cons, trace, List.cons.injEq, Bool.and_eq_true, beq_iff_eq, ih]

/-- Consequently every history the checker accepts has at most one committed operation per resource and
    presented version: the concurrent statement of the property, for every accepted history. -/
theorem linearizable_cas_at_most_one (h : List HOp) (hint : List SEv) (l : List HOp)
    (_hl : linCheck h hint = some l) (hnr : NoRestore (l.map (·.op))) (hf : FreshFrom [] (l.map (·.op)))
    (k : Bytes) (v : String) (hv : v ≠ "") :
    ((trace [] (l.map (·.op))).filter (committedPresenting k v)).length ≤ 1 :=
  cas_at_most_one [] _ hnr (by simpa using hf) k v hv

/-! ## Part C — the eventLock protocol, over all interleavings -/

namespace Proto

/-- **Publish order = commit order.** For every interleaving of the atomic actions of any number of
    writer threads, readers and the publisher goroutine, the sequence of events sent on the publish
    channel is a prefix of the sequence of commits, and equals it whenever the lock is free. -/
theorem proto_events_in_commit_order (acts : List Act) :
    (run true PState.init acts).chan <+: (run true PState.init acts).db ∧
    ((run true PState.init acts).lock = none → (run true PState.init acts).chan = (run true PState.init acts).db) := by
  have h := pinv_run acts _ pinv_init
  refine ⟨pinv_prefix h, fun hl => ?_⟩
  have := h.shape
  simpa [hl] using this

/-- **Read after event.** Whatever an observer has received from the publisher is contained in the
    database it reads right afterwards (events are sent only after the commit) and — the database only
    ever growing — in the database at every later point of the interleaving. -/
theorem proto_read_after_event (acts later : List Act) :
    ∀ x ∈ (run true PState.init acts).seen, ∀ e ∈ x.2.1,
      e ∈ x.2.2 ∧ e ∈ (run true (run true PState.init acts) later).db := by
  intro x hx e he
  have h := pinv_run acts _ pinv_init
  have hin := h.seenOk x hx e he
  have hpre := seen_prefix_run true acts PState.init (by simp [PState.init]) x hx
  exact ⟨hin, (db_grows_run true later _).subset (hpre.subset hin)⟩

/-- Without `eventLock` the ordering fails: two writers, the second one overtakes the first between
    commit and publish. (Same protocol, lock acquisition always succeeds.) -/
theorem proto_unlocked_counterexample :
    ∃ acts, ¬ ((run false PState.init acts).chan <+: (run false PState.init acts).db) :=
  ⟨[.lock 0, .lock 1, .commit 0, .commit 1, .publish 1, .publish 0], by decide⟩

/-- non-vacuity: the locked protocol does make progress on the same schedule prefix, and a full
    two-writer schedule ends with both events published in commit order -/
example : (run true PState.init [.lock 0, .lock 1, .commit 0, .commit 1, .publish 0, .unlock 0,
    .lock 1, .commit 1, .publish 1, .unlock 1, .dispatch, .readAfterEvent 7]).seen = [(7, [0], [0, 1])] := by decide

end Proto

/-- **Liveness fails (known finding `deadlock:watchlist-vs-restore-commit`).** "A watcher receives a complete
    initial listing" presupposes that `WatchList` returns. With a restore in the middle it need not: the
    two lock acquisitions are in opposite order, and after `WatchList` took the publisher lock and
    `Restoration.Commit` took the store lock neither can ever move again. -/
theorem restore_watchlist_deadlock_counterexample :
    ∃ acts, (LockOrder.run ⟨0, 0⟩ acts).w = 1 ∧ (LockOrder.run ⟨0, 0⟩ acts).r = 1 ∧
      ∀ a, LockOrder.step (LockOrder.run ⟨0, 0⟩ acts) a = LockOrder.run ⟨0, 0⟩ acts :=
  ⟨[.watch, .restore], by decide, by decide, fun a => by cases a <;> decide⟩

/-- either order alone completes (the model is not stuck by construction) -/
example : LockOrder.run ⟨0, 0⟩ [.watch, .watch, .watch, .restore, .restore, .restore] = ⟨3, 3⟩ := by decide

/-! ## Part D — watches: complete listing, then the events in commit order -/

/-- what `Watch.Next` returns out of a snapshot batch: exactly the listed resources that match the
    watch's query, as upserts, in key order, then EndOfSnapshot -/
theorem snapshot_is_listing (q sq : Query) (db : DB) :
    vis q (snapshotBatch db sq) = ((list db.rows sq).filter q.matches).map .upsert ++ [.eos] := by
  have h1 : ∀ l : List Res, vis q (l.map fun r => (⟨db.evIdx, .upsert r⟩ : Ev)) = (l.filter q.matches).map .upsert := by
    intro l
    induction l with
    | nil => rfl
    | cons r rs ih =>
      simp only [List.map_cons, vis, List.filter_cons, delivers, WEv.res?] at ih ⊢
      split <;> simp_all
  simp only [snapshotBatch, vis_append, h1]
  congr 1

/-- **Assumption made explicit: listing and snapshot index come from ONE transaction.** `snapshotBatch` is the
    two-transaction batch with both transactions equal; `watchSnapshot` reads `currentEventIndex(tx)` and
    `listTxn(tx, q)` from the same `tx`. -/
theorem snapshotBatch_is_one_transaction (db : DB) (sq : Query) :
    snapshotBatch db sq = snapshotBatchTwoTxn db db sq := rfl

section twoTxn
private def tId : RID := ⟨⟨[100], [1], [97]⟩, ⟨[100], [100]⟩, [120], [1]⟩
private def tQ : Query := ⟨[100], [97], [100], [100], []⟩
private def tDb0 : DB := (DB.empty.writeCAS ⟨tId, none, "1", 0⟩ "").1          -- x@"1", event index 3
private def tDb1 : DB := (tDb0.writeCAS ⟨tId, none, "2", 1⟩ "1").1              -- x@"2", event index 4
private def tWatch (batch : List Ev) : Watch :=
  { q := tQ, subj := tQ.subject.1, inbox := [], snap := some batch, pos := 0, st := .opened, released := false }
/-- the topic buffer after the publisher dispatched the second commit -/
private def tBuf : List (List Ev) := [[⟨4, .upsert ⟨tId, none, "2", 1⟩⟩]]
private def deliver3 (next : Watch → List (List Ev) → Watch × NextRes) (w : Watch) : List NextRes :=
  let (w1, r1) := next w tBuf
  let (w2, r2) := next w1 tBuf
  let (_, r3) := next w2 tBuf
  [r1, r2, r3]

/-- **The one-transaction assumption matters.** If a commit lands between a listing transaction and a
    separate index transaction, the snapshot lists x@"1" but is stamped with the index of x@"2"; a watch
    whose index guard works (remembers the last index) then drops the event of x@"2" as already covered and
    blocks — the watcher stays stale although the store holds x@"2". With one transaction the same watch
    receives the event, and so does the guard-less watch of the current code even with two transactions
    (each change alone is harmless). -/
theorem two_transaction_snapshot_counterexample :
    deliver3 Watch.nextLive (tWatch (snapshotBatchTwoTxn tDb0 tDb1 tQ.subject.2)) =
      [.ev (.upsert ⟨tId, none, "1", 0⟩), .ev .eos, .block] ∧
    tDb1.read tId = .found ⟨tId, none, "2", 1⟩ ∧
    deliver3 Watch.nextLive (tWatch (snapshotBatch tDb0 tQ.subject.2)) =
      [.ev (.upsert ⟨tId, none, "1", 0⟩), .ev .eos, .ev (.upsert ⟨tId, none, "2", 1⟩)] ∧
    deliver3 Watch.next (tWatch (snapshotBatchTwoTxn tDb0 tDb1 tQ.subject.2)) =
      [.ev (.upsert ⟨tId, none, "1", 0⟩), .ev .eos, .ev (.upsert ⟨tId, none, "2", 1⟩)] := by
  refine ⟨by decide, by decide, by decide, by decide⟩
end twoTxn

/-- **What a watcher receives (the code as it is).** After any sequence of operations without a restore —
    i.e. for every interleaving of writers, deleters, readers, watchers and the publisher goroutine — every
    watch has received a prefix of: the listing of the store as it was after `gP` commits (`gP` ≤ now),
    EndOfSnapshot, then *every* event dispatched for its subject from dispatch position `gD ≤ gP` on, each
    once and in commit order, filtered by its query. For a watch that is still open nothing is lost:
    delivered ++ what is still queued in front of it is exactly that sequence. -/
theorem watch_stream_faithful (ops : List WOp) (hr : RestoreFree ops) (wt : Watch)
    (hwt : wt ∈ (World.init.run ops).watches) :
    wt.gD ≤ wt.gP ∧ wt.gP ≤ (World.init.run ops).log.length ∧
    (wt.released = false →
      wt.gDelivered ++ vis wt.q (wt.stream ((World.init.run ops).bufOf wt)) =
        expected (World.init.run ops).disp (World.init.run ops).log wt) ∧
    wt.gDelivered <+: expected (World.init.run ops).disp (World.init.run ops).log wt :=
  winv_watch (winv_run ops _ winv_init hr) wt hwt

/-- **Complete initial listing, then exactly the later events — partial.** If at every `WatchList` of the
    run the publisher had caught up (publish queue empty), then `gD = gP` for every watch: after
    EndOfSnapshot it receives exactly the events committed after its snapshot — none from before.
    The full statement (without the hypothesis) is false for the code as it is: see
    `watch_complete_then_ordered_counterexample`. -/
theorem watch_complete_then_ordered_partial (ops : List WOp) (hr : RestoreFree ops)
    (hq : QuiescentOpens World.init ops) (wt : Watch) (hwt : wt ∈ (World.init.run ops).watches) :
    wt.gD = wt.gP ∧
    wt.gDelivered <+:
      ((list (replay ((World.init.run ops).log.take wt.gP)) wt.gSq).filter wt.q.matches).map .upsert ++ [.eos] ++
      vis wt.q ((((World.init.run ops).disp).drop wt.gP).flatMap (hitsOf wt.subj)) := by
  have hi := winv_run ops _ winv_init hr
  have hns := noStale_run ops _ winv_init (by constructor <;> simp [World.init]) hr hq
  have hgd := hns.2 wt hwt
  refine ⟨hgd, ?_⟩
  have := (winv_watch hi wt hwt).2.2.2
  rw [expected, snapshot_is_listing, hgd] at this
  exact this

/-- The events a watcher gets after its snapshot come from a prefix of the commit log, whose event
    indexes are 3, 4, 5, … — strictly increasing, per resource and overall; with `gD = gP` all of them are
    greater than the snapshot index `gP + 2`. -/
theorem events_strictly_increasing (ops : List WOp) (hr : RestoreFree ops) :
    ((World.init.run ops).log.map (·.idx)).Pairwise (· < ·) ∧
    (World.init.run ops).disp <+: (World.init.run ops).log ∧
    (World.init.run ops).db.evIdx = (World.init.run ops).log.length + 2 ∧
    (World.init.run ops).log.map (·.idx) = List.range' 3 (World.init.run ops).log.length := by
  have hi := winv_run ops _ winv_init hr
  refine ⟨?_, List.take_prefix _ _, hi.evIdx, hi.logIdx⟩
  rw [hi.logIdx]
  exact List.pairwise_lt_range'

/-- **Read after event.** The store always holds the result of *all* committed events: a read of `k`
    returns the value left by the last committed event on `k` … -/
theorem read_reflects_all_commits (ops : List WOp) (hr : RestoreFree ops) (k : Bytes) :
    lookup k (World.init.run ops).db.rows = (World.init.run ops).log.foldl (stepLast k) none := by
  have hi := winv_run ops _ winv_init hr
  rw [hi.rows, replay, lookup_foldl_applyEv]
  rfl

/-- … every event a watcher has received after its snapshot is one of those committed events … -/
theorem delivered_events_committed (ops : List WOp) (hr : RestoreFree ops) (wt : Watch)
    (hwt : wt ∈ (World.init.run ops).watches) (x : WEv) (hx : x ∈ wt.gDelivered) :
    x ∈ vis wt.q (snapshotBatch ⟨replay ((World.init.run ops).log.take wt.gP), wt.gP + 2⟩ wt.gSq) ∨
    ∃ e ∈ (World.init.run ops).log, e.ev = x := by
  have hi := winv_run ops _ winv_init hr
  have hp := (winv_watch hi wt hwt).2.2.2
  rcases List.mem_append.mp (hp.subset hx) with h | h
  · exact Or.inl h
  · right
    simp only [vis, List.mem_map, List.mem_filter, List.mem_flatMap, hitsOf] at h
    obtain ⟨e, ⟨⟨e0, he0, he⟩, _⟩, rfl⟩ := h
    obtain ⟨_, _, rfl⟩ := he
    exact ⟨e0, (List.take_prefix _ _).subset (List.mem_of_mem_drop he0), rfl⟩

/-- … so the read is never older than a received event `e`: its result is determined by `e` and the
    events committed after `e` alone (whatever happened before `e` is irrelevant). -/
theorem read_not_older_than_event (k : Bytes) (a b : List Ev) (e : Ev) (he : onKey k e = true) :
    lookup k (replay (a ++ e :: b)) = b.foldl (stepLast k) (stepLast k none e) := by
  rw [replay, lookup_foldl_applyEv, List.foldl_append, List.foldl_cons]
  rw [stepLast_onKey he _ none]

/-! ### the full statement fails for the code as it is (known findings), concrete witnesses -/

section watchExamples
def wId (uid : Bytes) : RID := ⟨⟨[100], [1], [97]⟩, ⟨[100], [100]⟩, [120], uid⟩
def wQ : Query := ⟨[100], [97], [100], [100], []⟩

/-- known finding `watch:stale-event-after-snapshot`: two commits, `WatchList` before the publisher
    dispatched them, then the publisher runs -/
def exLag : List WOp :=
  [.swrite ⟨wId [1], none, "1", 0⟩ "", .swrite ⟨wId [1], none, "2", 1⟩ "1", .wopen wQ,
   .wnext 0, .wnext 0, .pump, .pump, .wnext 0, .wnext 0]

/-- The full-strength statement "after EndOfSnapshot only events committed after the snapshot" is false:
    the watcher receives x@"2" (snapshot), EndOfSnapshot, then x@"1" — older than its snapshot — and x@"2". -/
theorem watch_complete_then_ordered_counterexample :
    RestoreFree exLag ∧
    (World.init.run exLag).watches.map (fun wt => (wt.gD, wt.gP, wt.gDelivered)) =
      [(0, 2, [.upsert ⟨wId [1], none, "2", 1⟩, .eos, .upsert ⟨wId [1], none, "1", 0⟩, .upsert ⟨wId [1], none, "2", 1⟩])] := by
  constructor
  · simp only [exLag, RestoreFree]
  · decide

/-- the hypothesis of the partial theorem is satisfiable and then the stream is the expected one -/
def exQuiet : List WOp :=
  [.swrite ⟨wId [1], none, "1", 0⟩ "", .pump, .wopen wQ, .wnext 0, .wnext 0,
   .swrite ⟨wId [1], none, "2", 1⟩ "1", .pump, .wnext 0, .delete (wId [1]) "2", .pump, .wnext 0]
example : RestoreFree exQuiet ∧ QuiescentOpens World.init exQuiet := by
  simp only [exQuiet, RestoreFree, QuiescentOpens]; decide
example : (World.init.run exQuiet).watches.map (·.gDelivered) =
    [[.upsert ⟨wId [1], none, "1", 0⟩, .eos, .upsert ⟨wId [1], none, "2", 1⟩, .delete ⟨wId [1], none, "2", 1⟩]] := by decide

/-- known finding `watch:pre-restore-event-after-snapshot`: with a restore in the middle the theorems above
    do not apply, and indeed a watch opened after the restore receives an event of the old world, which a
    read then does not find. -/
def exRestore : List WOp :=
  [.swrite ⟨wId [1], none, "1", 0⟩ "", .restore [], .wopen wQ, .pump, .wnext 0, .wnext 0]
theorem watch_restore_counterexample :
    (World.init.run exRestore).watches.map (·.gDelivered) = [[.eos, .upsert ⟨wId [1], none, "1", 0⟩]] ∧
    (World.init.run exRestore).db.read (wId []) = .notFound := by
  constructor <;> decide
end watchExamples

end CV.Res
