/-
C14 — the proxy authorization policy enforces exactly the intention decision.
Property theorems only; helper lemmas live in CV/Proofs/Rbac.lean (translation) and
CV/Proofs/RbacPat.lean (regular-expression layer).
-/
import CV.Proofs.RbacPat
import CV.Proofs.RbacSort
namespace CV.Rbac

/-- What the translation relies on about the way the policy's principal leaves match ONE caller,
    for the sources that exist in the environment: a source covered by another (`web` by `*` of
    the same peer) implies it, and two sources that are neither the same nor nested never match
    the same caller. Proved below for the structured reading of SPIFFE ids (`callerSem`) in an
    environment whose source clusters have distinct certificate identities. -/
def MatcherOK {C : Type} (σ : Sem C) (env : Env) (xf : Bool) (c : C) : Prop :=
  SrcRel (fun s => srcM σ env xf s c) (EnvSrc env)

theorem translate_eq (env : Env) (ixns : List Ixn) (dflt http : Bool) (rb : Rbac)
    (h : translate env ixns dflt http = some rb) :
    rb = assemble dflt (removeIntentionPrecedence env (expectXFCC env http ixns) dflt (intermediate env http ixns)) := by
  unfold translate at h
  simp only at h
  split at h
  · simp at h
  · split at h
    · simp at h
    · simp at h; exact h.symm

/-- Headline theorem, generic in the meaning of the principal leaves: for EVERY intention list
    (any sources, peers, precedences, actions, permission lists), both default policies, TCP and
    HTTP, every caller and every request, the RBAC policy that `makeRBACRules` produces decides
    exactly like the intention rules: the highest-precedence intention whose source matches the
    caller decides, by its action or by its first matching permission; otherwise the default.
    (`S`: any set of sources that contains those of the given intentions.) -/
theorem rbac_correct_on {C : Type} (σ : Sem C) (env : Env) (ixns : List Ixn) (dflt http : Bool) (c : C) (r : Req)
    (S : Src → Prop) (hS : ∀ s, IxnSrc env ixns s → S s)
    (hm : SrcRel (fun s => srcM σ env (expectXFCC env http ixns) s c) S) (ho : http = true → MethodOracle r)
    (rb : Rbac) (ht : translate env ixns dflt http = some rb) :
    evalRbac σ rb c r = specAllow σ env ixns dflt http c r := by
  rw [translate_eq env ixns dflt http rb ht]
  have hd := dedupGo_props [] (sortIxns ixns)
  have hpw := toRIxns_pairwise env http _ hd.1
  have hS' : ∀ y ∈ intermediate env http ixns, S y.src := by
    intro y hy
    obtain ⟨i, hi, hs⟩ := mem_toRIxns env http _ y hy
    exact hS _ ⟨i, (mem_isort less i ixns).mp (mem_dedupGo [] _ i hi), hs⟩
  rw [rixn_correct σ env _ dflt c r _ S hm hS' hpw]
  unfold intermediate
  rw [specR_toRIxns σ env _ dflt http c r _ ho]
  unfold removeSameSource
  rw [dedupGo_find _ (by
    intro a b hab
    simp only [Ixn.key, Prod.mk.injEq] at hab
    rw [hab.1, hab.2]) [] _ (by simp)]
  rfl

theorem rbac_correct {C : Type} (σ : Sem C) (env : Env) (ixns : List Ixn) (dflt http : Bool) (c : C) (r : Req)
    (hm : MatcherOK σ env (expectXFCC env http ixns) c) (ho : http = true → MethodOracle r)
    (rb : Rbac) (ht : translate env ixns dflt http = some rb) :
    evalRbac σ rb c r = specAllow σ env ixns dflt http c r :=
  rbac_correct_on σ env ixns dflt http c r (EnvSrc env) (IxnSrc_env env ixns) hm ho rb ht

/-- TCP listeners (network RBAC filter): no request is involved and no assumption on regular
    expressions is needed. -/
theorem rbac_correct_l4 {C : Type} (σ : Sem C) (env : Env) (ixns : List Ixn) (dflt : Bool) (c : C) (r : Req)
    (hm : MatcherOK σ env false c) (rb : Rbac) (ht : translate env ixns dflt false = some rb) :
    evalRbac σ rb c r = specAllow σ env ixns dflt false c r :=
  rbac_correct σ env ixns dflt false c r (by simpa [expectXFCC] using hm) (by simp) rb ht

/-- HTTP listeners (HTTP RBAC filter), every request. -/
theorem rbac_correct_l7 {C : Type} (σ : Sem C) (env : Env) (ixns : List Ixn) (dflt : Bool) (c : C) (r : Req)
    (hm : MatcherOK σ env (expectXFCC env true ixns) c) (ho : MethodOracle r)
    (rb : Rbac) (ht : translate env ixns dflt true = some rb) :
    evalRbac σ rb c r = specAllow σ env ixns dflt true c r :=
  rbac_correct σ env ixns dflt true c r hm (fun _ => ho) rb ht

/-- `makeRBACRules` neither panics nor fails when no intention names a wildcard peer (config
    entry validation rejects those) and every JWT provider named has a jwt-provider entry. -/
theorem translate_total (env : Env) (ixns : List Ixn) (dflt http : Bool) (h : ∀ i ∈ ixns, i.peer ≠ star)
    (hj : ∀ i ∈ ixns, jwtUnknown env i.jwt = false ∧ ∀ p ∈ i.perms, jwtUnknown env p.jwt = false) :
    (translate env ixns dflt http).isSome = true := by
  have hm : jwtMissing env http (removeSameSource (sortIxns ixns)) = false := by
    unfold jwtMissing
    cases http with
    | false => rfl
    | true =>
      simp only [Bool.true_and, List.any_eq_false, Bool.and_eq_true, Bool.or_eq_true, List.any_eq_true, not_and, not_or,
        not_exists]
      intro i hi _
      have hi' : i ∈ ixns := (mem_isort less i ixns).mp (mem_dedupGo [] _ i hi)
      refine ⟨by simp [(hj i hi').1], ?_⟩
      intro p hp; simp [(hj i hi').2 p hp]
  unfold translate
  simp only [hm]
  rw [panics_false dflt _ (by
    intro x hx
    obtain ⟨i, hi, he⟩ := intermediate_peer env http ixns x hx
    rw [he]; exact h i hi)]
  rfl

/-- the specification ranges over exactly the given intentions (the sort is a permutation) -/
theorem spec_considers_all (ixns : List Ixn) (i : Ixn) : i ∈ sortIxns ixns ↔ i ∈ ixns :=
  mem_isort less i ixns

/-- The intention that decides in the specification is a matching one of the highest precedence
    number — with the numbers of `UpdatePrecedence` (`precOf`) that is "exact destination before
    wildcard destination, then exact source before wildcard source". -/
theorem decider_has_highest_precedence (m : Name → Name → Bool) (ixns : List Ixn) (i : Ixn)
    (h : (sortIxns ixns).find? (fun i => m i.peer i.name) = some i) :
    i ∈ ixns ∧ m i.peer i.name = true ∧ ∀ j ∈ ixns, m j.peer j.name = true → j.prec ≤ i.prec := by
  refine ⟨(mem_isort less i ixns).mp (List.mem_of_find?_eq_some h), by simpa using List.find?_some h, ?_⟩
  intro j hj hm
  exact find?_sorted_max _ _ (sortIxns_sorted ixns) i h j ((mem_isort less j ixns).mpr hj) hm

theorem precOf_table : precOf [119] [97] = 9 ∧ precOf star [97] = 8 ∧ precOf [119] star = 6 ∧ precOf star star = 5 := by
  decide

/-- The comparator is a strict total order on intentions with distinct
    (source peer, source name, destination): the tie-break always decides. -/
theorem less_strict_total_on_distinct_keys (a b c : Ixn) :
    (less a b = true → less b c = true → less a c = true) ∧ (less a b = true → less b a = true → False)
    ∧ (a.fkey ≠ b.fkey → less a b = true ∨ less b a = true) :=
  ⟨less_trans a b c, less_asymm a b, less_total a b⟩

/-- `sort_perm_invariant`: with distinct keys (what config entry validation guarantees) every
    order of the same intentions sorts to the same list — `sort.Sort` being unstable is harmless. -/
theorem sort_perm_invariant (xs ys : List Ixn) (h : xs.Pairwise (fun a b => a.fkey ≠ b.fkey)) (hp : xs.Perm ys) :
    sortIxns xs = sortIxns ys :=
  sortIxns_perm_invariant xs ys h hp

/-- The generated policy does not depend on the order in which the intentions are handed to
    `makeRBACRules`. -/
theorem translate_input_order_irrelevant (env : Env) (xs ys : List Ixn) (dflt http : Bool)
    (h : xs.Pairwise (fun a b => a.fkey ≠ b.fkey)) (hp : xs.Perm ys) :
    translate env xs dflt http = translate env ys dflt http := by
  have hx : expectXFCC env http xs = expectXFCC env http ys := by
    unfold expectXFCC; rw [hp.any_eq]
  unfold translate intermediate
  rw [sortIxns_perm_invariant xs ys h hp, hx]

/-- without distinct keys the statement is false for a stable sort: two intentions with the same
    key and precedence but different actions keep their input order -/
theorem sort_needs_distinct_keys_counterexample :
    let a : Ixn := ⟨[], [119], [97], 9, true, [], []⟩
    let b : Ixn := ⟨[], [119], [97], 9, false, [], []⟩
    [a, b].Perm [b, a] ∧ sortIxns [a, b] ≠ sortIxns [b, a] := by
  refine ⟨List.Perm.swap _ _ _, by decide⟩

/-- Mutant "drop the general instead of the specific NOT-source": in CE it cannot change the
    policy, because every NOT-source list that `removeSourcePrecedence` builds consists of exact
    sources, on which both variants of `simplifyNotSourceSlice` are the identity. (The helper
    itself does differ on mixed lists — next theorem — which is what the `simp` correspondence
    line detects.) -/
theorem simplify_direction_irrelevant_in_ce (env : Env) (xf dflt : Bool) (rs : List RIxn) :
    ∀ z ∈ removeSourcePrecedence env xf dflt rs,
      simplifyNotSourcesSwapped z.nots = simplifyNotSources z.nots ∧ simplifyNotSources z.nots = z.nots := by
  intro z hz
  have hex := rspGo_nots_exact env xf dflt [] rs z hz
  refine ⟨simplify_direction_irrelevant_on_exact _ hex, ?_⟩
  unfold simplifyNotSources
  split
  · rfl
  · have hs : ∀ n ∈ stableSortBy countWild z.nots, n.name ≠ star :=
      fun n hn => hex n ((mem_stableSortBy _ _ _).mp hn)
    rw [(keep_exact _ hs).1]
    -- a stable sort of a list whose keys are all 0 is the list itself
    have hz0 : ∀ (l : List Src), (∀ n ∈ l, n.name ≠ star) → stableSortBy countWild l = l := by
      intro l hl
      induction l with
      | nil => rfl
      | cons a l ih =>
        have ih' := ih (fun n hn => hl n (List.mem_cons_of_mem _ hn))
        simp only [stableSortBy, ih']
        cases l with
        | nil => rfl
        | cons b l =>
          have ha : countWild a = 0 := by simp [countWild, hl a List.mem_cons_self]
          have hb : countWild b = 0 := by simp [countWild, hl b (by simp)]
          simp [insBy, ha, hb]
    exact hz0 _ hex

theorem simplify_direction_matters_on_mixed_lists :
    let web : Src := ⟨[119], [], [], [116]⟩
    let any : Src := ⟨star, [], [], [116]⟩
    simplifyNotSources [web, any] = [any] ∧ simplifyNotSourcesSwapped [web, any] = [web, any] := by
  decide

/-! ### instantiation 1: callers as structured SPIFFE identities -/

/-- Full statement for structured identities: in an environment whose source clusters have
    distinct certificate identities, for every intention list, default, listener kind, caller
    (TLS peer identity + XFCC header) and request the policy decides as the intentions do. -/
theorem rbac_correct_callers (env : Env) (hok : EnvOK env) (ixns : List Ixn) (dflt http : Bool) (c : Caller) (r : Req)
    (ho : http = true → MethodOracle r) (rb : Rbac) (ht : translate env ixns dflt http = some rb) :
    evalRbac callerSem rb c r = specAllow callerSem env ixns dflt http c r :=
  rbac_correct callerSem env ixns dflt http c r (callerSem_rel env hok _ c) ho rb ht

/-- `EnvOK` is needed: two peers with the same trust domain and partition make
    `[web@p deny, *@q allow]` (default deny) allow `web`, although precedence denies it. -/
theorem envOK_needed_counterexample :
    let env : Env := ⟨[116], [⟨[112], [117], []⟩, ⟨[113], [117], []⟩], []⟩
    let ixns : List Ixn := [⟨[112], [119], [97], 9, false, [], []⟩, ⟨[113], star, [97], 8, true, [], []⟩]
    let c : Caller := ⟨.svc [117] [] cDefault [100] [119], none, []⟩
    (translate env ixns false false).map (fun rb => evalRbac callerSem rb c ⟨[], [], [], []⟩) = some true
      ∧ specAllow callerSem env ixns false false c ⟨[], [], [], []⟩ = false := by
  decide

/-! ### building blocks named in the design -/

/-- `simplifyNotSourceSlice` does not change the meaning of `source AND NOT n₁ AND NOT n₂ …` -/
theorem simplify_not_sources_equiv {C : Type} (σ : Sem C) (c : C) (s : Src) (nots : List Src)
    (hcov : ∀ a ∈ nots, ∀ b ∈ nots, ixnSourceMatches a b = true → σ.idM a c = true → σ.idM b c = true) :
    evalPr σ c (flattenFromCert s nots)
      = evalPr σ c (andPrincipals (.id s :: nots.map fun n => .notId (.id n))) := by
  rw [eval_flattenFromCert σ c s nots hcov, eval_andPrincipals]
  simp [evalPr, List.all_map, Function.comp_def]

/-- permission precedence removal: the emitted permission list matches a request iff the first
    matching permission of the intention has a non-default action and its JWT requirement is met -/
theorem perm_precedence_removed (dflt : Bool) (r : Req) (ps : List RPerm) :
    (removePermissionPrecedence dflt ps).any (evalPm r)
      = match ps.find? (fun p => evalPm r p.pm) with
        | none => false
        | some p => (p.allow != dflt) && jwtSat (reqHas r) p.jwt :=
  removePermissionPrecedence_any dflt r ps

/-- `convertPermission` keeps the meaning of an intention permission -/
theorem convert_permission_correct (r : Req) (ho : MethodOracle r) (p : Perm) :
    evalPm r (convertPermission p) = permMatches r p :=
  convertPermission_correct r ho p

/-! ### instantiation 2: what is on the wire (regular-expression layer) -/

/-- `pattern_layer`: the pattern `makeSpiffePattern` emits for a source (read as RE2 reads it:
    quoted literals, unquoted trust domain, `[^/]+`) matches the URI SAN of an identity iff the
    identity belongs to the source — for identities that need no URL escaping (`IdentSafe`), a
    trust domain the unquoted pattern recognises exactly, and a partition without `/`. -/
theorem pattern_layer (s : Src) (id : Ident) (hid : IdentSafe id) (ht : TdExact s.td (identTd id))
    (hsap : 47 ∉ apName (srcAp s)) : matchToks (idToks s) (spiffe id) = identM s id :=
  idToks_ident s id hid ht hsap

theorem pattern_layer_gateway (T : Bytes) (id : Ident) (hid : IdentSafe id) (ht : TdExact T (identTd id)) :
    matchToks (gwToks T) (spiffe id) = isGw T id :=
  gwToks_ident T id hid ht

/-- Known finding `rbac:source-name-needs-url-escaping`: without `IdentSafe` the statement is
    false. The certificate of service `a b` carries `…/svc/a%20b`, the pattern of source `a b`
    is built from the unescaped path. -/
theorem pattern_layer_counterexample :
    let s : Src := ⟨[97, 32, 98], [], [], [116]⟩
    let id : Ident := .svc [116] [] cDefault [100] [97, 32, 98]
    identM s id = true ∧ matchToks (idToks s) (spiffe id) = false := by
  decide

/-- the consequence on the decision: `a b → api : deny` under default allow lets `a b` through -/
theorem url_unsafe_name_counterexample :
    let env : Env := ⟨[116], [], []⟩
    let ixns : List Ixn := [⟨[], [97, 32, 98], [97], 9, false, [], []⟩]
    let c : Caller := ⟨.svc [116] [] cDefault [100] [97, 32, 98], none, []⟩
    (translate env ixns true false).map (fun rb => evalRbac wireSem rb (wire c) ⟨[], [], [], []⟩) = some true
      ∧ specAllow callerSem env ixns true false c ⟨[], [], [], []⟩ = false := by
  decide

/-- `pattern_layer` for the XFCC principal of peered L7 sources: the header pattern matches iff the
    URI of the FIRST element belongs to the source, provided that element carries `;URI=` exactly
    where its URI starts (`uriSplits`), names contain no comma and later elements no newline. -/
theorem pattern_layer_xfcc (s : Src) (e : XElem) (es : List XElem) (hid : IdentSafe e.uri)
    (ht : TdExact s.td (identTd e.uri)) (hsap : 47 ∉ apName (srcAp s)) (hc : identNoComma e.uri) (hsc : 44 ∉ s.name)
    (hsplit : uriSplits (xfccHeader (e :: es)) = [spiffe e.uri ++ xfccRest es]) (hnl : 10 ∉ xfccRest es) :
    matchToks (xfccToks s) (xfccHeader (e :: es)) = identM s e.uri :=
  xfccToks_header s e es hid ht hsap hc hsc hsplit hnl

/-- Known finding `rbac:xfcc-service-name-with-comma`: a service whose name continues a source
    name after a comma is taken for that source by the XFCC pattern (`…/svc/web(?:,.*)?$` matches `…/svc/web,x`): `identNoComma` is needed -/
theorem pattern_layer_xfcc_comma_counterexample :
    let s : Src := ⟨[119], [112], [], [116]⟩
    let e : XElem := ⟨[66], .svc [116] [] cDefault [100] [119, 44, 120]⟩
    identM s e.uri = false ∧ matchToks (xfccToks s) (xfccHeader [e]) = true := by
  decide

/-- what the wire-level statement assumes of one caller, for the sources of the intentions -/
structure WireOK (env : Env) (ixns : List Ixn) (c : Caller) : Prop where
  ident : IdentSafe c.direct
  td : ∀ s, IxnSrc env ixns s → TdExact s.td (identTd c.direct)
  ltd : TdExact env.localTd (identTd c.direct)
  ap : ∀ s, IxnSrc env ixns s → 47 ∉ apName (srcAp s)
  names : ∀ s, IxnSrc env ixns s → 44 ∉ s.name
  fwd : ∀ e es, c.fwd = some (e :: es) →
    IdentSafe e.uri ∧ (∀ s, IxnSrc env ixns s → TdExact s.td (identTd e.uri)) ∧ identNoComma e.uri
    ∧ uriSplits (xfccHeader (e :: es)) = [spiffe e.uri ++ xfccRest es] ∧ 10 ∉ xfccRest es

theorem wire_agrees (env : Env) (ixns : List Ixn) (xf : Bool) (c : Caller) (hw : WireOK env ixns c)
    (s : Src) (hs : IxnSrc env ixns s) : srcM wireSem env xf s (wire c) = srcM callerSem env xf s c := by
  have hid := idToks_ident s c.direct hw.ident (hw.td s hs) (hw.ap s hs)
  unfold srcM
  split
  · have hg := gwToks_ident env.localTd c.direct hw.ident hw.ltd
    simp only [wireSem, callerSem, wire]
    rw [hg]
    congr 1
    cases hf : c.fwd with
    | none => rfl
    | some l =>
      cases l with
      | nil => simp [xfccHeader, xfccToks, matchToks, matchPlus]
      | cons e es =>
        obtain ⟨h1, h2, h3, h4, h5⟩ := hw.fwd e es hf
        simp only [Option.map_some]
        exact xfccToks_header s e es h1 (h2 s hs) (hw.ap s hs) h3 (hw.names s hs) h4 h5
  · simpa [wireSem, callerSem, wire] using hid

/-- Full wire-level statement (TCP and HTTP, with or without XFCC principals): evaluating the
    policy on the URI SAN and XFCC header the caller presents gives the intention decision for
    the caller's structured identity. -/
theorem rbac_correct_wire (env : Env) (hok : EnvOK env) (ixns : List Ixn) (dflt http : Bool) (c : Caller) (r : Req)
    (hw : WireOK env ixns c) (ho : http = true → MethodOracle r) (rb : Rbac)
    (ht : translate env ixns dflt http = some rb) :
    evalRbac wireSem rb (wire c) r = specAllow callerSem env ixns dflt http c r := by
  have heq := wire_agrees env ixns (expectXFCC env http ixns) c hw
  have hrel : SrcRel (fun s => srcM wireSem env (expectXFCC env http ixns) s (wire c)) (IxnSrc env ixns) :=
    srcRel_congr _ _ _ heq
      (srcRel_mono _ _ _ (IxnSrc_env env ixns) (callerSem_rel env hok (expectXFCC env http ixns) c))
  rw [rbac_correct_on wireSem env ixns dflt http (wire c) r (IxnSrc env ixns) (fun _ h => h) hrel ho rb ht]
  exact specAllow_congr_ixns wireSem callerSem env ixns dflt http (wire c) c r heq (fun _ _ => rfl)

/-- TCP listeners, on the wire -/
theorem rbac_correct_wire_l4 (env : Env) (hok : EnvOK env) (ixns : List Ixn) (dflt : Bool) (c : Caller) (r : Req)
    (hw : WireOK env ixns c) (rb : Rbac) (ht : translate env ixns dflt false = some rb) :
    evalRbac wireSem rb (wire c) r = specAllow callerSem env ixns dflt false c r :=
  rbac_correct_wire env hok ixns dflt false c r hw (by simp) rb ht

/-- HTTP listeners, on the wire, every request -/
theorem rbac_correct_wire_l7 (env : Env) (hok : EnvOK env) (ixns : List Ixn) (dflt : Bool) (c : Caller) (r : Req)
    (hw : WireOK env ixns c) (ho : MethodOracle r) (rb : Rbac) (ht : translate env ixns dflt true = some rb) :
    evalRbac wireSem rb (wire c) r = specAllow callerSem env ixns dflt true c r :=
  rbac_correct_wire env hok ixns dflt true c r hw (fun _ => ho) rb ht

/-! ### non-vacuity -/

/-- an environment with a peer, satisfying `EnvOK` -/
example : EnvOK ⟨[116, 46, 99], [⟨[112], [117, 46, 99], []⟩, ⟨[113], [117, 46, 99], [120]⟩], []⟩ :=
  envOK_of_check _ (by decide)

/-- a non-trivial translation exists: `[web deny, * allow]`, default deny, gives one policy with
    `* AND NOT web`, which allows `db` and denies `web` -/
example :
    let env : Env := ⟨[116], [], []⟩
    let ixns : List Ixn := [⟨[], star, [97], 8, true, [], []⟩, ⟨[], [119], [97], 9, false, [], []⟩]
    (translate env ixns false false).map (fun rb =>
        (rb.policies.length,
         evalRbac callerSem rb ⟨.svc [116] [] cDefault [100] [100, 98], none, []⟩ ⟨[], [], [], []⟩,
         evalRbac callerSem rb ⟨.svc [116] [] cDefault [100] [119], none, []⟩ ⟨[], [], [], []⟩))
      = some (1, true, false) := by
  decide

/-- JWT requirements are enforced: `[web → api : allow]` in an entry that requires a token of
    provider `o` (issuer `i`) with claim `r = a`, default deny — `web` is allowed with such a token,
    denied without it, with a wrong claim, or with another issuer -/
example :
    let env : Env := ⟨[116], [], [([111], [105])]⟩
    let ixns : List Ixn := [⟨[], [119], [97], 9, true, [], [⟨[111], [⟨[[114]], [97]⟩]⟩]⟩]
    let web (md : List (List Name × Name)) : Caller := ⟨.svc [116] [] cDefault [100] [119], none, md⟩
    let key := payloadKey [111]
    (translate env ixns false true).map (fun rb =>
        (evalRbac callerSem rb (web [([key, cIss], [105]), ([key, [114]], [97])]) ⟨[], [], [], []⟩,
         evalRbac callerSem rb (web []) ⟨[], [], [], []⟩,
         evalRbac callerSem rb (web [([key, cIss], [105]), ([key, [114]], [98])]) ⟨[], [], [], []⟩,
         evalRbac callerSem rb (web [([key, cIss], [106]), ([key, [114]], [97])]) ⟨[], [], [], []⟩))
      = some (true, false, false, false) := by
  decide

/-- the hypotheses of the wire-level theorem are satisfiable -/
example : SvcSafe [] cDefault [100, 99, 49] [119, 101, 98] :=
  ⟨by decide, by decide, by decide, by decide, by decide, by decide, by decide⟩

example : TdExact [116, 46, 99] [116, 46, 99] := ⟨rfl, fun _ => rfl⟩

/-- `WireOK` is satisfiable for a peered caller behind the local mesh gateway (XFCC mode) -/
example :
    let env : Env := ⟨[116], [⟨[112], [117], []⟩], []⟩
    let ixns : List Ixn := [⟨[112], [119], [97], 9, true, [⟨true, none, []⟩], []⟩]
    let c : Caller := ⟨.gw [116] [100], some [⟨[66], .svc [117] [] cDefault [100] [119]⟩], []⟩
    WireOK env ixns c ∧ expectXFCC env true ixns = true := by
  intro env ixns c
  have hsrc : ∀ s, IxnSrc env ixns s → s = ⟨[119], [112], [], [117]⟩ := by
    intro s ⟨i, hi, hs⟩
    simp only [ixns, List.mem_singleton] at hi
    subst hi
    have : srcOf env [112] [119] = some ⟨[119], [112], [], [117]⟩ := by decide
    rw [this] at hs
    exact (Option.some.inj hs).symm
  refine ⟨⟨⟨by decide, by decide, by decide⟩, ?_, ⟨rfl, by decide⟩, ?_, ?_, ?_⟩, by decide⟩
  · intro s hs; rw [hsrc s hs]; exact ⟨rfl, by decide⟩
  · intro s hs; rw [hsrc s hs]; decide
  · intro s hs; rw [hsrc s hs]; decide
  · intro e es he
    simp only [c, Option.some.injEq, List.cons.injEq] at he
    obtain ⟨rfl, rfl⟩ := he
    refine ⟨⟨by decide, by decide, by decide, by decide, by decide, by decide, by decide⟩, ?_,
      (by simp [identNoComma]), by decide, by decide⟩
    intro s hs; rw [hsrc s hs]; exact ⟨rfl, fun _ => rfl⟩

/-- a trust domain that the unquoted `.` would blur is excluded by `TdExact` -/
example : ¬ TdExact [116, 46, 99] [116, 120, 99] := by
  intro h; have := h.exact (by decide); simp at this

end CV.Rbac
