/-
C20 — snapshot archives: exact round trip, corruption always detected.
Property theorems only; helper lemmas live in CV/Proofs/Tar.lean, the model in CV/Tar.lean.

Parameters of every theorem (nothing is assumed about them unless a hypothesis says so):
  `H`      the digest function (`crypto/sha256` in the code),
  `apply`  `json.Unmarshal(buf, &metadata)` onto the current metadata struct: an arbitrary partial
           function (`none` = Unmarshal returned an error). No theorem assumes anything about it
           except `roundtrip`, whose hypothesis `hcodec` is the complete JSON contract; in
           particular every rejection theorem holds for any decoder whatsoever, and "equal
           metadata" always means: the value `apply` produced from the same payload sequence.
  `m0`     the caller's metadata struct before the call.
Trusted about `archive/tar`: it presents members in order with their data, reports a short read
or a failed `Next` as an error, and accepts a header block only if it passes the checksum gate
(`checksumOK`, CV/Tar.lean). Trusted about `compress/gzip`: `GzContract`.
"Rejected" means `readStream … = .error e`: `read` returns an error, so `Verify`/`Read` return
an error and `Restore` never calls raft (`restore_only_after_verification`).
-/
import CV.Proofs.Tar
import CV.Sha256
set_option linter.unusedSectionVars false
set_option linter.unusedVariables false
namespace CV.Tar
open CV

variable {M : Type} (H : Bytes → Bytes) (apply : M → Bytes → Option M) (m0 : M)

/-- a read either accepts or rejects (no third outcome) -/
theorem rejected_of_not_accepted (s : Stream)
    (h : ∀ m st, readStream H apply m0 s ≠ .ok (m, st)) : ∃ e, readStream H apply m0 s = .error e := by
  cases hr : readStream H apply m0 s with
  | error e => exact ⟨e, rfl⟩
  | ok r => exact absurd hr (h r.1 r.2)

/-! ## round trip -/

/-- **Round trip.** Whatever `write` archives — in either order of the two SHA256SUMS lines
    (the code ranges over a Go map) — `read` accepts and returns the same metadata and exactly
    the `metadata.Size` bytes of state that were written. The whole contract asked of
    `encoding/json` is `hcodec`: decoding the bytes `Encode` produced for THIS metadata onto the
    caller's struct `m0` succeeds and yields it (checked on the real codec by the harness monitors
    `roundtrip:metadata-differs` and `json:contract`); digests must be 32 bytes. -/
theorem roundtrip (enc : M → Bytes) (size : M → Nat) (swap : Bool) (m : M) (snap : Bytes) (s : Stream)
    (hcodec : apply m0 (enc m) = some m) (hH : ∀ x, DigestOK (H x))
    (hw : writeStream H enc size swap m snap = some s) :
    readStream H apply m0 s = .ok (m, snap.take (size m)) := by
  unfold writeStream at hw
  split at hw
  · cases hw
  · cases hw
    rw [readStream_ok_iff]
    have h1 := nMeta_ne_nState; have h2 := nMeta_ne_nSums; have h3 := nState_ne_nSums
    refine ⟨rfl, ?_, ?_, ?_, ?_, ⟨_, List.mem_cons_self .., rfl⟩,
      ⟨_, List.mem_cons_of_mem _ (List.mem_cons_self ..), rfl⟩⟩
    · intro x hx; simp at hx; rcases hx with rfl | rfl | rfl <;> simp
    · simp [metas, foldApply, hcodec, h1.symm, h2.symm]
    · simp [cat, h1, h3.symm]
    · have e1 : cat nMeta [⟨nMeta, enc m, false⟩, ⟨nState, snap.take (size m), false⟩,
          ⟨nSums, encodeSums swap (H (enc m)) (H (snap.take (size m))), false⟩] = enc m := by
        simp [cat, h1.symm, h2.symm]
      have e2 : cat nState [⟨nMeta, enc m, false⟩, ⟨nState, snap.take (size m), false⟩,
          ⟨nSums, encodeSums swap (H (enc m)) (H (snap.take (size m))), false⟩] = snap.take (size m) := by
        simp [cat, h1, h3.symm]
      have e3 : cat nSums [⟨nMeta, enc m, false⟩, ⟨nState, snap.take (size m), false⟩,
          ⟨nSums, encodeSums swap (H (enc m)) (H (snap.take (size m))), false⟩] =
          encodeSums swap (H (enc m)) (H (snap.take (size m))) := by
        simp [cat, h2, h3]
      rw [e1, e2, e3]
      exact sumsOK_encodeSums swap _ _ (hH _) (hH _)

/-- `write` succeeds exactly when the state reader delivers at least `metadata.Size` bytes
    (so the hypothesis `hw` of `roundtrip` is satisfiable for every metadata and state). -/
theorem write_succeeds (enc : M → Bytes) (size : M → Nat) (swap : Bool) (m : M) (snap : Bytes)
    (h : size m ≤ snap.length) : ∃ s, writeStream H enc size swap m snap = some s := by
  unfold writeStream
  have : ¬ snap.length < size m := by omega
  simp [this]

/-! ## what acceptance implies -/

/-- **Accepted ⇒ intact.** `read` accepts a stream exactly when: the tar reader ended cleanly;
    every member is complete and is named meta.json, state.bin or SHA256SUMS; every meta.json
    payload decodes; the SHA256SUMS text scans, lists only those two names, lists both, with
    exactly the digests of the (concatenated) meta.json and state.bin payloads; and then the
    there is at least one meta.json and one state.bin member; and then the result is the decoded
    metadata and the concatenated state payload.
    (The code does not demand a single member per name: repeated members are hashed and
    returned as one concatenation, which is what the right-hand side says.) -/
theorem accept_iff_intact (s : Stream) (m : M) (st : Bytes) :
    readStream H apply m0 s = .ok (m, st) ↔
      s.ending = .eof ∧ Clean s.members ∧ foldApply apply m0 (metas s.members) = some m ∧
      st = cat nState s.members ∧
      SumsOK (H (cat nMeta s.members)) (H (cat nState s.members)) (cat nSums s.members) ∧
      Has nMeta s.members ∧ Has nState s.members :=
  readStream_ok_iff H apply m0 m s st

/-- Design name `accept_implies_intact`: the forward direction, spelt out. -/
theorem accept_implies_intact (s : Stream) (m : M) (st : Bytes)
    (h : readStream H apply m0 s = .ok (m, st)) :
    s.ending = .eof ∧
    (∀ x ∈ s.members, x.short = false ∧ (x.name = nMeta ∨ x.name = nState ∨ x.name = nSums)) ∧
    st = cat nState s.members ∧
    (∃ es, parseSums (cat nSums s.members) = some es ∧
      (∀ e ∈ es, e = (H (cat nMeta s.members), nMeta) ∨ e = (H st, nState)) ∧
      (H (cat nMeta s.members), nMeta) ∈ es ∧ (H st, nState) ∈ es) ∧
    (∃ x ∈ s.members, x.name = nMeta) ∧ (∃ x ∈ s.members, x.name = nState) := by
  obtain ⟨h1, h2, _, h4, h5, h6, h7⟩ := (readStream_ok_iff H apply m0 m s st).mp h
  subst h4
  exact ⟨h1, h2, rfl, h5, h6, h7⟩

/-- What is extracted is a function of the meta.json and state.bin payloads alone: two accepted
    streams with the same payload sequences return the same thing, whatever else differs
    (SHA256SUMS bytes, member order across names, padding, trailer). -/
theorem extraction_determined_by_payloads (s s' : Stream) (m m' : M) (st st' : Bytes)
    (hm : metas s'.members = metas s.members) (hs : cat nState s'.members = cat nState s.members)
    (h : readStream H apply m0 s = .ok (m, st)) (h' : readStream H apply m0 s' = .ok (m', st')) :
    m' = m ∧ st' = st := by
  obtain ⟨_, _, f, e, _⟩ := (readStream_ok_iff H apply m0 m s st).mp h
  obtain ⟨_, _, f', e', _⟩ := (readStream_ok_iff H apply m0 m' s' st').mp h'
  rw [hm, f] at f'
  exact ⟨(Option.some.inj f').symm, by rw [e, e', hs]⟩

/-! ## altered content -/

/-- **Altered member rejected.** Take any accepted stream and change the meta.json / state.bin
    content in any way (replace a member's data, drop, add, split or reorder such members) while
    the SHA256SUMS bytes stay as they were. If the digest of the meta.json content or of the
    state.bin content changed (`H` sees the difference — the collision-freeness assumption,
    stated on exactly the two values involved), the result is rejected. -/
theorem altered_member_rejected (s s' : Stream) (m : M) (st : Bytes)
    (h : readStream H apply m0 s = .ok (m, st))
    (hsums : cat nSums s'.members = cat nSums s.members)
    (hdiff : H (cat nMeta s'.members) ≠ H (cat nMeta s.members) ∨
             H (cat nState s'.members) ≠ H (cat nState s.members)) :
    ∃ e, readStream H apply m0 s' = .error e := by
  apply rejected_of_not_accepted
  intro m' st' h'
  obtain ⟨_, _, _, _, ⟨es, hp, hall, hm, hs⟩, _⟩ := (readStream_ok_iff H apply m0 m s st).mp h
  obtain ⟨_, _, _, _, ⟨es', hp', hall', hm', hs'⟩, _⟩ := (readStream_ok_iff H apply m0 m' s' st').mp h'
  rw [hsums, hp] at hp'
  cases hp'
  have h1 := nMeta_ne_nState
  rcases hdiff with hd | hd
  · rcases hall' _ hm with e | e
    · exact hd (Prod.mk.inj e).1.symm
    · exact h1 (Prod.mk.inj e).2
  · rcases hall' _ hs with e | e
    · exact h1 (Prod.mk.inj e).2.symm
    · exact hd (Prod.mk.inj e).1.symm

/-- **Any member-level edit that leaves the SHA256SUMS content alone: same extraction or
    rejected.** Removal, duplication, injection, splitting, renaming or reordering of members —
    whatever the edited stream `s'` is — if it is accepted at all then the digests of its
    meta.json and state.bin content equal the original ones, so under collision-freeness of `H`
    on these two pairs of values it extracts exactly what the original did. -/
theorem member_edit_same_or_rejected (s s' : Stream) (m : M) (st : Bytes)
    (h : readStream H apply m0 s = .ok (m, st))
    (hsums : cat nSums s'.members = cat nSums s.members)
    (hcfM : H (cat nMeta s'.members) = H (cat nMeta s.members) → metas s'.members = metas s.members)
    (hcfS : H (cat nState s'.members) = H (cat nState s.members) →
      cat nState s'.members = cat nState s.members) :
    readStream H apply m0 s' = .ok (m, st) ∨ ∃ e, readStream H apply m0 s' = .error e := by
  cases hr : readStream H apply m0 s' with
  | error e => right; exact ⟨e, rfl⟩
  | ok res =>
    left
    obtain ⟨m', st'⟩ := res
    have hM : H (cat nMeta s'.members) = H (cat nMeta s.members) := by
      apply Classical.byContradiction; intro hne
      obtain ⟨e, he⟩ := altered_member_rejected H apply m0 s s' m st h hsums (Or.inl hne)
      rw [hr] at he; cases he
    have hS : H (cat nState s'.members) = H (cat nState s.members) := by
      apply Classical.byContradiction; intro hne
      obtain ⟨e, he⟩ := altered_member_rejected H apply m0 s s' m st h hsums (Or.inr hne)
      rw [hr] at he; cases he
    have := extraction_determined_by_payloads H apply m0 s s' m m' st st' (hcfM hM) (hcfS hS) h hr
    rw [this.1, this.2]

/-- Special case in the words of the property: one byte (or any other part) of one meta.json or
    state.bin member is replaced. `setData ms i b'` replaces the data of member `i`. -/
theorem replaced_member_rejected (ms : List Member) (e : Ending) (i : Nat) (x : Member) (b' : Bytes)
    (m : M) (st : Bytes) (h : readStream H apply m0 ⟨ms, e⟩ = .ok (m, st))
    (hx : ms[i]? = some x) (hname : x.name = nMeta ∨ x.name = nState)
    (hdiff : H (cat x.name (setData ms i b')) ≠ H (cat x.name ms)) :
    ∃ err, readStream H apply m0 ⟨setData ms i b', e⟩ = .error err := by
  apply altered_member_rejected H apply m0 ⟨ms, e⟩ ⟨setData ms i b', e⟩ m st h
  · apply cat_setData_other ms i b' nSums x hx
    rcases hname with hn | hn <;> rw [hn] <;> decide
  · rcases hname with hn | hn
    · left; rw [← hn]; exact hdiff
    · right; rw [← hn]; exact hdiff

/-- **Altered SHA256SUMS rejected.** With the meta.json / state.bin content untouched, any
    SHA256SUMS text that is accepted lists — as a set — exactly the entries the original listed.
    So an edit that changes a (digest, name) pair, adds a foreign one or drops one is rejected;
    an edit that is accepted (letter case of hex digits, kind and number of spaces, CR before
    LF, words after the name, repeated or reordered lines) extracts the same thing
    (`extraction_determined_by_payloads`). -/
theorem altered_sums_rejected (s s' : Stream) (m : M) (st : Bytes) (es es' : List (Bytes × Bytes))
    (h : readStream H apply m0 s = .ok (m, st))
    (hmeta : cat nMeta s'.members = cat nMeta s.members)
    (hstate : cat nState s'.members = cat nState s.members)
    (hp : parseSums (cat nSums s.members) = some es)
    (hp' : parseSums (cat nSums s'.members) = some es')
    (hdiff : ¬ ∀ e, e ∈ es' ↔ e ∈ es) :
    ∃ e, readStream H apply m0 s' = .error e := by
  apply rejected_of_not_accepted
  intro m' st' h'
  obtain ⟨_, _, _, _, ⟨es1, hp1, hall, hm, hs⟩, _⟩ := (readStream_ok_iff H apply m0 m s st).mp h
  obtain ⟨_, _, _, _, ⟨es2, hp2, hall', hm', hs'⟩, _⟩ := (readStream_ok_iff H apply m0 m' s' st').mp h'
  rw [hp] at hp1; cases hp1
  rw [hp'] at hp2; cases hp2
  simp only [hmeta, hstate] at hall' hm' hs'
  apply hdiff
  intro e
  constructor
  · intro he; rcases hall' e he with rfl | rfl <;> assumption
  · intro he; rcases hall e he with rfl | rfl <;> assumption

/-- A SHA256SUMS text that does not scan at all is rejected. -/
theorem unparsable_sums_rejected (s : Stream) (h : parseSums (cat nSums s.members) = none) :
    ∃ e, readStream H apply m0 s = .error e := by
  apply rejected_of_not_accepted
  intro m st hr
  obtain ⟨_, _, _, _, ⟨es, hp, _⟩, _⟩ := (readStream_ok_iff H apply m0 m s st).mp hr
  rw [h] at hp; cases hp

/-! ## missing / unexpected members -/

/-- **Missing member rejected.** A stream without any meta.json member, or without any
    state.bin member, is rejected — unconditionally: whatever SHA256SUMS lists (also the digest
    of the empty string, which is what an absent member hashes to) and whatever `H` is.
    (Before the repository fix 4aca783 this was false: `read` could not tell an absent member
    from an empty one, and a valid archive with empty state whose state.bin member had been
    removed was accepted; only `missing_member_digest_mismatch` below held.) -/
theorem missing_member_rejected (s : Stream) (h : ¬ Has nMeta s.members ∨ ¬ Has nState s.members) :
    ∃ e, readStream H apply m0 s = .error e := by
  apply rejected_of_not_accepted
  intro m st hr
  obtain ⟨_, _, _, _, _, h1, h2⟩ := (readStream_ok_iff H apply m0 m s st).mp hr
  rcases h with h | h
  · exact h h1
  · exact h h2

/-- …and with which error, when everything else about the archive is in order: the check comes
    after `DecodeAndVerify`, meta.json first. -/
theorem missing_member_error (s : Stream) (m : M)
    (he : s.ending = .eof) (hc : Clean s.members) (hf : foldApply apply m0 (metas s.members) = some m)
    (hs : SumsOK (H (cat nMeta s.members)) (H (cat nState s.members)) (cat nSums s.members)) :
    (¬ Has nMeta s.members → readStream H apply m0 s = .error .missingMeta) ∧
    (Has nMeta s.members → ¬ Has nState s.members → readStream H apply m0 s = .error .missingState) :=
  readStream_missing H apply m0 m s he hc hf hs

/-- The pre-fix guarantee, still true: removing all meta.json (resp. state.bin) content from an
    accepted archive while SHA256SUMS stays is already caught by the digest comparison whenever
    the digest of the removed content differs from the digest of the empty string. -/
theorem missing_member_digest_mismatch (s s' : Stream) (m : M) (st : Bytes)
    (h : readStream H apply m0 s = .ok (m, st))
    (hsums : cat nSums s'.members = cat nSums s.members)
    (hgone : (cat nMeta s'.members = [] ∧ H (cat nMeta s.members) ≠ H []) ∨
             (cat nState s'.members = [] ∧ H (cat nState s.members) ≠ H [])) :
    ∃ e, readStream H apply m0 s' = .error e := by
  apply altered_member_rejected H apply m0 s s' m st h hsums
  rcases hgone with ⟨e, hd⟩ | ⟨e, hd⟩
  · left; rw [e]; exact fun x => hd x.symm
  · right; rw [e]; exact fun x => hd x.symm

/-- The former counterexample, now a regression witness: the archive with empty state whose
    state.bin member was removed (SHA256SUMS still valid for it) is rejected with
    `missingState`, while the same archive with the empty member present is accepted.
    Concrete instance: digest = 32 zero bytes for every input, decoding always succeeds. -/
theorem missing_empty_member_witness :
    let H0 : Bytes → Bytes := fun _ => List.replicate 32 0
    let ap : Unit → Bytes → Option Unit := fun _ _ => some ()
    let sums := encodeSums false (H0 []) (H0 [])
    readStream H0 ap () ⟨[⟨nMeta, [123, 125], false⟩, ⟨nState, [], false⟩, ⟨nSums, sums, false⟩], .eof⟩ = .ok ((), []) ∧
    readStream H0 ap () ⟨[⟨nMeta, [123, 125], false⟩, ⟨nSums, sums, false⟩], .eof⟩ = .error .missingState := by
  intro H0 ap sums
  have hd : ∀ x, DigestOK (H0 x) := by intro x; exact ⟨by simp [H0], by simp [H0]⟩
  have hs : ∀ a b, SumsOK (H0 a) (H0 b) sums := by
    intro a b; exact sumsOK_encodeSums false (H0 a) (H0 b) (hd a) (hd b)
  constructor
  · rw [readStream_ok_iff]
    refine ⟨rfl, ?_, by simp [metas, foldApply, nMeta, nState, nSums, ap], by simp [cat, nMeta, nState, nSums], ?_,
      ⟨_, List.mem_cons_self .., rfl⟩, ⟨_, List.mem_cons_of_mem _ (List.mem_cons_self ..), rfl⟩⟩
    · intro x hx; simp at hx; rcases hx with rfl | rfl | rfl <;> simp
    · have : cat nSums [⟨nMeta, [123, 125], false⟩, ⟨nState, [], false⟩, ⟨nSums, sums, false⟩] = sums := by
        simp [cat, nMeta, nState, nSums]
      rw [this]; exact hs [] []
  · apply (readStream_missing H0 ap () () ⟨[⟨nMeta, [123, 125], false⟩, ⟨nSums, sums, false⟩], .eof⟩ rfl ?_ ?_ ?_).2
    · exact ⟨_, List.mem_cons_self .., rfl⟩
    · rintro ⟨x, hx, hn⟩
      simp at hx; rcases hx with rfl | rfl <;> simp [nMeta, nState, nSums] at hn
    · intro x hx; simp at hx; rcases hx with rfl | rfl <;> simp
    · simp [metas, foldApply, nMeta, nSums, ap]
    · have : cat nSums [⟨nMeta, [123, 125], false⟩, ⟨nSums, sums, false⟩] = sums := by
        simp [cat, nMeta, nSums]
      rw [this]; exact hs [] []

/-- **Missing SHA256SUMS rejected**: no SHA256SUMS member (or only empty ones) ⇒ rejected,
    unconditionally. -/
theorem missing_sums_rejected (s : Stream) (h : cat nSums s.members = []) :
    ∃ e, readStream H apply m0 s = .error e := by
  apply rejected_of_not_accepted
  intro m st hr
  obtain ⟨_, _, _, _, ⟨es, hp, _, hm, _⟩, _⟩ := (readStream_ok_iff H apply m0 m s st).mp hr
  rw [h, parseSums_nil] at hp
  cases hp
  simp at hm

/-- A SHA256SUMS that lacks the checksum of one of the two names ⇒ rejected. -/
theorem missing_checksum_rejected (s : Stream) (es : List (Bytes × Bytes))
    (hp : parseSums (cat nSums s.members) = some es)
    (h : (∀ e ∈ es, e.2 ≠ nMeta) ∨ (∀ e ∈ es, e.2 ≠ nState)) :
    ∃ e, readStream H apply m0 s = .error e := by
  apply rejected_of_not_accepted
  intro m st hr
  obtain ⟨_, _, _, _, ⟨es', hp', _, hm, hs⟩, _⟩ := (readStream_ok_iff H apply m0 m s st).mp hr
  rw [hp] at hp'; cases hp'
  rcases h with h | h
  · exact h _ hm rfl
  · exact h _ hs rfl

/-! ### repeated names in SHA256SUMS

What the code does when a name is listed more than once: every line is checked on its own
against the digest of that name (`hash check failed` on the first mismatch), and the final
check only asks that each of the two names was listed at least once. So: ALL lines of a name
must carry the right digest (neither the first nor the last "wins"); repeating valid lines, in
any order, changes nothing; and a repeated line never stands in for a missing one. -/

/-- **All lines must match.** If any listed entry — whatever else is listed for the same name,
    before or after it — is not the exact (digest, name) pair of the archive's meta.json or
    state.bin content, the archive is rejected. -/
theorem repeated_sums_line_all_must_match (s : Stream) (es : List (Bytes × Bytes))
    (hp : parseSums (cat nSums s.members) = some es)
    (h : ∃ e ∈ es, e ≠ (H (cat nMeta s.members), nMeta) ∧ e ≠ (H (cat nState s.members), nState)) :
    ∃ e, readStream H apply m0 s = .error e := by
  apply rejected_of_not_accepted
  intro m st hr
  obtain ⟨_, _, _, _, ⟨es', hp', hall, _, _⟩, _⟩ := (readStream_ok_iff H apply m0 m s st).mp hr
  rw [hp] at hp'; cases hp'
  obtain ⟨e, he, h1, h2⟩ := h
  rcases hall e he with h' | h'
  · exact h1 h'
  · exact h2 h'

/-- **A repeated line is no substitute for a missing one.** However many times one name is
    listed (with the right digest or not), if the other name is not listed the archive is
    rejected — so the unlisted member can never escape its checksum. -/
theorem repeated_sums_line_no_substitute (s : Stream) (es : List (Bytes × Bytes))
    (hp : parseSums (cat nSums s.members) = some es)
    (h : (∀ e ∈ es, e.2 = nMeta) ∨ (∀ e ∈ es, e.2 = nState)) :
    ∃ e, readStream H apply m0 s = .error e := by
  apply missing_checksum_rejected H apply m0 s es hp
  have hne := nMeta_ne_nState
  rcases h with h | h
  · right; intro e he hn; exact hne ((h e he).symm.trans hn)
  · left; intro e he hn; exact hne (hn.symm.trans (h e he))

/-- **Repeating or permuting valid lines is harmless.** Two archives that differ only in their
    SHA256SUMS text, both texts scanning to the same SET of entries (lines repeated any number
    of times, in any order), get the same verdict and the same extraction. -/
theorem repeated_sums_lines_same_verdict (s s' : Stream) (es es' : List (Bytes × Bytes))
    (hend : s'.ending = s.ending) (hclean : Clean s'.members ↔ Clean s.members)
    (hmetas : metas s'.members = metas s.members)
    (hcm : cat nMeta s'.members = cat nMeta s.members)
    (hcs : cat nState s'.members = cat nState s.members)
    (hh1 : Has nMeta s'.members ↔ Has nMeta s.members)
    (hh2 : Has nState s'.members ↔ Has nState s.members)
    (hp : parseSums (cat nSums s.members) = some es)
    (hp' : parseSums (cat nSums s'.members) = some es')
    (hset : ∀ e, e ∈ es' ↔ e ∈ es) (m : M) (st : Bytes) :
    readStream H apply m0 s' = .ok (m, st) ↔ readStream H apply m0 s = .ok (m, st) := by
  rw [readStream_ok_iff, readStream_ok_iff, hend, hclean, hmetas, hcm, hcs, hh1, hh2]
  have : SumsOK (H (cat nMeta s.members)) (H (cat nState s.members)) (cat nSums s'.members) ↔
      SumsOK (H (cat nMeta s.members)) (H (cat nState s.members)) (cat nSums s.members) := by
    unfold SumsOK
    rw [hp, hp']
    constructor
    · rintro ⟨x, hx, ha, hb, hc⟩
      cases hx
      exact ⟨es, rfl, fun e he => ha e ((hset e).mpr he), (hset _).mp hb, (hset _).mp hc⟩
    · rintro ⟨x, hx, ha, hb, hc⟩
      cases hx
      exact ⟨es', rfl, fun e he => ha e ((hset e).mp he), (hset _).mpr hb, (hset _).mpr hc⟩
  rw [this]

/-- **Unexpected member rejected**: a member with any other name, anywhere in the archive ⇒
    rejected, unconditionally (also when SHA256SUMS was recomputed to cover it). -/
theorem unexpected_member_rejected (s : Stream) (x : Member) (hx : x ∈ s.members)
    (hn : x.name ≠ nMeta ∧ x.name ≠ nState ∧ x.name ≠ nSums) :
    ∃ e, readStream H apply m0 s = .error e := by
  apply rejected_of_not_accepted
  intro m st hr
  obtain ⟨_, hc, _⟩ := (readStream_ok_iff H apply m0 m s st).mp hr
  have := (hc x hx).2
  rcases this with h | h | h
  · exact hn.1 h
  · exact hn.2.1 h
  · exact hn.2.2 h

/-- A member cut short, or a tar stream that does not end cleanly ⇒ rejected. -/
theorem incomplete_stream_rejected (s : Stream)
    (h : s.ending = .err ∨ ∃ x ∈ s.members, x.short = true) :
    ∃ e, readStream H apply m0 s = .error e := by
  apply rejected_of_not_accepted
  intro m st hr
  obtain ⟨he, hc, _⟩ := (readStream_ok_iff H apply m0 m s st).mp hr
  rcases h with h | ⟨x, hx, hs⟩
  · rw [he] at h; cases h
  · have := (hc x hx).1; rw [hs] at this; cases this

/-! ## reordering -/

/-- **Reordering.** Members may be permuted in any way that keeps the relative order of members
    with the same name (in particular: any permutation of an archive with one member per name,
    such as every archive `write` produces): the verdict and the extraction are the same. -/
theorem reorder_same (ms ms' : List Member) (e : Ending)
    (hperm : ∀ nm, ms'.filter (·.name = nm) = ms.filter (·.name = nm))
    (hmem : ∀ x, x ∈ ms' ↔ x ∈ ms) (m : M) (st : Bytes) :
    readStream H apply m0 ⟨ms', e⟩ = .ok (m, st) ↔ readStream H apply m0 ⟨ms, e⟩ = .ok (m, st) := by
  rw [readStream_ok_iff, readStream_ok_iff]
  have c : ∀ nm, cat nm ms' = cat nm ms := by intro nm; simp [cat, hperm nm]
  have k : metas ms' = metas ms := by simp [metas, hperm nMeta]
  have cl : Clean ms' ↔ Clean ms := by
    constructor <;> intro h x hx
    · exact h x ((hmem x).mpr hx)
    · exact h x ((hmem x).mp hx)
  have hh : ∀ nm, Has nm ms' ↔ Has nm ms := by
    intro nm
    constructor <;> rintro ⟨x, hx, hn⟩
    · exact ⟨x, (hmem x).mp hx, hn⟩
    · exact ⟨x, (hmem x).mpr hx, hn⟩
  simp only [c, k, cl, hh]

/-- every permutation of a three-member archive with distinct names (what `write` produces)
    satisfies the hypothesis of `reorder_same` -/
theorem reorder_written (a b c : Member) (hab : a.name ≠ b.name) (hac : a.name ≠ c.name)
    (hbc : b.name ≠ c.name) (ms' : List Member) (hp : ms'.Perm [a, b, c]) (e : Ending) (m : M) (st : Bytes) :
    readStream H apply m0 ⟨ms', e⟩ = .ok (m, st) ↔ readStream H apply m0 ⟨[a, b, c], e⟩ = .ok (m, st) := by
  apply reorder_same
  · intro nm
    have hf := hp.filter (fun x : Member => decide (x.name = nm))
    have hl : ([a, b, c].filter (fun x : Member => decide (x.name = nm))).length ≤ 1 := by
      simp only [List.filter_cons, List.filter_nil]
      by_cases h1 : a.name = nm <;> by_cases h2 : b.name = nm <;> by_cases h3 : c.name = nm <;>
        simp_all
    generalize [a, b, c].filter (fun x : Member => decide (x.name = nm)) = r at hf hl
    match r, hl with
    | [], _ => simpa using hf
    | [y], _ => simpa using hf
  · intro x; exact hp.mem_iff

/-! ## byte layer -/

/-- **Layout partition.** The regions of `layout sizes` are consecutive from 0 to the archive
    length, so every byte position of the archive lies in exactly one of them (and therefore
    has exactly one class: header, data, padding of member i, or trailer). -/
theorem layout_partition (sizes : List Nat) (p : Nat) (hp : p < total sizes) :
    ∃ r ∈ layout sizes, r.contains p = true ∧ (∀ r' ∈ layout sizes, r'.contains p = true → r' = r) ∧
      classify sizes p = some r.cls := by
  have hc := layoutFrom_contig 0 0 sizes
  obtain ⟨r, hr, hcn, hu⟩ := contig_cover hc p (Nat.zero_le _) (by simpa using hp)
  exact ⟨r, hr, hcn, hu, classify_eq_some hr hcn hu⟩

theorem layout_contiguous (sizes : List Nat) : Contig 0 (layout sizes) (total sizes) := by
  simpa [layout] using layoutFrom_contig 0 0 sizes

/-- **Truncation classes.** If the archive is cut before the last data byte of its last member
    has been written, the tar reader either fails or ends cleanly after a strict prefix of the
    members (some member is incomplete or absent); if it is cut later (inside the last padding
    or the trailer), every member is seen complete. -/
theorem truncation_classes (ms : List (Bytes × Bytes)) (cut : Nat) :
    (cut < lastDataEnd 0 (sizesOf ms) →
      (truncStream ms cut).ending = .err ∨
      ∃ k, k < ms.length ∧ truncStream ms cut = ⟨(ms.take k).map full, .eof⟩) ∧
    (lastDataEnd 0 (sizesOf ms) ≤ cut → (truncStream ms cut).members = ms.map full) :=
  ⟨truncFrom_before_last 0 ms cut, truncFrom_after_last 0 ms cut⟩

/-- **Cut short ⇒ rejected.** Any archive whose only SHA256SUMS member comes last, cut at any
    byte before that member's data is complete, is rejected — unconditionally (no assumption on
    `H`): either the tar reader reports the cut, or the SHA256SUMS member is gone. -/
theorem truncated_rejected (ms : List (Bytes × Bytes)) (hl : SumsLast ms) (cut : Nat)
    (hc : cut < lastDataEnd 0 (sizesOf ms)) :
    ∃ e, readStream H apply m0 (truncStream ms cut) = .error e := by
  rcases truncFrom_before_last 0 ms cut hc with he | ⟨k, hk, hs⟩
  · exact incomplete_stream_rejected H apply m0 _ (Or.inl he)
  · unfold truncStream
    rw [hs]
    apply missing_sums_rejected
    obtain ⟨pre, x, rfl, hpre⟩ := hl
    have hk' : k ≤ pre.length := by simp at hk; omega
    have : (pre ++ [x]).take k = pre.take k := by
      rw [List.take_append_of_le_length hk']
    simp only [this, cat]
    rw [List.flatMap_eq_nil_iff]
    intro y hy
    simp only [List.mem_filter, List.mem_map] at hy
    obtain ⟨⟨z, hz, rfl⟩, hn⟩ := hy
    have := hpre z (List.mem_of_mem_take hz)
    have hn' : z.1 = nSums := of_decide_eq_true hn
    exact absurd hn' this

/-- **Cut in the last padding or the trailer ⇒ same extraction or rejected.** -/
theorem truncated_late_same_or_rejected (ms : List (Bytes × Bytes)) (cut : Nat)
    (hc : lastDataEnd 0 (sizesOf ms) ≤ cut) :
    readStream H apply m0 (truncStream ms cut) = readStream H apply m0 ⟨ms.map full, .eof⟩ ∨
    ∃ e, readStream H apply m0 (truncStream ms cut) = .error e := by
  have hm := truncFrom_after_last 0 ms cut hc
  cases he : (truncStream ms cut).ending with
  | eof =>
    left
    have hm' : (truncStream ms cut).members = ms.map full := hm
    have : truncStream ms cut = ⟨ms.map full, .eof⟩ := by
      cases h : truncStream ms cut with
      | mk a b => rw [h] at hm' he; simp only at hm' he; rw [hm', he]
    rw [this]
  | err => right; exact incomplete_stream_rejected H apply m0 _ (Or.inl he)

/-! ## single-byte damage -/

/-- **Damage confined to padding never changes what is extracted.** A changed byte in the zero
    padding after any member leaves the reader's view of the archive — hence the verdict and
    the extraction — exactly as it was. Unconditional. -/
theorem padding_damage_identical (ms : List (Bytes × Bytes)) (pos val i : Nat)
    (h : classify (sizesOf ms) pos = some (.pad i)) :
    flipViews ms pos val = [⟨ms.map full, .eof⟩] := by
  obtain ⟨r, hr, hc, hcls⟩ := classify_some_mem h
  exact flipFrom_pad val 0 0 ms pos r hr hc ⟨i, hcls⟩

/-- **A changed meta.json / state.bin byte is rejected.** If position `pos` lies in the data of
    member `i`, that member is a meta.json or state.bin member of an accepted archive, and `H`
    distinguishes the changed content from the original, every view of the damaged archive is
    rejected. -/
theorem data_byte_damage_rejected (ms : List (Bytes × Bytes)) (pos val i : Nat) (r : Region)
    (hr : r ∈ layout (sizesOf ms)) (hc : r.contains pos = true) (hcls : r.cls = .data i)
    (x : Bytes × Bytes) (hx : ms[i]? = some x) (hname : x.1 = nMeta ∨ x.1 = nState)
    (m : M) (st : Bytes) (hok : readStream H apply m0 ⟨ms.map full, .eof⟩ = .ok (m, st))
    (hdiff : H (cat x.1 ((setByte ms i (pos - r.start) val).map full)) ≠ H (cat x.1 (ms.map full))) :
    ∀ v ∈ flipViews ms pos val, ∃ e, readStream H apply m0 v = .error e := by
  obtain ⟨_, hf⟩ := flipFrom_data val 0 0 ms pos r i hr hc hcls
  intro v hv
  unfold flipViews at hv
  rw [hf] at hv
  simp only [Nat.sub_zero, List.mem_singleton] at hv
  subst hv
  apply altered_member_rejected H apply m0 ⟨ms.map full, .eof⟩ _ m st hok
  · apply cat_map_full_setByte_other
    intro y hy; rw [hx] at hy; cases hy
    rcases hname with hn | hn <;> rw [hn] <;> decide
  · rcases hname with hn | hn
    · left; rw [← hn]; exact hdiff
    · right; rw [← hn]; exact hdiff

/-- the three shapes a single-byte change can give the reader's view all end the same way -/
theorem view_same_or_rejected (ms : List (Bytes × Bytes)) (val : Nat) (m : M) (st : Bytes)
    (hok : readStream H apply m0 ⟨ms.map full, .eof⟩ = .ok (m, st))
    (hcf : ∀ i k x, ms[i]? = some x → (x.1 = nMeta ∨ x.1 = nState) →
      H (cat x.1 ((setByte ms i k val).map full)) = H (cat x.1 (ms.map full)) → setByte ms i k val = ms)
    (v : Stream)
    (hshape : v.ending = .err ∨ v = ⟨ms.map full, .eof⟩ ∨
      ∃ i k, i < ms.length ∧ v = ⟨(setByte ms i k val).map full, .eof⟩) :
    readStream H apply m0 v = .ok (m, st) ∨ ∃ e, readStream H apply m0 v = .error e := by
  rcases hshape with he | rfl | ⟨i, k, hi, rfl⟩
  · right; exact incomplete_stream_rejected H apply m0 v (Or.inl he)
  · left; exact hok
  · have hx : ms[i]? = some ms[i] := by simp [hi]
    by_cases hname : ms[i].1 = nMeta ∨ ms[i].1 = nState
    · by_cases heq : H (cat ms[i].1 ((setByte ms i k val).map full)) = H (cat ms[i].1 (ms.map full))
      · left; rw [hcf i k ms[i] hx hname heq]; exact hok
      · right
        apply altered_member_rejected H apply m0 ⟨ms.map full, .eof⟩ _ m st hok
        · apply cat_map_full_setByte_other
          intro y hy; rw [hx] at hy; cases hy
          rcases hname with hn | hn <;> rw [hn] <;> decide
        · rcases hname with hn | hn
          · left; rw [← hn]; exact heq
          · right; rw [← hn]; exact heq
    · have hn1 : ∀ y, ms[i]? = some y → y.1 ≠ nMeta := by
        intro y hy; rw [hx] at hy; cases hy; exact fun h => hname (Or.inl h)
      have hn2 : ∀ y, ms[i]? = some y → y.1 ≠ nState := by
        intro y hy; rw [hx] at hy; cases hy; exact fun h => hname (Or.inr h)
      cases hr : readStream H apply m0 ⟨(setByte ms i k val).map full, .eof⟩ with
      | error e => right; exact ⟨e, rfl⟩
      | ok res =>
        left
        obtain ⟨m', st'⟩ := res
        have := extraction_determined_by_payloads H apply m0 ⟨ms.map full, .eof⟩
          ⟨(setByte ms i k val).map full, .eof⟩ m m' st st'
          (metas_map_full_setByte_other ms i k val hn1)
          (cat_map_full_setByte_other ms i k val nState hn2) hok hr
        rw [this.1, this.2]

/-- **Any single-byte change: same extraction or rejected.** For an accepted archive, whatever
    byte is changed to whatever value — header, data of any member, padding, trailer — every
    view the tar reader can present is either rejected or extracts exactly the original
    metadata and state. The only assumption is collision-freeness of `H` on the values involved:
    a changed meta.json / state.bin member with an unchanged digest is an unchanged member. -/
theorem single_byte_damage_same_or_rejected (ms : List (Bytes × Bytes)) (pos val : Nat) (m : M) (st : Bytes)
    (hok : readStream H apply m0 ⟨ms.map full, .eof⟩ = .ok (m, st))
    (hcf : ∀ i k x, ms[i]? = some x → (x.1 = nMeta ∨ x.1 = nState) →
      H (cat x.1 ((setByte ms i k val).map full)) = H (cat x.1 (ms.map full)) → setByte ms i k val = ms) :
    ∀ v ∈ flipViews ms pos val,
      readStream H apply m0 v = .ok (m, st) ∨ ∃ e, readStream H apply m0 v = .error e := by
  intro v hv
  exact view_same_or_rejected H apply m0 ms val m st hok hcf v (flipFrom_shape val 0 ms pos v hv)

/-! ## header bytes -/

/-- **A changed header byte outside the checksum field is rejected by the checksum.** For a
    header block whose bytes are all ASCII (true of every header `write` produces: octal numbers,
    ASCII names, `ustar` magic — checked by the harness on every archive) and that passes the gate,
    changing any single byte other than the 8 checksum bytes — name, mode, size, mtime, type flag,
    magic, … — to any other byte value makes the block fail the gate: both the unsigned and the
    signed sum move away from the stored value. -/
theorem header_byte_change_rejected (blk : Bytes) (p v x : Nat) (hx : blk[p]? = some x)
    (hascii : ∀ b ∈ blk, b < 128) (hok : checksumOK blk = true)
    (hout : ¬ (148 ≤ p ∧ p < 156)) (hv : v ≠ x) (hv256 : v < 256) :
    checksumOK (blk.set p v) = false :=
  checksum_detects_change blk p v x hx hascii hok hout hv hv256

/-- **A changed checksum-field byte: same value or rejected.** Inside the checksum field the sums
    do not move; the block passes the gate exactly when the field still parses (`parseOctal`) to
    the value it held, and then every other byte the reader looks at is unchanged. -/
theorem checksum_field_change_same_or_rejected (blk : Bytes) (p v : Nat)
    (hascii : ∀ b ∈ blk, b < 128) (hok : checksumOK blk = true) (hin : 148 ≤ p ∧ p < 156) :
    (checksumOK (blk.set p v) = true ↔
      parseOctal (chkField (blk.set p v)) = parseOctal (chkField blk)) ∧
    slice 0 148 0 (blk.set p v) = slice 0 148 0 blk ∧
    slice 156 512 0 (blk.set p v) = slice 156 512 0 blk :=
  ⟨checksum_field_change blk p v hascii hok hin,
   slice_set_outside 0 148 blk 0 p v (by omega), slice_set_outside 156 512 blk 0 p v (by omega)⟩

/-- On the archive: a changed byte in the header of member `j` either leaves the reader's view of
    the whole archive exactly as it was (only possible inside the checksum field, by the two
    theorems above) or makes `Next` fail at that member, which `read` reports as an error. -/
theorem header_damage_identical_or_rejected (hs : List Bytes) (ms : List (Bytes × Bytes))
    (pos val j : Nat) (r : Region) (hlen : hs.length = ms.length)
    (hr : r ∈ layout (sizesOf ms)) (hc : r.contains pos = true) (hcls : r.cls = .header j) :
    ∃ h, hs[j]? = some h ∧
      (checksumOK (h.set (pos - r.start) val) = true → flipViewsH hs ms pos val = [⟨ms.map full, .eof⟩]) ∧
      (checksumOK (h.set (pos - r.start) val) = false →
        ∀ v ∈ flipViewsH hs ms pos val, ∃ e, readStream H apply m0 v = .error e) := by
  obtain ⟨_, h, hh, hf⟩ := flipFromH_header val 0 0 hs ms pos r j hlen hr hc hcls
  refine ⟨h, by simpa using hh, ?_, ?_⟩
  · intro hk; unfold flipViewsH; rw [hf]; simp [hk]
  · intro hk v hv
    unfold flipViewsH at hv; rw [hf] at hv
    simp only [hk, Bool.false_eq_true, if_false, List.mem_singleton] at hv
    subst hv
    exact incomplete_stream_rejected H apply m0 _ (Or.inl rfl)

/-- `single_byte_damage_same_or_rejected` for the header-aware byte model the driver executes. -/
theorem single_byte_damage_same_or_rejected_exact (hs : List Bytes) (ms : List (Bytes × Bytes))
    (pos val : Nat) (m : M) (st : Bytes)
    (hok : readStream H apply m0 ⟨ms.map full, .eof⟩ = .ok (m, st))
    (hcf : ∀ i k x, ms[i]? = some x → (x.1 = nMeta ∨ x.1 = nState) →
      H (cat x.1 ((setByte ms i k val).map full)) = H (cat x.1 (ms.map full)) → setByte ms i k val = ms) :
    ∀ v ∈ flipViewsH hs ms pos val,
      readStream H apply m0 v = .ok (m, st) ∨ ∃ e, readStream H apply m0 v = .error e := by
  intro v hv
  exact view_same_or_rejected H apply m0 ms val m st hok hcf v (flipFromH_shape val 0 hs ms pos v hv)

/-! ## gzip wrapper and restore -/

/-- **Restore only after verification.** `Restore` hands raft exactly what `Read` returned for an
    archive that passed every check of `read` and `concludeGzipRead`; for a rejected archive the
    raft callback is not applied at all. -/
theorem restore_only_after_verification {ρ : Type} (raftRestore : M → Bytes → ρ) (g : GzStream) (r : ρ)
    (h : restore H apply m0 raftRestore g = .ok r) :
    ∃ m st, r = raftRestore m st ∧ g.headerOk = true ∧ g.tail = .clean ∧
      readStream H apply m0 g.inner = .ok (m, st) := by
  unfold restore readGz at h
  by_cases hh : g.headerOk = false
  · simp [hh] at h
  · simp only [hh] at h
    cases hr : readStream H apply m0 g.inner with
    | error e => simp [hr] at h
    | ok x =>
      obtain ⟨m, st⟩ := x
      cases ht : g.tail <;> simp [hr, ht] at h
      exact ⟨m, st, h.symm, by simpa using hh, rfl, rfl⟩

/-- a gzip stream that is cut or corrupt after the tar data (`concludeGzipRead`), has a bad
    header, or wraps a rejected archive is rejected -/
theorem gz_rejected (g : GzStream)
    (h : g.headerOk = false ∨ g.tail ≠ .clean ∨ ∃ e, readStream H apply m0 g.inner = .error e) :
    ∃ e, readGz H apply m0 g = .error e := by
  unfold readGz
  by_cases hh : g.headerOk = false
  · exact ⟨.gzHeader, by simp [hh]⟩
  · simp only [hh]
    cases hr : readStream H apply m0 g.inner with
    | error e => exact ⟨e, rfl⟩
    | ok x =>
      rcases h with h | h | ⟨e, h⟩
      · exact absurd h hh
      · cases ht : g.tail with
        | clean => exact absurd ht h
        | corrupt => exact ⟨_, rfl⟩
        | extra => exact ⟨_, rfl⟩
      · rw [hr] at h; cases h

/-- **Gzip trailer change or truncation ⇒ rejected, restore unreachable.** Given what
    `compress/gzip` is trusted to report (`GzContract`), `Verify`/`Read` return an error — during
    `read`, or at the latest when `concludeGzipRead` drains the stream — and `Restore` does not
    apply the raft callback. -/
theorem gz_trailer_or_truncation_rejected {ρ : Type} (raftRestore : M → Bytes → ρ) (d : GzDamage)
    (hd : d = .trailer ∨ d = .truncated) (g0 g : GzStream) (hc : GzContract d g0 g) :
    (∃ e, readGz H apply m0 g = .error e) ∧ ∃ e, restore H apply m0 raftRestore g = .error e := by
  have hrej : ∃ e, readGz H apply m0 g = .error e := by
    apply gz_rejected
    have hc' : g.headerOk = false ∨ g.tail = .corrupt ∨ g.inner.ending = .err ∨
        ∃ x ∈ g.inner.members, x.short = true := by
      rcases hd with rfl | rfl <;> exact hc
    rcases hc' with h | h | h | h
    · exact Or.inl h
    · right; left; rw [h]; decide
    · right; right; exact incomplete_stream_rejected H apply m0 _ (Or.inl h)
    · right; right; exact incomplete_stream_rejected H apply m0 _ (Or.inr h)
  refine ⟨hrej, ?_⟩
  obtain ⟨e, he⟩ := hrej
  exact ⟨e, by simp [restore, he]⟩

/-- **Things after the gzip member, as the code handles them.** Trailing garbage and a further
    member with content are rejected (`concludeGzipRead`: drain error, resp. "unread uncompressed
    bytes remain") and never reach restore; a further EMPTY member is invisible: same verdict,
    same extraction. -/
theorem gz_appended {ρ : Type} (raftRestore : M → Bytes → ρ) (d : GzDamage) (g0 g : GzStream)
    (hc : GzContract d g0 g) :
    (d = .garbageAfter ∨ d = .dataMemberAfter →
      (∃ e, readGz H apply m0 g = .error e) ∧ ∃ e, restore H apply m0 raftRestore g = .error e) ∧
    (d = .emptyMemberAfter → readGz H apply m0 g = readGz H apply m0 g0 ∧
      restore H apply m0 raftRestore g = restore H apply m0 raftRestore g0) := by
  constructor
  · intro hd
    have hrej : ∃ e, readGz H apply m0 g = .error e := by
      apply gz_rejected
      rcases hd with rfl | rfl
      · right; left; rw [hc.2.2]; decide
      · right; left; rw [hc.2.2]; decide
    refine ⟨hrej, ?_⟩
    obtain ⟨e, he⟩ := hrej
    exact ⟨e, by simp [restore, he]⟩
  · rintro rfl
    obtain ⟨h1, h2, h3⟩ := hc
    have : readGz H apply m0 g = readGz H apply m0 g0 := by simp [readGz, h1, h2, h3]
    exact ⟨this, by simp [restore, this]⟩

/-! ## non-vacuity -/

/-- SHA-256 as implemented for the engine meets `DigestOK`, so `roundtrip` applies to the very
    instantiation the correspondence run executes. -/
theorem sha256_digestOK (x : Bytes) : DigestOK (CV.Sha256.sha256 x) :=
  ⟨CV.Sha256.sha256_length x, CV.Sha256.sha256_byte x⟩

/-- a codec satisfying `hcodec` exists (identity on byte strings) -/
example : ∀ (m0 m : Bytes), (fun (_ : Bytes) b => some b) m0 (id m) = some m := by intros; rfl

/-- `SumsLast` holds for the member list `write` produces -/
example (mb st sums : Bytes) : SumsLast [(nMeta, mb), (nState, st), (nSums, sums)] :=
  ⟨[(nMeta, mb), (nState, st)], (nSums, sums), rfl, by
    intro y hy; simp at hy; rcases hy with rfl | rfl
    · exact nMeta_ne_nSums
    · exact nState_ne_nSums⟩

/-- hypotheses of `truncation_classes` / `truncated_rejected` are satisfiable: a 3-member
    archive with 2, 1 and 3 data bytes has its last data byte at offset 3·512 + 2·512 + 3 -/
example : lastDataEnd 0 (sizesOf [(nMeta, [1, 2]), (nState, [3]), (nSums, [4, 5, 6])]) = 2563 := by decide

example : total [2, 1, 3] = 4096 := by decide
example : classify [2, 1, 3] 513 = some (.data 0) := by decide
example : classify [2, 1, 3] 514 = some (.pad 0) := by decide
example : classify [2, 1, 3] 1024 = some (.header 1) := by decide
example : classify [2, 1, 3] 3072 = some .trailer := by decide

/-- the hypotheses of `single_byte_damage_same_or_rejected` (an accepted archive and a digest
    that separates every single-byte change of its meta.json / state.bin from the original) are
    satisfiable: toy digest = 31 zero bytes and the byte sum mod 256, archive with one-byte
    members, replacement value 5 -/
theorem single_byte_damage_nonvacuous :
    let H0 : Bytes → Bytes := fun x => List.replicate 31 0 ++ [x.sum % 256]
    let ap : Unit → Bytes → Option Unit := fun _ _ => some ()
    let ms : List (Bytes × Bytes) := [(nMeta, [1]), (nState, [2]), (nSums, encodeSums false (H0 [1]) (H0 [2]))]
    readStream H0 ap () ⟨ms.map full, .eof⟩ = .ok ((), [2]) ∧
    (∀ i k x, ms[i]? = some x → (x.1 = nMeta ∨ x.1 = nState) →
      H0 (cat x.1 ((setByte ms i k 5).map full)) = H0 (cat x.1 (ms.map full)) → setByte ms i k 5 = ms) := by
  intro H0 ap ms
  have hd : ∀ x, DigestOK (H0 x) := by
    intro x
    refine ⟨by simp [H0], ?_⟩
    intro b hb
    simp only [H0, List.mem_append, List.mem_replicate, List.mem_singleton] at hb
    rcases hb with ⟨_, rfl⟩ | rfl <;> omega
  constructor
  · rw [readStream_ok_iff]
    refine ⟨rfl, ?_, by simp [ms, full, metas, foldApply, nMeta, nState, nSums, ap],
      by simp [ms, full, cat, nMeta, nState, nSums], ?_,
      ⟨full (nMeta, [1]), by simp [ms], rfl⟩, ⟨full (nState, [2]), by simp [ms], rfl⟩⟩
    · intro x hx; simp [ms, full] at hx; rcases hx with rfl | rfl | rfl <;> simp
    · have e1 : cat nMeta (ms.map full) = [1] := by simp [ms, full, cat, nMeta, nState, nSums]
      have e2 : cat nState (ms.map full) = [2] := by simp [ms, full, cat, nMeta, nState, nSums]
      have e3 : cat nSums (ms.map full) = encodeSums false (H0 [1]) (H0 [2]) := by
        simp [ms, full, cat, nMeta, nState, nSums]
      rw [e1, e2, e3]
      exact sumsOK_encodeSums false _ _ (hd _) (hd _)
  · intro i k x hx hname heq
    match i, hx with
    | 0, hx =>
      simp [ms] at hx; subst hx
      match k with
      | 0 => simp [ms, setByte, full, cat, nMeta, nState, nSums, H0] at heq
      | k + 1 => simp [ms, setByte]
    | 1, hx =>
      simp [ms] at hx; subst hx
      match k with
      | 0 => simp [ms, setByte, full, cat, nMeta, nState, nSums, H0] at heq
      | k + 1 => simp [ms, setByte]
    | 2, hx =>
      simp [ms] at hx; subst hx
      rcases hname with h | h <;> simp [nMeta, nState, nSums] at h
    | i + 3, hx => simp [ms] at hx

example : classify (sizesOf [(nMeta, [1]), (nState, [2]), (nSums, [3])]) 514 = some (.pad 0) := by decide

/-- hypotheses of `header_byte_change_rejected` / `checksum_field_change_same_or_rejected` are
    satisfiable: an all-NUL block whose checksum field holds "400" (= 256 = eight spaces) is ASCII
    and passes the gate; changing byte 3 to 'a' fails it; changing the NUL after "400" inside the
    field to a space keeps the parsed value and passes -/
def exBlk : Bytes := List.replicate 148 0 ++ [52, 48, 48, 0, 32, 32, 32, 32]
set_option maxRecDepth 8000 in
example : checksumOK exBlk = true ∧ (∀ b ∈ exBlk, b < 128) := by decide
set_option maxRecDepth 8000 in
example : checksumOK (exBlk.set 3 97) = false := by decide
set_option maxRecDepth 8000 in
example : checksumOK (exBlk.set 151 32) = true := by decide
set_option maxRecDepth 8000 in
example : checksumOK (exBlk.set 148 53) = false := by decide
example : parseOctal [48, 48, 48, 52, 48, 48, 0, 32] = some 256 := by decide

-- executable sanity tests of the model (tests, not theorems)
#guard (truncStream [(nMeta, [1, 2]), (nState, [3]), (nSums, [4, 5, 6])] 2562).ending == .err
#guard (truncStream [(nMeta, [1, 2]), (nState, [3]), (nSums, [4, 5, 6])] 2563) ==
  ⟨[⟨nMeta, [1, 2], false⟩, ⟨nState, [3], false⟩, ⟨nSums, [4, 5, 6], false⟩], .eof⟩
#guard scanLine ("E3b0  meta.json trailing".toUTF8.toList.map (·.toNat)) == some ([0xE3, 0xb0], nMeta)
#guard scanLine ("e3b  meta.json".toUTF8.toList.map (·.toNat)) == none

end CV.Tar
