/-
C17 — peering: imports mirror exactly what was exported and touch nothing else.
Property theorems only; helper lemmas live in CV/Proofs/Peer*.lean. Model: CV/Peer.lean, vocabulary of the
statements (others, Sub, WF, SnapOK, ViewIs, Fresh, NoReuse, Covered, NoClash, Readable): CV/PeerSpec.lean.

Domain of the model: case-normal names (the state store lower-cases index keys, the importer's Go maps do not:
names that differ only in case break the import — known finding `import:names-differing-only-in-case`, replayed
on the implementation by the harness corpus on every run, not expressible in this model).
Section 6 is about the exporting side's duplicate suppression (model CV/PeerExport.lean).
All theorems quantify over arbitrary catalogs (any number of peers, nodes, instances, checks), arbitrary
snapshots and arbitrary message sequences; there is no size bound anywhere.
-/
import CV.Proofs.PeerGo
import CV.Proofs.PeerExport
import CV.Proofs.PeerIdx
import CV.Proofs.PeerClean
set_option linter.unusedSectionVars false
set_option linter.unusedSimpArgs false
namespace CV.Peer

/-! ## 1. Isolation: local data and other peers' data are never modified -/

/-- Processing any exported-service update for peer `p` — well-formed or not, successful, failing half-way
    or panicking — leaves the sub-catalog of all rows that do not belong to `p` (local rows, other peers)
    identical: same rows, same order, in the three tables. -/
theorem import_isolated (c : Cat) (p sn : String) (insts : List Inst) :
    others p (handleUpdate c p sn insts).cat = others p c :=
  others_handleUpdate c p sn insts

/-- The same for an exported-service-list update. -/
theorem list_isolated (c : Cat) (p : String) (names : List String) :
    others p (handleList c p names).cat = others p c :=
  others_handleList c p names

/-- … and for every sequence of messages of a stream with peer `p`. -/
theorem stream_isolated (p : String) (ms : List Msg) (c : Cat) (h : ∀ m ∈ ms, m.peer = p) :
    others p (runMsgs c ms) = others p c := by
  induction ms generalizing c with
  | nil => rfl
  | cons m ms ih =>
    simp only [runMsgs, List.foldl_cons]
    have hm : m.peer = p := h m (by simp)
    have := ih (stepMsg c m) (fun m' hm' => h m' (by simp [hm']))
    simp only [runMsgs] at this
    rw [this]
    cases m with
    | upd q sn insts => simp only [Msg.peer] at hm; subst hm; exact others_handleUpdate c q sn insts
    | list q names => simp only [Msg.peer] at hm; subst hm; exact others_handleList c q names

/-- Row-level reading of `stream_isolated`: a row of another peer (or a local row, peer `""`) is in the
    catalog after the stream iff it was there before. -/
theorem stream_isolated_rows (p : String) (ms : List Msg) (c : Cat) (h : ∀ m ∈ ms, m.peer = p) :
    (∀ x : Node, x.peer ≠ p → (x ∈ (runMsgs c ms).nodes ↔ x ∈ c.nodes)) ∧
    (∀ x : Svc, x.peer ≠ p → (x ∈ (runMsgs c ms).svcs ↔ x ∈ c.svcs)) ∧
    (∀ x : Chk, x.peer ≠ p → (x ∈ (runMsgs c ms).chks ↔ x ∈ c.chks)) := by
  have e := stream_isolated p ms c h
  have en := congrArg Cat.nodes e
  have es := congrArg Cat.svcs e
  have ek := congrArg Cat.chks e
  simp only [others] at en es ek
  refine ⟨fun x hx => ?_, fun x hx => ?_, fun x hx => ?_⟩
  · have : x ∈ (runMsgs c ms).nodes.filter (fun x => decide (x.peer ≠ p)) ↔ x ∈ c.nodes.filter (fun x => decide (x.peer ≠ p)) := by rw [en]
    simpa [List.mem_filter, hx] using this
  · have : x ∈ (runMsgs c ms).svcs.filter (fun x => decide (x.peer ≠ p)) ↔ x ∈ c.svcs.filter (fun x => decide (x.peer ≠ p)) := by rw [es]
    simpa [List.mem_filter, hx] using this
  · have : x ∈ (runMsgs c ms).chks.filter (fun x => decide (x.peer ≠ p)) ↔ x ∈ c.chks.filter (fun x => decide (x.peer ≠ p)) := by rw [ek]
    simpa [List.mem_filter, hx] using this

/-! ## 2. Entries no longer present are removed; services no longer exported disappear -/

/-- After a processed update (acknowledged: no error, no panic) for service `sn` of peer `p`, every instance
    of `(p, sn)` left in the catalog carries a (node, service id) of the received snapshot: stored instances
    that the snapshot no longer lists are gone. No assumption on the prior catalog or on the snapshot. -/
theorem import_removes_absent_instances (c : Cat) (p sn : String) (insts : List Inst)
    (he : (handleUpdate c p sn insts).err = none) (hp : (handleUpdate c p sn insts).panic = false) :
    ∀ s ∈ (handleUpdate c p sn insts).cat.svcs, s.peer = p → s.name = sn →
      ∃ x ∈ insts, x.node.name = s.node ∧ x.svc.sid = s.sid :=
  handleUpdate_instances_in_snapshot he hp

/-- The deletion of a service (an update without instances) leaves no instance of it. -/
theorem import_delete_removes_all (c : Cat) (p sn : String) (he : (handleUpdate c p sn []).err = none) :
    ∀ s ∈ (handleUpdate c p sn []).cat.svcs, ¬(s.peer = p ∧ s.name = sn) := by
  intro s hs ⟨h1, h2⟩
  obtain ⟨x, hx, _⟩ := handleUpdate_instances_in_snapshot he (handleUpdate_nil_panic c p sn) s hs h1 h2
  cases hx

/-- After a processed exported-service-list update, every service of peer `p` left in the catalog is listed
    (or is the synthetic sidecar of a listed one): services no longer exported disappear. -/
theorem exported_list_prunes (c : Cat) (p : String) (names : List String)
    (he : (handleList c p names).err = none) :
    ∀ s ∈ (handleList c p names).cat.svcs, s.peer = p → s.name ∈ keepNames names := by
  intro s hs hp
  unfold handleList at he hs
  obtain ⟨a, _, d⟩ := pruneAll_spec p (keepNames names) (serviceList c p) { cat := c } ⟨rfl, rfl⟩ he
  apply d s hs hp
  have hs0 : s ∈ c.svcs := a.svcs s hs
  simp only [serviceList, List.mem_eraseDups, List.mem_map, List.mem_filter, decide_eq_true_eq]
  exact ⟨s, ⟨hs0, hp⟩, rfl⟩

/-- … hence the view of an unlisted service is empty. -/
theorem exported_list_prunes_view (c : Cat) (p : String) (names : List String) (sn : String)
    (he : (handleList c p names).err = none) (hsn : sn ∉ keepNames names) :
    csn (handleList c p names).cat p sn = .ok [] := by
  have h := exported_list_prunes c p names he
  unfold csn
  have : (handleList c p names).cat.svcs.filter (fun s => decide (s.peer = p ∧ s.name = sn)) = [] := by
    rw [List.filter_eq_nil_iff]
    intro s hs
    simp only [decide_eq_true_eq, not_and]
    intro hp hn
    exact hsn (hn ▸ h s hs hp)
  rw [this]; rfl

/-- A list update only removes rows: it never adds or alters one. -/
theorem exported_list_only_removes (c : Cat) (p : String) (names : List String)
    (he : (handleList c p names).err = none) : Sub (handleList c p names).cat c := by
  unfold handleList at he ⊢
  exact (pruneAll_spec p (keepNames names) (serviceList c p) { cat := c } ⟨rfl, rfl⟩ he).1

/-! ### 2b. Checks no longer present are removed — on every node at once

`handleUpdateService` collects the node checks to delete in a set keyed by (check id, NODE) so that a node check
attached to several instances of a node is deregistered once; service checks are deregistered on the spot. The
theorems below say that this clean-up loses nothing: whatever number of nodes loses whatever check ids in one
update. No assumption on the prior catalog; the reach of the clean-up (it sees a stored check only through a
stored instance of the same service whose (node, id) is still listed) is explicit in the statement — the checks
outside that reach are the known findings `import:stale-node-check:*` / `import:stale-service-check:*`. -/

/-- After a processed update, for every stored instance `x` of `(p, sn)` whose (node, service id) the snapshot still
    lists, every check in the stored view of `x` (node checks of its node, checks of its id) whose check id that
    received instance does not list is gone: no check is left under that (node, check id). Any number of nodes,
    instances and checks in one update; the same check id on several nodes; no assumption on the catalog or on the
    snapshot. (`snapInst` reads the normalised snapshot `newHealthSnapshot` builds.) -/
theorem import_removes_absent_checks_raw (c : Cat) (p sn : String) (is : List Inst)
    (he : (handleUpdate c p sn is).err = none) (hp : (handleUpdate c p sn is).panic = false)
    (st : List CSN) (snap : Snap) (hst : csn c p sn = .ok st) (hsnap : mkSnap is = some snap) :
    ∀ x ∈ st, ∀ ss, snapInst snap x.node.name x.svc.sid = some ss → ∀ k ∈ x.chks, (∀ d ∈ ss.chks, d.cid ≠ k.cid) →
      ∀ y ∈ (handleUpdate c p sn is).cat.chks, ¬(y.peer = p ∧ y.node = k.node ∧ y.cid = k.cid) := by
  intro x hx ss hss k hk hg
  exact handleUpdate_removes_gone_checks he hp hst hsnap hx hss hk (fun ⟨e, he1, he2⟩ => hg e he1 he2)

/-- The same, read through the received instance list (for a well-formed snapshot): if the stored instance `x` is
    still listed as `i` and `i` does not list the id of a check `k` in the stored view of `x`, then after the update
    the node of `x` carries no check with that id — for all nodes and all check ids of the update at once. -/
theorem import_removes_absent_checks (c : Cat) (p sn : String) (is : List Inst) (ok : SnapOK sn is)
    (he : (handleUpdate c p sn is).err = none) (hp : (handleUpdate c p sn is).panic = false)
    (st : List CSN) (hst : csn c p sn = .ok st) :
    ∀ x ∈ st, ∀ i ∈ is, i.node.name = x.node.name → i.svc.sid = x.svc.sid →
      ∀ k ∈ x.chks, (∀ d ∈ i.chks, d.cid ≠ k.cid) →
      ∀ y ∈ (handleUpdate c p sn is).cat.chks, ¬(y.peer = p ∧ y.node = x.node.name ∧ y.cid = k.cid) := by
  intro x hx i hi e1 e2 k hk hg
  obtain ⟨snap, hsnap, _, sis⟩ := mkSnap_is ok
  obtain ⟨_, keys⟩ := mkSnap_keys hsnap
  have hne : snapInst snap x.node.name x.svc.sid ≠ none := (keys _ _).mpr ⟨i, hi, e1, e2⟩
  cases hss : snapInst snap x.node.name x.svc.sid with
  | none => exact absurd hss hne
  | some ss =>
    obtain ⟨j, hj, f1, f2, f3⟩ := snapInst_some sis hss
    have hij : j = i := pairwise_key_eq ok.keys hj hi (f1.trans e1.symm) (f2.trans e2.symm)
    subst hij
    have hkn : k.node = x.node.name := by
      obtain ⟨_, _, _, _, _, e6, e7⟩ := (csn_ok hst).1 x hx
      rw [e7] at hk
      simp only [List.mem_append, List.mem_filter, chkOfNode, chkOfSvc, decide_eq_true_eq] at hk
      rcases hk with hk | hk
      · rw [hk.2.2.1, e6]
      · rw [hk.2.2.1, e6]
    have := import_removes_absent_checks_raw c p sn is he hp st snap hst hsnap x hx ss hss k hk (by rw [f3]; exact hg)
    rw [hkn] at this
    exact this

/-- The de-duplication set of the clean-up names every (node, check id) pair exactly once, and holds exactly the
    node checks the stored instances show and their received counterparts do not list: it neither drops a pair
    (two nodes losing the same check id are two entries) nor repeats one (a node check seen through several
    instances of its node is one entry). -/
theorem cleanup_dedup_exact (p : String) (snap : Snap) (st : List CSN) :
    (cleanup p snap st).nchks.Nodup ∧
    ∀ n k, (n, k) ∈ (cleanup p snap st).nchks ↔
      ∃ x ∈ st, ∃ ss, snapInst snap x.node.name x.svc.sid = some ss ∧
        ∃ e ∈ x.chks, (¬ ∃ d ∈ ss.chks, d.cid = e.cid) ∧ e.sid = "" ∧ e.node = n ∧ e.cid = k := by
  refine ⟨cleanup_nodup p snap st, fun n k => ?_⟩
  rw [(cleanup_spec p snap st).2.1 (n, k)]
  constructor
  · rintro ⟨x, hx, ss, hss, e, he, hg, hs, heq⟩
    simp only [Prod.mk.injEq] at heq
    exact ⟨x, hx, ss, hss, e, he, hg, hs, heq.1.symm, heq.2.symm⟩
  · rintro ⟨x, hx, ss, hss, e, he, hg, hs, e1, e2⟩
    exact ⟨x, hx, ss, hss, e, he, hg, hs, by rw [e1, e2]⟩

/-- stored: `web1` of `web` on `n1` and on `n2`, each node with the node check `nc1` and the service check `c1` —
    the same ids on both nodes -/
def exTwo : Cat :=
  { nodes := [⟨"p1", "n1", "", "10.0.0.1"⟩, ⟨"p1", "n2", "", "10.0.0.2"⟩],
    svcs := [⟨"p1", "n1", "web1", "web", 80⟩, ⟨"p1", "n2", "web1", "web", 80⟩],
    chks := [⟨"p1", "n1", "nc1", "", "", "passing"⟩, ⟨"p1", "n1", "c1", "web1", "web", "passing"⟩,
             ⟨"p1", "n2", "nc1", "", "", "passing"⟩, ⟨"p1", "n2", "c1", "web1", "web", "passing"⟩] }
/-- received: both nodes and instances still there, `nc1` and `c1` gone from BOTH nodes at once -/
def exTwoSnap : List Inst :=
  [⟨⟨"n1", "", "10.0.0.1"⟩, ⟨"web1", "web", 80⟩, []⟩, ⟨⟨"n2", "", "10.0.0.2"⟩, ⟨"web1", "web", 80⟩, []⟩]

-- non-vacuity: the update is processed, all four checks are in reach of the theorem, and they are gone
example : (handleUpdate exTwo "p1" "web" exTwoSnap).err = none ∧ (handleUpdate exTwo "p1" "web" exTwoSnap).panic = false ∧
    (handleUpdate exTwo "p1" "web" exTwoSnap).cat.chks = [] ∧
    (cleanup "p1" ((mkSnap exTwoSnap).getD []) ((csn exTwo "p1" "web").toOption.getD [])).nchks = [("n1", "nc1"), ("n2", "nc1")] := by
  decide

/-- Why the node is part of the de-duplication key. With the set keyed by the check id alone (a Go
    `map[CheckID]node`: a later node replaces an earlier one) the same update deregisters `nc1` on one node only:
    the stale node check stays on `n1`, the imported view differs from the snapshot. -/
theorem dedup_by_check_id_counterexample :
    WF exTwo ∧ SnapOK "web" exTwoSnap ∧ (handleUpdateCidDedup exTwo "p1" "web" exTwoSnap).err = none ∧
    (⟨"p1", "n1", "nc1", "", "", "passing"⟩ : Chk) ∈ (handleUpdateCidDedup exTwo "p1" "web" exTwoSnap).cat.chks ∧
    (handleUpdate exTwo "p1" "web" exTwoSnap).cat.chks = [] := by
  refine ⟨⟨by decide, by decide, by decide, by decide⟩,
    ⟨by decide, by decide, by decide, by decide, by decide, by decide, by decide, by decide⟩, by decide, by decide, by decide⟩

-- non-vacuity of section 2: a list update that unexports `web` from the catalog `exC` defined below is in
-- section 4 (it needs the example catalog).

/-! ## 3. The catalog for that peer and service equals the received snapshot

Full-strength statement (FALSE for the code as it is, see the counterexamples below):

    theorem import_exact (c) (p sn) (is) (wf : WF c) (ok : SnapOK sn is)
        (he : (handleUpdate c p sn is).err = none) (hp : (handleUpdate c p sn is).panic = false) :
        ViewIs (handleUpdate c p sn is).cat p sn is

`handleUpdateService` reconciles checks only through the STORED instances of the same service whose (node, id)
is still in the snapshot, registers "changed" rows against the view read before any write, and relies on
`ensureNodeTxn`, which renames (= deletes) a stored node that holds a received UUID under another name. The
theorem below proves the statement with exactly these situations excluded, each as an explicit hypothesis:
`Fresh` (no rename), `NoReuse` (a check
id deleted by the clean-up is not re-used by another received check of the node), `Covered` (a stored check in
the view of a received instance is listed by it, or hangs on a stored instance the clean-up examines). -/

/-- **Imports mirror the snapshot** (partial: hypotheses `Fresh`, `NoReuse`, `Covered`; taking over the instance id of another
    service of the peer is allowed as long as it leaves no stale check, which is what `Covered` says).
    For every well-formed catalog and every well-formed snapshot, after a processed update
    * every received node, instance and check is in the catalog exactly as received (the service name of a
      check is the one of its instance, an empty status cannot occur),
    * the instances of `(p, sn)` are exactly the received ones — absent ones are removed,
    * the checks seen by a received instance (node checks of its node, checks of its id) are exactly the received
      ones — absent ones are removed,
    and the catalog is well formed again, so the theorem applies to the next message. -/
theorem import_exact_partial (c : Cat) (p sn : String) (is : List Inst)
    (wf : WF c) (ok : SnapOK sn is) (fr : Fresh c p is)
    (nr : NoReuse c p sn is) (cv : Covered c p sn is)
    (he : (handleUpdate c p sn is).err = none) (hp : (handleUpdate c p sn is).panic = false) :
    WF (handleUpdate c p sn is).cat ∧
    (∀ i ∈ is, nodeRow p i.node ∈ (handleUpdate c p sn is).cat.nodes ∧
        svcRow p i.node.name i.svc ∈ (handleUpdate c p sn is).cat.svcs ∧
        ∀ k ∈ i.chks, chkRow p k ∈ (handleUpdate c p sn is).cat.chks) ∧
    (∀ s ∈ (handleUpdate c p sn is).cat.svcs, s.peer = p → s.name = sn → ∃ i ∈ is, s = svcRow p i.node.name i.svc) ∧
    (∀ i ∈ is, ∀ k ∈ (handleUpdate c p sn is).cat.chks, k.peer = p → k.node = i.node.name →
        (k.sid = "" ∨ k.sid = i.svc.sid) → ∃ d ∈ i.chks, k = chkRow p d) :=
  handleUpdate_exact wf ok fr nr cv he hp

/-- The same through the read path: `CheckServiceNodes(sn, p)` on the resulting catalog returns the received
    snapshot — nodes, instances, checks. -/
theorem import_exact_view_partial (c : Cat) (p sn : String) (is : List Inst)
    (wf : WF c) (ok : SnapOK sn is) (fr : Fresh c p is)
    (nr : NoReuse c p sn is) (cv : Covered c p sn is)
    (he : (handleUpdate c p sn is).err = none) (hp : (handleUpdate c p sn is).panic = false) :
    ViewIs (handleUpdate c p sn is).cat p sn is := by
  obtain ⟨a, b, d, e⟩ := handleUpdate_exact wf ok fr nr cv he hp
  exact viewIs_of_rows a ok b d e

/-- **Consistent snapshots are processed.** If in addition no stored node of the peer carries another UUID under
    the name of a received node (`NoClash`) and the stored view can be read (`Readable`), the update is
    acknowledged: no registration fails, nothing panics. So the hypotheses "no error, no panic" of the theorems
    of this file follow from conditions on the catalog and the snapshot alone. -/
theorem import_processed (c : Cat) (p sn : String) (is : List Inst)
    (wf : WF c) (ok : SnapOK sn is) (fr : Fresh c p is) (nc : NoClash c p is)
    (rd : Readable c p sn) :
    (handleUpdate c p sn is).err = none ∧ (handleUpdate c p sn is).panic = false :=
  handleUpdate_processed wf ok fr nc rd

/-- Exactness with every hypothesis on the inputs, none on the outcome. -/
theorem import_exact_total_partial (c : Cat) (p sn : String) (is : List Inst)
    (wf : WF c) (ok : SnapOK sn is) (fr : Fresh c p is) (nc : NoClash c p is)
    (rd : Readable c p sn) (nr : NoReuse c p sn is) (cv : Covered c p sn is) :
    (handleUpdate c p sn is).err = none ∧ ViewIs (handleUpdate c p sn is).cat p sn is := by
  obtain ⟨he, hp⟩ := handleUpdate_processed wf ok fr nc rd
  exact ⟨he, import_exact_view_partial c p sn is wf ok fr nr cv he hp⟩

/-- A first import into a catalog that holds nothing of the peer needs none of the three hypotheses. -/
theorem import_exact_first (c : Cat) (p sn : String) (is : List Inst) (wf : WF c) (ok : SnapOK sn is)
    (hnew : (∀ x ∈ c.nodes, x.peer ≠ p) ∧ (∀ x ∈ c.svcs, x.peer ≠ p) ∧ (∀ x ∈ c.chks, x.peer ≠ p))
    (he : (handleUpdate c p sn is).err = none) (hp : (handleUpdate c p sn is).panic = false) :
    ViewIs (handleUpdate c p sn is).cat p sn is := by
  apply import_exact_view_partial c p sn is wf ok _ _ _ he hp
  · intro i _ _ e he hep; exact absurd hep (hnew.1 e he)
  · intro k hk hkp; exact absurd hkp (hnew.2.2 k hk)
  · intro k hk hkp; exact absurd hkp (hnew.2.2 k hk)

/-! ### counterexamples to the full-strength statement (kernel-evaluated on the model; the same histories are
    found on the implementation by the harness monitors, signatures in parentheses) -/

/-- stored: `web` instance `web1` on `n1`, node check `nc1` -/
def cxB : Cat := { nodes := [⟨"p1", "n1", "", "10.0.0.1"⟩], svcs := [⟨"p1", "n1", "web1", "web", 80⟩],
                   chks := [⟨"p1", "n1", "nc1", "", "", "passing"⟩] }
/-- received: the instance now has id `web2`, the node check is gone -/
def cxBsnap : List Inst := [⟨⟨"n1", "", "10.0.0.1"⟩, ⟨"web2", "web", 80⟩, []⟩]

/-- (`import:stale-node-check:instance-id-replaced`) the stored instance is replaced by one with another id and
    the node check disappears in the same snapshot: the loop `continue`s after deregistering the old instance,
    the node check is never looked at and stays — the view differs from the snapshot. `Covered` fails. -/
theorem import_exact_counterexample_instance_replaced :
    WF cxB ∧ SnapOK "web" cxBsnap ∧ (handleUpdate cxB "p1" "web" cxBsnap).err = none ∧
    ¬ ViewIs (handleUpdate cxB "p1" "web" cxBsnap).cat "p1" "web" cxBsnap ∧ ¬ Covered cxB "p1" "web" cxBsnap := by
  refine ⟨⟨by decide, by decide, by decide, by decide⟩,
    ⟨by decide, by decide, by decide, by decide, by decide, by decide, by decide, by decide⟩, by decide, ?_, by decide⟩
  apply not_viewIs_of_stale (L := [⟨⟨"p1", "n1", "", "10.0.0.1"⟩, ⟨"p1", "n1", "web2", "web", 80⟩,
      [⟨"p1", "n1", "nc1", "", "", "passing"⟩]⟩]) (k := ⟨"p1", "n1", "nc1", "", "", "passing"⟩)
  · decide
  · exact List.mem_singleton.mpr rfl
  · exact List.mem_singleton.mpr rfl
  · decide

/-- stored: `api` instance on `n1` with node check `nc1`; `web` is not on `n1` yet -/
def cxA : Cat := { nodes := [⟨"p1", "n1", "", "10.0.0.1"⟩], svcs := [⟨"p1", "n1", "api1", "api", 80⟩],
                   chks := [⟨"p1", "n1", "nc1", "", "", "critical"⟩] }
def cxAsnap : List Inst := [⟨⟨"n1", "", "10.0.0.1"⟩, ⟨"web1", "web", 80⟩, []⟩]

/-- (`import:stale-node-check:node-new-to-service`) the node carried no instance of `web` before, so no stored
    instance of `web` shows its node check `nc1`, which the `web` snapshot does not list: it stays in the view. -/
theorem import_exact_counterexample_node_new_to_service :
    WF cxA ∧ SnapOK "web" cxAsnap ∧ (handleUpdate cxA "p1" "web" cxAsnap).err = none ∧
    ¬ ViewIs (handleUpdate cxA "p1" "web" cxAsnap).cat "p1" "web" cxAsnap ∧ ¬ Covered cxA "p1" "web" cxAsnap := by
  refine ⟨⟨by decide, by decide, by decide, by decide⟩,
    ⟨by decide, by decide, by decide, by decide, by decide, by decide, by decide, by decide⟩, by decide, ?_, by decide⟩
  apply not_viewIs_of_stale (L := [⟨⟨"p1", "n1", "", "10.0.0.1"⟩, ⟨"p1", "n1", "web1", "web", 80⟩,
      [⟨"p1", "n1", "nc1", "", "", "critical"⟩]⟩]) (k := ⟨"p1", "n1", "nc1", "", "", "critical"⟩)
  · decide
  · exact List.mem_singleton.mpr rfl
  · exact List.mem_singleton.mpr rfl
  · decide

/-- stored: instance id `s1` on `n1` belongs to `api` and has a check -/
def cxC : Cat := { nodes := [⟨"p1", "n1", "", "10.0.0.1"⟩], svcs := [⟨"p1", "n1", "s1", "api", 80⟩],
                   chks := [⟨"p1", "n1", "s1:overall-check", "s1", "api", "critical"⟩] }
def cxCsnap : List Inst := [⟨⟨"n1", "", "10.0.0.1"⟩, ⟨"s1", "web", 80⟩, []⟩]

/-- (`import:stale-service-check:instance-id-taken-from-other-service`) the exporter re-registered id `s1` under
    the service `web` without checks: the row is overwritten, the old service's check stays attached to it. -/
theorem import_exact_counterexample_id_taken_over :
    WF cxC ∧ SnapOK "web" cxCsnap ∧ (handleUpdate cxC "p1" "web" cxCsnap).err = none ∧
    ¬ ViewIs (handleUpdate cxC "p1" "web" cxCsnap).cat "p1" "web" cxCsnap ∧ ¬ Covered cxC "p1" "web" cxCsnap := by
  refine ⟨⟨by decide, by decide, by decide, by decide⟩,
    ⟨by decide, by decide, by decide, by decide, by decide, by decide, by decide, by decide⟩, by decide, ?_, by decide⟩
  apply not_viewIs_of_stale (L := [⟨⟨"p1", "n1", "", "10.0.0.1"⟩, ⟨"p1", "n1", "s1", "web", 80⟩,
      [⟨"p1", "n1", "s1:overall-check", "s1", "api", "critical"⟩]⟩]) (k := ⟨"p1", "n1", "s1:overall-check", "s1", "api", "critical"⟩)
  · decide
  · exact List.mem_singleton.mpr rfl
  · exact List.mem_singleton.mpr rfl
  · decide

/-- the benign take-over: the instance id `s1` of `api` is re-registered under `web` and the old check is replaced
    by a received one with the same id — every hypothesis of `import_exact_view_partial` holds -/
def exT : Cat := { nodes := [⟨"p1", "n1", "", "10.0.0.1"⟩], svcs := [⟨"p1", "n1", "s1", "api", 80⟩],
                   chks := [⟨"p1", "n1", "s1:overall-check", "s1", "api", "critical"⟩] }
def exTsnap : List Inst := [⟨⟨"n1", "", "10.0.0.1"⟩, ⟨"s1", "web", 80⟩, [⟨"n1", "s1:overall-check", "s1", "web", "passing"⟩]⟩]

example : ViewIs (handleUpdate exT "p1" "web" exTsnap).cat "p1" "web" exTsnap :=
  import_exact_view_partial exT "p1" "web" exTsnap ⟨by decide, by decide, by decide, by decide⟩
    ⟨by decide, by decide, by decide, by decide, by decide, by decide, by decide, by decide⟩
    (by decide) (by decide) (by decide) (by decide) (by decide)

/-- stored: `web` instances `a` and `b` on `n1`; check `c1` belongs to `a` -/
def cxD : Cat := { nodes := [⟨"p1", "n1", "", "10.0.0.1"⟩],
                   svcs := [⟨"p1", "n1", "a", "web", 80⟩, ⟨"p1", "n1", "b", "web", 80⟩],
                   chks := [⟨"p1", "n1", "c1", "a", "web", "passing"⟩] }
/-- received: check id `c1` now belongs to `b` -/
def cxDsnap : List Inst := [⟨⟨"n1", "", "10.0.0.1"⟩, ⟨"a", "web", 80⟩, []⟩,
                            ⟨⟨"n1", "", "10.0.0.1"⟩, ⟨"b", "web", 80⟩, [⟨"n1", "c1", "b", "web", "passing"⟩]⟩]

/-- (`import:check-id-moved-between-instances`) the check is registered for `b`, then the clean-up of `a`
    (stored `c1` is no longer listed by `a`) deregisters check id `c1` on the node: the received check is lost. -/
theorem import_exact_counterexample_check_id_moved :
    WF cxD ∧ SnapOK "web" cxDsnap ∧ (handleUpdate cxD "p1" "web" cxDsnap).err = none ∧
    chkRow "p1" ⟨"n1", "c1", "b", "web", "passing"⟩ ∉ (handleUpdate cxD "p1" "web" cxDsnap).cat.chks ∧
    ¬ NoReuse cxD "p1" "web" cxDsnap := by
  refine ⟨⟨by decide, by decide, by decide, by decide⟩,
    ⟨by decide, by decide, by decide, by decide, by decide, by decide, by decide, by decide⟩, by decide, by decide, by decide⟩

/-- stored: node `n3` with UUID `u1` carrying `web` instance `i3` -/
def cxE : Cat := { nodes := [⟨"p1", "n3", "u1", "10.0.0.3"⟩], svcs := [⟨"p1", "n3", "i3", "web", 80⟩], chks := [] }
/-- received: `u1` now names node `n2`; `n3` (unchanged instance) has a new UUID; `n2` is processed first -/
def cxEsnap : List Inst := [⟨⟨"n2", "u1", "10.0.0.2"⟩, ⟨"i2", "web", 80⟩, []⟩,
                            ⟨⟨"n3", "u2", "10.0.0.3"⟩, ⟨"i3", "web", 80⟩, []⟩]

/-- (`import:node-id-moved-between-snapshot-nodes`) registering `n2` finds UUID `u1` on `n3` and renames: `n3`
    is deleted with its instance; `n3` is then re-created, but its instance is skipped as "unchanged" because
    that test uses the view read before any write. In the implementation this depends on Go map order. -/
theorem import_exact_counterexample_uuid_moved :
    WF cxE ∧ SnapOK "web" cxEsnap ∧ (handleUpdate cxE "p1" "web" cxEsnap).err = none ∧
    svcRow "p1" "n3" ⟨"i3", "web", 80⟩ ∉ (handleUpdate cxE "p1" "web" cxEsnap).cat.svcs ∧
    ¬ Fresh cxE "p1" cxEsnap := by
  refine ⟨⟨by decide, by decide, by decide, by decide⟩,
    ⟨by decide, by decide, by decide, by decide, by decide, by decide, by decide, by decide⟩, by decide, by decide, by decide⟩

/-- stored: node `n1` with UUID `u1` and a passing serf check; received: node `n1` with UUID `u2` -/
def cxF : Cat := { nodes := [⟨"p1", "n1", "u1", "10.0.0.1"⟩], svcs := [⟨"p1", "n1", "web1", "web", 80⟩],
                   chks := [⟨"p1", "n1", "serfHealth", "", "", "passing"⟩] }
def cxFsnap : List Inst := [⟨⟨"n1", "u2", "10.0.0.1"⟩, ⟨"web1", "web", 80⟩, [⟨"n1", "serfHealth", "", "", "passing"⟩]⟩]

/-- `NoClash` is needed for `import_processed`: the exporter replaced node `n1` by a new machine with the same name
    (its old serf check was last seen passing): `ensureNoNodeWithSimilarNameTxn` refuses the registration, the
    update fails and changes nothing — this time and every time it is sent again. -/
theorem import_processed_counterexample_node_reserved :
    WF cxF ∧ SnapOK "web" cxFsnap ∧ Fresh cxF "p1" cxFsnap ∧ Readable cxF "p1" "web" ∧
    ¬ NoClash cxF "p1" cxFsnap ∧
    (handleUpdate cxF "p1" "web" cxFsnap).err = some .nodeReserved ∧ (handleUpdate cxF "p1" "web" cxFsnap).cat = cxF := by
  refine ⟨⟨by decide, by decide, by decide, by decide⟩,
    ⟨by decide, by decide, by decide, by decide, by decide, by decide, by decide, by decide⟩,
    by decide, by decide, by decide, by decide, by decide⟩

/-- the escape of `ensureNoNodeWithSimilarNameTxn`: the same replacement is accepted when the stored node's serf
    check is critical (`NoClash` holds through its third alternative) -/
def exG : Cat := { cxF with chks := [⟨"p1", "n1", "serfHealth", "", "", "critical"⟩] }

example : (handleUpdate exG "p1" "web" cxFsnap).err = none ∧ (handleUpdate exG "p1" "web" cxFsnap).panic = false :=
  import_processed exG "p1" "web" cxFsnap ⟨by decide, by decide, by decide, by decide⟩
    ⟨by decide, by decide, by decide, by decide, by decide, by decide, by decide, by decide⟩
    (by decide) (by decide) (by decide)
example : ¬ (∀ i ∈ cxFsnap, i.node.id ≠ "" → ∀ e ∈ exG.nodes, e.peer = "p1" → e.name = i.node.name →
    e.id = "" ∨ e.id = i.node.id) := by decide

/-! ### non-vacuity: a second update of a shared catalog that meets every hypothesis and changes everything -/

/-- stored for peer `p1`: `web` on `n1` (instances `web1`, `web2`, node check `serfHealth`, service check `c1`) and on
    `n2`; `api` also lives on `n1`; a local node `n1` and a node of peer `p2` carry the same names -/
def exC : Cat :=
  { nodes := [⟨"p1", "n1", "u1", "10.0.0.1"⟩, ⟨"p1", "n2", "", "10.0.0.2"⟩, ⟨"", "n1", "", "192.168.0.1"⟩, ⟨"p2", "n1", "u1", "10.9.9.9"⟩],
    svcs := [⟨"p1", "n1", "web1", "web", 80⟩, ⟨"p1", "n1", "web2", "web", 80⟩, ⟨"p1", "n2", "web1", "web", 80⟩,
             ⟨"p1", "n1", "api1", "api", 443⟩, ⟨"", "n1", "web1", "web", 1⟩, ⟨"p2", "n1", "web1", "web", 2⟩],
    chks := [⟨"p1", "n1", "serfHealth", "", "", "passing"⟩, ⟨"p1", "n1", "c1", "web1", "web", "passing"⟩,
             ⟨"p1", "n1", "c9", "web1", "web", "warning"⟩, ⟨"", "n1", "c1", "web1", "web", "critical"⟩] }
/-- received for `web`: `web1` on `n1` changes port and its check status, loses check `c9`; `web2` is gone; the
    node check turns critical and the address changes; the instance on `n2` moved to the new node `n3` -/
def exSnap : List Inst :=
  [⟨⟨"n1", "u1", "10.0.0.9"⟩, ⟨"web1", "web", 8080⟩,
      [⟨"n1", "serfHealth", "", "", "critical"⟩, ⟨"n1", "c1", "web1", "web", "critical"⟩]⟩,
   ⟨⟨"n3", "u3", "10.0.0.3"⟩, ⟨"web1", "web", 80⟩, [⟨"n3", "c1", "web1", "web", "passing"⟩]⟩]

theorem ex_wf : WF exC := ⟨by decide, by decide, by decide, by decide⟩
theorem ex_snapOK : SnapOK "web" exSnap :=
  ⟨by decide, by decide, by decide, by decide, by decide, by decide, by decide, by decide⟩
theorem ex_hyps : Fresh exC "p1" exSnap ∧ NoReuse exC "p1" "web" exSnap ∧
    Covered exC "p1" "web" exSnap ∧ (handleUpdate exC "p1" "web" exSnap).err = none ∧
    (handleUpdate exC "p1" "web" exSnap).panic = false :=
  ⟨by decide, by decide, by decide, by decide, by decide⟩
theorem ex_hyps2 : NoClash exC "p1" exSnap ∧ Readable exC "p1" "web" := ⟨by decide, by decide⟩

example : (handleUpdate exC "p1" "web" exSnap).err = none ∧ ViewIs (handleUpdate exC "p1" "web" exSnap).cat "p1" "web" exSnap :=
  import_exact_total_partial exC "p1" "web" exSnap ex_wf ex_snapOK ex_hyps.1 ex_hyps2.1 ex_hyps2.2
    ex_hyps.2.1 ex_hyps.2.2.1

example : ViewIs (handleUpdate exC "p1" "web" exSnap).cat "p1" "web" exSnap :=
  import_exact_view_partial exC "p1" "web" exSnap ex_wf ex_snapOK ex_hyps.1 ex_hyps.2.1 ex_hyps.2.2.1
    ex_hyps.2.2.2.1 ex_hyps.2.2.2.2

-- executable sanity tests (tests, not theorems): what the driver computes for this update
#guard (handleUpdate exC "p1" "web" exSnap).cat.svcs.map (fun s => (s.peer, s.node, s.sid, s.port)) ==
  [("p1", "n1", "api1", 443), ("", "n1", "web1", 1), ("p2", "n1", "web1", 2), ("p1", "n1", "web1", 8080), ("p1", "n3", "web1", 80)]
#guard (handleUpdate exC "p1" "web" exSnap).cat.nodes.map (fun n => (n.peer, n.name, n.addr)) ==
  [("", "n1", "192.168.0.1"), ("p2", "n1", "10.9.9.9"), ("p1", "n1", "10.0.0.9"), ("p1", "n3", "10.0.0.3")]
#guard (handleUpdate exC "p1" "web" exSnap).log.length == 10

/-! ## 4. Inside the same peer: other services are left alone, nodes go only when unused -/

/-- Within peer `p`, a processed update of `sn` keeps every instance of every other service whose (node, id) the
    snapshot does not claim (`Fresh`: no node is renamed away), and every service check of such an instance whose
    check id the snapshot does not claim. -/
theorem other_services_same_peer (c : Cat) (p sn : String) (is : List Inst)
    (wf : WF c) (ok : SnapOK sn is) (fr : Fresh c p is)
    (he : (handleUpdate c p sn is).err = none) (hp : (handleUpdate c p sn is).panic = false) :
    (∀ s ∈ c.svcs, s.peer = p → s.name ≠ sn → (∀ i ∈ is, ¬(s.node = i.node.name ∧ s.sid = i.svc.sid)) →
        s ∈ (handleUpdate c p sn is).cat.svcs) ∧
    (∀ k ∈ c.chks, k.peer = p → (∃ s ∈ c.svcs, s.peer = p ∧ s.name ≠ sn ∧ s.node = k.node ∧ s.sid = k.sid ∧
          ∀ i ∈ is, ¬(s.node = i.node.name ∧ s.sid = i.svc.sid)) →
        (∀ i ∈ is, ∀ d ∈ i.chks, ¬(k.node = d.node ∧ k.cid = d.cid)) → k ∈ (handleUpdate c p sn is).cat.chks) :=
  ⟨(handleUpdate_other wf ok fr he hp).1, (handleUpdate_other wf ok fr he hp).2.1⟩

/-- A node of peer `p` that is not in the snapshot survives the update iff it did not carry an instance of `sn`
    before, or some instance of the peer remains on it: nodes are removed only when nothing is left on them,
    and a node left without instances by this update is removed. -/
theorem unused_nodes_removed_only_if_unused (c : Cat) (p sn : String) (is : List Inst)
    (wf : WF c) (ok : SnapOK sn is) (fr : Fresh c p is)
    (he : (handleUpdate c p sn is).err = none) (hp : (handleUpdate c p sn is).panic = false) :
    ∀ x ∈ c.nodes, x.peer = p → (∀ i ∈ is, x.name ≠ i.node.name) →
      (x ∈ (handleUpdate c p sn is).cat.nodes ↔
        (¬(∃ s ∈ c.svcs, s.peer = p ∧ s.name = sn ∧ s.node = x.name) ∨
         ∃ s ∈ (handleUpdate c p sn is).cat.svcs, s.peer = p ∧ s.node = x.name)) :=
  (handleUpdate_other wf ok fr he hp).2.2

/-- A processed exported-service-list update leaves every listed service of the peer untouched: its
    instances, their service checks and the nodes they live on. -/
theorem exported_list_keeps_listed (c : Cat) (p : String) (names : List String) (wf : WF c)
    (he : (handleList c p names).err = none) :
    (∀ s ∈ c.svcs, s.peer = p → s.name ∈ keepNames names → s ∈ (handleList c p names).cat.svcs) ∧
    (∀ k ∈ c.chks, k.peer = p → (∃ s ∈ c.svcs, s.peer = p ∧ s.name ∈ keepNames names ∧ s.node = k.node ∧ s.sid = k.sid) →
        k ∈ (handleList c p names).cat.chks) ∧
    (∀ x ∈ c.nodes, x.peer = p → (∃ s ∈ c.svcs, s.peer = p ∧ s.name ∈ keepNames names ∧ s.node = x.name) →
        x ∈ (handleList c p names).cat.nodes) := by
  unfold handleList at he ⊢
  exact pruneAll_keeps p (keepNames names) (serviceList c p) { cat := c } wf ⟨rfl, rfl⟩ he

/-- Whatever a stream delivers and whatever happens to each message (processed, failed half-way, panicked), the
    catalog keeps unique keys — so the theorems above apply again to the next message. -/
theorem catalog_stays_well_formed (c : Cat) (ms : List Msg) (wf : WF c) : WF (runMsgs c ms) :=
  WF.runMsgs ms wf

-- non-vacuity of section 4 on the example of section 3: `api` on the shared node `n1` is left alone, the
-- abandoned node `n2` is removed, the shared node `n1` stays
example : (⟨"p1", "n1", "api1", "api", 443⟩ : Svc) ∈ (handleUpdate exC "p1" "web" exSnap).cat.svcs :=
  (other_services_same_peer exC "p1" "web" exSnap ex_wf ex_snapOK ex_hyps.1 ex_hyps.2.2.2.1
    ex_hyps.2.2.2.2).1 _ (by decide) rfl (by decide) (by decide)
example : (⟨"p1", "n2", "", "10.0.0.2"⟩ : Node) ∉ (handleUpdate exC "p1" "web" exSnap).cat.nodes := by decide

-- a list update on the same catalog: `web` is no longer exported, `api` is
example : (handleList exC "p1" ["api"]).err = none ∧
    (handleList exC "p1" ["api"]).cat.svcs.filter (fun s => decide (s.peer = "p1")) = [⟨"p1", "n1", "api1", "api", 443⟩] ∧
    (handleList exC "p1" ["api"]).cat.nodes.filter (fun n => decide (n.peer = "p1")) = [⟨"p1", "n1", "u1", "10.0.0.1"⟩] := by
  decide

/-! ## 4b. Raft indexes (CreateIndex / ModifyIndex) of the rows

Model: CV/PeerIdx.lean — `ixRun c ix idx log` replays the Raft commands of a handler from catalog `c`, index table
`ix` and Raft index `idx`; every command is one transaction and consumes one index; a row is stamped only when it is
written. The driver prints the indexes of every row and the harness compares them with the real rows. -/

/-- Replaying the command log of an update reproduces the resulting catalog (the index layer and the content model
    agree on what happened). -/
theorem import_log_replays (c : Cat) (p sn : String) (is : List Inst) (ix : Ix) (idx : Nat) :
    (ixRun c ix idx (handleUpdate c p sn is).log).1 = (handleUpdate c p sn is).cat := by
  rw [ixRun_cat]; exact (handleUpdate_log c p sn is).1

/-- Isolation covers the Raft indexes: whatever an update for peer `p` does, the index entries of all rows that do
    not belong to `p` (local rows, other peers) are the same list afterwards. -/
theorem import_isolated_indexes (c : Cat) (p sn : String) (is : List Inst) (ix : Ix) (idx : Nat) :
    ixOthers p (ixRun c ix idx (handleUpdate c p sn is).log).2.1 = ixOthers p ix :=
  ixOthers_run p _ c ix idx (handleUpdate_log c p sn is).2

/-- The same for an exported-service-list update. -/
theorem list_isolated_indexes (c : Cat) (p : String) (names : List String) (ix : Ix) (idx : Nat) :
    ixOthers p (ixRun c ix idx (handleList c p names).log).2.1 = ixOthers p ix :=
  ixOthers_run p _ c ix idx (handleList_log c p names).2

/-- `other_services_same_peer` covers the Raft indexes: the instances of the peer's other services that the
    snapshot does not claim, and their service checks, keep their CreateIndex and ModifyIndex. -/
theorem other_services_same_peer_indexes (c : Cat) (p sn : String) (is : List Inst) (ix : Ix) (idx : Nat)
    (wf : WF c) (ok : SnapOK sn is) (fr : Fresh c p is)
    (he : (handleUpdate c p sn is).err = none) (hp : (handleUpdate c p sn is).panic = false) :
    (∀ s ∈ c.svcs, s.peer = p → s.name ≠ sn → (∀ i ∈ is, ¬(s.node = i.node.name ∧ s.sid = i.svc.sid)) →
        ixAt (svcKey s) (ixRun c ix idx (handleUpdate c p sn is).log).2.1 = ixAt (svcKey s) ix) ∧
    (∀ k ∈ c.chks, k.peer = p → (∃ s ∈ c.svcs, s.peer = p ∧ s.name ≠ sn ∧ s.node = k.node ∧ s.sid = k.sid ∧
          ∀ i ∈ is, ¬(s.node = i.node.name ∧ s.sid = i.svc.sid)) →
        (∀ i ∈ is, ∀ d ∈ i.chks, ¬(k.node = d.node ∧ k.cid = d.cid)) →
        ixAt (chkKey k) (ixRun c ix idx (handleUpdate c p sn is).log).2.1 = ixAt (chkKey k) ix) := by
  obtain ⟨st, snap, c1, l1, hst, hsnap, _, _⟩ := handleUpdate_ok he hp
  obtain ⟨snap', hsnap', _, sis⟩ := mkSnap_is ok
  rw [hsnap] at hsnap'; cases hsnap'
  obtain ⟨o1, o2⟩ := other_services_same_peer c p sn is wf ok fr he hp
  have hregs := handleUpdate_log_regs (c := c) (p := p) (sn := sn) (is := is) hst hsnap
  have hsid : ∀ r, Op.reg r ∈ (handleUpdate c p sn is).log → ∀ sd, r.svc = some sd → sd.sid ≠ "" := by
    intro r hr sd hsd
    obtain ⟨_, _, h2, _⟩ := op_inst sis (hregs r hr)
    obtain ⟨i, hi, _, e⟩ := h2 sd hsd
    rw [e]; exact (ok.inst i hi).2.1
  have hcat := (handleUpdate_log c p sn is).1
  constructor
  · intro s hs hsp hsn hun
    refine (ixRun_keep_svc _ c ix idx wf s hsid ?_ (by rw [hcat]; exact o1 s hs hsp hsn hun)).2
    intro r sd hr hsd e
    obtain ⟨_, _, h2, _⟩ := op_inst sis (hregs r hr)
    obtain ⟨i, hi, _, e2⟩ := h2 sd hsd
    apply hsn
    rw [e, e2]; exact (ok.inst i hi).2.2
  · intro k hk hkp hhost hno
    refine (ixRun_keep_chk _ c ix idx wf k hsid ?_ (by rw [hcat]; exact o2 k hk hkp hhost hno)).2
    intro r hr d hd hfrom
    obtain ⟨_, _, _, h3⟩ := op_inst sis (hregs r hr)
    obtain ⟨i, hi, _, hdi⟩ := h3 d hd
    exact hno i hi d hdi ⟨hfrom.2.1, hfrom.2.2.1⟩

/-- The skip-unchanged path: an instance that the snapshot lists exactly as it is stored is not written — it keeps
    its CreateIndex and ModifyIndex (under the hypotheses of `import_exact_partial`, which put it into the result). -/
theorem unchanged_instance_keeps_indexes (c : Cat) (p sn : String) (is : List Inst) (ix : Ix) (idx : Nat)
    (wf : WF c) (ok : SnapOK sn is) (fr : Fresh c p is) (nr : NoReuse c p sn is) (cv : Covered c p sn is)
    (he : (handleUpdate c p sn is).err = none) (hp : (handleUpdate c p sn is).panic = false) :
    ∀ i ∈ is, svcRow p i.node.name i.svc ∈ c.svcs →
      ixAt (svcKey (svcRow p i.node.name i.svc)) (ixRun c ix idx (handleUpdate c p sn is).log).2.1 =
      ixAt (svcKey (svcRow p i.node.name i.svc)) ix := by
  intro i hi hstored
  obtain ⟨st, snap, c1, l1, hst, hsnap, _, _⟩ := handleUpdate_ok he hp
  obtain ⟨snap', hsnap', _, sis⟩ := mkSnap_is ok
  rw [hsnap] at hsnap'; cases hsnap'
  have hregs := handleUpdate_log_regs (c := c) (p := p) (sn := sn) (is := is) hst hsnap
  have hpres := (import_exact_partial c p sn is wf ok fr nr cv he hp).2.1 i hi
  have hcat := (handleUpdate_log c p sn is).1
  refine (ixRun_keep_svc _ c ix idx wf _ ?_ ?_ (by rw [hcat]; exact hpres.2.1)).2
  · intro r hr sd hsd
    obtain ⟨_, _, h2, _⟩ := op_inst sis (hregs r hr)
    obtain ⟨j, hj, _, e⟩ := h2 sd hsd
    rw [e]; exact (ok.inst j hj).2.1
  · intro r sd hr hsd e
    have hch := regOps_svc_changed p st snap r sd (hregs r hr) hsd
    obtain ⟨hpeer, _, h2, _⟩ := op_inst sis (hregs r hr)
    obtain ⟨j, hj, e1, e2⟩ := h2 sd hsd
    have hrow : svcRow p r.node.name sd ∈ c.svcs := by
      have : svcRow p r.node.name sd = svcRow p i.node.name i.svc := by rw [e]; simp [svcRow, hpeer]
      rw [this]; exact hstored
    have := svcUnchanged_of_stored wf hst (by rw [e2]; exact (ok.inst j hj).2.2) hrow
    rw [this] at hch; cases hch

-- non-vacuity on the example of section 3: local / other-peer rows and the `api` instance keep their indexes,
-- the changed `web1` instance is stamped with the index of its command
def exIx : Ix := [⟨⟨.svc, "p1", "n1", "api1"⟩, 3, 4⟩, ⟨⟨.svc, "p1", "n1", "web1"⟩, 5, 6⟩, ⟨⟨.svc, "", "n1", "web1"⟩, 1, 2⟩]
example : ixOthers "p1" (ixRun exC exIx 20 (handleUpdate exC "p1" "web" exSnap).log).2.1 = [⟨⟨.svc, "", "n1", "web1"⟩, 1, 2⟩] := by decide
example : ixAt ⟨.svc, "p1", "n1", "api1"⟩ (ixRun exC exIx 20 (handleUpdate exC "p1" "web" exSnap).log).2.1 = [⟨⟨.svc, "p1", "n1", "api1"⟩, 3, 4⟩] := by decide
example : ixAt ⟨.svc, "p1", "n1", "web1"⟩ (ixRun exC exIx 20 (handleUpdate exC "p1" "web" exSnap).log).2.1 = [⟨⟨.svc, "p1", "n1", "web1"⟩, 5, 21⟩] := by decide

/-! ## 5. The exporting side offers a service only to its consumers -/

/-- `ExportedServiceList.Services` for a peer: a name is offered iff it is not `consul` and either an entry
    with exactly that name lists the peer as a consumer, or a wildcard entry lists the peer and the name is
    a typical local service. -/
theorem export_iff_consumer (cfg : List ExpEntry) (typical : List String) (peer sn : String) :
    sn ∈ exportedFor cfg typical peer ↔
      sn ≠ consulName ∧ ((∃ e ∈ cfg, e.name = sn ∧ e.name ≠ "*" ∧ peer ∈ e.peers) ∨
                         (∃ e ∈ cfg, e.name = "*" ∧ peer ∈ e.peers ∧ sn ∈ typical)) := by
  simp only [exportedFor, List.mem_flatMap]
  constructor
  · rintro ⟨e, he, h⟩
    split at h
    · cases h
    · split at h
      · cases h
      · rename_i hc hp
        simp only [Decidable.not_not] at hp
        split at h
        · rename_i hw
          simp only [List.mem_singleton] at h
          subst h
          exact ⟨hc, Or.inl ⟨e, he, rfl, hw, hp⟩⟩
        · rename_i hw
          simp only [Decidable.not_not] at hw
          simp only [List.mem_filter, decide_eq_true_eq] at h
          exact ⟨h.2, Or.inr ⟨e, he, hw, hp, h.1⟩⟩
  · rintro ⟨hc, ⟨e, he, hn, hw, hp⟩ | ⟨e, he, hw, hp, ht⟩⟩
    · refine ⟨e, he, ?_⟩
      subst hn
      simp [hc, hp, hw]
    · refine ⟨e, he, ?_⟩
      have hs : ¬ ("*" : String) = consulName := by decide
      simp [hp, hw, ht, hc, hs]

/-- `ExportedServiceList.DiscoChains` for a peer, exactly: a name is offered as a discovery chain iff its compiled chain does
    not end at `consul` (redirects followed) and either a wildcard entry lists the peer and the name is a discovery chain other than
    `consul`, or the name is offered as a service and is a discovery chain, has connect-enabled instances, or sits
    behind a terminating gateway. -/
theorem export_chain_iff (cfg : List ExpEntry) (typical : List String) (chains : List Chain) (connect tgw : List String)
    (peer sn : String) :
    sn ∈ exportedChains cfg typical chains connect tgw peer ↔
      chainEnd chains (chains.length + 1) sn ≠ consulName ∧
      ((sn ≠ consulName ∧ (∃ ch ∈ chains, ch.name = sn) ∧ ∃ e ∈ cfg, e.name = "*" ∧ peer ∈ e.peers) ∨
       (sn ∈ exportedFor cfg typical peer ∧ ((∃ ch ∈ chains, ch.name = sn) ∨ sn ∈ connect ∨ sn ∈ tgw))) := by
  have hs : ¬ ("*" : String) = consulName := by decide
  simp only [exportedChains, List.mem_filter, List.mem_append, List.mem_flatMap, List.mem_map, Bool.not_eq_true',
    decide_eq_true_eq, decide_eq_false_iff_not]
  constructor
  · rintro ⟨h, hno⟩
    refine ⟨hno, ?_⟩
    rcases h with ⟨e, he, h⟩ | ⟨h1, h2⟩
    · left
      split at h
      · cases h
      · split at h
        · cases h
        · rename_i hc hp
          simp only [Decidable.not_not] at hp
          split at h
          · cases h
          · rename_i hw
            simp only [Decidable.not_not] at hw
            simp only [List.mem_filter, List.mem_map, decide_eq_true_eq] at h
            obtain ⟨⟨ch, hch, e1⟩, h3⟩ := h
            exact ⟨h3, ⟨ch, hch, e1⟩, e, he, hw, hp⟩
    · right
      refine ⟨h1, ?_⟩
      rcases h2 with ⟨ch, hch, e1⟩ | h2 | h2
      · exact Or.inl ⟨ch, hch, e1⟩
      · exact Or.inr (Or.inl h2)
      · exact Or.inr (Or.inr h2)
  · rintro ⟨hno, h⟩
    refine ⟨?_, hno⟩
    rcases h with ⟨hc, ⟨ch, hch, e1⟩, e, he, hw, hp⟩ | ⟨h1, h2⟩
    · left
      refine ⟨e, he, ?_⟩
      simp only [hw, hs, if_false, hp, not_true_eq_false, ne_eq, List.mem_filter, List.mem_map, decide_eq_true_eq]
      exact ⟨⟨ch, hch, e1⟩, hc⟩
    · right
      refine ⟨h1, ?_⟩
      rcases h2 with ⟨ch, hch, e1⟩ | h2 | h2
      · exact Or.inl ⟨ch, hch, e1⟩
      · exact Or.inr (Or.inl h2)
      · exact Or.inr (Or.inr h2)

/-- Whatever is offered to a peer — as a service or as a discovery chain — is named (exactly or by a
    wildcard) by an exported-services entry that lists this peer as a consumer, and is never `consul`. -/
theorem export_only_to_consumers (cfg : List ExpEntry) (typical : List String) (chains : List Chain)
    (connect tgw : List String) (peer sn : String)
    (h : sn ∈ exportedFor cfg typical peer ∨ sn ∈ exportedChains cfg typical chains connect tgw peer) :
    sn ≠ consulName ∧ ∃ e ∈ cfg, peer ∈ e.peers ∧ (e.name = sn ∨ e.name = "*") := by
  have key : sn ∈ exportedFor cfg typical peer → sn ≠ consulName ∧ ∃ e ∈ cfg, peer ∈ e.peers ∧ (e.name = sn ∨ e.name = "*") := by
    intro h1
    obtain ⟨hc, ⟨e, he, hn, _, hp⟩ | ⟨e, he, hw, hp, _⟩⟩ := (export_iff_consumer cfg typical peer sn).mp h1
    · exact ⟨hc, e, he, hp, Or.inl hn⟩
    · exact ⟨hc, e, he, hp, Or.inr hw⟩
  rcases h with h | h
  · exact key h
  · rcases ((export_chain_iff cfg typical chains connect tgw peer sn).mp h).2 with ⟨hc, _, e, he, hw, hp⟩ | ⟨h1, _⟩
    · exact ⟨hc, e, he, hp, Or.inr hw⟩
    · exact key h1

-- non-vacuity: exact entry, wildcard for another peer, `consul` never, an unknown peer gets nothing
example : exportedFor [⟨"web", ["p1"]⟩, ⟨"*", ["p2", "p3"]⟩, ⟨"consul", ["p1"]⟩] ["api", "consul", "web"] "p1" = ["web"] := by decide
example : exportedFor [⟨"web", ["p1"]⟩, ⟨"*", ["p2", "p3"]⟩, ⟨"consul", ["p1"]⟩] ["api", "consul", "web"] "p2" = ["api", "web"] := by decide
example : exportedFor [⟨"web", ["p1"]⟩, ⟨"*", ["p2", "p3"]⟩, ⟨"consul", ["p1"]⟩] ["api", "consul", "web"] "p9" = [] := by decide
-- chains: `web` is a chain, `api` redirects to `consul` (dropped), `db` sits behind a terminating gateway
example : exportedChains [⟨"web", ["p1"]⟩, ⟨"api", ["p1"]⟩, ⟨"db", ["p1"]⟩, ⟨"cache", ["p1"]⟩] []
    [⟨"web", "web"⟩, ⟨"api", "consul"⟩] [] ["db"] "p1" = ["web", "db"] := by decide

end CV.Peer

/-! ## 6. The exporting side sends what it exports: duplicate suppression never hides an undelivered snapshot

Model: CV/PeerExport.lean (`handleEvent` of the subscription manager with `sendPendingEvents` /
`cleanupEventVersions`; ghost fields `peer` = what the importer holds after everything that was sent, `offered` =
the last snapshot the running watch of a service produced). -/
namespace CV.PeerX

/-- After ANY sequence of exported-service-list events and service snapshots, for every service that is currently
    exported (watched), the last snapshot its watch produced since the watch was (re)started is what the importing
    side holds: nothing an exported service offers is withheld — with the clean-up of the code as it is. -/
theorem export_delivers (evs : List Ev) (n : String) (h : Nat)
    (hw : n ∈ (run .always {} evs).watched) (ho : get (run .always {} evs).offered n = some h) :
    get (run .always {} evs).peer n = some h :=
  (inv_run evs {} inv_init).off n h hw ho

/-- A snapshot is suppressed as a duplicate only if the importing side holds exactly that snapshot. -/
theorem export_suppresses_only_delivered (evs : List Ev) (n : String) (h : Nat)
    (hs : (step .always (run .always {} evs) (.data n h)).2 = false) :
    get (run .always {} evs).peer n = some h := by
  have hi := inv_run evs {} inv_init
  simp only [step] at hs
  split at hs
  · rename_i hdup; exact hi.ver n h hdup
  · cases hs

/-- export `a`; swap `a` for `b` in one write; export `a` again with unchanged instances -/
def cxSwap : List Ev := [.list ["a"], .data "a" 1, .list ["b"], .data "b" 2, .list ["a", "b"], .data "a" 1]

/-- Counterexample for the variant that cleans up only when the number of watched services shrank: the stale
    version of `a` survives the swap, the restarted watch of `a` produces the same hash, it is dropped as a
    duplicate, and the importer — which deleted `a` when the list `[b]` arrived — holds nothing for `a`. -/
theorem export_delivers_counterexample_cleanup_if_shrunk :
    "a" ∈ (run .ifShrunk {} cxSwap).watched ∧ get (run .ifShrunk {} cxSwap).offered "a" = some 1 ∧
    get (run .ifShrunk {} cxSwap).peer "a" = none := by decide

/-- … and for the variant that never cleans up (a plain un-export followed by a re-export is enough). -/
theorem export_delivers_counterexample_no_cleanup :
    "a" ∈ (run .never {} [.list ["a"], .data "a" 1, .list [], .list ["a"], .data "a" 1]).watched ∧
    get (run .never {} [.list ["a"], .data "a" 1, .list [], .list ["a"], .data "a" 1]).offered "a" = some 1 ∧
    get (run .never {} [.list ["a"], .data "a" 1, .list [], .list ["a"], .data "a" 1]).peer "a" = none := by decide

/-! Full-strength statement for the other direction (FALSE for the code as it is): after any event sequence the
    importing side holds nothing for a service that is not exported,
        `n ∉ (run .always {} evs).watched → get (run .always {} evs).peer n = none`.
    `handleEvent` does not check that a snapshot belongs to a service that is still watched. -/

/-- (`export:queued-snapshot-sent-after-unexport`) the watch of `a` has queued a snapshot; the list update that
    un-exports `a` is handled first (the importer deletes `a`, the version of `a` is forgotten); the queued snapshot
    is handled next and sent; the unchanged list is never sent again: the importer holds the un-exported `a`. -/
theorem export_unexported_absent_counterexample :
    "a" ∉ (run .always {} [.list ["a"], .data "a" 1, .list [], .data "a" 2, .list []]).watched ∧
    get (run .always {} [.list ["a"], .data "a" 1, .list [], .data "a" 2, .list []]).peer "a" = some 2 := by decide

/-- Partial: if every snapshot is handled while its service is watched (`Timely`: no snapshot of a cancelled watch is
    still queued), the importing side holds nothing for a service that is not exported — for every clean-up policy. -/
theorem export_unexported_absent_partial (pol : Policy) (evs : List Ev) (ht : Timely pol {} evs) (n : String)
    (hn : n ∉ (run pol {} evs).watched) : get (run pol {} evs).peer n = none := by
  have hi := inv2_run pol evs {} inv2_init ht
  cases hp : get (run pol {} evs).peer n with
  | none => rfl
  | some h => exact absurd (hi.held n h hp) hn

-- non-vacuity of `Timely`: the swap history is timely
example : Timely .always {} cxSwap := by simp only [cxSwap, Timely]; decide

-- non-vacuity: with the code as it is the same history delivers `a` again
example : get (run .always {} cxSwap).peer "a" = some 1 ∧ get (run .always {} cxSwap).peer "b" = some 2 := by decide

end CV.PeerX
