/-
C15 — discovery-chain compilation is closed, terminating and deterministic.
Property theorems only; the model is CV/Chain.lean, helper lemmas live in CV/Proofs/Chain*.lean.

Reading guide. `compile es cx` is the model of `discoverychain.Compile` (entries `es`, request `cx`);
a result `g : Chain` has `g.start`, `g.nodes` (key ↦ node; `alook k g.nodes` is the Go map lookup) and
`g.targets`. `Node.next` lists a node's `NextNode`s. `ensureEntry` / `deleteEntry` model
`Store.EnsureConfigEntry` / `DeleteConfigEntry` (`none` = rejected, transaction aborted).
-/
import CV.Proofs.ChainTop
import CV.Proofs.ChainCongr
import CV.Proofs.ChainTotal
import CV.Proofs.ChainEntry
import CV.Proofs.ChainRedirect
import CV.Proofs.ChainEval
set_option linter.unusedVariables false
namespace CV.Chain

/-! ## terminating -/

/-- Compilation terminates on every input: `compile` is a total function whose definition uses no
    fuel for assembly — Lean accepted the recursion of the splitter walk (measure: splitter entries
    not yet in the `splitterNodes` memo, which is recorded *before* recursing), of the redirect loop
    (measure: targets of the finite universe `allTargets (mkVals …)` not yet in `redirectHistory`),
    of the cycle detector and of the unused-node sweep. This theorem only makes that visible. -/
theorem compile_terminates (es : Entries) (cx : Ctx) :
    (∃ g, compile es cx = .ok g) ∨ (∃ e, compile es cx = .error e) := by
  cases h : compile es cx with
  | ok g => exact Or.inl ⟨g, rfl⟩
  | error e => exact Or.inr ⟨e, rfl⟩

/-- The model's guard branches are dead: `compile` never answers `Err.internal`. Those branches stand for
    the places where the Go code would dereference a nil map entry (a `NextNode` or target that does not
    exist while detecting cycles, flattening, pruning or deciding `Default`) and for the bound
    `#nodes + 1` on the number of flatten passes, which the Go loop does not have: the graph
    `assembleChain` builds has unique keys, is closed and entirely reachable from the start node
    (`assemble_closed`), and once the cycle detector passed, every flatten pass lowers the largest rank
    of a splitter below a splitter, so the bound is never hit (`flatten_bound_sufficient`). -/
theorem compile_never_internal (es : Entries) (cx : Ctx) (w : String) : compile es cx ≠ .error (.internal w) := by
  intro h
  have := compile_never_internal' es cx _ h
  simp [Err.isInternal] at this

/-- Success characterised: a well-formed request compiles as soon as assembly succeeds, the cycle detector
    passes and the protocol permits the routing features used — the later passes cannot fail. -/
theorem compile_succeeds (es : Entries) (cx : Ctx) (st : St) (start : String)
    (hreq : ¬ (cx.svc = "" ∨ cx.ns = "" ∨ cx.part = "" ∨ cx.dc = "" ∨ cx.td = ""))
    (ha : assemble es cx = .ok (st, start)) (hd : dfsNode st.nodes [] start = .ok ())
    (hadv : (!httpLike st.proto && st.adv) = false) : ∃ g, compile es cx = .ok g ∧ g.start = start :=
  compile_ok_of es cx st start hreq ha hd hadv

/-- What `assembleChain` hands to the later passes: unique node keys, the start node, every `NextNode`
    present, every node reachable from the start node. -/
theorem assembled_graph_closed (es : Entries) (cx : Ctx) (st : St) (start : String)
    (h : assemble es cx = .ok (st, start)) :
    (akeys st.nodes).Nodup ∧ start ∈ akeys st.nodes ∧
    (∀ k n, (k, n) ∈ st.nodes → ∀ m ∈ n.next, m ∈ akeys st.nodes) ∧
    (∀ k ∈ akeys st.nodes, Reach st.nodes start k) :=
  let A := assemble_closed es cx st start h
  ⟨A.nodup, A.has, A.closed, A.reach⟩

/-- The redirect loop never follows a target twice: whenever a target comes back whose ID is already
    in `redirectHistory` (and no memoised node or protocol conflict ends the walk first), the loop
    stops with the circular-redirect error instead of continuing. -/
theorem redirect_revisit_is_error (es : Entries) (cx : Ctx) (st0 : St) (t0 : Target) (st : St)
    (hist : List Target) (t : Target) (hst : LoadedIn (mkVals es cx st0 t0) st) (ht : InU (mkVals es cx st0 t0) t)
    (hm : alook t.id st.rmemo = none) (p : String)
    (hp : (if t.peer = "" then recordServiceProtocol es st.proto t.svc else .ok st.proto) = .ok p)
    (hrev : ∃ x ∈ hist, x.id = t.id) :
    resolveLoop es cx st0 t0 st hist t hst ht = .error .circularRedirect := by
  rw [resolveLoop]
  simp only [hm, hp]
  have : (hist.any fun x => x.id == t.id) = true := by
    obtain ⟨x, hx, e⟩ := hrev
    exact List.any_eq_true.mpr ⟨x, hx, by simp [e]⟩
  simp [this]

/-! ## closed -/

/-- A compiled chain is closed: the start node exists, every `NextNode` of every node exists, and every
    resolver's target and failover targets are in `Targets`. -/
theorem compile_closed (es : Entries) (cx : Ctx) (g : Chain) (h : compile es cx = .ok g) :
    g.start ∈ akeys g.nodes ∧
    (∀ k n, alook k g.nodes = some n → ∀ m ∈ n.next, m ∈ akeys g.nodes) ∧
    (∀ k d ct rt tgt fo lb, alook k g.nodes = some (.resolver d ct rt tgt fo lb) →
       tgt ∈ akeys g.targets ∧ ∀ f ∈ fo, f ∈ akeys g.targets) := by
  obtain ⟨st, nodes1, vis, s⟩ := compileWith_stages _ es cx g h
  exact ⟨s.closed_nodes.1, s.closed_nodes.2, s.closed_targets⟩

/-- Every path from the start ends at a resolver with a target: some rank strictly decreases along
    every edge of the compiled graph (so it is acyclic and every walk is finite), and — when no
    splitter entry is empty, which `ServiceSplitterConfigEntry.Validate` enforces — a node without a
    successor is a resolver (whose target exists by `compile_closed`). -/
theorem every_path_ends_in_resolver (es : Entries) (cx : Ctx) (g : Chain) (h : compile es cx = .ok g) :
    (∃ rank : String → Nat, ∀ k n, alook k g.nodes = some n → ∀ m ∈ n.next, rank m < rank k) ∧
    (SplitsNE es → ∀ k n, alook k g.nodes = some n → n.next = [] →
       ∃ d ct rt tgt fo lb, n = .resolver d ct rt tgt fo lb ∧ tgt ∈ akeys g.targets) := by
  obtain ⟨st, nodes1, vis, s⟩ := compileWith_stages _ es cx g h
  refine ⟨⟨rankOf st.nodes, s.ranked⟩, ?_⟩
  intro hes k n hn hnext
  obtain ⟨d, ct, rt, tgt, fo, lb, rfl⟩ := s.terminal hes k n hn hnext
  exact ⟨d, ct, rt, tgt, fo, lb, rfl, (s.closed_targets k d ct rt tgt fo lb hn).1⟩

/-- Adjacent splitters are flattened completely: in a compiled chain no split leads to another splitter
    (so a chain has the shape router? → splitter? → resolver). -/
theorem compile_flat (es : Entries) (cx : Ctx) (g : Chain) (h : compile es cx = .ok g)
    (k : String) (ss : List CSplit) (lb : Option String) (hk : alook k g.nodes = some (.splitter ss lb)) :
    ∀ x ∈ ss, ∀ n, alook x.next g.nodes = some n → n.isSplitter = false := by
  obtain ⟨st, nodes1, vis, s⟩ := compileWith_stages _ es cx g h
  exact s.flattened (fun k hk => (sortKeys_perm_self _).symm.subset hk) k ss lb hk

/-- Nothing unused: every node of the compiled chain is reachable from the start node. -/
theorem no_unused_nodes (es : Entries) (cx : Ctx) (g : Chain) (h : compile es cx = .ok g) :
    ∀ k ∈ akeys g.nodes, Reach g.nodes g.start k := by
  obtain ⟨st, nodes1, vis, s⟩ := compileWith_stages _ es cx g h
  exact s.reachable

/-! ## cycles are errors -/

/-- ENTRY LEVEL, splitters. `SEdge es a b`: the splitter entry of `a` has a leg to another service `b`
    without a subset and `b` has a splitter entry (exactly the legs `getSplitterNode` follows);
    `SReach` is its reflexive-transitive closure. If the compiled service has a splitter entry (and no
    router entry; routers are ignored anyway under a non-HTTP protocol override, as are splitters) and
    a reference cycle among the splitter entries is reachable from it, compilation fails: with the
    circular-reference error, unless assembling the chain already failed with another graph error
    (protocol mismatch, missing subset, …), which is then the answer. The cycle is never followed. -/
theorem cycles_are_errors (es : Entries) (cx : Ctx) (a b : String)
    (hreq : ¬ (cx.svc = "" ∨ cx.ns = "" ∨ cx.part = "" ∨ cx.dc = "" ∨ cx.td = ""))
    (hadv : disableAdv cx = false) (hrt : alook cx.svc es.routers = none)
    (hsp : (alook cx.svc es.splitters).isSome = true)
    (hr : SReach es cx.svc a) (he : SEdge es a b) (hback : SReach es b a) :
    compile es cx = .error .circularRef ∨ ∃ e, assemble es cx = .error e ∧ compile es cx = .error e :=
  entry_splitter_cycle es cx a b hreq hadv hrt hsp hr he hback

/-- GRAPH LEVEL (also covers chains that enter through a router): if the graph `assembleChain` builds
    has a cycle reachable from the start node, the answer is exactly the circular-reference error.
    Not lifted to the entries for routers: which splitter a *route* enters depends on `newTarget`'s
    memo by ID string (`structs.ChainID` is not injective), not on the entries alone. -/
theorem cycles_are_errors_partial (es : Entries) (cx : Ctx) (st : St) (start k : String)
    (hreq : ¬ (cx.svc = "" ∨ cx.ns = "" ∨ cx.part = "" ∨ cx.dc = "" ∨ cx.td = ""))
    (ha : assemble es cx = .ok (st, start)) (hr : Reach st.nodes start k) (hc : Reach1 st.nodes k k) :
    compile es cx = .error .circularRef :=
  compile_cycle_error es cx st start k hreq ha hr hc

/-- ENTRY LEVEL, redirects. `loopStep es cx st t` is one jump of `RESOLVE_AGAIN` read off the entries (the
    resolver entry of `t`'s service: its `Redirect`, else its `DefaultSubset`); `Revisit … steps` says that
    following these jumps from the start target through `steps` arrives at a target whose ID was already
    visited. Then the loop answers with the circular-redirect error instead of following the cycle … -/
theorem redirect_cycle_is_error (es : Entries) (cx : Ctx) (st0 : St) (t0 : Target) (steps : List (St × Target))
    (hist : List Target) (st : St) (t : Target) (hst : LoadedIn (mkVals es cx st0 t0) st) (ht : InU (mkVals es cx st0 t0) t)
    (h : Revisit es cx hist (st, t) steps) :
    resolveLoop es cx st0 t0 st hist t hst ht = .error .circularRedirect :=
  revisit_is_error es cx st0 t0 steps hist st t hst ht h

/-- … and so does the compilation of a service whose chain starts at its own resolver. -/
theorem redirect_cycles_are_errors (es : Entries) (cx : Ctx) (steps : List (St × Target))
    (hreq : ¬ (cx.svc = "" ∨ cx.ns = "" ∨ cx.part = "" ∨ cx.dc = "" ∨ cx.td = ""))
    (hrt : alook cx.svc es.routers = none) (hsp : alook cx.svc es.splitters = none)
    (hrev : Revisit es cx [] (newTarget cx {} { svc := cx.svc }) steps) :
    compile es cx = .error .circularRedirect :=
  compile_redirect_cycle es cx steps hreq hrt hsp hrev

/-! ## deterministic -/

/-- The result does not depend on the order in which the entries are listed: compilation reads the
    entry tables only through lookups by name, so any two listings of the same entries (distinct names
    per kind, as in a Go map or the memdb table) compile to the identical chain or the identical error.
    Holds for every flatten visiting order `order`, in particular for the real one (`compile`). -/
theorem compile_entry_order_independent (es es' : Entries) (cx : Ctx)
    (hr : es.routers.Perm es'.routers) (hs : es.splitters.Perm es'.splitters)
    (hv : es.resolvers.Perm es'.resolvers) (hd : es.services.Perm es'.services) (hp : es.proxy = es'.proxy)
    (nr : (akeys es.routers).Nodup) (ns : (akeys es.splitters).Nodup)
    (nv : (akeys es.resolvers).Nodup) (nd : (akeys es.services).Nodup) :
    compile es cx = compile es' cx :=
  (compileWith_congr (lookEq_outer (alook_perm hr nr) (alook_perm hs ns) (alook_perm hv nv) (alook_perm hd nd) hp) _ cx).symm

/-- … nor on the order in which the Go maps *inside* a resolver entry (`Subsets`, `Failover`) are listed:
    replacing every resolver entry by one with the same fields whose two maps are permutations
    (distinct keys) leaves the compilation result unchanged. Together with the theorem above (and
    transitivity of `=`) this covers every re-listing of the input. -/
theorem compile_inner_map_order_independent (es : Entries) (cx : Ctx) (f : String → Resolver → Resolver)
    (hf : ∀ k r, SamePerm r (f k r)) :
    compile { es with resolvers := es.resolvers.map fun kv => (kv.1, f kv.1 kv.2) } cx = compile es cx :=
  compileWith_congr (lookEq_inner es f hf) _ cx

/-- The repaired `flattenAdjacentSplitterNodes` visits node keys in `sort.Strings` order, which depends
    only on the *set* of keys, not on the order a Go map hands them out. -/
theorem flatten_visit_order_deterministic (keys keys' : List String) (h : keys.Perm keys') :
    sortKeys keys = sortKeys keys' := sortKeys_perm h

/-- nodes of the witness below: splitters a → b → c with weights 50 %, 0.5 %, 1 % (hundredths) -/
def flattenWitness : List (String × Node) :=
  [ ("splitter:a", .splitter [⟨5000, "splitter:b", "b", ""⟩, ⟨5000, "resolver:x", "", "v1"⟩] none),
    ("splitter:b", .splitter [⟨50, "splitter:c", "c", ""⟩, ⟨9950, "resolver:y", "", "v1"⟩] none),
    ("splitter:c", .splitter [⟨100, "resolver:d", "d", ""⟩, ⟨9900, "resolver:z", "", "v1"⟩] none),
    ("resolver:d", .resolver true 5 0 "d" [] none), ("resolver:x", .resolver true 5 0 "x" [] none),
    ("resolver:y", .resolver true 5 0 "y" [] none), ("resolver:z", .resolver true 5 0 "z" [] none) ]

/-- FALSE in general (kept visible): `∀ o₁ o₂ nodes, o₁ ~ o₂ → flattenLoop f o₁ nodes = flattenLoop f o₂ nodes`.
    Weights are rounded at every absorption, so the visiting order matters: top-down gives the leg to
    `d` weight 0, bottom-up 0.01 % (exact float32 arithmetic, checked by the kernel). This is the defect
    that the unrepaired code (ranging over a Go map) exhibited; it is why the order must be fixed. -/
theorem flatten_order_independent_counterexample :
    flattenLoop 8 ["splitter:a", "splitter:b", "splitter:c"] flattenWitness ≠
    flattenLoop 8 ["splitter:c", "splitter:b", "splitter:a"] flattenWitness := by decide

/-! ## writes are validated -/

/-- What the store's validation does establish: an accepted write stores exactly the proposed entry, and
    every chain the store re-checks (the entry's own name, the names of entries that reference it
    directly, or every chain for proxy-defaults) compiles against the new content. -/
theorem write_rechecks_affected (S S' : Entries) (e : Entry) (h : ensureEntry S e = some S') :
    S' = S.put e ∧ ∀ svc ∈ affected S e.kind e.name, compiles S' svc = true := by
  unfold ensureEntry at h
  simp only at h
  split at h
  · rename_i hall
    cases h
    exact ⟨rfl, fun svc hs => List.all_eq_true.mp hall svc hs⟩
  · cases h

/-- FULL STATEMENT `write_validated` — FALSE for the code as it is (kept visible; defect recorded in
    known_findings.txt, signature `store:accepted-write-breaks-indirect-referrer:proto-mismatch`):

      `∀ S e S', (∀ svc, compiles S svc = true) → ensureEntry S e = some S' → ∀ svc, compiles S' svc = true`

    — "a config entry write that would make ANY affected chain uncompilable is rejected". The store
    re-checks only the entry's own chain and its *direct* referrers, and a splitter records no protocol
    of its own: with proxy-defaults http, router c → b, splitter b → d, changing service-defaults d from
    http to grpc is accepted (chains d and b compile, as grpc) although chain c (http router → … → grpc
    d) now fails with "inconsistent protocols". -/
def indirectWitness : Entries :=
  { routers := [("c", [⟨"/x", { svc := "b" }⟩])]
    splitters := [("b", [⟨10000, "d", ""⟩])]
    services := [("d", { proto := "http" })]
    proxy := some { proto := "http" } }

/-- Kernel-checked core of the counterexample: the write to service-defaults `d` changes what chain `c`
    is compiled from (its collected service-defaults differ), yet `c` is not among the re-checked chains. -/
theorem write_validated_counterexample :
    "c" ∉ affected indirectWitness Kind.service "d" ∧
    (gather (indirectWitness.put (.service "d" { proto := "grpc" })) "c").services ≠ (gather indirectWitness "c").services := by
  refine ⟨by decide, ?_⟩
  simp [gather, indirectWitness, Entries.put, aset, closeOver, alook, routerRelated, splitterRelated, resolverRelated, dflt]

-- The behavioural half as an executable test of the model (`compile` is defined by well-founded
-- recursion over a measure the kernel cannot evaluate, so this is a `#guard`, not a theorem); the same
-- write sequence is replayed against the real state store by the harness on every run.
#guard compiles indirectWitness "b" && compiles indirectWitness "c" && compiles indirectWitness "d"
#guard (match ensureEntry indirectWitness (.service "d" { proto := "grpc" }) with
  | some S' => compiles S' "b" && compiles S' "d" && !compiles S' "c"
  | none => false)

/-- second manifestation of the same defect (signature `…indirect-referrer:no-subset`): router b → c/v1,
    resolver c fails subset v1 over to a/v2; deleting resolver a (which defined v2) re-checks chains a
    and c only — c is compiled for its unnamed subset, where the v1 failover is never evaluated — and is
    accepted; chain b then names a missing subset. -/
def subsetWitness : Entries :=
  { routers := [("b", [⟨"/x", { svc := "c", subset := "v1" }⟩])]
    resolvers := [("a", { subsets := [("v2", 0)] }),
                  ("c", { subsets := [("v1", 0)], failover := [("v1", { svc := "a", subset := "v2" })] })]
    proxy := some { proto := "http" } }

#guard compiles subsetWitness "a" && compiles subsetWitness "b" && compiles subsetWitness "c"
#guard (match deleteEntry subsetWitness .resolver "a" with
  | some S' => compiles S' "a" && compiles S' "c" && !compiles S' "b"
  | none => false)

/-- `write_validated_partial`: the full statement holds under the explicit hypothesis that every chain
    whose inputs the write changes is within the re-checked set (own chain + direct referrers). -/
theorem write_validated_partial (S S' : Entries) (e : Entry) (h : ensureEntry S e = some S')
    (hcov : ∀ svc, gather S' svc ≠ gather S svc → svc ∈ affected S e.kind e.name)
    (hall : ∀ svc, compiles S svc = true) : ∀ svc, compiles S' svc = true := by
  intro svc
  by_cases hg : gather S' svc = gather S svc
  · have := hall svc
    unfold compiles at this ⊢
    rw [hg]; exact this
  · exact (write_rechecks_affected S S' e h).2 svc (hcov svc hg)

/-- the same for deletions -/
theorem delete_validated (S S' : Entries) (k : Kind) (n : String) (h : deleteEntry S k n = some S')
    (hex : S.has k n = true) :
    S' = S.del k n ∧ ∀ svc ∈ affected S k n, compiles S' svc = true := by
  unfold deleteEntry at h
  simp only [hex, Bool.not_true, Bool.false_eq_true, if_false] at h
  split at h
  · rename_i hall
    cases h
    exact ⟨rfl, fun svc hs => List.all_eq_true.mp hall svc hs⟩
  · cases h

/-- what the store holds after an attempted write / delete -/
def afterWrite (S : Entries) (e : Entry) : Entries := (ensureEntry S e).getD S
def afterDelete (S : Entries) (k : Kind) (n : String) : Entries := (deleteEntry S k n).getD S

/-- A rejected write (or delete) leaves the stored entries unchanged; it is rejected exactly when one
    of the re-checked chains would not compile. -/
theorem rejected_write_unchanged (S : Entries) (e : Entry) :
    (ensureEntry S e = none → afterWrite S e = S) ∧
    (ensureEntry S e = none ↔ ∃ svc ∈ affected S e.kind e.name, compiles (S.put e) svc = false) := by
  constructor
  · intro h; simp [afterWrite, h]
  · unfold ensureEntry
    simp only
    split
    · rename_i hall
      simp only [reduceCtorEq, false_iff, not_exists, not_and, Bool.not_eq_false]
      exact fun svc hs => List.all_eq_true.mp hall svc hs
    · rename_i hall
      simp only [true_iff]
      have hf : (affected S e.kind e.name).all (compiles (S.put e)) = false := by
        cases hb : (affected S e.kind e.name).all (compiles (S.put e)) with
        | true => exact absurd hb hall
        | false => rfl
      obtain ⟨svc, hs, hc⟩ := List.all_eq_false.mp hf
      exact ⟨svc, hs, by simpa using hc⟩

theorem rejected_delete_unchanged (S : Entries) (k : Kind) (n : String) (h : deleteEntry S k n = none) :
    afterDelete S k n = S := by simp [afterDelete, h]

/-! ## non-vacuity -/

/-! Kernel-checked witnesses (no `#guard`): `compile` cannot be evaluated by the kernel (well-founded
    recursion over a measure of astronomical size), so these go through unfolding lemmas with variable
    arguments (CV/Proofs/ChainEval.lean) and decidable side conditions on the plain helper functions. -/

def wCtx : Ctx := { svc := "a" }
def wT : Target := ⟨"a", "", "default", "default", "dc1", ""⟩
def wTb : Target := ⟨"b", "", "default", "default", "dc1", ""⟩
def wSt : St := { loaded := [("a.default.default.dc1", { t := wT })] }
def wSt1 : St := { wSt with proto := "tcp" }

theorem wNewTarget : newTarget wCtx {} { svc := wCtx.svc } = (wSt, wT) := by decide

/-- a successful compilation exists: the hypotheses of `compile_closed`, `every_path_ends_in_resolver`,
    `compile_flat`, `no_unused_nodes` are satisfiable (no entries at all: the default chain of `a`) -/
theorem compile_ok_witness : ∃ g, compile {} wCtx = .ok g ∧ g.start = rkey wT.id := by
  have hloop : resolveLoop {} wCtx wSt wT wSt [] wT (vals_loaded _ _ _ _) (vals_t _ _ _ _) =
      .ok (wSt1, .fresh wT (getResolver {} wT.svc)) :=
    resolveLoop_stop {} wCtx wSt wT wSt [] wT _ _ "tcp" wSt1 (by decide) (by rfl) (by decide) (by decide) (by decide)
  have hfin : ∃ f : St × Node, finishResolve {} wCtx wSt1 wT (getResolver {} wT.svc) = .ok f ∧ f.1.nodes = [] ∧
      (∃ d ct rt lb, f.2 = .resolver d ct rt wT.id [] lb) ∧ f.1.adv = false := by
    rw [finishResolve]
    have h0 : (wT.subset ≠ "" && !(getResolver {} wT.svc).subsetExists wT.subset) = false := by decide
    have h1 : (decorate {} wCtx wSt1 wT (getResolver {} wT.svc)).1.external = false := by decide
    simp only [h0, h1, Bool.false_and, Bool.false_eq_true, if_false]
    exact ⟨_, rfl, rfl, ⟨_, _, _, _, rfl⟩, rfl⟩
  obtain ⟨⟨f1, f2⟩, hf, hn, ⟨d, ct, rt, lb, hnode⟩, hadv⟩ := hfin
  simp only at hn hnode hadv
  subst hnode
  have hcore := resolveCore_fresh_eq {} wCtx wSt wSt1 f1 wT wT _ _ hloop hf
  have hrn := resolverNode_nofailover {} wCtx wSt f1 wT wT _ _ _ hcore (by decide)
  have hsor := splitterOrResolver_resolver {} wCtx [] wSt wSt _ wT [] _ (splitterNode_absent {} wCtx wSt wT.svc (by decide)) hrn
  have hasm := assemble_norouter {} wCtx [] _ _ (by decide) (by rw [wNewTarget]; exact hsor)
  refine compile_ok_of {} wCtx _ _ (by decide) hasm ?_ ?_
  · apply dfs_resolver_start _ _ d ct rt wT.id [] lb
    simp only [hn, List.nil_append, alook, Node.withFailover, if_true]
  · simp only [hadv, Bool.and_false]

/-- resolvers `a` and `b` redirecting to each other -/
def wRedirect : Entries :=
  { resolvers := [("a", { redirect := some { svc := "b" } }), ("b", { redirect := some { svc := "a" } })] }
def wSt2 : St :=
  { loaded := [("a.default.default.dc1", { t := wT }), ("b.default.default.dc1", { t := wTb })], proto := "tcp" }

/-- the redirect cycle a → b → a is answered with the circular-redirect error (hypotheses of
    `redirect_cycles_are_errors` are satisfiable; the conclusion is a kernel-checked compile result) -/
theorem redirect_cycle_witness : compile wRedirect wCtx = .error .circularRedirect := by
  apply redirect_cycles_are_errors wRedirect wCtx [(wSt2, wTb), (wSt2, wT)] (by decide) (by decide) (by decide)
  have e : newTarget wCtx {} { svc := wCtx.svc } = (wSt, wT) := by decide
  rw [e]
  exact ⟨by decide, by decide, ⟨by decide, by decide, ⟨⟨wT, by decide, rfl⟩, by decide, "tcp", by rfl⟩⟩⟩

/-- splitters `a` → `b` → `a`: the hypotheses of `cycles_are_errors` are satisfiable -/
def wSplitCycle : Entries := { splitters := [("a", [⟨10000, "b", ""⟩]), ("b", [⟨10000, "a", ""⟩])] }

theorem splitter_cycle_witness :
    compile wSplitCycle wCtx = .error .circularRef ∨ ∃ e, assemble wSplitCycle wCtx = .error e ∧ compile wSplitCycle wCtx = .error e :=
  cycles_are_errors wSplitCycle wCtx "a" "b" (by decide) (by decide) (by decide) (by decide) (SReach.refl _)
    ⟨[⟨10000, "b", ""⟩], ⟨10000, "b", ""⟩, by decide, by decide, by decide, by decide, by decide, by decide⟩
    (SReach.step (SReach.refl _) ⟨[⟨10000, "a", ""⟩], ⟨10000, "a", ""⟩, by decide, by decide, by decide, by decide, by decide, by decide⟩)

/-- entries of the examples: `a` splits 50/50 between `b` and its own subset `v1`; `b` redirects to `c` -/
def exEntries : Entries :=
  { splitters := [("a", [⟨5000, "b", ""⟩, ⟨5000, "", "v1"⟩])]
    resolvers := [("a", { subsets := [("v1", 0)] }), ("b", { redirect := some { svc := "c" } })]
    services := [("a", { proto := "http" }), ("b", { proto := "http" }), ("c", { proto := "http" })] }

-- executable checks (tests, not theorems): the hypotheses of the theorems above are satisfiable
#guard (match compile exEntries { svc := "a" } with
  | .ok g => g.start == "splitter:a.default.default" && g.nodes.length == 3 && g.targets.length == 2
  | .error _ => false)
#guard (match compile { exEntries with resolvers := ("c", { redirect := some { svc := "b" } }) :: exEntries.resolvers } { svc := "a" } with
  | .error .circularRedirect => true
  | _ => false)
#guard (match compile { exEntries with splitters := ("b", [⟨10000, "a", ""⟩]) :: exEntries.splitters } { svc := "a" } with
  | .error .circularRef => true
  | _ => false)
#guard (ensureEntry exEntries (.service "c" { proto := "tcp" })).isNone            -- protocol mismatch: rejected
#guard (ensureEntry exEntries (.service "c" { proto := "http", mgw := "local" })).isSome
#guard (deleteEntry exEntries .resolver "a").isNone                               -- subset v1 still referenced
#guard (affected exEntries .service "c") == ["c", "b"]

example : (akeys exEntries.resolvers).Nodup ∧ exEntries.resolvers.Perm exEntries.resolvers.reverse := by
  refine ⟨by decide, (List.reverse_perm _).symm⟩

/-- `SamePerm` is satisfiable non-trivially: reversing both maps of a resolver with two subsets / failovers -/
example : SamePerm { subsets := [("v1", 0), ("v2", 1)], failover := [("*", { svc := "b" }), ("v1", { svc := "c" })] }
    { subsets := [("v2", 1), ("v1", 0)], failover := [("v1", { svc := "c" }), ("*", { svc := "b" })] } :=
  ⟨rfl, List.Perm.swap _ _ _, by decide, rfl, List.Perm.swap _ _ _, by decide, rfl, rfl, rfl⟩

example : SplitsNE exEntries := by
  intro n ss h
  simp only [exEntries, alook] at h
  split at h
  · cases h; simp
  · cases h

/-- a cycle in an assembled graph, as `cycles_are_errors` requires it -/
example : Reach1 [("s:a", Node.splitter [⟨10000, "s:b", "", ""⟩] none), ("s:b", Node.splitter [⟨10000, "s:a", "", ""⟩] none)] "s:a" "s:a" :=
  ⟨"s:b", ⟨_, rfl, by simp [Node.next]⟩, Reach.step (Reach.refl _) ⟨_, rfl, by simp [Node.next]⟩⟩

end CV.Chain
