/-
C19 — one replication round makes a secondary datacenter equal to the primary.
Property theorems only; helper lemmas live in CV/Proofs/Repl.lean.

The round is the one the Go code performs (`CV.Repl.roundOps` / `roundFinal`): effective last
index (reset when the remote index moved backwards), the merge walk, exported-services left out,
ALL deletion batches and THEN the upsert batches, executed on a store whose rows are keyed by the
FOLDED key (lower-cased kind/name, parsed UUID) while the walk compares keys exactly.
-/
import CV.Proofs.Repl
set_option linter.unusedSectionVars false
namespace CV.Repl
variable {κ η : Type} [DecidableEq κ]

/-- What the secondary may assume about the two lists and the (effective) last index:
    both lists come out of a state store (folded keys unique; `fold` does not mix skipped /
    never-replicated keys with others), hashes are faithful (`same` ⇒ equal content;
    collision-freeness of the hash is trusted) and whatever the primary changed at or below `last`
    has already been applied locally. -/
structure RoundOK (R : Rnd κ η) (last : Nat) (l r : List (Item κ η)) : Prop where
  law   : Lawful R.cfg
  fl    : FoldUnique R l
  fr    : FoldUnique R r
  cls   : ∀ a ∈ l ++ r, ∀ b ∈ l ++ r, R.fold a.id = R.fold b.id →
            R.cfg.skip a.id = R.cfg.skip b.id ∧ R.noRepl a.id = R.noRepl b.id
  hash  : ∀ y ∈ l, ∀ x ∈ r, y.id = x.id → R.cfg.same x.hash y.hash = true → y.val = x.val
  cons  : ∀ y ∈ l, ∀ x ∈ r, y.id = x.id → x.mod ≤ last → y.val = x.val

/-- After the round as coded (deletions, then upserts, on the fold-keyed store), every replicated
    key holds exactly the primary's content — present iff present remotely, under the primary's
    exact spelling, with the remote value. For all lists, in any input order, including renames
    that only change the letter case (the deleted and the upserted key then fold onto one row). -/
theorem round_correct (R : Rnd κ η) (last ridx : Nat) (l r : List (Item κ η))
    (h : RoundOK R (effLast last ridx) l r) (k : κ) (hk : R.cfg.skip k = false) (hn : R.noRepl k = false) :
    valOf (roundFinal R last ridx l r) k = valOf r k := by
  rw [roundFinal_afterWrites]
  have hP := roundUps_pairwise R h.law last ridx l r h.fl h.fr
  have hD := mem_roundDels R h.law last ridx l r h.fl h.fr
  have hU := mem_roundUps R last ridx l r
  have hu := fun k => mem_ups R.cfg h.law (effLast last ridx) _ _ (sortBy_sorted R.cfg h.law l h.fl.unique)
    (sortBy_sorted R.cfg h.law r h.fr.unique) k
  simp only [mem_sortBy] at hu
  by_cases hx : ∃ x ∈ r, x.id = k
  · obtain ⟨x, hxr, hxk⟩ := hx
    have hkx : R.cfg.skip x.id = false := by rw [hxk]; exact hk
    have e2 : valOf r k = some x.val := by
      rw [← hxk]; exact valOf_mem R.cfg r h.fr.unique x hxr hkx
    by_cases hxu : x ∈ roundUps R last ridx l r
    · rw [e2, ← hxk]; exact valOf_afterWrites_ups _ _ _ _ hP x hxu
    · have hku : k ∉ (diff R.cfg (effLast last ridx) (sortBy R.cfg.lt l) (sortBy R.cfg.lt r)).2 :=
        fun hku => hxu ((hU x).mpr ⟨hxr, by rw [hxk]; exact hn, by rw [hxk]; exact hku⟩)
      have hl : ∃ y ∈ l, y.id = k := by
        apply Classical.byContradiction; intro hl
        exact hku ((hu k).mpr ⟨hk, x, hxr, hxk, Or.inl hl⟩)
      obtain ⟨y, hyl, hyk⟩ := hl
      have hky : R.cfg.skip y.id = false := by rw [hyk]; exact hk
      have hkept : valOf (afterWrites R.fold l (roundDels R last ridx l r) (roundUps R last ridx l r)) k
          = valOf l k := by
        apply valOf_afterWrites_kept _ _ _ _ hP
        · intro k' hk' e
          obtain ⟨_, _, ⟨y', hy'l, hy'k⟩, hnr⟩ := (hD k').mp hk'
          have : y = y' := h.fl.inj y hyl y' hy'l (by rw [hyk, hy'k]; exact e) hky
          exact hnr ⟨x, hxr, by rw [hxk, ← hyk, this, hy'k]⟩
        · intro u' hu' e
          have hu'r := ((hU u').mp hu').1
          have : x = u' := h.fr.inj x hxr u' hu'r (by rw [hxk]; exact e) hkx
          exact hxu (this ▸ hu')
      rw [hkept, e2, ← hyk, valOf_mem R.cfg l h.fl.unique y hyl hky]
      congr 1
      by_cases hm : x.mod ≤ effLast last ridx
      · exact h.cons y hyl x hxr (by rw [hyk, hxk]) hm
      · apply h.hash y hyl x hxr (by rw [hyk, hxk])
        cases hs : R.cfg.same x.hash y.hash with
        | true => rfl
        | false => exact absurd ((hu k).mpr ⟨hk, x, hxr, hxk, Or.inr ⟨y, hyl, hyk, by omega, hs⟩⟩) hku
  · rw [valOf_absent r k hx]
    have hnu : ¬ ∃ u ∈ roundUps R last ridx l r, u.id = k := by
      rintro ⟨u, hu', e⟩; exact hx ⟨u, ((hU u).mp hu').1, e⟩
    by_cases hl : ∃ y ∈ l, y.id = k
    · exact valOf_afterWrites_gone _ _ _ _ hP k hnu (Or.inl ⟨k, (hD k).mpr ⟨hk, hn, hl, hx⟩, rfl⟩)
    · by_cases hg : (∃ k' ∈ roundDels R last ridx l r, R.fold k = R.fold k') ∨
          ∃ u ∈ roundUps R last ridx l r, R.fold k = R.fold u.id
      · exact valOf_afterWrites_gone _ _ _ _ hP k hnu hg
      · rw [valOf_afterWrites_kept _ _ _ _ hP k (fun k' hk' e => hg (Or.inl ⟨k', hk', e⟩))
          (fun u hu' e => hg (Or.inr ⟨u, hu', e⟩))]
        exact valOf_absent l k hl

/-- Local-only objects — skipped keys (empty IDs / unmigrated tokens) and never-replicated keys
    (exported-services entries) — survive the round untouched, and no such remote object is ever
    written locally. -/
theorem local_only_untouched (R : Rnd κ η) (last ridx : Nat) (l r : List (Item κ η))
    (h : RoundOK R (effLast last ridx) l r) (z : Item κ η)
    (hz : R.cfg.skip z.id = true ∨ R.noRepl z.id = true) :
    z ∈ roundFinal R last ridx l r ↔ z ∈ l := by
  rw [roundFinal_afterWrites]
  have hP := roundUps_pairwise R h.law last ridx l r h.fl h.fr
  have hD := mem_roundDels R h.law last ridx l r h.fl h.fr
  have hU := mem_roundUps R last ridx l r
  have hu := fun k => mem_ups R.cfg h.law (effLast last ridx) _ _ (sortBy_sorted R.cfg h.law l h.fl.unique)
    (sortBy_sorted R.cfg h.law r h.fr.unique) k
  simp only [mem_sortBy] at hu
  rw [mem_afterWrites _ _ _ _ hP]
  -- nothing that is upserted is skipped or never-replicated
  have hcl : ∀ u ∈ roundUps R last ridx l r, u ∈ r ∧ R.cfg.skip u.id = false ∧ R.noRepl u.id = false := by
    intro u hu'
    obtain ⟨h1, h2, h3⟩ := (hU u).mp hu'
    exact ⟨h1, ((hu u.id).mp h3).1, h2⟩
  constructor
  · rintro (⟨hzl, _, _⟩ | hzu)
    · exact hzl
    · obtain ⟨_, h2, h3⟩ := hcl z hzu
      rcases hz with hz | hz
      · rw [hz] at h2; cases h2
      · rw [hz] at h3; cases h3
  · intro hzl
    left
    refine ⟨hzl, ?_, ?_⟩
    · intro k hk e
      obtain ⟨hs, hnr, ⟨y, hyl, hyk⟩, _⟩ := (hD k).mp hk
      have := h.cls z (List.mem_append_left _ hzl) y (List.mem_append_left _ hyl) (by rw [hyk]; exact e)
      rw [hyk, hs, hnr] at this
      rcases hz with hz | hz
      · rw [hz] at this; cases this.1
      · rw [hz] at this; cases this.2
    · intro u hu' e
      obtain ⟨hur, hs, hnr⟩ := hcl u hu'
      have := h.cls z (List.mem_append_left _ hzl) u (List.mem_append_right _ hur) e
      rw [hs, hnr] at this
      rcases hz with hz | hz
      · rw [hz] at this; cases this.1
      · rw [hz] at this; cases this.2

/-- Deletions and upserts of the walk are disjoint, deletions name local objects only and upserts
    remote ones. -/
theorem diff_disjoint (R : Rnd κ η) (last : Nat) (l r : List (Item κ η)) (h : RoundOK R last l r) (k : κ) :
    let du := diff R.cfg last (sortBy R.cfg.lt l) (sortBy R.cfg.lt r)
    (k ∈ du.1 → k ∉ du.2 ∧ ∃ y ∈ l, y.id = k) ∧ (k ∈ du.2 → ∃ x ∈ r, x.id = k) := by
  have hsl := sortBy_sorted R.cfg h.law l h.fl.unique
  have hsr := sortBy_sorted R.cfg h.law r h.fr.unique
  have hd := mem_dels R.cfg h.law last _ _ hsl hsr k
  have hu := mem_ups R.cfg h.law last _ _ hsl hsr k
  simp only [mem_sortBy] at hd hu
  grind

/-- A secondary whose replicated part already equals the primary's (same keys, agreeing hashes)
    produces no Raft apply at all, and its store is unchanged. -/
theorem no_writes_when_equal (R : Rnd κ η) (last ridx : Nat) (l r : List (Item κ η))
    (h : RoundOK R (effLast last ridx) l r)
    (hlr : ∀ y ∈ l, R.cfg.skip y.id = false → R.noRepl y.id = false →
             ∃ x ∈ r, x.id = y.id ∧ R.cfg.same x.hash y.hash = true)
    (hrl : ∀ x ∈ r, R.cfg.skip x.id = false → R.noRepl x.id = false → ∃ y ∈ l, y.id = x.id) :
    roundOps R last ridx l r = [] ∧ roundFinal R last ridx l r = l := by
  have hD := mem_roundDels R h.law last ridx l r h.fl h.fr
  have hU := mem_roundUps R last ridx l r
  have hu := fun k => mem_ups R.cfg h.law (effLast last ridx) _ _ (sortBy_sorted R.cfg h.law l h.fl.unique)
    (sortBy_sorted R.cfg h.law r h.fr.unique) k
  simp only [mem_sortBy] at hu
  have hd0 : roundDels R last ridx l r = [] := by
    apply List.eq_nil_iff_forall_not_mem.mpr; intro k hk
    obtain ⟨hs, hnr, ⟨y, hyl, hyk⟩, hno⟩ := (hD k).mp hk
    obtain ⟨x, hxr, hxy, _⟩ := hlr y hyl (by rw [hyk]; exact hs) (by rw [hyk]; exact hnr)
    exact hno ⟨x, hxr, by rw [hxy, hyk]⟩
  have hu0 : roundUps R last ridx l r = [] := by
    apply List.eq_nil_iff_forall_not_mem.mpr; intro x hxu
    obtain ⟨hxr, hnr, hmem⟩ := (hU x).mp hxu
    obtain ⟨hs, x', hx', hx'k, hcase⟩ := (hu x.id).mp hmem
    have hxx : x' = x := h.fr.inj x' hx' x hxr (by rw [hx'k]) (by rw [hx'k]; exact hs)
    subst hxx
    rcases hcase with hno | ⟨y, hy, hyk, _, hsame⟩
    · obtain ⟨y, hy, hyx⟩ := hrl x' hxr hs hnr
      exact hno ⟨y, hy, hyx⟩
    · obtain ⟨x'', hx'', hx''y, hs'⟩ := hlr y hy (by rw [hyk]; exact hs) (by rw [hyk]; exact hnr)
      have : x'' = x' := h.fr.inj x'' hx'' x' hxr (by rw [hx''y, hyk]) (by rw [hx''y, hyk]; exact hs)
      subst this
      rw [hs'] at hsame; cases hsame
  have hops : roundOps R last ridx l r = [] := by
    unfold roundOps; rw [hd0, hu0]; simp [batches_nil]
  refine ⟨hops, ?_⟩
  unfold roundFinal; rw [hops]; rfl

/-- The result does not depend on the order in which the two lists are handed in. -/
theorem round_input_order_irrelevant (R : Rnd κ η) (last ridx : Nat) (l l' r r' : List (Item κ η))
    (h : RoundOK R (effLast last ridx) l r) (h' : RoundOK R (effLast last ridx) l' r')
    (_hl : ∀ x, x ∈ l ↔ x ∈ l') (hr : ∀ x, x ∈ r ↔ x ∈ r') (k : κ)
    (hk : R.cfg.skip k = false) (hn : R.noRepl k = false) :
    valOf (roundFinal R last ridx l r) k = valOf (roundFinal R last ridx l' r') k := by
  rw [round_correct R last ridx l r h k hk hn, round_correct R last ridx l' r' h' k hk hn]
  by_cases hx : ∃ x ∈ r, x.id = k
  · obtain ⟨x, hx, hxk⟩ := hx
    subst hxk
    rw [valOf_mem R.cfg r h.fr.unique x hx hk, valOf_mem R.cfg r' h'.fr.unique x ((hr x).mp hx) hk]
  · rw [valOf_absent r k hx, valOf_absent r' k (by intro ⟨x, hx', e⟩; exact hx ⟨x, (hr x).mpr hx', e⟩)]

/-! ### the writes of a round: order, batching, store invariant -/

/-- The Raft applies of a round are: the deletion batches, then the upsert batches; batching
    neither drops, duplicates nor reorders an element, and no batch is empty (so the number of
    applies is the number of batches). -/
theorem round_writes_shape (R : Rnd κ η) (last ridx : Nat) (l r : List (Item κ η))
    (hdb : 0 < R.delBatch) (hub : 0 < R.upsLimit) :
    ∃ (ds : List (List κ)) (us : List (List (Item κ η))),
      roundOps R last ridx l r = ds.map Op.del ++ us.map Op.ups ∧
      ds.flatten = roundDels R last ridx l r ∧ us.flatten = roundUps R last ridx l r ∧
      (∀ b ∈ ds, b ≠ []) ∧ (∀ b ∈ us, b ≠ []) :=
  ⟨_, _, rfl, batches_flatten _ _ _, batches_flatten _ _ _,
    batchesGo_nonempty _ _ hdb [] 0 _ (fun _ => rfl), batchesGo_nonempty _ _ hub [] 0 _ (fun _ => rfl)⟩

/-- The secondary's table is again a legal store table after the round (folded keys unique). -/
theorem final_foldUnique (R : Rnd κ η) (last ridx : Nat) (l r : List (Item κ η))
    (h : RoundOK R (effLast last ridx) l r) : FoldUnique R (roundFinal R last ridx l r) := by
  rw [roundFinal_afterWrites]
  have hP := roundUps_pairwise R h.law last ridx l r h.fl h.fr
  rw [afterWrites_form _ _ _ _ hP]
  unfold FoldUnique
  apply List.pairwise_append.mpr
  refine ⟨List.Pairwise.filter _ (List.Pairwise.filter _ h.fl), ?_, ?_⟩
  · exact List.Pairwise.imp (fun hab => Or.inl hab) hP
  · intro a ha b hb
    simp only [List.mem_filter, Bool.not_eq_true', List.contains_eq_mem, List.mem_map,
      decide_eq_false_iff_not, not_exists, not_and] at ha
    left
    intro e
    exact ha.2 b hb e.symm

/-! ### around the walk: index reset, returned index, what the next round may assume -/

/-- `remoteIndex < lastRemoteIndex ⇒ lastRemoteIndex = 0`: the round then is the full-sync round. -/
theorem reset_is_full_sync (R : Rnd κ η) (last ridx : Nat) (l r : List (Item κ η)) (hb : ridx < last) :
    roundOps R last ridx l r = roundOps R 0 ridx l r ∧ roundFinal R last ridx l r = roundFinal R 0 ridx l r := by
  have e : effLast last ridx = 0 := by simp [effLast, hb]
  have e0 : effLast 0 ridx = 0 := by simp [effLast]
  unfold roundFinal roundOps roundDels roundUps
  rw [e, e0]
  exact ⟨rfl, rfl⟩

/-- … and when the remote index did not move backwards the last index is used as it is. -/
theorem no_reset (last ridx : Nat) (hb : ¬ ridx < last) : effLast last ridx = last := by
  simp [effLast, hb]

/-- After a reset (or on the very first round, or after a failed one: last = 0) no assumption on
    what was replicated before is needed: every remote ModifyIndex is positive, so the
    consistency clause is vacuous and the round is a full sync. -/
theorem round_correct_full_sync (R : Rnd κ η) (last ridx : Nat) (l r : List (Item κ η))
    (hb : ridx < last ∨ last = 0)
    (law : Lawful R.cfg) (fl : FoldUnique R l) (fr : FoldUnique R r)
    (cls : ∀ a ∈ l ++ r, ∀ b ∈ l ++ r, R.fold a.id = R.fold b.id →
            R.cfg.skip a.id = R.cfg.skip b.id ∧ R.noRepl a.id = R.noRepl b.id)
    (hash : ∀ y ∈ l, ∀ x ∈ r, y.id = x.id → R.cfg.same x.hash y.hash = true → y.val = x.val)
    (hmod : ∀ x ∈ r, 0 < x.mod)
    (k : κ) (hk : R.cfg.skip k = false) (hn : R.noRepl k = false) :
    valOf (roundFinal R last ridx l r) k = valOf r k := by
  have e : effLast last ridx = 0 := by
    rcases hb with hb | hb
    · simp [effLast, hb]
    · subst hb; simp [effLast]
  apply round_correct R last ridx l r _ k hk hn
  rw [e]
  exact ⟨law, fl, fr, cls, hash, fun y _ x hx _ hm => absurd hm (by have := hmod x hx; omega)⟩

/-- The round returns the remote index it fetched; the replicator loop hands it to the next
    round, or 0 after a failed round. -/
theorem round_returns_remote_index (last ridx : Nat) :
    roundRet last ridx = ridx ∧ nextLast false (roundRet last ridx) = ridx ∧
      ∀ ret, nextLast true ret = 0 := ⟨rfl, rfl, fun _ => rfl⟩

/-- The consistency assumption is re-established by the round itself: if every object of the next
    remote list `r'` whose ModifyIndex is at most the returned index was already in the list `r`
    this round synced to, the secondary's new state agrees with it — which is `RoundOK.cons` for
    the next round at `last = ` the returned index. -/
theorem round_reestablishes_consistency (R : Rnd κ η) (last ridx : Nat) (l r r' : List (Item κ η))
    (h : RoundOK R (effLast last ridx) l r)
    (hr' : ∀ x' ∈ r', x'.mod ≤ roundRet last ridx → x' ∈ r) :
    ∀ y ∈ roundFinal R last ridx l r, ∀ x' ∈ r', y.id = x'.id → R.cfg.skip y.id = false →
      R.noRepl y.id = false → x'.mod ≤ nextLast false (roundRet last ridx) → y.val = x'.val := by
  intro y hy x' hx' e hs hn hm
  have hxr : x' ∈ r := hr' x' hx' hm
  have hfin := final_foldUnique R last ridx l r h
  have e1 := valOf_mem R.cfg _ hfin.unique y hy hs
  have e2 := valOf_mem R.cfg r h.fr.unique x' hxr (by rw [← e]; exact hs)
  have e3 := round_correct R last ridx l r h y.id hs hn
  rw [e1, e, e2] at e3
  exact Option.some.inj e3

/-! ### stale batch reads: success still means consistent -/

/-- an object on both sides that the round does not upsert already agrees with the primary -/
theorem unchanged_objects_agree (R : Rnd κ η) (last ridx : Nat) (l r : List (Item κ η))
    (h : RoundOK R (effLast last ridx) l r) (y : Item κ η) (hy : y ∈ l) (x : Item κ η) (hx : x ∈ r)
    (e : y.id = x.id) (hs : R.cfg.skip x.id = false) (hn : R.noRepl x.id = false)
    (hxu : x ∉ roundUps R last ridx l r) : y.val = x.val := by
  have hu := mem_ups R.cfg h.law (effLast last ridx) _ _ (sortBy_sorted R.cfg h.law l h.fl.unique)
    (sortBy_sorted R.cfg h.law r h.fr.unique) x.id
  simp only [mem_sortBy] at hu
  have hku : x.id ∉ (diff R.cfg (effLast last ridx) (sortBy R.cfg.lt l) (sortBy R.cfg.lt r)).2 :=
    fun hku => hxu ((mem_roundUps R last ridx l r x).mpr ⟨hx, hn, hku⟩)
  by_cases hm : x.mod ≤ effLast last ridx
  · exact h.cons y hy x hx e hm
  · apply h.hash y hy x hx e
    cases hsame : R.cfg.same x.hash y.hash with
    | true => rfl
    | false => exact absurd (hu.mpr ⟨hs, x, hx, rfl, Or.inr ⟨y, hy, e, by omega, hsame⟩⟩) hku

/-- `round_reestablishes_consistency` under stale batch reads. The batch read may return, for any
    upserted object, an OLDER version (same id, lower ModifyIndex) or nothing; if the guard as coded
    (`ensureRemoteConsistent`) does not fire, every object the secondary then holds under a key
    the primary listed agrees with the listed version — which is what the next, incremental round
    (last = the returned index) relies on. `hmiss` is the shape of a lagging server: an object it
    does not return is one it has never seen (the list shows it as just created), or one the
    secondary does not hold either (then the next round upserts it whatever the index). -/
theorem stale_round_reestablishes_consistency (R : Rnd κ η) (ov : List (κ × Option (Item κ η)))
    (cre : κ → Nat) (last ridx : Nat) (l r : List (Item κ η))
    (h : RoundOK R (effLast last ridx) l r)
    (hovid : ∀ x f, fetched ov x = some f → f.id = x.id)
    (hov : ∀ x ∈ r, ∀ f, fetched ov x = some f → f = x ∨ f.mod < x.mod)
    (hovh : ∀ x ∈ r, ∀ f, fetched ov x = some f → R.cfg.same f.hash x.hash = true → f.val = x.val)
    (hmiss : ∀ x ∈ roundUps R last ridx l r, fetched ov x = none →
               x.mod = cre x.id ∨ ¬ ∃ y ∈ l, y.id = x.id)
    (hnd : staleDetected R true ov cre last ridx l r = false) :
    roundRetStale R true ov cre last ridx l r = some ridx ∧
    ∀ y ∈ roundFinalStale R true ov cre last ridx l r, ∀ x ∈ r, y.id = x.id →
      R.cfg.skip y.id = false → R.noRepl y.id = false → y.val = x.val := by
  refine ⟨by simp [roundRetStale, hnd], ?_⟩
  rw [roundFinalStale_eq R true ov cre last ridx l r hnd]
  have hP := roundUps_pairwise R h.law last ridx l r h.fl h.fr
  have hU := mem_roundUps R last ridx l r
  have hP' : (roundUpsStale R ov last ridx l r).Pairwise fun a b => R.fold a.id ≠ R.fold b.id := by
    unfold roundUpsStale
    refine List.Pairwise.filterMap _ ?_ hP
    intro a a' hne b hb b' hb'
    rw [hovid a b hb, hovid a' b' hb']
    exact hne
  have hg : ∀ x ∈ roundUps R last ridx l r, guardBad R.cfg ov cre x = false := by
    have := hnd
    simp only [staleDetected, Bool.true_and, List.any_eq_false] at this
    intro x hx
    cases hgb : guardBad R.cfg ov cre x with
    | false => rfl
    | true => exact absurd hgb (this x hx)
  intro y hy x hx e hs hn
  have hsx : R.cfg.skip x.id = false := by rw [← e]; exact hs
  have hnx : R.noRepl x.id = false := by rw [← e]; exact hn
  rcases (mem_afterWrites _ _ _ _ hP' y).mp hy with ⟨hyl, _, hnu⟩ | hyu
  · by_cases hxu : x ∈ roundUps R last ridx l r
    · cases hf : fetched ov x with
      | none =>
        rcases hmiss x hxu hf with hc | hno
        · have := hg x hxu
          simp [guardBad, hf, hc] at this
        · exact absurd ⟨y, hyl, e⟩ hno
      | some f =>
        have hfu : f ∈ roundUpsStale R ov last ridx l r := by
          unfold roundUpsStale; exact List.mem_filterMap.mpr ⟨x, hxu, hf⟩
        exact absurd (by rw [e, hovid x f hf]) (hnu f hfu)
    · exact unchanged_objects_agree R last ridx l r h y hyl x hx e hsx hnx hxu
  · unfold roundUpsStale at hyu
    obtain ⟨x0, hx0, hf⟩ := List.mem_filterMap.mp hyu
    have hx0r := ((hU x0).mp hx0).1
    have hid : y.id = x0.id := hovid x0 y hf
    have hxx : x0 = x := h.fr.inj x0 hx0r x hx (by rw [← hid, e]) (by rw [← hid]; exact hs)
    subst hxx
    rcases hov x0 hx0r y hf with heq | hlt
    · rw [heq]
    · apply hovh x0 hx0r y hf
      have := hg x0 hx0
      simp only [guardBad, hf, Bool.and_eq_false_imp, Bool.not_eq_true', decide_eq_false_iff_not] at this
      cases hsame : R.cfg.same y.hash x0.hash with
      | true => rfl
      | false => exact absurd hlt (this (by simp [hsame]))

/-! ### the two instances used by consul -/

theorem aclCfg_lawful : Lawful aclCfg := by
  refine ⟨?_, ?_, ?_, ?_⟩ <;> simp only [aclCfg, bytesLt, decide_eq_true_eq, decide_eq_false_iff_not]
  · intro a; exact List.lt_irrefl a
  · intro a b d h1 h2; exact List.lt_trans h1 h2
  · intro a b h1 h2; exact List.le_antisymm (List.not_lt.mp h2) (List.not_lt.mp h1)
  · intro a b ha hb
    subst ha
    cases b with
    | nil => simp at hb
    | cons x xs => exact List.nil_lt_cons x xs

theorem cfgCfg_lawful : Lawful cfgCfg := by
  have T : ∀ (x y z : List Nat), x < y → y < z → x < z := fun _ _ _ => List.lt_trans
  have I : ∀ x : List Nat, ¬ x < x := List.lt_irrefl
  have A : ∀ x y : List Nat, ¬ x < y → ¬ y < x → x = y :=
    fun x y h1 h2 => List.le_antisymm (List.not_lt.mp h2) (List.not_lt.mp h1)
  refine ⟨?_, ?_, ?_, ?_⟩ <;> simp only [cfgCfg, ckeyLt]
  · intro a; grind
  · intro a b d h1 h2; grind
  · intro a b h1 h2
    have e1 : a.1 = b.1 := by grind
    have e2 : a.2 = b.2 := by grind
    exact Prod.ext e1 e2
  · intro a b ha; simp at ha

/-- For ACL objects the folding never mixes the skipped (empty) ID with another one and nothing is
    exempt from replication: `RoundOK.cls` holds for every pair of lists. -/
theorem aclRnd_cls (a b : Bytes) (e : aclRnd.fold a = aclRnd.fold b) :
    aclRnd.cfg.skip a = aclRnd.cfg.skip b ∧ aclRnd.noRepl a = aclRnd.noRepl b := by
  refine ⟨?_, rfl⟩
  simp only [aclRnd, aclCfg, lowerBytes] at *
  cases a <;> cases b <;> simp_all

theorem aclRnd_batches_positive : 0 < aclRnd.delBatch ∧ 0 < aclRnd.upsLimit ∧
    0 < cfgRnd.delBatch ∧ 0 < cfgRnd.upsLimit := by decide

/-- When the guard fires (policies and tokens alike) the round fails BEFORE any write: no Raft
    apply, the secondary's table unchanged, no index returned (the replicator retries from 0). -/
theorem stale_round_fails_without_writes (R : Rnd κ η) (ov : List (κ × Option (Item κ η)))
    (cre : κ → Nat) (last ridx : Nat) (l r : List (Item κ η))
    (hd : staleDetected R true ov cre last ridx l r = true) :
    roundOpsStale R true ov cre last ridx l r = [] ∧ roundFinalStale R true ov cre last ridx l r = l ∧
      roundRetStale R true ov cre last ridx l r = none :=
  roundFinalStale_detected R true ov cre last ridx l r hd

/-- With fresh batch reads (no override) the guarded round is the plain round. -/
theorem stale_round_fresh_is_round (R : Rnd κ η) (cre : κ → Nat) (last ridx : Nat) (l r : List (Item κ η))
    :
    staleDetected R true [] cre last ridx l r = false ∧
    roundOpsStale R true [] cre last ridx l r = roundOps R last ridx l r := by
  have hf : ∀ x : Item κ η, fetched ([] : List (κ × Option (Item κ η))) x = some x := fun _ => rfl
  have hnd : staleDetected R true [] cre last ridx l r = false := by
    simp only [staleDetected, Bool.true_and, List.any_eq_false]
    intro x _
    simp [guardBad, hf]
  refine ⟨hnd, ?_⟩
  have hu : roundUpsStale R [] last ridx l r = roundUps R last ridx l r := by
    unfold roundUpsStale
    have : (fetched ([] : List (κ × Option (Item κ η)))) = some := funext hf
    rw [this, List.filterMap_some]
  unfold roundOpsStale roundOps
  simp only [hnd, Bool.false_eq_true, if_false, hu]

/-! ### why the stale-read guard matters -/

/-- The guard is what makes that true. Secondary holds policy [1] with content 1; the primary
    modified it at index 8 (content 2, created at 3); the batch read is answered by a lagging
    server with the version of index 5 (content 1). As coded the round fails (and is retried).
    A round that skips the guard — on a full sync (`last = 0`; seeded change C19-3), or altogether
    as the token replicator did before its `ensureRemoteConsistent` was given the policy test —
    reports success with index 8 while the secondary keeps content 1: the next round (last = 8)
    skips the object, the divergence is permanent. -/
def exStaleL : List (Item Bytes Bytes) := [⟨[1], 0, [5], 1, 1⟩]
def exStaleR : List (Item Bytes Bytes) := [⟨[1], 8, [6], 2, 1⟩]
def exStaleOv : List (Bytes × Option (Item Bytes Bytes)) := [([1], some ⟨[1], 5, [5], 1, 1⟩)]

theorem stale_guard_skipped_counterexample :
    RoundOK aclRnd (effLast 0 8) exStaleL exStaleR ∧
    roundRetStale aclRnd true exStaleOv (fun _ => 3) 0 8 exStaleL exStaleR = none ∧
    roundRetStale aclRnd (decide (0 < effLast 0 8)) exStaleOv (fun _ => 3) 0 8 exStaleL exStaleR = some 8 ∧
    valOf (roundFinalStale aclRnd (decide (0 < effLast 0 8)) exStaleOv (fun _ => 3) 0 8 exStaleL exStaleR) [1] = some 1 ∧
    valOf exStaleR [1] = some 2 := by
  have hu : roundUps aclRnd 0 8 exStaleL exStaleR = exStaleR := by
    simp [roundUps, exStaleL, exStaleR, sortBy, insertBy, diff, effLast, aclRnd, aclCfg]
  have hd : roundDels aclRnd 0 8 exStaleL exStaleR = [] := by
    simp [roundDels, exStaleL, exStaleR, sortBy, insertBy, diff, effLast, aclRnd, aclCfg]
  have h1 : staleDetected aclRnd true exStaleOv (fun _ => 3) 0 8 exStaleL exStaleR = true := by
    unfold staleDetected; rw [hu]; decide
  have h2 : staleDetected aclRnd (decide (0 < effLast 0 8)) exStaleOv (fun _ => 3) 0 8 exStaleL exStaleR = false := by
    unfold staleDetected; simp [effLast]
  refine ⟨⟨aclCfg_lawful, by unfold FoldUnique; decide, by unfold FoldUnique; decide,
    fun a _ b _ e => aclRnd_cls a.id b.id e, by decide, by decide⟩, ?_, ?_, ?_, by decide⟩
  · simp [roundRetStale, h1]
  · simp [roundRetStale, h2]
  · rw [roundFinalStale_eq _ _ _ _ _ _ _ _ h2]
    unfold roundUpsStale
    rw [hd, hu]
    decide

/-! ### why the order of the writes matters: a rename that only changes the letter case

    secondary: service-defaults "web" (content 7);  primary: service-defaults "Web" (content 7,
    written at index 5). The walk compares names exactly: delete "web", upsert "Web". The store
    keys both by "web". Deletions first (the code): the secondary ends with "Web". Upserts first
    (the seeded change C19-2): the upsert replaces the row, the deletion then removes it. -/

def sd : Bytes := [115, 100]                                         -- a kind
def exWeb : List (Item CKey Nat) := [⟨(sd, [119, 101, 98]), 0, 11, 7, 1⟩]    -- "web"
def exWEB : List (Item CKey Nat) := [⟨(sd, [87, 101, 98]), 5, 12, 7, 1⟩]     -- "Web"

theorem ex_rename_ok : RoundOK cfgRnd (effLast 0 5) exWeb exWEB :=
  ⟨cfgCfg_lawful, by unfold FoldUnique; decide, by unfold FoldUnique; decide, by decide, by decide, by decide⟩

/-- the round as coded converges on the rename … -/
theorem rename_by_case_converges :
    valOf (roundFinal cfgRnd 0 5 exWeb exWEB) (sd, [87, 101, 98]) = some 7 ∧
    valOf (roundFinal cfgRnd 0 5 exWeb exWEB) (sd, [119, 101, 98]) = none := by
  constructor
  · rw [round_correct cfgRnd 0 5 exWeb exWEB ex_rename_ok _ (by decide) (by decide)]; decide
  · rw [round_correct cfgRnd 0 5 exWeb exWEB ex_rename_ok _ (by decide) (by decide)]; decide

/-- … the opposite order does not: the statement of `round_correct` is FALSE for upserts-first. -/
theorem swapped_order_counterexample :
    RoundOK cfgRnd (effLast 0 5) exWeb exWEB ∧
    valOf (roundFinalSwapped cfgRnd 0 5 exWeb exWEB) (sd, [87, 101, 98]) = none ∧
    valOf exWEB (sd, [87, 101, 98]) = some 7 := by
  refine ⟨ex_rename_ok, ?_, by decide⟩
  rw [roundFinalSwapped_eq]
  have hd : roundDels cfgRnd 0 5 exWeb exWEB = [(sd, [119, 101, 98])] := by
    simp [roundDels, exWeb, exWEB, sortBy, insertBy, diff, effLast, cfgRnd, cfgCfg, ckeyLt, sd, exportedServices]
  have hu : roundUps cfgRnd 0 5 exWeb exWEB = exWEB := by
    simp [roundUps, exWeb, exWEB, sortBy, insertBy, diff, effLast, cfgRnd, cfgCfg, ckeyLt, sd, exportedServices]
  rw [hd, hu]
  decide

/-! ### where "every apply succeeds" fails in the real store: the unique NAME index of policies/roles

    Not covered by `round_correct` (which is about ID-keyed content): the upserts of a round are
    sent as one batch in ID order and each is checked against the not-yet-updated rows. Two
    ordinary renames in the primary between two rounds (Y: beta→gamma, then X: alpha→beta, X < Y)
    make the batch [X, Y] fail — although the same batch in the order [Y, X] would succeed — and a
    full name swap fails in either order. The round returns the error and so does every later
    round. Reproduced on the real servers by the harness (`observed:…name-held-by-row-updated-in-same-batch`). -/

def nX : Bytes := [1]
def nY : Bytes := [2]
def nAlpha : Bytes := [97]
def nBeta : Bytes := [98]
def nGamma : Bytes := [99]

theorem name_chain_counterexample :
    nBatch [⟨nX, nAlpha⟩, ⟨nY, nBeta⟩] [⟨nX, nBeta⟩, ⟨nY, nGamma⟩] = none ∧
    nBatch [⟨nX, nAlpha⟩, ⟨nY, nBeta⟩] [⟨nY, nGamma⟩, ⟨nX, nBeta⟩] = some [⟨nY, nGamma⟩, ⟨nX, nBeta⟩] := by
  decide

theorem name_swap_counterexample :
    nBatch [⟨nX, nAlpha⟩, ⟨nY, nBeta⟩] [⟨nX, nBeta⟩, ⟨nY, nAlpha⟩] = none ∧
    nBatch [⟨nX, nAlpha⟩, ⟨nY, nBeta⟩] [⟨nY, nAlpha⟩, ⟨nX, nBeta⟩] = none := by
  decide

/-- a batch whose names collide with no row outside itself and with no other element is applied:
    the simplest sufficient condition (what the round model silently assumes) -/
theorem nBatch_single_ok (s : List NRow) (x : NRow)
    (h : ∀ y ∈ s, lowerBytes y.name = lowerBytes x.name → y.id = x.id) :
    nBatch s [x] = some ((s.filter fun y => lowerBytes y.id != lowerBytes x.id) ++ [x]) := by
  have : s.any (fun y => lowerBytes y.name == lowerBytes x.name && y.id != x.id) = false := by
    rw [List.any_eq_false]
    intro y hy
    by_cases e : lowerBytes y.name = lowerBytes x.name
    · simp [e, h y hy e]
    · simp [e]
  simp [nBatch, nUpsert, this]

/-! ### lower last index, caught-up secondaries, federation states -/

/-- A LOWER last index is always safe: whatever holds for `last` holds for every `last' ≤ last`
    (a server that becomes leader again resumes from its own, older `lastRemoteIndex`; a failed
    round restarts from 0). -/
theorem roundOK_mono (R : Rnd κ η) (last last' : Nat) (l r : List (Item κ η)) (h : RoundOK R last l r)
    (hle : last' ≤ last) : RoundOK R last' l r :=
  ⟨h.law, h.fl, h.fr, h.cls, h.hash, fun y hy x hx e hm => h.cons y hy x hx e (by omega)⟩

/-- `no_writes_when_equal` for walks without a usable hash (federation states: `same` is constantly
    false; config entries with a zero hash): a secondary holding exactly the primary's keys issues no
    Raft apply as soon as every shared object is at or below the last index OR has an agreeing hash. -/
theorem no_writes_when_caught_up (R : Rnd κ η) (last ridx : Nat) (l r : List (Item κ η))
    (h : RoundOK R (effLast last ridx) l r)
    (hlr : ∀ y ∈ l, R.cfg.skip y.id = false → R.noRepl y.id = false →
             ∃ x ∈ r, x.id = y.id ∧ (x.mod ≤ effLast last ridx ∨ R.cfg.same x.hash y.hash = true))
    (hrl : ∀ x ∈ r, R.cfg.skip x.id = false → R.noRepl x.id = false → ∃ y ∈ l, y.id = x.id) :
    roundOps R last ridx l r = [] ∧ roundFinal R last ridx l r = l := by
  have hD := mem_roundDels R h.law last ridx l r h.fl h.fr
  have hU := mem_roundUps R last ridx l r
  have hu := fun k => mem_ups R.cfg h.law (effLast last ridx) _ _ (sortBy_sorted R.cfg h.law l h.fl.unique)
    (sortBy_sorted R.cfg h.law r h.fr.unique) k
  simp only [mem_sortBy] at hu
  have hd0 : roundDels R last ridx l r = [] := by
    apply List.eq_nil_iff_forall_not_mem.mpr; intro k hk
    obtain ⟨hs, hnr, ⟨y, hyl, hyk⟩, hno⟩ := (hD k).mp hk
    obtain ⟨x, hxr, hxy, _⟩ := hlr y hyl (by rw [hyk]; exact hs) (by rw [hyk]; exact hnr)
    exact hno ⟨x, hxr, by rw [hxy, hyk]⟩
  have hu0 : roundUps R last ridx l r = [] := by
    apply List.eq_nil_iff_forall_not_mem.mpr; intro x hxu
    obtain ⟨hxr, hnr, hmem⟩ := (hU x).mp hxu
    obtain ⟨hs, x', hx', hx'k, hcase⟩ := (hu x.id).mp hmem
    have hxx : x' = x := h.fr.inj x' hx' x hxr (by rw [hx'k]) (by rw [hx'k]; exact hs)
    subst hxx
    rcases hcase with hno | ⟨y, hy, hyk, hlt, hsame⟩
    · obtain ⟨y, hy, hyx⟩ := hrl x' hxr hs hnr
      exact hno ⟨y, hy, hyx⟩
    · obtain ⟨x'', hx'', hx''y, hs'⟩ := hlr y hy (by rw [hyk]; exact hs) (by rw [hyk]; exact hnr)
      have : x'' = x' := h.fr.inj x'' hx'' x' hxr (by rw [hx''y, hyk]) (by rw [hx''y, hyk]; exact hs)
      subst this
      rcases hs' with hs' | hs'
      · omega
      · rw [hs'] at hsame; cases hsame
  have hops : roundOps R last ridx l r = [] := by
    unfold roundOps; rw [hd0, hu0]; simp [batches_nil]
  refine ⟨hops, ?_⟩
  unfold roundFinal; rw [hops]; rfl

/-- The round invents nothing: every row of the secondary after the round is an untouched local
    row or, whole (content AND the primary's ModifyIndex, which a federation state keeps as
    `PrimaryModifyIndex`), an object of the remote list. -/
theorem round_rows_from_inputs (R : Rnd κ η) (last ridx : Nat) (l r : List (Item κ η)) :
    ∀ y ∈ roundFinal R last ridx l r, y ∈ l ∨ y ∈ r := by
  rw [roundFinal_eq]
  apply foldl_sups_rows R.fold (fun y => y ∈ l ∨ y ∈ r)
  · intro x hx; exact Or.inr ((mem_roundUps R last ridx l r x).mp hx).1
  · exact foldl_sdel_rows R.fold _ _ l (fun y hy => Or.inl hy)

theorem fedCfg_lawful : Lawful fedCfg := by
  refine ⟨?_, ?_, ?_, ?_⟩ <;> simp only [fedCfg, bytesLt, decide_eq_true_eq, decide_eq_false_iff_not]
  · intro a; exact List.lt_irrefl a
  · intro a b d h1 h2; exact List.lt_trans h1 h2
  · intro a b h1 h2; exact List.le_antisymm (List.not_lt.mp h2) (List.not_lt.mp h1)
  · intro a b ha; simp at ha

/-- federation states: nothing skipped, nothing exempt -/
theorem fedRnd_cls (a b : Bytes) :
    fedRnd.cfg.skip a = fedRnd.cfg.skip b ∧ fedRnd.noRepl a = fedRnd.noRepl b := ⟨rfl, rfl⟩

/-- federation states have no content hash: `RoundOK.hash` is vacuous, and a full sync rewrites
    every shared object (so "no writes" needs `no_writes_when_caught_up`, not equality) -/
theorem fed_hash_vacuous (l r : List (Item Bytes Unit)) :
    ∀ y ∈ l, ∀ x ∈ r, y.id = x.id → fedRnd.cfg.same x.hash y.hash = true → y.val = x.val := by
  intro _ _ _ _ _ h; simp [fedRnd, fedCfg] at h

/-! ### rounds under faults: rejected applies, cancelled context -/

/-- Without faults the fault-aware round IS the round: same final store, the remote index returned. -/
theorem run_no_fault_is_round (X : RndX κ η) (last ridx : Nat) (l r : List (Item κ η)) :
    (roundRun X noFault last ridx l r).store = roundFinal X.toRnd last ridx l r ∧
    runRet ridx (roundRun X noFault last ridx l r) = .idx ridx := by
  have hc : (noFault : Fault κ η).cancelAt ≠ some 0 := by simp [noFault]
  unfold roundRun
  rw [if_neg hc]
  have f1 := runPhase_noFault_flags X.fold X.failFast (phaseDels X last ridx l r)
    { store := l, tried := [], nchk := 0, failed := false, exited := false } rfl rfl
  have s1 := runPhase_noFault X.fold X.failFast (phaseDels X last ridx l r)
    { store := l, tried := [], nchk := 0, failed := false, exited := false } rfl rfl
  simp only [f1.1, f1.2, Bool.false_and, Bool.or_self, Bool.false_eq_true, if_false]
  have f2 := runPhase_noFault_flags X.fold X.failFast (phaseUps X last ridx l r) _ f1.1 f1.2
  have s2 := runPhase_noFault X.fold X.failFast (phaseUps X last ridx l r) _ f1.1 f1.2
  refine ⟨?_, by simp [runRet, f2.1, f2.2]⟩
  rw [s2, s1, phaseUps_fold, phaseDels_fold, roundFinal_eq]

/-- A round only reports an index when it is COMPLETE: whatever was rejected and wherever the
    context was cancelled, if the round returns an index then it is the remote index and the store
    is exactly the result of the fault-free round (to which `round_correct` applies). -/
theorem run_reports_index_only_when_complete (X : RndX κ η) (F : Fault κ η) (last ridx n : Nat)
    (l r : List (Item κ η)) (hret : runRet ridx (roundRun X F last ridx l r) = .idx n) :
    n = ridx ∧ (roundRun X F last ridx l r).store = roundFinal X.toRnd last ridx l r := by
  have he : (roundRun X F last ridx l r).exited = false := by
    cases h : (roundRun X F last ridx l r).exited with
    | false => rfl
    | true => simp [runRet, h] at hret
  have hf : (roundRun X F last ridx l r).failed = false := by
    cases h : (roundRun X F last ridx l r).failed with
    | false => rfl
    | true => simp [runRet, he, h] at hret
  refine ⟨by simp [runRet, he, hf] at hret; exact hret.symm, ?_⟩
  unfold roundRun at hf he ⊢
  by_cases hc : F.cancelAt = some 0
  · rw [if_pos hc] at he; cases he
  · rw [if_neg hc] at hf he ⊢
    simp only at hf he ⊢
    by_cases hstop : ((runPhase X.fold F X.failFast (phaseDels X last ridx l r)
          { store := l, tried := [], nchk := 0, failed := false, exited := false }).exited ||
        ((runPhase X.fold F X.failFast (phaseDels X last ridx l r)
          { store := l, tried := [], nchk := 0, failed := false, exited := false }).failed && X.failFast)) = true
    · rw [if_pos hstop] at hf he
      rw [hf, he] at hstop; simp at hstop
    · rw [if_neg hstop] at hf he ⊢
      have m := runPhase_mono X.fold F X.failFast (phaseUps X last ridx l r)
        (runPhase X.fold F X.failFast (phaseDels X last ridx l r)
          { store := l, tried := [], nchk := 0, failed := false, exited := false })
      have hf1 : (runPhase X.fold F X.failFast (phaseDels X last ridx l r)
          { store := l, tried := [], nchk := 0, failed := false, exited := false }).failed = false := by
        cases h : (runPhase X.fold F X.failFast (phaseDels X last ridx l r)
          { store := l, tried := [], nchk := 0, failed := false, exited := false }).failed with
        | false => rfl
        | true => rw [m.1 h] at hf; cases hf
      have he1 : (runPhase X.fold F X.failFast (phaseDels X last ridx l r)
          { store := l, tried := [], nchk := 0, failed := false, exited := false }).exited = false := by
        cases h : (runPhase X.fold F X.failFast (phaseDels X last ridx l r)
          { store := l, tried := [], nchk := 0, failed := false, exited := false }).exited with
        | false => rfl
        | true => rw [m.2 h] at he; cases he
      rw [runPhase_clean _ _ _ _ _ hf he, runPhase_clean _ _ _ _ _ hf1 he1, phaseUps_fold, phaseDels_fold,
        roundFinal_eq]

/-- A context found cancelled right after the fetch: no write, store untouched, the round exits. -/
theorem run_cancelled_before_writes (X : RndX κ η) (F : Fault κ η) (last ridx : Nat) (l r : List (Item κ η))
    (hc : F.cancelAt = some 0) :
    (roundRun X F last ridx l r).store = l ∧ (roundRun X F last ridx l r).tried = [] ∧
      runRet ridx (roundRun X F last ridx l r) = .exit := by
  unfold roundRun; rw [if_pos hc]; exact ⟨rfl, rfl, rfl⟩

/-- Whatever subset of the round's writes got applied (rejections, cancellation, in any
    combination), the secondary's table is still a legal store table and holds only untouched
    local rows and whole remote objects. -/
theorem partial_round_store_ok (X : RndX κ η) (F : Fault κ η) (last ridx : Nat) (l r : List (Item κ η))
    (fl : FoldUnique X.toRnd l) :
    FoldUnique X.toRnd (roundRun X F last ridx l r).store ∧
    ∀ y ∈ (roundRun X F last ridx l r).store, y ∈ l ∨ y ∈ r :=
  ⟨roundRun_inv X F last ridx l r (FoldUnique X.toRnd) (fun s o _ hs => execOp_foldUnique X.toRnd s o hs) fl,
   roundRun_inv X F last ridx l r (fun s => ∀ y ∈ s, y ∈ l ∨ y ∈ r)
      (fun s o ho hs => execOp_rows X.fold (fun y => y ∈ l ∨ y ∈ r) r (fun _ hx => Or.inr hx) s o ho hs)
      (fun _ hy => Or.inl hy)⟩

/-- RETRY CONVERGES. After a round that failed or was cancelled at ANY point — some applies
    rejected by the store, the context cancelled between any two applies, leadership lost — the
    next complete round from last index 0 (what `runACLReplicator` / `Replicator.Run` do after an
    error, and a new leader after an exit) makes the secondary equal to the primary's list `r'` of
    that time, with no assumption on what the interrupted round managed to write. -/
theorem retry_after_partial_round_converges (X : RndX κ η) (F : Fault κ η) (last ridx ridx' : Nat)
    (l r r' : List (Item κ η)) (law : Lawful X.cfg) (fl : FoldUnique X.toRnd l) (fr' : FoldUnique X.toRnd r')
    (cls : ∀ a ∈ l ++ r ++ r', ∀ b ∈ l ++ r ++ r', X.fold a.id = X.fold b.id →
            X.cfg.skip a.id = X.cfg.skip b.id ∧ X.noRepl a.id = X.noRepl b.id)
    (hash : ∀ y ∈ l ++ r, ∀ x ∈ r', y.id = x.id → X.cfg.same x.hash y.hash = true → y.val = x.val)
    (hmod : ∀ x ∈ r', 0 < x.mod) (k : κ) (hk : X.cfg.skip k = false) (hn : X.noRepl k = false) :
    valOf (roundFinal X.toRnd (nextLast true 0) ridx' (roundRun X F last ridx l r).store r') k = valOf r' k := by
  obtain ⟨hfu, hrows⟩ := partial_round_store_ok X F last ridx l r fl
  have hin : ∀ y ∈ (roundRun X F last ridx l r).store ++ r', y ∈ l ++ r ++ r' := by
    intro y hy
    rcases List.mem_append.mp hy with hy | hy
    · rcases hrows y hy with h | h
      · exact List.mem_append_left _ (List.mem_append_left _ h)
      · exact List.mem_append_left _ (List.mem_append_right _ h)
    · exact List.mem_append_right _ hy
  apply round_correct_full_sync X.toRnd (nextLast true 0) ridx' _ r' (Or.inr rfl) law hfu fr' _ _ hmod k hk hn
  · intro a ha b hb e
    exact cls a (hin a ha) b (hin b hb) e
  · intro y hy x hx e hs
    apply hash y _ x hx e hs
    rcases hrows y hy with h | h
    · exact List.mem_append_left _ h
    · exact List.mem_append_right _ h

/-- … and an interrupted round never spoils the consistency the OLD last index stands for: the
    `Replicator` of config entries / federation states keeps `lastRemoteIndex` across an exit, and
    may resume from it. `hr`: objects of the later list `r'` not modified after `last'` are the
    ones the interrupted round saw in `r`. -/
theorem partial_round_keeps_consistency (X : RndX κ η) (F : Fault κ η) (last ridx last' : Nat)
    (l r r' : List (Item κ η)) (fl : FoldUnique X.toRnd l)
    (hl : ∀ y ∈ l, ∀ x' ∈ r', y.id = x'.id → x'.mod ≤ last' → y.val = x'.val)
    (hr : ∀ y ∈ r, ∀ x' ∈ r', y.id = x'.id → x'.mod ≤ last' → y.val = x'.val) :
    ∀ y ∈ (roundRun X F last ridx l r).store, ∀ x' ∈ r', y.id = x'.id → x'.mod ≤ last' → y.val = x'.val := by
  intro y hy
  rcases (partial_round_store_ok X F last ridx l r fl).2 y hy with h | h
  · exact hl y h
  · exact hr y h

/-! ### "every apply succeeds" fails for config entries too: graph validation and the apply order

    Deletions are applied in `configentry.Less` order (kind first): service-defaults "web" (http)
    is deleted BEFORE service-splitter "web", and the store refuses to leave a splitter on a tcp
    service. `reconcileLocalConfig` collects the error and goes on: the splitter is deleted, the
    round fails, and the retry (from index 0) deletes the service-defaults entry. One round is not
    enough; two are (`retry_after_partial_round_converges`). Executed on the real servers by the
    harness (`graph` stream). -/

def nmWeb : Bytes := [119, 101, 98]
def exGraphL : List (Item CKey Nat) := [⟨(kindSplit, nmWeb), 0, 21, 0, 1⟩, ⟨(kindSD, nmWeb), 0, 22, 1, 1⟩]
def graphFault : Fault CKey Nat := { rej := cfgRej, cancelAt := none }

/-! ### non-vacuity: a concrete ACL round that meets the hypotheses (IDs 1,2,3,4, one legacy
    empty-ID token; `last = 5`, remote index 9; remote `2` unchanged since index 3, remote `1`
    changed at 8) -/

def exL : List (Item Bytes Bytes) :=
  [⟨[3], 0, [1], 10, 1⟩, ⟨[], 0, [9], 99, 1⟩, ⟨[1], 0, [5], 11, 1⟩, ⟨[2], 0, [7], 12, 1⟩]
def exR : List (Item Bytes Bytes) := [⟨[4], 9, [2], 20, 1⟩, ⟨[1], 8, [6], 21, 1⟩, ⟨[2], 3, [7], 12, 1⟩]

theorem ex_round_ok : RoundOK aclRnd (effLast 5 9) exL exR :=
  ⟨aclCfg_lawful, by unfold FoldUnique; decide, by unfold FoldUnique; decide,
   fun a _ b _ e => aclRnd_cls a.id b.id e, by decide, by decide⟩

example : valOf (roundFinal aclRnd 5 9 exL exR) [1] = some 21 := by
  rw [round_correct aclRnd 5 9 exL exR ex_round_ok [1] (by decide) (by decide)]; decide

-- executable sanity tests (tests, not theorems): the rounds as the driver computes them
#guard (roundFinal aclRnd 5 9 exL exR).map (·.id) == [[], [2], [1], [4]]
#guard (roundFinal cfgRnd 0 5 exWeb exWEB).map (·.id) == [(sd, [87, 101, 98])]
#guard (roundFinalSwapped cfgRnd 0 5 exWeb exWEB).map (·.id) == []
#guard (roundOps aclRnd 5 9 exL exR).length == 2
#guard (roundOps aclRnd 20 9 exL exR).length == 2   -- reset: [2] (hash equal) still not upserted
#guard (roundRun cfgX graphFault 0 5 exGraphL []).store.map (·.id) == [(kindSD, nmWeb)]
#guard runRet 5 (roundRun cfgX graphFault 0 5 exGraphL []) == Ret.error
#guard (roundRun cfgX graphFault 0 5 exGraphL []).tried.length == 2
#guard (roundRun cfgX graphFault 0 5 (roundRun cfgX graphFault 0 5 exGraphL []).store []).store.map (·.id) == []
#guard runRet 5 (roundRun cfgX graphFault 0 5 (roundRun cfgX graphFault 0 5 exGraphL []).store []) == Ret.idx 5
#guard (roundRun aclX { rej := fun _ _ => false, cancelAt := some 0 } 5 9 exL exR).store.map (·.id) == exL.map (·.id)
#guard batches 3 (fun (_ : Nat) => 1) [1, 2, 3, 4, 5, 6, 7] == [[1, 2, 3], [4, 5, 6], [7]]
#guard batches 10 id [4, 4, 4, 4, 20, 1] == [[4, 4, 4], [4, 20], [1]]

end CV.Repl
