/-
C19 — one replication round makes a secondary datacenter equal to the primary.
Property theorems only; helper lemmas live in CV/Proofs/Repl.lean.
-/
import CV.Proofs.Repl
set_option linter.unusedSectionVars false
namespace CV.Repl
variable {κ η : Type} [DecidableEq κ]

/-- What the secondary may assume about the remote list and the last index it replicated:
    hashes are faithful (`same` ⇒ equal content; collision-freeness of the hash is trusted) and
    whatever the primary changed at or below `last` has already been applied locally. -/
structure RoundOK (c : Cfg κ η) (last : Nat) (l r : List (Item κ η)) : Prop where
  law   : Lawful c
  ul    : UniqueKeys c l
  ur    : UniqueKeys c r
  hash  : ∀ y ∈ l, ∀ x ∈ r, y.id = x.id → c.same x.hash y.hash = true → y.val = x.val
  cons  : ∀ y ∈ l, ∀ x ∈ r, y.id = x.id → x.mod ≤ last → y.val = x.val

/-- After the round, every replicated (non-skipped) key holds exactly the primary's content
    — present iff present remotely, with the remote value. For all lists, in any input order. -/
theorem round_correct (c : Cfg κ η) (last : Nat) (l r : List (Item κ η)) (h : RoundOK c last l r)
    (k : κ) (hk : c.skip k = false) : valOf (round c last l r) k = valOf r k := by
  have hsl := sortBy_sorted c h.law l h.ul
  have hsr := sortBy_sorted c h.law r h.ur
  have hd := mem_dels c h.law last _ _ hsl hsr k
  have hu := mem_ups c h.law last _ _ hsl hsr k
  simp only [mem_sortBy] at hd hu
  unfold round
  generalize diff c last (sortBy c.lt l) (sortBy c.lt r) = du at *
  obtain ⟨d, u⟩ := du
  simp only at hd hu ⊢
  rw [valOf_applyDiff]
  by_cases hku : k ∈ u
  · simp [hku]
  · simp only [hku, if_false]
    by_cases hkd : k ∈ d
    · simp only [hkd, if_true]
      exact (valOf_absent r k (hd.mp hkd).2.2).symm
    · simp only [hkd, if_false]
      by_cases hl : ∃ y ∈ l, y.id = k
      · obtain ⟨y, hy, hyk⟩ := hl
        have hr : ∃ x ∈ r, x.id = k := by
          apply Classical.byContradiction; intro hr
          exact hkd (hd.mpr ⟨hk, ⟨y, hy, hyk⟩, hr⟩)
        obtain ⟨x, hx, hxk⟩ := hr
        subst hyk
        have e1 := valOf_mem c l h.ul y hy hk
        have e2 := valOf_mem c r h.ur x hx (by rw [hxk]; exact hk)
        rw [hxk] at e2
        rw [e1, e2]
        congr 1
        by_cases hm : x.mod ≤ last
        · exact h.cons y hy x hx hxk.symm hm
        · apply h.hash y hy x hx hxk.symm
          cases hs : c.same x.hash y.hash with
          | true => rfl
          | false =>
            exact absurd (hu.mpr ⟨hk, x, hx, hxk, Or.inr ⟨y, hy, rfl, by omega, hs⟩⟩) hku
      · rw [valOf_absent l k hl]
        have hr : ¬ ∃ x ∈ r, x.id = k := by
          intro ⟨x, hx, hxk⟩
          exact hku (hu.mpr ⟨hk, x, hx, hxk, Or.inl hl⟩)
        exact (valOf_absent r k hr).symm

/-- Local-only objects (skipped keys: empty IDs / unmigrated tokens) survive the round untouched,
    and no skipped remote object is ever written locally. -/
theorem local_only_untouched (c : Cfg κ η) (last : Nat) (l r : List (Item κ η)) (h : RoundOK c last l r)
    (z : Item κ η) (hz : c.skip z.id = true) : z ∈ round c last l r ↔ z ∈ l := by
  have hsl := sortBy_sorted c h.law l h.ul
  have hsr := sortBy_sorted c h.law r h.ur
  have hd := mem_dels c h.law last _ _ hsl hsr z.id
  have hu := mem_ups c h.law last _ _ hsl hsr z.id
  unfold round
  generalize diff c last (sortBy c.lt l) (sortBy c.lt r) = du at *
  obtain ⟨d, u⟩ := du
  simp only [applyDiff, List.mem_append, List.mem_filter] at *
  grind

/-- Deletions and upserts are disjoint, deletions name local objects only and upserts remote ones. -/
theorem diff_disjoint (c : Cfg κ η) (last : Nat) (l r : List (Item κ η)) (h : RoundOK c last l r) (k : κ) :
    let du := diff c last (sortBy c.lt l) (sortBy c.lt r)
    (k ∈ du.1 → k ∉ du.2 ∧ ∃ y ∈ l, y.id = k) ∧ (k ∈ du.2 → ∃ x ∈ r, x.id = k) := by
  have hsl := sortBy_sorted c h.law l h.ul
  have hsr := sortBy_sorted c h.law r h.ur
  have hd := mem_dels c h.law last _ _ hsl hsr k
  have hu := mem_ups c h.law last _ _ hsl hsr k
  simp only [mem_sortBy] at hd hu
  grind

/-- A secondary that already equals the primary (same keys, agreeing hashes) produces no writes. -/
theorem no_writes_when_equal (c : Cfg κ η) (last : Nat) (l r : List (Item κ η)) (h : RoundOK c last l r)
    (hlr : ∀ y ∈ l, c.skip y.id = false → ∃ x ∈ r, x.id = y.id ∧ c.same x.hash y.hash = true)
    (hrl : ∀ x ∈ r, c.skip x.id = false → ∃ y ∈ l, y.id = x.id) :
    diff c last (sortBy c.lt l) (sortBy c.lt r) = ([], []) := by
  have hsl := sortBy_sorted c h.law l h.ul
  have hsr := sortBy_sorted c h.law r h.ur
  have hd := fun k => mem_dels c h.law last _ _ hsl hsr k
  have hu := fun k => mem_ups c h.law last _ _ hsl hsr k
  simp only [mem_sortBy] at hd hu
  have hur := h.ur
  have hul := h.ul
  generalize diff c last (sortBy c.lt l) (sortBy c.lt r) = du at *
  obtain ⟨d, u⟩ := du
  simp only at hd hu
  have hd0 : d = [] := by
    apply List.eq_nil_iff_forall_not_mem.mpr; intro k hk
    have := (hd k).mp hk
    grind
  have hu0 : u = [] := by
    apply List.eq_nil_iff_forall_not_mem.mpr; intro k hk
    obtain ⟨hs, x, hx, hxk, hcase⟩ := (hu k).mp hk
    rcases hcase with hno | ⟨y, hy, hyk, _, hsame⟩
    · obtain ⟨y, hy, hyx⟩ := hrl x hx (by rw [hxk]; exact hs)
      exact hno ⟨y, hy, by rw [hyx, hxk]⟩
    · obtain ⟨x', hx', hx'y, hs'⟩ := hlr y hy (by rw [hyk]; exact hs)
      -- x' and x carry the same non-skipped key, hence are the same remote item
      have e1 := find_unique c r hur x hx (by rw [hxk]; exact hs)
      have e2 := find_unique c r hur x' hx' (by rw [hx'y, hyk]; exact hs)
      have : x'.id = x.id := by rw [hx'y, hyk, hxk]
      rw [this] at e2
      have : x' = x := by rw [e1] at e2; exact (Option.some.inj e2).symm
      subst this
      rw [hs'] at hsame; cases hsame
  rw [hd0, hu0]

/-- The result does not depend on the order in which the two lists are handed in. -/
theorem round_input_order_irrelevant (c : Cfg κ η) (last : Nat) (l l' r r' : List (Item κ η))
    (h : RoundOK c last l r) (h' : RoundOK c last l' r')
    (_hl : ∀ x, x ∈ l ↔ x ∈ l') (hr : ∀ x, x ∈ r ↔ x ∈ r') (k : κ) (hk : c.skip k = false) :
    valOf (round c last l r) k = valOf (round c last l' r') k := by
  rw [round_correct c last l r h k hk, round_correct c last l' r' h' k hk]
  by_cases hx : ∃ x ∈ r, x.id = k
  · obtain ⟨x, hx, hxk⟩ := hx
    subst hxk
    rw [valOf_mem c r h.ur x hx hk, valOf_mem c r' h'.ur x ((hr x).mp hx) hk]
  · rw [valOf_absent r k hx, valOf_absent r' k (by intro ⟨x, hx', e⟩; exact hx ⟨x, (hr x).mpr hx', e⟩)]

/-! ### the two instances used by consul are lawful -/

theorem aclCfg_lawful : Lawful aclCfg := by
  refine ⟨?_, ?_, ?_, ?_⟩ <;> simp only [aclCfg, bytesLt, decide_eq_true_eq, decide_eq_false_iff_not]
  · intro a; exact List.lt_irrefl a
  · intro a b d h1 h2; exact List.lt_trans h1 h2
  · intro a b h1 h2; exact List.le_antisymm (List.not_lt.mp h2) (List.not_lt.mp h1)
  · intro a b ha hb
    subst ha
    cases b with
    | nil => simp at hb
    | cons x xs => exact List.nil_lt_cons x xs

theorem cfgCfg_lawful : Lawful cfgCfg := by
  have T : ∀ (x y z : List Nat), x < y → y < z → x < z := fun _ _ _ => List.lt_trans
  have I : ∀ x : List Nat, ¬ x < x := List.lt_irrefl
  have A : ∀ x y : List Nat, ¬ x < y → ¬ y < x → x = y :=
    fun x y h1 h2 => List.le_antisymm (List.not_lt.mp h2) (List.not_lt.mp h1)
  refine ⟨?_, ?_, ?_, ?_⟩ <;> simp only [cfgCfg, ckeyLt]
  · intro a; grind
  · intro a b d h1 h2; grind
  · intro a b h1 h2
    have e1 : a.1 = b.1 := by grind
    have e2 : a.2 = b.2 := by grind
    exact Prod.ext e1 e2
  · intro a b ha; simp at ha

/-! ### non-vacuity: a concrete round that meets the hypotheses (IDs 1,2,3,4, one legacy
    empty-ID token; `last = 5`; remote `2` unchanged since index 3, remote `1` changed at 8) -/

def exL : List (Item Bytes Bytes) := [⟨[3], 0, [1], 10⟩, ⟨[], 0, [9], 99⟩, ⟨[1], 0, [5], 11⟩, ⟨[2], 0, [7], 12⟩]
def exR : List (Item Bytes Bytes) := [⟨[4], 9, [2], 20⟩, ⟨[1], 8, [6], 21⟩, ⟨[2], 3, [7], 12⟩]

theorem ex_round_ok : RoundOK aclCfg 5 exL exR :=
  ⟨aclCfg_lawful, by unfold UniqueKeys; decide, by unfold UniqueKeys; decide, by decide, by decide⟩

example : valOf (round aclCfg 5 exL exR) [1] = some 21 := by
  rw [round_correct aclCfg 5 exL exR ex_round_ok [1] (by decide)]; decide

-- executable sanity test (a test, not a theorem): the round as the driver computes it
#guard (round aclCfg 5 exL exR).map (·.id) == [[], [2], [4], [1]]

end CV.Repl
