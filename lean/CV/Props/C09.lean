/-
C09 — ACL enforcement: nothing unreadable returned, expired tokens never honoured.
Property theorems only; helper lemmas live in CV/Proofs/Filter.lean. The models are CV/Filter.lean
(result filtering, every case of the `aclfilter.Filter` type switch + the two slice filters of
agent/consul/filter.go) and CV/FilterExpiry.lean (token resolution with cache, store and clock).
-/
import CV.Proofs.Filter
import CV.FilterExpiry
import CV.FilterACL
import CV.Generated.FactsFilter
namespace CV.Filter

/-! ## Loop shapes -/

/-- The in-place removal loop (`append(s[:i], s[i+1:]...); i--`) computes `filter`, and its
    `removed` result says whether some element failed the test. Any list, any test. -/
theorem inplace_loop_eq_filter {α : Type} (keep : α → Bool) (xs : List α) :
    loopRemove keep xs 0 false = (xs.filter keep, xs.any fun x => !keep x) := by
  simp [loopRemove_eq]

/-- `FilterEntries` (block-move compaction over `Len/Filter/Move`) terminates — `a.length + 1` rounds
    of the outer loop suffice — and what it leaves in `ent[:n]` is `filter`. -/
theorem compaction_eq_filter {α : Type} (drop : α → Bool) (a : List α) :
    filterEntries drop a = some (a.filter fun x => !drop x) :=
  filterEntries_eq drop a

/-- The copy-out loop shape (intentions, service lists, gateway services). -/
theorem copy_loop_eq_filter {α : Type} (keep : α → Bool) (xs : List α) :
    appendLoop keep xs [] false = (xs.filter keep, xs.any fun x => !keep x) := by
  simp [appendLoop_eq]

/-- `range` + `delete` over a Go map (unique keys) computes `filter`, whatever the iteration order. -/
theorem map_delete_loop_eq_filter {κ β : Type} [DecidableEq κ] (keep : κ × β → Bool) (m : List (κ × β))
    (hn : (m.map (·.1)).Nodup) :
    rangeDelete keep m m false = (m.filter keep, m.any fun x => !keep x) := by
  have := rangeDelete_eq keep m [] false hn (by simp)
  simpa using this

/-! ## The filter returns exactly what the token may read -/

/-- MAIN: for every response type of the switch (and the two slice filters), every content and every
    authorizer, what the filtered response discloses is exactly the readable part of what the
    unfiltered response disclosed — same entries, same order, same multiplicity, nested entries
    included. Hypotheses: Go map keys are unique and a node-less `NodeServiceList` is empty (`wf`);
    `IntentionQueryMatch` is all-or-nothing and has its own theorem. -/
theorem filter_exact (a : Authz) (r : Resp) (hwf : r.wf = true)
    (hi : r.isIxnMatch = false) :
    entries (filterCore a r) = (entries r).filter (Entry.readable a) :=
  entries_filterCore a r hwf hi

/-- Nothing unreadable is returned. -/
theorem filter_sound (a : Authz) (r : Resp) (hwf : r.wf = true)
    (hi : r.isIxnMatch = false) (e : Entry) (he : e ∈ entries (filterCore a r)) : e.readable a = true := by
  rw [filter_exact a r hwf hi] at he
  exact (List.mem_filter.mp he).2

/-- Nothing readable is dropped. -/
theorem filter_complete (a : Authz) (r : Resp) (hwf : r.wf = true)
    (hi : r.isIxnMatch = false) (e : Entry) (he : e ∈ entries r) (hr : e.readable a = true) :
    e ∈ entries (filterCore a r) := by
  rw [filter_exact a r hwf hi]
  exact List.mem_filter.mpr ⟨he, hr⟩

/-- Order is kept: the output is a sublist of the input. -/
theorem filter_order (a : Authz) (r : Resp) (hwf : r.wf = true)
    (hi : r.isIxnMatch = false) : (entries (filterCore a r)).Sublist (entries r) := by
  rw [filter_exact a r hwf hi]
  exact List.filter_sublist

/-- Multiplicity is kept: a readable entry occurs as often after filtering as before. -/
theorem filter_multiplicity (a : Authz) (r : Resp) (hwf : r.wf = true)
    (hi : r.isIxnMatch = false) (e : Entry) (hr : e.readable a = true) :
    (entries (filterCore a r)).count e = (entries r).count e := by
  rw [filter_exact a r hwf hi]
  exact List.count_filter hr

/-- `IntentionQueryMatch`: the entries survive unchanged when every named entry is readable and
    are all removed otherwise (so nothing unreadable is ever returned). -/
theorem ixn_match_all_or_nothing (a : Authz) (es : List String) :
    filterCore a (.ixnMatch es) =
      .ixnMatch (if es.all (fun n => n = "" || a.intentionRead n) then es else []) := by
  simp only [filterCore, ixnMatchLoop_eq]
  by_cases h : es.any (fun n => n ≠ "" && !a.intentionRead n) = true
  · have h' : es.all (fun n => decide (n = "") || a.intentionRead n) = false := by
      apply Bool.eq_false_iff.mpr
      intro hall
      obtain ⟨n, hn, hb⟩ := List.any_eq_true.mp h
      have := List.all_eq_true.mp hall n hn
      by_cases hne : n = "" <;> simp_all
    rw [if_pos h, h']; rfl
  · have h' : es.all (fun n => decide (n = "") || a.intentionRead n) = true := by
      simp only [List.any_eq_true, List.all_eq_true, not_exists, not_and] at h ⊢
      intro n hn
      have := h n hn
      by_cases hne : n = "" <;> cases hr : a.intentionRead n <;> simp_all
    rw [if_neg h, h']; rfl

theorem ixn_match_sound (a : Authz) (es : List String) (e : Entry)
    (he : e ∈ entries (filterCore a (.ixnMatch es))) : e.readable a = true := by
  rw [ixn_match_all_or_nothing] at he
  by_cases h : es.all (fun n => n = "" || a.intentionRead n) = true
  · simp only [h, if_true, entries, List.mem_map] at he
    obtain ⟨n, hn, rfl⟩ := he
    have := List.all_eq_true.mp h n hn
    by_cases hne : n = "" <;> simp_all [Entry.readable, Req.eval]
  · simp [h, entries] at he

/-! ## The flag -/

/-- What the code computes for `ResultsFilteredByACLs`, for every flagged response type: the
    disjunction of "some entry whose removal is reported was removed" with the incoming value
    (cases that only ever set the flag) or with nothing (cases that assign it). -/
theorem flag_exact (a : Authz) (r : Resp) (hwf : r.wf = true) :
    (filterCore a r).flag =
      r.flag.map fun f => (if r.flagAccumulates then f else false) || removedReported a r :=
  flag_filterCore a r hwf

/-- The flag is set exactly when a reported entry was removed (incoming flag clear, as the endpoints
    pass it). -/
theorem flag_iff_reported_removal (a : Authz) (r : Resp) (hwf : r.wf = true)
    (f : Bool) (hin : r.flag = some false) (hout : (filterCore a r).flag = some f) :
    f = true ↔ ∃ e ∈ entries r, e.readable a = false ∧ e.silent = false := by
  rw [flag_exact a r hwf, hin] at hout
  simp only [Option.map_some, ite_self, Bool.false_or, Option.some.injEq] at hout
  subst hout
  simp [removedReported]

/-- FULL-STRENGTH reading of the property ("flags that filtering happened exactly when something was
    removed"), proved for every response without silently dropped entries (all types but prepared
    query lists containing un-named queries): the flag is set iff output differs from input. -/
theorem flag_iff_removed_partial (a : Authz) (r : Resp) (hwf : r.wf = true)
    (hi : r.isIxnMatch = false) (hs : ∀ e ∈ entries r, e.silent = false)
    (f : Bool) (hin : r.flag = some false) (hout : (filterCore a r).flag = some f) :
    f = true ↔ entries (filterCore a r) ≠ entries r := by
  rw [flag_iff_reported_removal a r hwf f hin hout, filter_exact a r hwf hi]
  constructor
  · rintro ⟨e, he, hr, _⟩ heq
    have := List.filter_eq_self.mp heq e he
    simp [hr] at this
  · intro hne
    have : ∃ e ∈ entries r, e.readable a = false := by
      apply Classical.byContradiction; intro hno
      apply hne; apply List.filter_eq_self.mpr; intro e he
      cases hr : e.readable a with
      | true => rfl
      | false => exact absurd ⟨e, he, hr⟩ hno
    obtain ⟨e, he, hr⟩ := this
    exact ⟨e, he, hr, hs e he⟩

/-- … and it is false in general for the code as it is: an un-named prepared query is dropped for a
    non-management token without the flag being set (by design upstream: un-named queries can only be
    enumerated with a management token). -/
theorem flag_iff_removed_counterexample :
    let a : Authz := ⟨fun _ => true, fun _ => true, fun _ => true, fun _ => true, fun _ => true, fun _ => true, true, false⟩
    let r : Resp := .preparedQueries [⟨"", false, 0, 1⟩] false
    (filterCore a r).flag = some false ∧ entries (filterCore a r) ≠ entries r := by
  decide

/-- Why that is not a disclosure problem: for a caller without `acl:write`, a prepared-query list
    containing un-named queries filters to exactly the same response — entries, redactions and flag —
    as the list without them. The response is indistinguishable from "no such query exists" (un-named
    queries are capabilities addressed by their ID: `PreparedQuery.Get` serves them to whoever knows the
    ID, and only a management token may enumerate them; setting the flag would reveal their existence). -/
theorem unnamed_queries_invisible (a : Authz) (hw : a.aclWrite = false) (xs : List PQ) (f : Bool) :
    filterCore a (.preparedQueries xs f) = filterCore a (.preparedQueries (xs.filter (·.hasName)) f) := by
  simp only [filterCore, hw, Bool.false_eq_true, if_false, pqLoop_eq, List.nil_append, List.filter_filter,
    List.any_filter]
  congr 2
  · congr 1
    funext q
    cases q.hasName <;> simp
  · congr 1
    funext q
    cases q.hasName <;> simp

/-- `IndexedServiceTopology.FilteredByACLs` follows the same rule as the flag. -/
theorem topology_filtered_marker (a : Authz) (u d : List CSN) (fb f : Bool) :
    ∃ u' d', filterCore a (.topology (some (u, d)) fb f) =
      .topology (some (u', d')) (fb || removedReported a (.topology (some (u, d)) fb f))
        (f || removedReported a (.topology (some (u, d)) fb f)) := by
  refine ⟨u.filter (csnCanRead a), d.filter (csnCanRead a), ?_⟩
  cases h1 : (u.any fun c => !csnCanRead a c) <;> cases h2 : (d.any fun c => !csnCanRead a c) <;>
    simp [filterCore, filterCSNs_eq, removedReported, entries, List.any_append, csnEntries_any, h1, h2]

/-- Exported services (as repaired by 6834176): the flag does not depend on the order in which the
    Go map of peers is visited. -/
theorem exported_flag_order_irrelevant (a : Authz) (m m' : List (String × List String)) (f : Bool)
    (hp : m.Perm m') :
    (filterCore a (.exportedServiceList m f)).flag = (filterCore a (.exportedServiceList m' f)).flag := by
  simp only [filterCore, exportedLoop_eq, Resp.flag]
  rw [hp.any_eq]

/-- The code before that repair: with two peers the flag depended on the visiting order
    (something removed for peer `p1`, nothing for `p2`). -/
theorem exported_old_flag_order_dependent :
    let a : Authz := ⟨fun _ => true, fun s => s == "web", fun _ => true, fun _ => true, fun _ => true, fun _ => true, true, false⟩
    (exportedLoopOld a [("p1", ["web", "db"]), ("p2", ["web"])] [] false).2 = false ∧
    (exportedLoopOld a [("p2", ["web"]), ("p1", ["web", "db"])] [] false).2 = true := by
  decide

/-- The same for the per-datacenter map. -/
theorem datacenter_flag_order_irrelevant (a : Authz) (m m' : List (String × List CSN)) (f : Bool)
    (hp : m.Perm m') :
    (filterCore a (.dcCSNs m f)).flag = (filterCore a (.dcCSNs m' f)).flag := by
  simp only [filterCore, dcLoop_eq, Resp.flag]
  rw [hp.any_eq]

/-! ## `IndexedNodeServices`: a repaired defect -/

/-- The code before commit 8c494bd passed the map key — the service ID — to `allowService`. A token
    that may read service `db` only was given the service named `web` registered under ID `db`, and
    lost the service named `db` registered under ID `web-1`. (`filter_exact` holds for the repaired code
    without any assumption relating IDs and names.) -/
theorem node_services_by_id_old_counterexample :
    let a : Authz := ⟨fun _ => true, fun s => s == "db", fun _ => true, fun _ => true, fun _ => true, fun _ => true, false, false⟩
    (nodeServicesLoopOld a "n1" [("db", ("web", 1)), ("web-1", ("db", 2))]).1 = [("db", ("web", 1))] ∧
    (filterCore a (.nodeServices (some ("n1", [("db", ("web", 1)), ("web-1", ("db", 2))])) false))
      = .nodeServices (some ("n1", [("web-1", ("db", 2))])) true := by
  decide

/-! ## Redaction -/

/-- Without `acl:write`, no token or token stub leaves the filter with its secret. -/
theorem token_secrets_redacted (a : Authz) (k : AclKind) (hk : k = .token ∨ k = .tokenStub)
    (hw : a.aclWrite = false) (x : Option AclObj) (o : AclObj) (h : filterAclObj a k x = some o) :
    o.secret = 2 := by
  cases x with
  | none => simp [filterAclObj] at h
  | some o' =>
    cases hr : a.aclRead <;> simp [filterAclObj, hr, hw, hk] at h
    subst h; rfl

/-- Without `acl:write`, a prepared query never leaves with the token it captured. -/
theorem query_token_redacted (a : Authz) (hw : a.aclWrite = false) (q : PQ) : (redactPQ a q).tok ≠ 1 := by
  unfold redactPQ
  by_cases h : q.tok = 0 <;> simp [hw, h]

/-! ## Panics and termination -/

/-- The observable filter fails only on the nil-pointer inputs listed in `Resp.panics` (never by
    non-termination of the compaction loop), independent of the authorizer. -/
theorem filterResp_none_iff_panics (a : Authz) (r : Resp) : filterResp a r = none ↔ r.panics = true := by
  have hd : r.diverges a = false := by
    cases r <;> simp [Resp.diverges, filterEntries_eq]
  simp [filterResp, hd]

/-! ## `maskResultsFilteredByACLs` -/

/-- A request without token, with an unresolvable token or with the anonymous token never sees the flag. -/
theorem anonymous_mask (tokenEmpty : Bool) (ident : Option Bool) (flag : Bool)
    (h : tokenEmpty = true ∨ ident = none ∨ ident = some true) : maskFlag tokenEmpty ident flag = false := by
  rcases h with h | h | h <;> simp [maskFlag, h]

/-- An authenticated, non-anonymous caller sees the flag unchanged. -/
theorem authenticated_mask (flag : Bool) : maskFlag false (some false) flag = flag := by
  simp [maskFlag]

/-! ## Coverage of the type switch -/

/-- One representative response per case of the `Filter.Filter` type switch. -/
def witnesses : List Resp := [
  .csns [], .indexedCSNs [] false, .pqExecute [] false, .topology none false false, .dcCSNs [] false,
  .coordinates [] false, .healthChecks [] false, .intentions [] false, .ixnMatch [], .nodeDump [] [] false,
  .serviceDump [] false, .nodes [] false, .nodeServices none false, .nodeServiceList none [] false,
  .serviceNodes [] false, .services [] false, .sessions [] false, .preparedQueries [] false,
  .preparedQuery ⟨"", false, 0, 0⟩, .aclList .token [], .aclOne .token none, .aclList .tokenStub [],
  .aclOne .tokenStub none, .aclList .policy [], .aclOne .policy none, .aclList .role [], .aclOne .role none,
  .aclList .bindingRule [], .aclOne .bindingRule none, .aclList .authMethod [], .aclOne .authMethod none,
  .serviceList [] false, .exportedServiceList [] false, .gatewayServices [] false,
  .nodesWithGateways [] [] [] false]

/-- Every listed Go type has a constructor in the model (the list is exactly the images of the
    representatives, in switch order, 35 distinct types). -/
theorem modelledTypes_are_modelled :
    modelledTypes = witnesses.map Resp.goType ∧ modelledTypes.length = 35 ∧ modelledTypes.Nodup := by
  decide

/-- FACT OBLIGATION (regenerated tie): the cases of the `Filter.Filter` type switch, re-extracted
    from `/repo/agent/structs/aclfilter/filter.go` by go/factgen on every run, are exactly the modelled
    types (followed by the panicking `default`). Adding, removing or reordering a case breaks this. -/
theorem all_cases_modelled : CV.Facts.Filter.filterCases = modelledTypes ++ ["default"] := by
  decide

/-- … and every constructor of the model stands for a listed type. The fact obligation
    `∀ t ∈ Facts.filterCases, t ∈ modelledTypes` (generated from the Go source) attaches to
    `modelledTypes`; until the translator exists the harness scans the switch at run time. -/
theorem goType_listed (r : Resp) : r.goType ∈ modelledTypes ++ extraTypes := by
  cases r <;> first | (rename_i k _; cases k <;> simp [Resp.goType, modelledTypes, extraTypes]) | simp [Resp.goType, modelledTypes, extraTypes]

end CV.Filter

/-! ## Expired tokens are never honoured -/
namespace CV.Filter.Expiry

/-- MAIN: whatever the configuration (TTL, down policy), backend (state store with unreaped tokens,
    or RPC answer), cache contents and clock — if resolution grants an identity, that identity is not
    expired at the time of resolution. Cached, stored and freshly fetched identities alike. -/
theorem granted_not_expired (cfg : Cfg) (b : Backend) (c c' : Cache) (secret : String) (now : Nat) (t : Token)
    (h : resolveToken cfg b c secret now = (c', .granted t)) : t.isExpired now = false := by
  unfold resolveToken at h
  split at h
  · split at h
    · simp at h
    · rename_i hne
      simp only [Prod.mk.injEq, Outcome.granted.injEq] at h
      rw [← h.2]; simpa using hne
  · simp at h
  · simp at h

/-- An expired token that is still in the state store (not yet reaped) resolves to "not found". -/
theorem expired_in_store_not_found (cfg : Cfg) (store : List Token) (c : Cache) (t : Token) (now : Nat)
    (hfind : store.find? (fun u => u.secret = t.secret) = some t) (hexp : t.isExpired now = true) :
    (resolveToken cfg (.server store) c t.secret now).2 = .notFound := by
  simp [resolveToken, resolveIdentity, serverIdentity, hfind, hexp]

/-- An expired token that is still in the identity cache and still fresh there resolves to "not
    found" — for every answer the primary might give and every down policy. -/
theorem expired_in_cache_not_found (cfg : Cfg) (rpc : Rpc) (c : Cache) (secret : String) (ce : CEntry) (now : Nat)
    (hget : c.get secret = some ce) (hfresh : now - ce.cacheTime ≤ cfg.ttl) (hexp : ce.ident.isExpired now = true) :
    (resolveToken cfg (.remote rpc) c secret now).2 = .notFound := by
  simp [resolveToken, resolveIdentity, hget, hfresh, hexp]

/-- An expired token freshly fetched from the primary (nothing cached) resolves to "not found". -/
theorem expired_fetched_not_found (cfg : Cfg) (c : Cache) (secret : String) (t : Token) (now : Nat)
    (hget : c.get secret = none) (hexp : t.isExpired now = true) :
    (resolveToken cfg (.remote (.found t)) c secret now).2 = .notFound := by
  simp [resolveToken, resolveIdentity, hget, fetchAndCache, hexp]

/-- The down-policy authorizer is only ever used when the primary could not be asked. -/
theorem down_only_when_unreachable (cfg : Cfg) (b : Backend) (c c' : Cache) (secret : String) (now : Nat) (ba : Bool)
    (h : resolveToken cfg b c secret now = (c', .down ba)) :
    b = .remote .error ∨ b = .remote .foreignLocal := by
  have hr : (resolveIdentity cfg b c secret now).2 = .remoteErr := by
    unfold resolveToken at h
    generalize resolveIdentity cfg b c secret now = ri at h
    obtain ⟨c1, r⟩ := ri
    cases r with
    | ident t => simp only at h; split at h <;> simp at h
    | notFound => simp at h
    | remoteErr => rfl
  cases b with
  | server store =>
    simp only [resolveIdentity, serverIdentity] at hr
    split at hr <;> (try split at hr) <;> simp at hr
  | remote rpc =>
    cases rpc with
    | error => exact Or.inl rfl
    | foreignLocal => exact Or.inr rfl
    | notFound =>
      simp only [resolveIdentity, fetchAndCache] at hr
      repeat' split at hr
      all_goals simp_all
    | found t =>
      simp only [resolveIdentity, fetchAndCache] at hr
      repeat' split at hr
      all_goals simp_all

/-- `IsExpired` is strict (`Before`): at the expiry instant itself the token is still valid … -/
theorem valid_at_expiry_instant (t : Token) (e : Nat) (h : t.exp = some e) : t.isExpired e = false := by
  simp [Token.isExpired, Token.hasExpirationTime, h]

/-- … and once expired it stays expired. -/
theorem expired_stays_expired (t : Token) (now now' : Nat) (h : t.isExpired now = true) (hle : now ≤ now') :
    t.isExpired now' = true := by
  unfold Token.isExpired at *
  cases he : t.exp with
  | none => simp [Token.hasExpirationTime, he] at h
  | some e =>
    simp only [Token.hasExpirationTime, he] at h ⊢
    by_cases h0 : now = 0
    · simp [h0] at h
    · by_cases he0 : e = 0
      · simp [he0] at h
      · have hn' : now' ≠ 0 := by omega
        simp [h0, he0] at h
        simp [hn', he0]; omega

/-- `maskResultsFilteredByACLs`: no token, an unresolvable token or the anonymous token ⇒ flag hidden. -/
theorem mask_hides_flag_from_anonymous (cfg : Cfg) (b : Backend) (c : Cache) (secret aAcc aSec : String)
    (now : Nat) (flag : Bool)
    (h : secret = "" ∨ (∀ t, (resolveIdentity cfg b c secret now).2 = .ident t → t.accessor = aAcc ∧ t.secret = aSec)) :
    (mask cfg b c secret aAcc aSec now flag).2 = false := by
  unfold mask
  rcases h with h | h
  · simp [h]
  · by_cases hs : secret = ""
    · simp [hs]
    · simp only [hs, if_false]
      split
      · rename_i c' t heq
        have := h t (by rw [heq])
        simp [this]
      · rfl

/-! ### Every entry point, all rounds of the retry loops -/

/-- MAIN (all entry points): `resolveTokenToIdentityAndPolicies` and `resolveTokenToIdentityAndRoles`
    — up to five rounds, the identity re-resolved in each (from store, cache or a fresh fetch that may
    return a different version of the token), whatever the role / policy link fetches answer — only
    ever succeed with an identity that is not expired at resolution time. `ep` ranges over
    `ResolveToken` / `ResolveTokenAndDefaultMeta`, the core of `ACL.PolicyResolve` and the core of
    `ACL.RoleResolve`; `store = none` is the client-agent / secondary configuration. -/
theorem loop_granted_not_expired (cfg : Cfg) (ep : EntryPoint) (store : Option (List Token)) (fuel : Nat)
    (c c' : Cache) (script : List Round) (secret : String) (now : Nat) (t : Token)
    (h : resolveLoop cfg ep store fuel c script secret now = (c', .ok t)) : t.isExpired now = false := by
  induction fuel generalizing c script with
  | zero => simp [resolveLoop] at h
  | succ fuel ih =>
    cases script with
    | nil => simp [resolveLoop] at h
    | cons r rest =>
      simp only [resolveLoop] at h
      split at h
      · rename_i c1 t1 _
        by_cases he : t1.isExpired now = true
        · simp [he] at h
        · have he' : t1.isExpired now = false := by simpa using he
          simp only [he', Bool.false_eq_true, if_false] at h
          split at h
          · simp only [Prod.mk.injEq, LoopRes.ok.injEq] at h; rw [← h.2]; exact he'
          · split at h
            · simp only [Prod.mk.injEq, LoopRes.ok.injEq] at h; rw [← h.2]; exact he'
            · simp at h
            · exact ih _ _ h
            · simp at h
      · simp at h
      · simp at h

/-- `ResolveToken` / `ResolveTokenAndDefaultMeta` over the whole loop. -/
theorem granted_not_expired_all_rounds (cfg : Cfg) (store : Option (List Token)) (c c' : Cache)
    (script : List Round) (secret : String) (now : Nat) (t : Token)
    (h : resolveTokenAll cfg store c script secret now = (c', .granted t)) : t.isExpired now = false := by
  unfold resolveTokenAll at h
  split at h <;> simp at h
  rename_i c1 t1 heq
  rw [← h.2]
  exact loop_granted_not_expired cfg .token store maxRetries c c1 script secret now t1 heq

/-- A token that is expired wherever it can come from in the first round (store; fresh cache entry;
    the primary's answer when nothing usable is cached) is refused in that round, for every entry point. -/
theorem loop_expired_in_store_not_found (cfg : Cfg) (ep : EntryPoint) (store : List Token) (fuel : Nat) (c : Cache)
    (r : Round) (rest : List Round) (t : Token) (now : Nat)
    (hfind : store.find? (fun u => u.secret = t.secret) = some t) (hexp : t.isExpired now = true) :
    (resolveLoop cfg ep (some store) (fuel + 1) c (r :: rest) t.secret now).2 = .notFound := by
  simp [resolveLoop, resolveIdentity, serverIdentity, hfind, hexp]

theorem loop_expired_in_cache_not_found (cfg : Cfg) (ep : EntryPoint) (fuel : Nat) (c : Cache) (r : Round)
    (rest : List Round) (secret : String) (ce : CEntry) (now : Nat)
    (hget : c.get secret = some ce) (hfresh : now - ce.cacheTime ≤ cfg.ttl) (hexp : ce.ident.isExpired now = true) :
    (resolveLoop cfg ep none (fuel + 1) c (r :: rest) secret now).2 = .notFound := by
  simp [resolveLoop, resolveIdentity, hget, hfresh, hexp]

theorem loop_expired_fetched_not_found (cfg : Cfg) (ep : EntryPoint) (fuel : Nat) (c : Cache) (la : LinkAns)
    (rest : List Round) (secret : String) (t : Token) (now : Nat)
    (hget : c.get secret = none) (hexp : t.isExpired now = true) :
    (resolveLoop cfg ep none (fuel + 1) c (⟨.found t, la⟩ :: rest) secret now).2 = .notFound := by
  simp [resolveLoop, resolveIdentity, hget, fetchAndCache, hexp]

/-- When the primary answers a link fetch with "ACL not found" (what it answers for an expired or
    deleted token), the identity leaves the cache and the resolution fails with "not found". -/
theorem link_not_found_drops_identity (cfg : Cfg) (ep : EntryPoint) (fuel : Nat) (c c1 : Cache) (rpc : Rpc)
    (rest : List Round) (secret : String) (t : Token) (now : Nat)
    (hid : resolveIdentity cfg (.remote rpc) c secret now = (c1, .ident t)) (hexp : t.isExpired now = false)
    (hl : needsLink ep t = true) :
    resolveLoop cfg ep none (fuel + 1) c (⟨rpc, .notFound⟩ :: rest) secret now = (c1.remove t.secret, .notFound) := by
  simp [resolveLoop, hid, hexp, hl]

/-! ### Token endpoints and the reaper -/

/-- `ACL.TokenRead` never returns an expired token, stored or not. -/
theorem tokenRead_not_expired (store : List Token) (secret : String) (now : Nat) (t : Token)
    (h : tokenRead store secret now = some t) : t.isExpired now = false := by
  unfold tokenRead at h
  split at h
  · split at h
    · simp at h
    · rename_i hne; simp only [Option.some.injEq] at h; rw [← h]; simpa using hne
  · simp at h

/-- `ACL.TokenList` returns exactly the stored tokens that are not expired. -/
theorem tokenList_exact (store : List Token) (now : Nat) (t : Token) :
    t ∈ tokenList store now ↔ t ∈ store ∧ t.isExpired now = false := by
  simp [tokenList, List.mem_filter]

/-- An accepted reaper run deleted only tokens that are expired … -/
theorem reap_only_expired (store : List Token) (now : Nat) (reaped : List String) (h : reapOk store now reaped = true)
    (a : String) (ha : a ∈ reaped) : ∃ t ∈ store, t.accessor = a ∧ t.isExpired now = true := by
  simp only [reapOk, List.all_eq_true, List.any_eq_true, listExpired, List.mem_filter, decide_eq_true_eq] at h
  obtain ⟨t, ⟨ht, he⟩, hacc⟩ := h a ha
  exact ⟨t, ht, hacc, he⟩

/-- … so every token that is still valid survives it, provided accessors are unique. -/
theorem reap_keeps_valid (store : List Token) (now : Nat) (reaped : List String) (h : reapOk store now reaped = true)
    (huniq : ∀ t ∈ store, ∀ u ∈ store, t.accessor = u.accessor → t = u)
    (t : Token) (ht : t ∈ store) (hv : t.isExpired now = false) : t ∈ reapApply store reaped := by
  simp only [reapApply, List.mem_filter, ht, true_and, Bool.not_eq_true', List.contains_eq_mem, decide_eq_false_iff_not]
  intro hmem
  obtain ⟨u, hu, hacc, hexp⟩ := reap_only_expired store now reaped h t.accessor hmem
  have := huniq u hu t ht hacc
  subst this
  simp [hv] at hexp

/-- What the reaper looks for (`ACLTokenListExpired`) is exactly what resolution refuses. -/
theorem listExpired_iff (store : List Token) (asOf : Nat) (t : Token) :
    t ∈ listExpired store asOf ↔ t ∈ store ∧ t.isExpired asOf = true := by
  simp [listExpired, List.mem_filter]

/-! ### Non-vacuity: the hypotheses above are satisfiable by concrete, non-trivial inputs -/

def tokExpired : Token := ⟨"s1", "a1", some 1008, ["web"], 0⟩
def tokValid : Token := ⟨"s1", "a1", some 1016, ["web"], 0⟩

/-- a cached, still fresh, expired token is refused although the primary would still return it -/
example : (resolveToken ⟨100, .extendCache⟩ (.remote (.found tokExpired)) [("s1", ⟨tokExpired, 1004⟩)] "s1" 1012).2
    = .notFound := by decide
/-- the same token one step earlier is granted (so `granted` is reachable) -/
example : (resolveToken ⟨100, .extendCache⟩ (.remote .error) [("s1", ⟨tokExpired, 1004⟩)] "s1" 1004).2
    = .granted tokExpired := by decide
/-- unreaped in the store -/
example : (resolveToken ⟨4, .deny⟩ (.server [tokExpired]) [] "s1" 1012).2 = .notFound := by decide
example : (resolveToken ⟨4, .deny⟩ (.server [tokValid]) [] "s1" 1012).2 = .granted tokValid := by decide
/-- two rounds: the first link fetch is denied, the identity is dropped and re-fetched — now with a
    version of the token that has expired: refused -/
example : (resolveLoop ⟨100, .deny⟩ .token none 5 [("s1", ⟨{ tokValid with link := 1 }, 1004⟩)]
    [⟨.error, .permDenied⟩, ⟨.found { tokExpired with link := 1 }, .ok⟩, ⟨.error, .ok⟩, ⟨.error, .ok⟩, ⟨.error, .ok⟩] "s1" 1012).2
    = .notFound := by decide
/-- the same with a still valid second version: granted in round 2 -/
example : (resolveLoop ⟨100, .deny⟩ .token none 5 [("s1", ⟨{ tokValid with link := 1 }, 1004⟩)]
    [⟨.error, .permDenied⟩, ⟨.found { tokValid with link := 2 }, .ok⟩, ⟨.error, .ok⟩, ⟨.error, .ok⟩, ⟨.error, .ok⟩] "s1" 1012).2
    = .ok { tokValid with link := 2 } := by decide
/-- five denials -/
example : (resolveLoop ⟨100, .deny⟩ .policies none 5 []
    (List.replicate 5 ⟨.found { tokValid with link := 1 }, .permDenied⟩) "s1" 1012).2 = .denied := by decide
example : tokenRead [tokExpired] "s1" 1012 = none ∧ tokenRead [tokValid] "s1" 1012 = some tokValid ∧
    tokenList [tokExpired, { tokValid with secret := "s2", accessor := "a2" }] 1012 = [{ tokValid with secret := "s2", accessor := "a2" }] ∧
    reapOk [tokExpired, { tokValid with secret := "s2", accessor := "a2" }] 1012 ["a1"] = true ∧
    reapOk [tokExpired, { tokValid with secret := "s2", accessor := "a2" }] 1012 ["a2"] = false := by decide
/-- primary unreachable, nothing cached, down policy allow -/
example : (resolveToken ⟨4, .allow⟩ (.remote .error) [] "s1" 1012).2 = .down true := by decide

/-! ### The front of `ResolveToken` and `filterACL`: resolution and filtering composed -/

/-- Through the public entry point, too: whatever the surroundings (ACLs on/off, token store, locally
    managed tokens), a *token* identity that is honoured is not expired at resolution time. -/
theorem entry_granted_not_expired (env : Env) (cfg : Cfg) (store : Option (List Token)) (c c' : Cache)
    (script : List Round) (secret : String) (now : Nat) (t : Token)
    (h : resolveTokenEntry env cfg store c script secret now = (c', .token (.granted t))) :
    t.isExpired now = false := by
  unfold resolveTokenEntry at h
  by_cases h1 : (!env.aclsEnabled) = true
  · simp [h1] at h
  · by_cases h2 : isRootName secret = true
    · simp [h1, h2] at h
    · simp only [h1, h2, Bool.false_eq_true, if_false] at h
      generalize (if secret = "" then anonymousSecret else secret) = s' at h
      split at h
      · simp at h
      · split at h
        · simp at h
        · simp only [Prod.mk.injEq, Resolved.token.injEq] at h
          exact granted_not_expired_all_rounds cfg store c c' script s' now t (Prod.ext h.1 h.2)

/-- The empty secret is the anonymous token: same outcome, same cache effects — so an anonymous token
    is subject to the same expiry rule as any other. -/
theorem empty_secret_is_anonymous (env : Env) (cfg : Cfg) (store : Option (List Token)) (c : Cache)
    (script : List Round) (now : Nat) :
    resolveTokenEntry env cfg store c script "" now =
      resolveTokenEntry env cfg store c script anonymousSecret now := by
  have h1 : isRootName "" = false := by decide
  have h2 : isRootName anonymousSecret = false := by decide
  simp [resolveTokenEntry, h1, h2]

/-- With ACLs enabled the names of the root authorizers are never accepted as tokens. -/
theorem root_names_denied (env : Env) (cfg : Cfg) (store : Option (List Token)) (c : Cache)
    (script : List Round) (secret : String) (now : Nat) (he : env.aclsEnabled = true)
    (hr : isRootName secret = true) :
    resolveTokenEntry env cfg store c script secret now = (c, .rootDenied) := by
  simp [resolveTokenEntry, he, hr]

/-- Every resolution that hands out an authorizer is of one of five kinds, and the only kind that
    rests on a token identity carries an unexpired one. -/
theorem authorizer_sources (tokenAuthz : Token → Authz) (env : Env) (cfg : Cfg) (store : Option (List Token))
    (c c' : Cache) (script : List Round) (secret : String) (now : Nat) (r : Resolved) (a : Authz)
    (h : resolveTokenEntry env cfg store c script secret now = (c', r)) (ha : r.authz tokenAuthz = some a) :
    (r = .aclsDisabled ∧ env.aclsEnabled = false) ∨ r = .agentRecovery ∨ r = .serverManagement ∨
    (∃ b, r = .token (.down b)) ∨ (∃ t, r = .token (.granted t) ∧ t.isExpired now = false ∧ a = tokenAuthz t) := by
  cases r with
  | aclsDisabled =>
    left; refine ⟨rfl, ?_⟩
    unfold resolveTokenEntry at h
    by_cases he : env.aclsEnabled = true
    · simp only [he, Bool.not_true, Bool.false_eq_true, if_false] at h
      repeat' split at h
      all_goals simp at h
    · simpa using he
  | rootDenied => simp [Resolved.authz] at ha
  | agentRecovery => right; left; rfl
  | serverManagement => right; right; left; rfl
  | token o =>
    cases o with
    | granted t =>
      right; right; right; right
      refine ⟨t, rfl, entry_granted_not_expired env cfg store c c' script secret now t h, ?_⟩
      simpa [Resolved.authz] using ha.symm
    | down b => right; right; right; left; exact ⟨b, rfl⟩
    | notFound => simp [Resolved.authz] at ha
    | denied => simp [Resolved.authz] at ha
    | noScript => simp [Resolved.authz] at ha

/-- MAIN (composition): what `filterACL` leaves in a response is exactly what the authorizer of the
    resolution may read — and when that authorizer was compiled from a token, the token was not
    expired when the request was served. Nothing is filtered "on behalf of" an expired token. -/
theorem filterACL_exact (tokenAuthz : Token → Authz) (env : Env) (cfg : Cfg) (store : Option (List Token))
    (c c' : Cache) (script : List Round) (secret : String) (now : Nat) (subj out : Resp)
    (hwf : subj.wf = true) (hi : subj.isIxnMatch = false)
    (h : filterACL tokenAuthz env cfg store c script secret now subj = (c', .ok out)) :
    ∃ r a, resolveTokenEntry env cfg store c script secret now = (c', r) ∧ r.authz tokenAuthz = some a ∧
      entries out = (entries subj).filter (Entry.readable a) ∧
      (∀ t, r.identity = some t → t.isExpired now = false) := by
  unfold filterACL at h
  generalize hres : resolveTokenEntry env cfg store c script secret now = res at h
  obtain ⟨c1, r⟩ := res
  simp only at h
  split at h
  · simp at h
  · rename_i a ha
    split at h
    · rename_i o ho
      simp only [Prod.mk.injEq, FilterRes.ok.injEq] at h
      obtain ⟨hc, hout⟩ := h
      subst hc hout
      refine ⟨r, a, rfl, ha, ?_, ?_⟩
      · have : o = filterCore a subj := by
          unfold filterResp at ho
          split at ho <;> simp at ho
          exact ho.symm
        rw [this]; exact filter_exact a subj hwf hi
      · intro t ht
        cases r with
        | token o' =>
          cases o' with
          | granted t' =>
            simp only [Resolved.identity, Option.some.injEq] at ht
            subst ht
            exact entry_granted_not_expired env cfg store c c1 script secret now t' hres
          | _ => simp [Resolved.identity] at ht
        | _ => simp [Resolved.identity] at ht
    · simp at h

/-- A request carrying an expired token that is still in the state store gets an error from
    `filterACL`, never a filtered response (server side; ACLs enabled, not a locally managed token). -/
theorem filterACL_expired_in_store_errors (tokenAuthz : Token → Authz) (env : Env) (cfg : Cfg) (store : List Token)
    (c : Cache) (r : Round) (rest : List Round) (t : Token) (now : Nat) (subj : Resp)
    (he : env.aclsEnabled = true) (hroot : isRootName t.secret = false) (hne : t.secret ≠ "")
    (hloc : env.hasTokenStore = false)
    (hfind : store.find? (fun u => u.secret = t.secret) = some t) (hexp : t.isExpired now = true) :
    (filterACL tokenAuthz env cfg (some store) c (r :: rest) t.secret now subj).2 = .err (.token .notFound) := by
  have hl := loop_expired_in_store_not_found cfg .token store 4 c r rest t now hfind hexp
  have : (resolveTokenAll cfg (some store) c (r :: rest) t.secret now).2 = .notFound := by
    unfold resolveTokenAll
    generalize hg : resolveLoop cfg .token (some store) maxRetries c (r :: rest) t.secret now = g at *
    obtain ⟨c1, o⟩ := g
    have : o = .notFound := by
      have hl' := hl
      rw [show (4 + 1 : Nat) = maxRetries from rfl, hg] at hl'
      exact hl'
    subst this; rfl
  unfold filterACL resolveTokenEntry
  generalize hg : resolveTokenAll cfg (some store) c (r :: rest) t.secret now = g at this
  obtain ⟨c1, o⟩ := g
  simp only at this
  subst this
  simp [he, hroot, hne, hloc, hg, Resolved.authz]

/-- Non-vacuity: a granted resolution filters (and keeps exactly the grants); the same token one unit
    after its expiry gets the error; ACLs disabled filters nothing; the empty secret resolves the stored
    anonymous token. -/
def exEnv : Env := ⟨true, true, "recovery", "srv"⟩
def exTokAuthz (t : Token) : Authz :=
  ⟨fun _ => false, fun s => t.grants.contains s, fun _ => false, fun _ => false, fun _ => false, fun _ => false, false, false⟩
def exSubj : CV.Filter.Resp := .serviceList ["web", "db", "web"] false

example : (filterACL exTokAuthz exEnv ⟨4, .deny⟩ (some [tokValid]) [] (List.replicate 5 ⟨.notFound, .ok⟩) "s1" 1012 exSubj).2
    = .ok (.serviceList ["web", "web"] true) := by decide
example : (filterACL exTokAuthz exEnv ⟨4, .deny⟩ (some [tokValid]) [] (List.replicate 5 ⟨.notFound, .ok⟩) "s1" 1020 exSubj).2
    = .err (.token .notFound) := by decide
example : (filterACL exTokAuthz { exEnv with aclsEnabled := false } ⟨4, .deny⟩ (some []) [] [] "whatever" 1012 exSubj).2
    = .ok exSubj := by decide
example : (resolveTokenEntry exEnv ⟨4, .deny⟩ (some [{ tokValid with secret := "anonymous" }]) [] (List.replicate 5 ⟨.notFound, .ok⟩) "" 1012).2
    = .token (.granted { tokValid with secret := "anonymous" }) := by decide
example : (resolveTokenEntry exEnv ⟨4, .deny⟩ (some []) [] [] "recovery" 1012).2 = .agentRecovery ∧
    (resolveTokenEntry exEnv ⟨4, .deny⟩ (some []) [] [] "srv" 1012).2 = .serverManagement ∧
    (resolveTokenEntry exEnv ⟨4, .deny⟩ (some []) [] [] "manage" 1012).2 = .rootDenied ∧
    (resolveTokenEntry { exEnv with hasTokenStore := false } ⟨4, .deny⟩ (some []) [] (List.replicate 5 ⟨.notFound, .ok⟩) "srv" 1012).2
      = .token .notFound := by decide

end CV.Filter.Expiry

namespace CV.Filter
/-! ### Non-vacuity for the filter theorems -/

def exAuthz : Authz :=
  ⟨fun n => n == "web", fun s => s == "web", fun _ => false, fun _ => false, fun _ => false, fun _ => false, true, false⟩

/-- mixed readable / unreadable, adjacent removals, first and last removed, a duplicate -/
def exChecks : Resp :=
  .healthChecks [⟨"db", "web", 1⟩, ⟨"web", "web", 2⟩, ⟨"web", "db", 3⟩, ⟨"db", "db", 4⟩, ⟨"web", "", 5⟩,
    ⟨"web", "web", 2⟩, ⟨"web", "db", 6⟩] false

example : exChecks.wf = true ∧ exChecks.isIxnMatch = false := by decide
example : (entries exChecks).length = 7 ∧ ((entries exChecks).filter (Entry.readable exAuthz)).length = 3 := by decide

/-- nested: unreadable node with readable service, readable node with mixed services -/
def exDump : Resp :=
  .nodeDump [⟨"db", 1, [("web", 2)], []⟩, ⟨"web", 3, [("web", 4), ("db", 5)], [("", 6), ("db", 7)]⟩] [] false

example : exDump.wf = true ∧ (entries exDump).length = 7 ∧
    ((entries exDump).filter (Entry.readable exAuthz)).map (·.id) = [3, 4, 6] := by decide

/-- `wf` is satisfiable with a non-trivial map whose IDs differ from the service names -/
example : (Resp.nodeServices (some ("web", [("web-1", ("web", 1)), ("web", ("db", 2))])) false).wf = true := by decide

end CV.Filter
