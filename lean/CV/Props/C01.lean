/-
Property C01 — "Replicas that apply the same committed log hold the same state".

  Any two identically configured servers that apply the same sequence of committed write
  commands from the same starting state end with identical replicated data and return identical
  results for every command, whatever the wall-clock time, process or iteration order. No
  replicated value may depend on anything that is not carried in the command itself.

STATUS OF THIS ROUND (be careful what is claimed):

  PROVED NOW, for unbounded logs, arbitrary state/result types and an arbitrary handler table:
    * `replicas_agree`       — if every handler of the dispatch table is environment independent
                               (`CV.Fsm.EnvIndependent`, an explicit predicate), two replicas that
                               replay the same log under *different* environments (clock, map
                               seed, leader-local state — one arbitrary environment per log
                               position and replica) end in the same replicated state, with the
                               same per-entry outcomes and the same crash verdict.
    * `replicas_agree_inv`   — the same under the weaker, realistic hypothesis
                               `EnvIndependentOn Inv`: independence is only needed on states
                               satisfying an invariant that the handlers preserve.
    * the hypothesis is satisfiable (`env_independent_satisfiable`, examples) and necessary
      (`clock_stamp_breaks_agreement`, `map_order_breaks_agreement`: one handler that copies the
      clock / lets the map seed pick a value makes the two replicas differ).
    * the dispatch layer of `(*FSM).Apply`: unknown ⇒ panic, `IgnoreUnknownTypeFlag`, CE
      downgrade, state untouched unless a handler ran, a panic ends the replay.
    * FACTS regenerated from /repo on every run equal the hand-reviewed expectations below:
      the dispatch table, the message-type bytes, the allow-list of nondeterminism sites, the
      metrics timers and the list of map ranges (each entry annotated after reading the Go source).

  ROUND 2 — DISCHARGED for the command families of the shared store model `CV.Store` (register,
  deregister, KVS, session, tombstone reap, prepared-query rows, txn), section 4 of this file:
    * `apply_env_independent`, `replicas_agree_store`, `replay_repl_agree` — replicated tables and
      all results are independent of the server-local lock-delay map (and so of the clock that
      feeds it), by a function-by-function non-interference proof (`CV/Proofs/StoreEnv.lean`);
    * `store_family_obligation` + `replicas_agree_consul_store` — these seven handlers meet their
      `FamilyObligation` and are plugged into the dispatch-level theorem; the obligation of the
      other 29 message types stays an explicit hypothesis (`hrest`);
    * `rejected_leaves_state`, `refused_leaves_state` — an error (a refused CAS) commits nothing.
  ROUND 4 — section 5: 17 of the 36 message types are concrete handlers in
  `replicas_agree_consul_families` (models of C03/C04, C10, C13, C07 wrapped in `CV/FsmFamilies.lean`),
  with `concrete_rejected_leaves_state`; `vip_family_counterexample` keeps the virtual-IP rendering of
  `RegisterRequestType` as the family that does NOT meet the obligation (the known finding).
  ROUND 5 — `CV/Props/C01Keyed.lean` (second module of this property): ten of those 19 message types
  (ACL policy / role / binding rule / auth method set + delete, federation state, CA leaf) are modelled
  function by function in `CV/FsmKeyed.lean`, tied to the real FSM by this check's `keyedSection`, and
  plugged in by `replicas_agree_consul_families_keyed` (27 of 36 concrete).
  STILL OPEN: the 9 message types of `KeyedFamilies.opaqueTypes` (ACL bootstrap, six peering commands,
  resource operations, manual virtual IPs): tied to the property only by the replica-diff harness (three
  real FSMs, two processes, different clocks / map seeds / GOMAXPROCS / bind addresses; since round 5
  every row of every table is compared — earlier rounds compared the first row only) and by the facts.
-/
import CV.Fsm
import CV.FsmFacts
import CV.Proofs.Fsm
import CV.Generated.FactsFsm
import CV.Store.Env
import CV.Proofs.StoreEnv
import CV.FsmFamilies

namespace CV.Props.C01
open CV CV.Fsm

/-! ## 1. Replicas agree (generic in the handler table) -/

/-- **Replicas agree.** For every dispatch table whose handlers are environment independent,
    every CE-downgrade setting, every start state and every finite log: two replicas that see
    arbitrary, different environments at every log position compute the same trace — same
    replicated state, same outcome for every entry, same crash verdict. No bound on the log. -/
theorem replicas_agree {E S R : Type} (tbl : Table E S R) (hI : EnvIndependent tbl) (ced : Bool)
    (envs₁ envs₂ : Nat → E) (s : S) (log : List (Nat × Bytes)) :
    run tbl ced envs₁ s log = run tbl ced envs₂ s log :=
  runFrom_env_irrelevant tbl hI ced envs₁ envs₂ log 0 0 s

/-- The replicated state after a replay does not depend on the environments. -/
theorem replay_agree {E S R : Type} (tbl : Table E S R) (hI : EnvIndependent tbl) (ced : Bool)
    (envs₁ envs₂ : Nat → E) (s : S) (log : List (Nat × Bytes)) :
    replay tbl ced envs₁ s log = replay tbl ced envs₂ s log := by
  unfold replay; rw [replicas_agree tbl hI ced envs₁ envs₂ s log]

/-- **Replicas agree, relative to an invariant.** Handlers may be order/clock sensitive on junk
    states as long as they are environment independent on states satisfying `Inv`, `Inv` holds
    initially and every handler preserves it. (Shape needed by the real store: e.g.
    `AssignManualServiceVIPs` ranges over a Go map and is order-insensitive because a manual IP
    belongs to at most one service.) -/
theorem replicas_agree_inv {E S R : Type} (Inv : S → Prop) (tbl : Table E S R)
    (hI : EnvIndependentOn Inv tbl) (ced : Bool) (envs₁ envs₂ : Nat → E) (s : S) (hs : Inv s)
    (log : List (Nat × Bytes)) :
    run tbl ced envs₁ s log = run tbl ced envs₂ s log ∧ Inv (run tbl ced envs₁ s log).state :=
  ⟨runFrom_env_irrelevant_on Inv tbl hI ced envs₁ envs₂ log 0 0 s hs,
   runFrom_state_inv Inv tbl hI ced envs₁ log 0 s hs⟩

/-- `EnvIndependent` is the special case `Inv := True`. -/
theorem envIndependentOn_true {E S R : Type} (tbl : Table E S R) (hI : EnvIndependent tbl) :
    EnvIndependentOn (fun _ => True) tbl :=
  ⟨fun x hx e₁ e₂ s idx p _ => hI x hx e₁ e₂ s idx p, fun _ _ _ _ _ _ _ _ _ _ => trivial⟩

/-! ### The per-family obligation (to be discharged against `CV.Store` in a later round) -/

/-- What has to be shown for one command family (a sub-table: e.g. the KV handler, the eleven
    ACL handlers, …) against the common store invariant. -/
abbrev FamilyObligation {E S R : Type} (Inv : S → Prop) (family : Table E S R) : Prop :=
  EnvIndependentOn Inv family

/-- Families compose: the obligation for a concatenation of sub-tables follows from the
    obligations of the parts (the invariant is shared). -/
theorem envIndependentOn_append {E S R : Type} (Inv : S → Prop) (t₁ t₂ : Table E S R)
    (h₁ : FamilyObligation Inv t₁) (h₂ : FamilyObligation Inv t₂) : FamilyObligation Inv (t₁ ++ t₂) := by
  constructor
  · intro x hx
    rcases List.mem_append.mp hx with h | h
    · exact h₁.indep x h
    · exact h₂.indep x h
  · intro x hx
    rcases List.mem_append.mp hx with h | h
    · exact h₁.preserved x h
    · exact h₂.preserved x h

/-- A whole table assembled from family sub-tables satisfies the hypothesis of
    `replicas_agree_inv` as soon as every family does. -/
theorem envIndependentOn_of_families {E S R : Type} (Inv : S → Prop) (fams : List (Table E S R))
    (h : ∀ f ∈ fams, FamilyObligation Inv f) : EnvIndependentOn Inv fams.flatten := by
  induction fams with
  | nil => exact ⟨fun x hx => by simp at hx, fun x hx => by simp at hx⟩
  | cons f rest ih =>
    rw [List.flatten_cons]
    exact envIndependentOn_append Inv f rest.flatten (h f (by simp))
      (ih (fun g hg => h g (List.mem_cons_of_mem _ hg)))

/-- A handler that never looks at its environment meets the obligation trivially. -/
theorem liftPure_envIndependent {E S R : Type} (f : S → Nat → Bytes → Option (S × R)) :
    HandlerEnvIndependent (liftPure (E := E) f) :=
  fun _ _ _ _ _ => rfl

/-! ### Non-vacuity: the hypothesis is satisfiable, and necessary -/

/-- toy replicated state: a list of (raft index, payload length) rows -/
abbrev ToyState := List (Nat × Nat)

/-- slot 2 appends a row built from the command only; slot 3 rejects odd-length payloads with an
    error result and panics on the payload `[255]` -/
def toyTable : Table (Env Nat) ToyState String := [
  (2, liftPure fun s idx p => some (s ++ [(idx, p.length)], "ok")),
  (3, liftPure fun s idx p =>
        if p = [255] then none
        else if p.length % 2 = 1 then some (s, "err:odd") else some (s ++ [(idx, 0)], "ok"))]

/-- The hypothesis of `replicas_agree` holds for a non-trivial table. -/
theorem env_independent_satisfiable : EnvIndependent toyTable := by
  intro x hx
  simp only [toyTable, List.mem_cons, List.not_mem_nil, or_false] at hx
  rcases hx with h | h <;> subst h <;> exact liftPure_envIndependent _

def envA : Nat → Env Nat := fun pos => ⟨1000 + pos, 7, 0⟩
def envB : Nat → Env Nat := fun pos => ⟨99999 + 3 * pos, 42, pos⟩

/-- …and the conclusion is about a run that really does something: three entries handled (one of
    them rejected), one ignored, then a panic that kills both replicas at the same entry. -/
def toyLog : List (Nat × Bytes) :=
  [(10, [2, 9, 9]), (11, [3, 1]), (12, [3]), (13, [128 + 77]), (14, [77]), (15, [2])]

example :
    (run toyTable false envA [] toyLog).state = [(10, 2), (12, 0)] ∧
    (run toyTable false envA [] toyLog).results =
      [.handled 2 "ok", .handled 3 "err:odd", .handled 3 "ok", .ignored, .panicUnknown] ∧
    (run toyTable false envA [] toyLog).crashed = true ∧
    run toyTable false envA [] toyLog = run toyTable false envB [] toyLog := by
  decide

/-- a handler that stamps the wall clock into a row — the "breaking change" of DESIGN §5 C01 -/
def clockStampTable : Table (Env Nat) ToyState String :=
  [(2, fun env s _ _ => some (s ++ [(env.clock, 0)], "ok"))]

/-- **The hypothesis is necessary.** With a clock-stamping handler the two replicas end in
    different states on a one-entry log: the theorem is not true of arbitrary tables. -/
theorem clock_stamp_breaks_agreement :
    (run clockStampTable false envA [] [(10, [2])]).state ≠
    (run clockStampTable false envB [] [(10, [2])]).state := by
  decide

/-- a handler whose *result* is picked by the map seed (finding 12 of DESIGN §6 before its repair:
    `UnassignedFrom` in map order): states agree, results do not -/
def mapOrderTable : Table (Env Nat) ToyState String :=
  [(43, fun env s _ _ => some (s, if env.mapSeed % 2 = 0 then "a,b" else "b,a"))]

theorem map_order_breaks_agreement :
    (run mapOrderTable false envA [] [(10, [43])]).state = (run mapOrderTable false envB [] [(10, [43])]).state ∧
    (run mapOrderTable false envA [] [(10, [43])]).results ≠ (run mapOrderTable false envB [] [(10, [43])]).results := by
  decide

/-- the shape of the defect found in `state.addIPOffset` (virtual IP range chosen by the address
    family of the server's own bind address, which lives in the server-local part of the
    environment): `loc = 0` stands for an IPv4-bound server, anything else for IPv6 -/
def bindAddrTable : Table (Env Nat) ToyState String :=
  [(0, fun env s idx _ => some (s ++ [(idx, if env.loc = 0 then 240 else 2000)], "ok"))]

theorem bind_address_breaks_agreement :
    (run bindAddrTable false envA [] [(10, [0]), (11, [0])]).state ≠
    (run bindAddrTable false envB [] [(10, [0]), (11, [0])]).state := by
  decide

/-- relative hypothesis, non-trivially: the handler is order sensitive on states with a
    duplicate row but the invariant `Nodup` (preserved: it only inserts absent rows) excludes them -/
def invTable : Table (Env Nat) ToyState String :=
  [(2, fun env s idx _ =>
        if s.Nodup then (if (idx, 0) ∈ s then some (s, "dup") else some ((idx, 0) :: s, "ok"))
        else some (s, if env.mapSeed % 2 = 0 then "x" else "y"))]

theorem inv_obligation_satisfiable : FamilyObligation (fun s : ToyState => s.Nodup) invTable := by
  constructor
  · intro x hx e₁ e₂ s idx p hs
    simp only [invTable, List.mem_cons, List.not_mem_nil, or_false] at hx
    subst hx
    simp [hs]
  · intro x hx e s s' r idx p hs hh
    simp only [invTable, List.mem_cons, List.not_mem_nil, or_false] at hx
    subst hx
    simp only [hs, if_true] at hh
    split at hh
    · simp only [Option.some.injEq, Prod.mk.injEq] at hh; rw [← hh.1]; exact hs
    · simp only [Option.some.injEq, Prod.mk.injEq] at hh
      rw [← hh.1]; exact List.nodup_cons.mpr ⟨by assumption, hs⟩

/-! ## 2. The dispatch layer of `(*FSM).Apply` -/

/-- Unless a handler ran to completion the replicated state is untouched: unknown types
    (ignored or fatal), empty data and handler panics all leave `s` as it was. -/
theorem dispatch_unhandled_keeps_state {E S R : Type} (tbl : Table E S R) (ced : Bool) (env : E) (s : S)
    (idx : Nat) (buf : Bytes) (h : ∀ slot r, (dispatch tbl ced env s idx buf).2 ≠ .handled slot r) :
    (dispatch tbl ced env s idx buf).1 = s := by
  cases buf with
  | nil => rfl
  | cons b0 p =>
    rw [dispatch_cons] at h ⊢
    cases hl : tbl.lookup (splitType b0).1 with
    | none => simp only; split; rfl; split <;> rfl
    | some hd =>
      simp only [hl] at h
      cases hh : hd env s idx p with
      | none => simp only [hh]
      | some sr => simp only [hh] at h; exact absurd rfl (h _ _)

/-- A handler only ever runs from a registered slot, and that slot is the type byte with the
    ignore flag stripped. -/
theorem handled_slot_registered {E S R : Type} (tbl : Table E S R) (ced : Bool) (env : E) (s : S)
    (idx b0 : Nat) (p : Bytes) (slot : Nat) (r : R)
    (h : (dispatch tbl ced env s idx (b0 :: p)).2 = .handled slot r) :
    slot ∈ slots tbl ∧ slot = (splitType b0).1 := by
  rw [dispatch_cons] at h
  cases hl : tbl.lookup (splitType b0).1 with
  | none =>
    simp only [hl] at h
    split at h
    · cases h
    · split at h <;> cases h
  | some hd =>
    simp only [hl] at h
    cases hh : hd env s idx p with
    | none => simp only [hh] at h; cases h
    | some sr =>
      simp only [hh] at h
      injection h with h1 h2
      subst h1
      exact ⟨List.mem_map.mpr ⟨_, mem_of_lookup tbl _ _ hl, rfl⟩, rfl⟩

/-- For a registered type the `IgnoreUnknownTypeFlag` bit changes nothing: `t|128` is dispatched
    exactly like `t` (the flag only matters when the type is unknown). -/
theorem ignore_flag_irrelevant_for_registered {E S R : Type} (tbl : Table E S R) (ced : Bool) (env : E)
    (s : S) (idx t : Nat) (p : Bytes) (ht : t < ignoreFlag) (hreg : (tbl.lookup t).isSome) :
    dispatch tbl ced env s idx ((t + ignoreFlag) :: p) = dispatch tbl ced env s idx (t :: p) := by
  have h1 : splitType (t + ignoreFlag) = (t, true) := by
    simp [splitType]
  have h2 : splitType t = (t, false) := by
    simp [splitType]; omega
  rw [dispatch_cons, dispatch_cons, h1, h2]
  cases hl : tbl.lookup t with
  | none => simp [hl] at hreg
  | some hd => rfl

/-- Unknown type without the flag (and not an enterprise type under CE downgrade): the server
    panics — "crash so that our state doesn't diverge" — and the state is untouched. -/
theorem unknown_type_panics {E S R : Type} (tbl : Table E S R) (ced : Bool) (env : E) (s : S)
    (idx t : Nat) (p : Bytes) (ht : t < ignoreFlag) (hun : tbl.lookup t = none)
    (hced : ced = false ∨ t < entFloor) :
    dispatch tbl ced env s idx (t :: p) = (s, .panicUnknown) := by
  have h2 : splitType t = (t, false) := by
    simp [splitType]; omega
  rw [dispatch_cons, h2]
  simp only [hun]
  rcases hced with h | h
  · subst h; simp
  · have : ¬ entFloor ≤ t := by omega
    simp [this]

/-- Unknown type with the flag set: ignored, result `nil`, state untouched. -/
theorem unknown_type_ignored_with_flag {E S R : Type} (tbl : Table E S R) (ced : Bool) (env : E) (s : S)
    (idx t : Nat) (p : Bytes) (hun : tbl.lookup t = none) :
    dispatch tbl ced env s idx ((t + ignoreFlag) :: p) = (s, .ignored) := by
  have h1 : splitType (t + ignoreFlag) = (t, true) := by
    simp [splitType]
  rw [dispatch_cons, h1]
  simp [hun]

/-- A panic ends the replay: a surviving replica has no panic among its outcomes; a dead one has
    exactly one, and it is the last outcome. -/
theorem crash_stops_replay {E S R : Type} (tbl : Table E S R) (ced : Bool) (envs : Nat → E) (s : S)
    (log : List (Nat × Bytes)) :
    ((run tbl ced envs s log).crashed = false →
        (run tbl ced envs s log).results.length = log.length ∧
        ∀ o ∈ (run tbl ced envs s log).results, o.isPanic = false) ∧
    ((run tbl ced envs s log).crashed = true →
        (run tbl ced envs s log).results.length ≤ log.length ∧
        ∃ pre last, (run tbl ced envs s log).results = pre ++ [last] ∧ last.isPanic = true ∧
          ∀ o ∈ pre, o.isPanic = false) := by
  have hl := runFrom_results_length tbl ced envs log 0 s
  have hp := runFrom_panics tbl ced envs log 0 s
  exact ⟨fun hc => ⟨hl.2 hc, hp.1 hc⟩, fun hc => ⟨hl.1, hp.2 hc⟩⟩

/-- Replaying a log in two instalments (a follower that catches up later, a restart from the
    same state) gives the same trace as replaying it at once. -/
theorem replay_in_instalments {E S R : Type} (tbl : Table E S R) (ced : Bool) (envs : Nat → E) (s : S)
    (l₁ l₂ : List (Nat × Bytes)) (alive : (run tbl ced envs s l₁).crashed = false) :
    run tbl ced envs s (l₁ ++ l₂) =
      ⟨(runFrom tbl ced envs l₁.length (run tbl ced envs s l₁).state l₂).state,
       (run tbl ced envs s l₁).results ++ (runFrom tbl ced envs l₁.length (run tbl ced envs s l₁).state l₂).results,
       (runFrom tbl ced envs l₁.length (run tbl ced envs s l₁).state l₂).crashed⟩ := by
  unfold run at alive ⊢
  rw [runFrom_append]
  simp [alive]

/-! ## 3. Facts regenerated from /repo (go/factgen) against hand-reviewed expectations -/

open CV.Facts.Fsm

/-- The `registerCommand` calls of `fsm/commands_ce.go`, in source order: message type constant ↦
    handler method. 36 entries (DESIGN says 37: it counted the `init` itself). -/
def expectedDispatch : List (String × String) := [
  ("RegisterRequestType", "applyRegister"),
  ("DeregisterRequestType", "applyDeregister"),
  ("KVSRequestType", "applyKVSOperation"),
  ("SessionRequestType", "applySessionOperation"),
  ("DeprecatedACLRequestType", "deprecatedApplyACLOperation"),
  ("TombstoneRequestType", "applyTombstoneOperation"),
  ("CoordinateBatchUpdateType", "applyCoordinateBatchUpdate"),
  ("PreparedQueryRequestType", "applyPreparedQueryOperation"),
  ("TxnRequestType", "applyTxn"),
  ("AutopilotRequestType", "applyAutopilotUpdate"),
  ("FeatureGateRequestType", "applyFeatureGateUpdate"),
  ("IntentionRequestType", "applyIntentionOperation"),
  ("ConnectCARequestType", "applyConnectCAOperation"),
  ("ACLTokenSetRequestType", "applyACLTokenSetOperation"),
  ("ACLTokenDeleteRequestType", "applyACLTokenDeleteOperation"),
  ("ACLBootstrapRequestType", "applyACLTokenBootstrap"),
  ("ACLPolicySetRequestType", "applyACLPolicySetOperation"),
  ("ACLPolicyDeleteRequestType", "applyACLPolicyDeleteOperation"),
  ("ConnectCALeafRequestType", "applyConnectCALeafOperation"),
  ("ConfigEntryRequestType", "applyConfigEntryOperation"),
  ("ACLRoleSetRequestType", "applyACLRoleSetOperation"),
  ("ACLRoleDeleteRequestType", "applyACLRoleDeleteOperation"),
  ("ACLBindingRuleSetRequestType", "applyACLBindingRuleSetOperation"),
  ("ACLBindingRuleDeleteRequestType", "applyACLBindingRuleDeleteOperation"),
  ("ACLAuthMethodSetRequestType", "applyACLAuthMethodSetOperation"),
  ("ACLAuthMethodDeleteRequestType", "applyACLAuthMethodDeleteOperation"),
  ("FederationStateRequestType", "applyFederationStateOperation"),
  ("SystemMetadataRequestType", "applySystemMetadataOperation"),
  ("PeeringWriteType", "applyPeeringWrite"),
  ("PeeringDeleteType", "applyPeeringDelete"),
  ("PeeringTerminateByIDType", "applyPeeringTerminate"),
  ("PeeringTrustBundleWriteType", "applyPeeringTrustBundleWrite"),
  ("PeeringTrustBundleDeleteType", "applyPeeringTrustBundleDelete"),
  ("PeeringSecretsWriteType", "applyPeeringSecretsWrite"),
  ("ResourceOperationType", "applyResourceOperation"),
  ("UpdateVirtualIPRequestType", "applyManualVirtualIPs")]

/-- The dispatch table of the source is the reviewed one (a new, removed or re-routed command
    breaks this obligation). -/
theorem dispatch_table_audited : registeredCommands = expectedDispatch := rfl

/-- (byte, constant, handler) as the model's engine uses it — the byte values come from the
    constant block of `agent/structs/structs.go`. -/
def expectedSlots : List (Nat × String × String) := [
  (0, "RegisterRequestType", "applyRegister"),
  (1, "DeregisterRequestType", "applyDeregister"),
  (2, "KVSRequestType", "applyKVSOperation"),
  (3, "SessionRequestType", "applySessionOperation"),
  (4, "DeprecatedACLRequestType", "deprecatedApplyACLOperation"),
  (5, "TombstoneRequestType", "applyTombstoneOperation"),
  (6, "CoordinateBatchUpdateType", "applyCoordinateBatchUpdate"),
  (7, "PreparedQueryRequestType", "applyPreparedQueryOperation"),
  (8, "TxnRequestType", "applyTxn"),
  (9, "AutopilotRequestType", "applyAutopilotUpdate"),
  (45, "FeatureGateRequestType", "applyFeatureGateUpdate"),
  (12, "IntentionRequestType", "applyIntentionOperation"),
  (13, "ConnectCARequestType", "applyConnectCAOperation"),
  (17, "ACLTokenSetRequestType", "applyACLTokenSetOperation"),
  (18, "ACLTokenDeleteRequestType", "applyACLTokenDeleteOperation"),
  (11, "ACLBootstrapRequestType", "applyACLTokenBootstrap"),
  (19, "ACLPolicySetRequestType", "applyACLPolicySetOperation"),
  (20, "ACLPolicyDeleteRequestType", "applyACLPolicyDeleteOperation"),
  (21, "ConnectCALeafRequestType", "applyConnectCALeafOperation"),
  (22, "ConfigEntryRequestType", "applyConfigEntryOperation"),
  (23, "ACLRoleSetRequestType", "applyACLRoleSetOperation"),
  (24, "ACLRoleDeleteRequestType", "applyACLRoleDeleteOperation"),
  (25, "ACLBindingRuleSetRequestType", "applyACLBindingRuleSetOperation"),
  (26, "ACLBindingRuleDeleteRequestType", "applyACLBindingRuleDeleteOperation"),
  (27, "ACLAuthMethodSetRequestType", "applyACLAuthMethodSetOperation"),
  (28, "ACLAuthMethodDeleteRequestType", "applyACLAuthMethodDeleteOperation"),
  (30, "FederationStateRequestType", "applyFederationStateOperation"),
  (31, "SystemMetadataRequestType", "applySystemMetadataOperation"),
  (35, "PeeringWriteType", "applyPeeringWrite"),
  (36, "PeeringDeleteType", "applyPeeringDelete"),
  (37, "PeeringTerminateByIDType", "applyPeeringTerminate"),
  (38, "PeeringTrustBundleWriteType", "applyPeeringTrustBundleWrite"),
  (39, "PeeringTrustBundleDeleteType", "applyPeeringTrustBundleDelete"),
  (40, "PeeringSecretsWriteType", "applyPeeringSecretsWrite"),
  (42, "ResourceOperationType", "applyResourceOperation"),
  (43, "UpdateVirtualIPRequestType", "applyManualVirtualIPs")]

/-- Every registered constant resolves to a byte, and the resulting slot table is the reviewed one. -/
theorem slot_table_audited : Consul.slotTable = expectedSlots := by decide

/-- No registered command is dropped when joining with the constant block. -/
theorem slot_table_total : Consul.slotTable.length = registeredCommands.length := by
  rw [slot_table_audited, dispatch_table_audited]; rfl

/-- Slots are pairwise distinct (Go: `registerCommand` panics on a duplicate), all below 64 — so
    the CE-downgrade branch can never shadow a registered command — hence below the ignore flag,
    whose value in the source is the one the model uses. -/
theorem slots_wellformed :
    (Consul.slotTable.map (·.1)).Nodup ∧
    (∀ b ∈ Consul.slotTable.map (·.1), b < entFloor ∧ b < ignoreFlag) ∧
    messageTypes.lookup "IgnoreUnknownTypeFlag" = some ignoreFlag := by
  rw [slot_table_audited]; decide

/-- Every registered message type belongs to a command family the harness generates
    (`dispatch_covered` of DESIGN §5 C01; in this round all families are *opaque* for the theorem
    and covered by the replica diff — none is modelled yet). -/
theorem dispatch_covered : ∀ m ∈ registeredCommands, (Consul.families.lookup m.1).isSome := by decide

/-- …and no family entry is stale. -/
theorem families_registered : ∀ f ∈ Consul.families, (registeredCommands.lookup f.1).isSome := by decide

/-- the engine's table has exactly the reviewed slots -/
theorem consul_table_slots : slots Consul.table = expectedSlots.map (·.1) := by
  unfold slots Consul.table
  rw [slot_table_audited]; rfl

/-- Allow-list of clock / randomness / environment / map-key-order reads in `agent/consul/fsm`
    and `agent/consul/state` (other than `time.Now()` handed straight to `metrics.MeasureSince*`).
    REVIEWED in the Go source at the pinned commit; where each value flows:

    * fsm.go `FSM.Snapshot` time.Now / time.Since — duration of snapshot creation, logged
      (`c.logger.Info("snapshot created", "duration", …)`); not on the apply path.
    * catalog.go `Store.AssignManualServiceVIPs` maps.SliceOfKeys(modifiedEntries) — the
      `UnassignedFrom` part of the command RESULT; since `/repo` commit 51ebf30 it is sorted
      (`sort.Slice … String()`) before it is returned. (This was finding 12 of DESIGN §6.)
    * config_entry.go `listDiscoveryChainNamesTxn` maps.SliceOfKeys(seen) — sorted
      (`structs.ServiceList(results).Sort()`) before use; reached from the write path through
      config-entry validation (`validateProposedConfigEntryInServiceGraph`, exported-services).
    * delay_ce.go `Delay.SetExpiration` time.AfterFunc — leader-local lock-delay map: written by
      `deleteSessionTxn` (in a `tx.Defer`, i.e. only on commit), read only by `KVSLockDelay`,
      whose single caller is `kvsPreApply` in `kvs_endpoint.go` — on the leader, *before* the
      command is appended to the log. `KVSLock` itself ignores it (see the comment on `Delay`).
    * peering.go `ExportedServicesForAllPeersByName`, `exportedServicesForPeerTxn`,
      `TrustBundleListByService` maps.SliceOfKeys — read-only queries (ReadTxn), each sorted before use.
    * peering.go `listServicesExportedToAnyPeerByConfigEntry` maps.SliceOfKeys(found) — sorted
      before use; reached from config-entry validation (write path) and from queries.
    * session.go `Store.deleteSessionTxn` time.Now — `now` is passed only to
      `s.lockDelay.SetExpiration(key, now, delay, …)` (leader-local, see above).
    * tombstone_gc.go `TombstoneGC.Hint` time.AfterFunc / time.Until, `nextExpires` time.Now —
      leader-local GC timers: `Graveyard.InsertTxn` calls `gc.Hint(idx)` in a `tx.Defer`; the
      timer only ever produces a value on `ExpireCh`, which the *leader* turns into a
      `TombstoneRequestType` command carrying the reap index — so the clock reaches replicated
      state only through a command.
    * catalog.go `addIPOffset` netutil.IsDualStack — **FINDING (reproduced by the harness, see
      `envSection`)**: called by `assignServiceVirtualIP` inside the register / txn /
      terminating-gateway write path. It reads the process-global `netutil.cachedBindAddr` (THIS
      server's `bind_addr`, published by `agent.Start` only after `consul.NewServer` has started
      Raft) and, while that is still unset, performs an HTTP GET to the local agent
      (`/v1/agent/self`) from inside the FSM apply. The address family decides whether the
      service's `consul-virtual` tagged address — a replicated `services` row — is drawn from the
      IPv4 or the IPv6 range, and a failing HTTP call makes the replica reject a command the others
      accepted. Kept in the list (so that the fact obligation keeps pinning the code as it is), but
      it is NOT harmless: harness signatures `env:bind-address-family:services:RegisterRequestType`
      and `env:bind-address-unset:result:RegisterRequestType`. In the terms of the model below:
      the handler for `RegisterRequestType` is not `HandlerEnvIndependent` when `Env.loc` contains
      the server's bind address (cf. `bind_address_breaks_agreement`).
    Apart from the last one, none of these flows into a memdb row or a command result unsorted. -/
def nondetAllowlist : List (String × String × String) := [
  ("agent/consul/fsm/fsm.go", "FSM.Snapshot", "time.Since"),
  ("agent/consul/fsm/fsm.go", "FSM.Snapshot", "time.Now"),
  ("agent/consul/state/catalog.go", "Store.AssignManualServiceVIPs", "maps.SliceOfKeys"),
  ("agent/consul/state/catalog.go", "addIPOffset", "netutil.IsDualStack"),
  ("agent/consul/state/config_entry.go", "listDiscoveryChainNamesTxn", "maps.SliceOfKeys"),
  ("agent/consul/state/delay_ce.go", "Delay.SetExpiration", "time.AfterFunc"),
  ("agent/consul/state/peering.go", "Store.ExportedServicesForAllPeersByName", "maps.SliceOfKeys"),
  ("agent/consul/state/peering.go", "exportedServicesForPeerTxn", "maps.SliceOfKeys"),
  ("agent/consul/state/peering.go", "listServicesExportedToAnyPeerByConfigEntry", "maps.SliceOfKeys"),
  ("agent/consul/state/peering.go", "Store.TrustBundleListByService", "maps.SliceOfKeys"),
  ("agent/consul/state/session.go", "Store.deleteSessionTxn", "time.Now"),
  ("agent/consul/state/tombstone_gc.go", "TombstoneGC.Hint", "time.AfterFunc"),
  ("agent/consul/state/tombstone_gc.go", "TombstoneGC.Hint", "time.Until"),
  ("agent/consul/state/tombstone_gc.go", "TombstoneGC.nextExpires", "time.Now")]

/-- The nondeterminism sites of the source are exactly the reviewed allow-list: a new
    `time.Now()`, `rand.*`, `uuid.*`, `os.Getenv`, `maps.Keys` … in an apply path breaks this. -/
theorem nondet_sites_audited : nondetSites = nondetAllowlist := rfl

/-- `time.Now()` handed directly to `metrics.MeasureSince*` (it can only reach the metrics sink):
    (function, number of such timers). `applyResourceOperation`, `applyManualVirtualIPs` and
    `deprecatedApplyACLOperation` have none. -/
def metricsTimerCounts : List (String × Nat) := [
  ("FSM.applyRegister", 1), ("FSM.applyDeregister", 1), ("FSM.applyKVSOperation", 1),
  ("FSM.applySessionOperation", 1), ("FSM.applyTombstoneOperation", 1),
  ("FSM.applyCoordinateBatchUpdate", 1), ("FSM.applyPreparedQueryOperation", 1), ("FSM.applyTxn", 1),
  ("FSM.applyAutopilotUpdate", 1), ("FSM.applyFeatureGateUpdate", 1), ("FSM.applyIntentionOperation", 2),
  ("FSM.applyConnectCAOperation", 2), ("FSM.applyConnectCALeafOperation", 1),
  ("FSM.applyACLTokenSetOperation", 1), ("FSM.applyACLTokenDeleteOperation", 1),
  ("FSM.applyACLTokenBootstrap", 1), ("FSM.applyACLPolicySetOperation", 1),
  ("FSM.applyACLPolicyDeleteOperation", 1), ("FSM.applyConfigEntryOperation", 5),
  ("FSM.applyACLRoleSetOperation", 1), ("FSM.applyACLRoleDeleteOperation", 1),
  ("FSM.applyACLBindingRuleSetOperation", 1), ("FSM.applyACLBindingRuleDeleteOperation", 1),
  ("FSM.applyACLAuthMethodSetOperation", 1), ("FSM.applyACLAuthMethodDeleteOperation", 1),
  ("FSM.applyFederationStateOperation", 2), ("FSM.applySystemMetadataOperation", 2),
  ("FSM.applyPeeringWrite", 1), ("FSM.applyPeeringDelete", 1), ("FSM.applyPeeringSecretsWrite", 1),
  ("FSM.applyPeeringTerminate", 1), ("FSM.applyPeeringTrustBundleWrite", 1),
  ("FSM.applyPeeringTrustBundleDelete", 1), ("snapshot.Persist", 1)]

/-- run-length encoding of the (function) column of the metrics timers -/
def rle : List String → List (String × Nat)
  | [] => []
  | x :: xs =>
    match rle xs with
    | (y, n) :: rest => if x = y then (y, n + 1) :: rest else (x, 1) :: (y, n) :: rest
    | [] => [(x, 1)]

/-- All metrics timers are `time.Now()` in `fsm/commands_ce.go` handlers (plus the snapshot
    persister), with the reviewed multiplicities. -/
theorem metrics_timers_audited :
    rle (metricsTimers.map (·.2.1)) = metricsTimerCounts ∧
    metricsTimers.all (fun x => x.2.2 == "time.Now" &&
      (x.1 == "agent/consul/fsm/commands_ce.go" || x.1 == "agent/consul/fsm/snapshot.go")) = true := by
  decide

/-- `for … range m` over a Go map declared in the same function, in `agent/consul/fsm` and
    `agent/consul/state`. REVIEWED in the Go source; classification:

    WRITE PATH (inside a command's transaction):
    * catalog.go `Store.AssignManualServiceVIPs` assignedIPs — for each newly assigned IP, strip
      it (and every other newly assigned IP) from the *first* other service holding it. Order
      insensitive under the invariant "a manual IP belongs to at most one service", which the
      function itself maintains (it is the only writer of `ManualIPs` besides restore); the
      written `ModifyIndex` is the command's index in every order. Needs `EnvIndependentOn`.
    * catalog.go `updateMeshTopology` oldUpstreams — deletes the topology rows of upstreams that
      disappeared and bumps one index row to `idx` (idempotent max): commutative.
    * connect_ca.go `caRootSetCASAppliedTxn` lastByID (added by /repo commit 68fde22) — counts the
      active roots among the last-listed root per ID: a commutative count, result is a number
      compared with 1.
    * usage.go `updateServiceNameUsage` serviceNameChanges, `writeUsageDeltas` usageDeltas —
      per-key counters `+= delta` / one row per key written with the same `idx`: commutative.
    * config_entry.go `validateProposedConfigEntryInServiceGraph` checkChains — VALIDATION of a
      config-entry write: compiles every affected discovery chain and returns the FIRST error.
      Accept/reject never depended on the order, but WHICH error text was returned did (two
      affected chains failing): the command's result differed between replicas. FOUND by this
      harness (signature `replica:error-text:validateProposedConfigEntryInServiceGraph`) and
      REPAIRED in /repo commit a54f28b: the range now only collects the ids, which are sorted
      before the chains are compiled. (Still unsorted in the same function, outside the
      extractor's view: `for id, targetID := range newSpiffeIDs` picks which new target a
      "cannot introduce new discovery chain targets" error names — peer-exported L4 chains only.)
    * config_entry.go `validateJWTProvider` referencedProviderNames — multierror assembled in map
      order: same class (error TEXT order), FOUND by this harness
      (`replica:error-text:validateJWTProvider`), REPAIRED by the same commit (names sorted first).
    * config_entry.go `sortedServiceIDs` m — collects the keys of a map and sorts them before
      returning: the helper of the REPAIR f171f7a of `validateChainIsPeerExportSafe`, whose three
      ranges over the fields `chainEntries.Routers/.Splitters/.Resolvers` (maps reached through a
      struct field, outside this extractor's view) returned the first complaint in map order —
      error TEXT of a rejected config-entry write differed per replica, FOUND by this harness
      (`replica:error-text:validateChainIsPeerExportSafe`).
    * config_entry.go `listDiscoveryChainNamesTxn` overrides — set insert/delete per override key;
      every caller passes at most one override entry, result sorted.
    * config_entry.go `readDiscoveryChainConfigEntriesTxn` todoPeers, `anyKey` m — worklist
      fixpoint into set-valued results (maps keyed by service id / peer name): order insensitive;
      errors can only come from memdb itself.
    * config_entry_exported_services.go / config_entry_imported_services.go `getUnique…` — build
      sets, results sorted by the callers (read path: RPC `ExportedServices` / `ImportedServices`).
    READ PATH ONLY (queries on a read transaction; not part of applying a command):
    * catalog.go `NodesByMeta`, `ServicesByNodeMeta` (filters: picks any one meta filter for the
      index scan, then filters by all), `serviceListTxn` unique, `CheckIngressServiceNodes` names,
      `checkServiceNodesTxn` serviceNames, `combinedServiceNodesTxn` dedupMap;
      config_entry.go `discoveryChainSourcesTxn` seenLink, `ReadResolvedServiceConfigEntries`
      seenUpstreams; intention.go `intentionTopologyTxn` services; peering.go
      `exportedServicesForPeerTxn` exportedServices / exportedConnectServices.
    NOT REPLICATED:
    * catalog_events.go `ServiceHealthEventsFromChanges` nodeChanges / serviceChanges /
      termGatewayChanges — builds stream events on commit (order of events inside one batch; C11).
    * tombstone_gc.go `TombstoneGC.SetEnabled` t.expires — stops leader-local timers.

    Blind spot (stated, not hidden): the extractor is syntactic and only sees maps declared in the
    same function (`make(map…)`, literal, typed var/param); ranges over struct-field maps or maps
    returned by calls are not listed. The replica-diff harness is the backstop. -/
def mapRangeAllowlist : List (String × String × String) := [
  ("agent/consul/state/catalog.go", "Store.NodesByMeta", "filters"),
  ("agent/consul/state/catalog.go", "Store.AssignManualServiceVIPs", "assignedIPs"),
  ("agent/consul/state/catalog.go", "serviceListTxn", "unique"),
  ("agent/consul/state/catalog.go", "Store.ServicesByNodeMeta", "filters"),
  ("agent/consul/state/catalog.go", "Store.CheckIngressServiceNodes", "names"),
  ("agent/consul/state/catalog.go", "checkServiceNodesTxn", "serviceNames"),
  ("agent/consul/state/catalog.go", "Store.combinedServiceNodesTxn", "dedupMap"),
  ("agent/consul/state/catalog.go", "updateMeshTopology", "oldUpstreams"),
  ("agent/consul/state/catalog_events.go", "ServiceHealthEventsFromChanges", "nodeChanges"),
  ("agent/consul/state/catalog_events.go", "ServiceHealthEventsFromChanges", "serviceChanges"),
  ("agent/consul/state/catalog_events.go", "ServiceHealthEventsFromChanges", "termGatewayChanges"),
  ("agent/consul/state/config_entry.go", "listDiscoveryChainNamesTxn", "overrides"),
  ("agent/consul/state/config_entry.go", "validateJWTProvider", "referencedProviderNames"),
  ("agent/consul/state/config_entry.go", "Store.discoveryChainSourcesTxn", "seenLink"),
  ("agent/consul/state/config_entry.go", "validateProposedConfigEntryInServiceGraph", "checkChains"),
  ("agent/consul/state/config_entry.go", "sortedServiceIDs", "m"),
  ("agent/consul/state/config_entry.go", "Store.ReadResolvedServiceConfigEntries", "seenUpstreams"),
  ("agent/consul/state/config_entry.go", "readDiscoveryChainConfigEntriesTxn", "todoPeers"),
  ("agent/consul/state/config_entry.go", "anyKey", "m"),
  ("agent/consul/state/config_entry_exported_services.go", "getUniqueExportedServices", "exportedServicesMapper"),
  ("agent/consul/state/config_entry_exported_services.go", "getUniqueExportedServices", "cons"),
  ("agent/consul/state/config_entry_imported_services.go", "getUniqueImportedServices", "importedServicesMapper"),
  ("agent/consul/state/config_entry_imported_services.go", "getUniqueImportedServices", "peers"),
  ("agent/consul/state/connect_ca.go", "caRootSetCASAppliedTxn", "lastByID"),
  ("agent/consul/state/intention.go", "Store.intentionTopologyTxn", "services"),
  ("agent/consul/state/peering.go", "exportedServicesForPeerTxn", "exportedServices"),
  ("agent/consul/state/peering.go", "exportedServicesForPeerTxn", "exportedConnectServices"),
  ("agent/consul/state/tombstone_gc.go", "TombstoneGC.SetEnabled", "t.expires"),
  ("agent/consul/state/usage.go", "updateServiceNameUsage", "serviceNameChanges"),
  ("agent/consul/state/usage.go", "writeUsageDeltas", "usageDeltas")]

/-- The map ranges of the source are exactly the reviewed list. -/
theorem map_ranges_audited : mapRanges = mapRangeAllowlist := rfl

/-- Functions of `agent/consul/fsm`, `agent/consul/state` and `agent/structs` in which a range over a
    local Go map appends to a slice that nothing in the function sorts afterwards: whoever consumes
    that slice sees the map's iteration order. REVIEWED:
    * state: `serviceListTxn`, `CheckIngressServiceNodes`, `combinedServiceNodesTxn`,
      `discoveryChainSourcesTxn`, `getUniqueExportedServices`, `intentionTopologyTxn` — results of
      read-only queries (catalog / topology / exported-services RPCs); `ServiceHealthEventsFromChanges`
      — stream events built at commit (C11). None is consumed by a write.
    * structs: `ACLServiceIdentities.Deduplicate` — returns the identities in MAP ORDER. Today its only
      callers are the ACL endpoint and the auth-method binder, i.e. the leader BEFORE the command is
      appended to the log, so the order travels inside the command. A call from an apply-path function
      would put a map-ordered slice (and the token hash computed from it) into replicated rows: that is
      the seeded regression C01-3, and what `unsorted_producer_calls_audited` pins. -/
def unsortedMapAppendAllowlist : List (String × String × String × String) := [
  ("agent/consul/state/catalog.go", "serviceListTxn", "unique", "results"),
  ("agent/consul/state/catalog.go", "Store.CheckIngressServiceNodes", "names", "results"),
  ("agent/consul/state/catalog.go", "Store.combinedServiceNodesTxn", "dedupMap", "resp"),
  ("agent/consul/state/catalog_events.go", "ServiceHealthEventsFromChanges", "nodeChanges", "events"),
  ("agent/consul/state/catalog_events.go", "ServiceHealthEventsFromChanges", "serviceChanges", "events"),
  ("agent/consul/state/catalog_events.go", "ServiceHealthEventsFromChanges", "termGatewayChanges", "events"),
  ("agent/consul/state/config_entry.go", "Store.discoveryChainSourcesTxn", "seenLink", "resp"),
  ("agent/consul/state/config_entry_exported_services.go", "getUniqueExportedServices", "cons", "consumers"),
  ("agent/consul/state/intention.go", "Store.intentionTopologyTxn", "services", "result"),
  ("agent/structs/acl.go", "ACLServiceIdentities.Deduplicate", "unique", "results")]

theorem unsorted_map_appends_audited : unsortedMapAppends = unsortedMapAppendAllowlist := rfl

/-- Calls, from `agent/consul/fsm` and `agent/consul/state`, of anything NAMED like one of the functions
    above (syntactic: the receiver type is unknown, so every `.Deduplicate(…)`, `serviceListTxn(…)`, …
    counts). REVIEWED: all nine are read-path callers (`Store.ServiceList`, `Store.ServiceTopology`,
    `downstreamsForServiceTxn`, `resolvedExportedServicesTxn`, `Store.IntentionTopology`,
    `Store.TrustBundleListByService`). A new entry — e.g. `aclTokenSetTxn` calling
    `token.ServiceIdentities.Deduplicate` — means an apply-path function started to consume a slice
    that may be in map order and has to be reviewed. -/
def unsortedProducerCallAllowlist : List (String × String × String) := [
  ("agent/consul/state/catalog.go", "Store.ServiceList", "serviceListTxn"),
  ("agent/consul/state/catalog.go", "Store.ServiceTopology", "s.intentionTopologyTxn"),
  ("agent/consul/state/catalog.go", "Store.ServiceTopology", "s.combinedServiceNodesTxn"),
  ("agent/consul/state/catalog.go", "Store.ServiceTopology", "s.intentionTopologyTxn"),
  ("agent/consul/state/catalog.go", "Store.ServiceTopology", "s.combinedServiceNodesTxn"),
  ("agent/consul/state/catalog.go", "Store.downstreamsForServiceTxn", "s.discoveryChainSourcesTxn"),
  ("agent/consul/state/config_entry_exported_services.go", "resolvedExportedServicesTxn", "getUniqueExportedServices"),
  ("agent/consul/state/intention.go", "Store.IntentionTopology", "s.intentionTopologyTxn"),
  ("agent/consul/state/peering.go", "Store.TrustBundleListByService", "s.discoveryChainSourcesTxn")]

theorem unsorted_producer_calls_audited : unsortedProducerCalls = unsortedProducerCallAllowlist := rfl

/-- Ranges over maps that are NOT declared in the ranging function — struct fields, results of
    map-returning calls, named map types, aliases of these — in `agent/consul/fsm` and
    `agent/consul/state`. The extractor is name based (pass 1 collects map-typed struct fields, named map
    types and map-returning functions over fsm, state, structs, configentry, acl, pbpeering; pass 2
    flags `range x.F`, `range f()`, `range alias`); `?` marks a name that is a map in one scanned struct
    and something else in another. REVIEWED in the Go source, site by site:

    NOT A MAP (name collision, the ranged field is a slice):
    * every `….Services` (`[]LinkedService`, `[]IngressService`, `[]ExportedService`, `[]HTTPService`,
      `[]TCPService`, `[]SimplifiedExportedService` — the map of that name is `NodeServices.Services`),
      every `failover.Targets` (`[]ServiceResolverFailoverTarget` / `[]string`; the map is
      `CompiledDiscoveryChain.Targets`): decode_downgrade.go (6), `updateTerminatingGatewayVirtualIPs`
      cfg.Services, `ingressConfigGatewayServices`, `terminatingConfigGatewayServices`,
      `validateProposedConfigEntryInServiceGraph` listener.Services, `validateChainIsPeerExportSafe`
      failover.Targets, `convertTargetsToTestSpiffeIDs` failover.Targets, `ToPartitionMap`,
      `resolvedExportedServicesTxn`, `exportedServicesForPeerTxn`,
      `listServicesExportedToAnyPeerByConfigEntry`, `peersForServiceTxn`.
    REAL MAPS, WRITE PATH, ORDER INSENSITIVE:
    * catalog.go `ensureServiceTxn` addrs, `updateTerminatingGatewayVirtualIPs` addrs /
      s.ServiceTaggedAddresses — entries copied one by one into another map (the service's tagged
      addresses); exercised by the `gateway-vip` profile on 8 replicas.
    * catalog_schema.deepcopy.go `upstreamDownstream.DeepCopy` o.Refs — map copy.
    * catalog_schema.go `indexMetaFromNode` n.Meta — builds the value list of a memdb multi-value
      index; each value is inserted into the radix tree separately.
    * config_entry.go `readDiscoveryChainConfigEntriesTxn` res.Routers / res.Splitters /
      res.Resolvers / res.Services — "strip nils": deletes nil entries while ranging.
    * config_entry.go `validateChainIsPeerExportSafe` e.Failover (`map[string]ServiceResolverFailover`)
      — every failing subset yields the same text ("contains cross-datacenter failover"). The ranges
      over the chain's Routers / Splitters / Resolvers maps in this function WERE order dependent
      (error text; found by this harness, signature `replica:error-text:validateChainIsPeerExportSafe`,
      fixed witness in `witnessSection`) and go through `sortedServiceIDs` since /repo f171f7a.
    ERROR TEXT ONLY, apply path:
    * config_entry.go `validateProposedConfigEntryInServiceGraph` newSpiffeIDs (alias of
      `convertTargetsToTestSpiffeIDs(chain)`), and inside that function chain.Nodes / chain.Targets
      (first-wins on equal SPIFFE ids) — which NEW target a "cannot introduce new discovery chain
      targets like %q" error names. Only reached for peer-exported L4 chains, where neither routers nor
      splitters are allowed and failover targets are excluded, so one write introduces at most one new
      target (a redirect): no diverging input exists as far as reviewed; the path is replayed by a fixed
      witness on 8 replicas (`peer-export-l4`) and by the `config` profile (5 replicas).
    READ PATH: `Store.ServiceAddressNodes` svc.ServiceTaggedAddresses, `Store.discoveryChainSourcesTxn`
      chain.Targets.
    CE-DOWNGRADE DECODE ONLY (`structs.CEDowngrade`): decode_downgrade.go `CheckEnt` s.Failover — looks
      for enterprise-only fields, any hit gives the same answer.
    Residual blind spot: a range over an indexed expression (`m[k]` of a map of maps) or over a map
    reached only through an interface is still not seen; none exists in these two packages today. -/
def mapRangeWideAllowlist : List (String × String × String × String) := [
  ("agent/consul/fsm/decode_downgrade.go", "ShadowServiceResolverConfigEntry.CheckEnt", "s.Failover", "field?"),
  ("agent/consul/fsm/decode_downgrade.go", "ShadowServiceResolverConfigEntry.CheckEnt", "failover.Targets", "field?"),
  ("agent/consul/fsm/decode_downgrade.go", "ShadowIngressGatewayConfigEntry.GetRealConfigEntry", "listner.Services", "field?"),
  ("agent/consul/fsm/decode_downgrade.go", "ShadowTerminatingGatewayConfigEntry.GetRealConfigEntry", "s.Services", "field?"),
  ("agent/consul/fsm/decode_downgrade.go", "ShadowExportedServicesConfigEntry.GetRealConfigEntry", "s.Services", "field?"),
  ("agent/consul/fsm/decode_downgrade.go", "ShadowHTTPRouteConfigEntry.GetRealConfigEntry", "rule.Services", "field?"),
  ("agent/consul/fsm/decode_downgrade.go", "ShadowTCPRouteConfigEntry.GetRealConfigEntry", "s.Services", "field?"),
  ("agent/consul/state/catalog.go", "ensureServiceTxn", "addrs", "alias:call"),
  ("agent/consul/state/catalog.go", "Store.ServiceAddressNodes", "svc.ServiceTaggedAddresses", "field"),
  ("agent/consul/state/catalog.go", "updateTerminatingGatewayVirtualIPs", "cfg.Services", "field?"),
  ("agent/consul/state/catalog.go", "updateTerminatingGatewayVirtualIPs", "s.ServiceTaggedAddresses", "field"),
  ("agent/consul/state/catalog.go", "updateTerminatingGatewayVirtualIPs", "addrs", "alias:call"),
  ("agent/consul/state/catalog.go", "ingressConfigGatewayServices", "listener.Services", "field?"),
  ("agent/consul/state/catalog.go", "terminatingConfigGatewayServices", "entry.Services", "field?"),
  ("agent/consul/state/catalog_schema.deepcopy.go", "upstreamDownstream.DeepCopy", "o.Refs", "field"),
  ("agent/consul/state/catalog_schema.go", "indexMetaFromNode", "n.Meta", "field"),
  ("agent/consul/state/config_entry.go", "Store.discoveryChainSourcesTxn", "chain.Targets", "field?"),
  ("agent/consul/state/config_entry.go", "validateProposedConfigEntryInServiceGraph", "newSpiffeIDs", "alias:call"),
  ("agent/consul/state/config_entry.go", "validateProposedConfigEntryInServiceGraph", "listener.Services", "field?"),
  ("agent/consul/state/config_entry.go", "validateChainIsPeerExportSafe", "e.Failover", "field?"),
  ("agent/consul/state/config_entry.go", "validateChainIsPeerExportSafe", "failover.Targets", "field?"),
  ("agent/consul/state/config_entry.go", "readDiscoveryChainConfigEntriesTxn", "res.Routers", "field"),
  ("agent/consul/state/config_entry.go", "readDiscoveryChainConfigEntriesTxn", "res.Splitters", "field"),
  ("agent/consul/state/config_entry.go", "readDiscoveryChainConfigEntriesTxn", "res.Resolvers", "field"),
  ("agent/consul/state/config_entry.go", "readDiscoveryChainConfigEntriesTxn", "res.Services", "field?"),
  ("agent/consul/state/config_entry.go", "convertTargetsToTestSpiffeIDs", "chain.Nodes", "field?"),
  ("agent/consul/state/config_entry.go", "convertTargetsToTestSpiffeIDs", "failover.Targets", "field?"),
  ("agent/consul/state/config_entry.go", "convertTargetsToTestSpiffeIDs", "chain.Targets", "field?"),
  ("agent/consul/state/config_entry_exported_services.go", "SimplifiedExportedServices.ToPartitionMap", "e.Services", "field?"),
  ("agent/consul/state/config_entry_exported_services.go", "resolvedExportedServicesTxn", "exports.Services", "field?"),
  ("agent/consul/state/peering.go", "exportedServicesForPeerTxn", "exportConf.Services", "field?"),
  ("agent/consul/state/peering.go", "listServicesExportedToAnyPeerByConfigEntry", "exports.Services", "field?"),
  ("agent/consul/state/peering.go", "peersForServiceTxn", "exportedServices.Services", "field?")]

theorem map_ranges_wide_audited : mapRangesWide = mapRangeWideAllowlist := rfl

/-- The message-type constant block is append-only history ("entries must only ever be added"):
    the reviewed prefix of 46 constants and the flag. -/
theorem message_types_audited :
    messageTypes.length = 47 ∧
    messageTypes.map (·.2) = (List.range 46) ++ [128] ∧
    (messageTypes.map (·.1)).Nodup := by decide

/-! ## 4. The obligations discharged for the store model (round 2)

`CV.Store.apply` is the faithful model of the handlers of seven message types (register,
deregister, KVS, session, tombstone reap, prepared query rows, txn). `CV/Store/Env.lean` makes its
environment explicit (the server-local lock-delay map `loc`, fed by the server's clock) and
`CV/Proofs/StoreEnv.lean` proves, function by function, that nothing replicated depends on it. -/

section Store
open CV.Store

/-- One entry, two servers: equal replicated tables before, arbitrary different lock-delay maps
    (and clocks) ⇒ equal replicated tables after and equal results. -/
theorem apply_env_independent (s₁ s₂ : State) (h : s₁.repl = s₂.repl) (idx : Nat) (c : Cmd) :
    (Store.apply s₁ idx c).1.repl = (Store.apply s₂ idx c).1.repl ∧
    (Store.apply s₁ idx c).2 = (Store.apply s₂ idx c).2 :=
  apply_sim (a := s₁) (b := s₂) h idx c

theorem applyEnv_env_independent (e₁ e₂ : Store.Env) (s₁ s₂ : State) (h : s₁.repl = s₂.repl) (idx : Nat) (c : Cmd) :
    applyEnv e₁ s₁ idx c = applyEnv e₂ s₂ idx c := by
  have hs : Sim (setLoc s₁ e₁.loc) (setLoc s₂ e₂.loc) := by
    show (setLoc s₁ e₁.loc).repl = (setLoc s₂ e₂.loc).repl
    have : ∀ (s : State) (l : Local), (setLoc s l).repl = s.repl := fun s l => rfl
    rw [this, this, h]
  have := apply_sim hs idx c
  simp only [applyEnv]
  rw [show (Store.apply (setLoc s₁ e₁.loc) idx c).1.repl = (Store.apply (setLoc s₂ e₂.loc) idx c).1.repl from this.1, this.2]

/-- **Replicas agree, for the store model.** Two replicas that start with the same replicated
    tables and replay the same log of modelled commands — each seeing its own arbitrary
    environment (clock, lock-delay map) at every log position — end with the same replicated
    tables and return the same result for every command. Unbounded logs, no side condition. -/
theorem replicas_agree_store (envs₁ envs₂ : Nat → Store.Env) (log : Log) :
    ∀ (pos₁ pos₂ : Nat) (s₁ s₂ : State), s₁.repl = s₂.repl →
      runEnv envs₁ pos₁ s₁ log = runEnv envs₂ pos₂ s₂ log := by
  induction log with
  | nil => intro _ _ s₁ s₂ h; simp only [runEnv]; rw [h]
  | cons x rest ih =>
    intro pos₁ pos₂ s₁ s₂ h
    obtain ⟨idx, c⟩ := x
    simp only [runEnv]
    rw [applyEnv_env_independent (envs₁ pos₁) (envs₂ pos₂) s₁ s₂ h idx c]
    rw [ih (pos₁ + 1) (pos₂ + 1) _ _ rfl]

/-- The same for the store model's own `replay` (which threads `loc` through the log instead of
    resetting it): the lock-delay maps the two servers start with never matter. -/
theorem replay_repl_agree (log : Log) : ∀ (s₁ s₂ : State), s₁.repl = s₂.repl →
    (Store.replay s₁ log).repl = (Store.replay s₂ log).repl ∧ replayResults s₁ log = replayResults s₂ log := by
  induction log with
  | nil => intro s₁ s₂ h; exact ⟨h, rfl⟩
  | cons x rest ih =>
    intro s₁ s₂ h
    obtain ⟨idx, c⟩ := x
    have ha := apply_sim (a := s₁) (b := s₂) h idx c
    have := ih _ _ ha.1
    simp only [Store.replay, List.foldl_cons, replayResults] at this ⊢
    exact ⟨this.1, by rw [ha.2, this.2]⟩

/-- a log that really exercises the lock-delay map: a session with a lock delay holding a key is
    destroyed; the last command is rejected -/
def lockDelayLog : Log := [
  (5, .register ⟨⟨"n1", "", "10.0.0.1", 0, 0⟩, none, []⟩),
  (6, .sessionCreate ⟨"5e550000-0000-0000-0000-000000000001", "n1", "s", "release", [], 15⟩),
  (7, .kvLock ⟨[97], "=v", 0, "5e550000-0000-0000-0000-000000000001", 0, 0, 0⟩),
  (8, .sessionDestroy "5e550000-0000-0000-0000-000000000001"),
  (9, .kvLock ⟨[97], "=v", 0, "5e550000-0000-0000-0000-000000000001", 0, 0, 0⟩)]

/-- a server whose lock-delay map already holds junk -/
def junkLoc : State := { loc := ⟨[[1], [97], [200]]⟩ }

/- Non-vacuity of `replay_repl_agree` / `replicas_agree_store`. These are TESTS (`#guard`, evaluated
   by the compiler — string order is not kernel-reducible): the two servers really end with
   different lock-delay maps, the replicated tables and the results are nevertheless equal. -/
#guard (Store.replay State.empty lockDelayLog).loc == ⟨[[97]]⟩
#guard (Store.replay junkLoc lockDelayLog).loc == ⟨[[1], [97], [200]]⟩
#guard (Store.replay junkLoc lockDelayLog).repl == (Store.replay State.empty lockDelayLog).repl
#guard (Store.replay State.empty lockDelayLog).kvs.map (·.session) == [""]
#guard replayResults State.empty lockDelayLog == [.ok, .ok, .bool true, .ok, .err .invalidSession]
#guard replayResults junkLoc lockDelayLog == replayResults State.empty lockDelayLog

/-- Every modelled family meets its `FamilyObligation` (invariant `True`: no side condition is
    needed for these handlers), for every decoder and whatever the other tables `O` are. -/
theorem store_family_obligation {O R' : Type} (d : Decoders) :
    ∀ f ∈ (storeFamilies d : List (Table Store.Env (State × O) (Store.Result ⊕ R'))),
      FamilyObligation (fun _ => True) f := by
  have hh : ∀ (dec : Decoder), ∀ (e₁ e₂ : Store.Env) (s : State × O) (idx : Nat) (p : Bytes),
      storeHandler (O := O) (R' := R') dec e₁ s idx p = storeHandler dec e₂ s idx p := by
    intro dec e₁ e₂ s idx p
    simp only [storeHandler]
    cases dec p with
    | none => rfl
    | some c => simp only [applyEnv_env_independent e₁ e₂ s.1 s.1 rfl idx c]
  intro f hf
  simp only [storeFamilies, List.mem_cons, List.not_mem_nil, or_false] at hf
  refine ⟨?_, fun _ _ _ _ _ _ _ _ _ _ => trivial⟩
  intro x hx e₁ e₂ s idx p _
  rcases hf with rfl | rfl | rfl | rfl | rfl | rfl <;>
    simp only [catalogFamily, kvFamily, sessionFamily, tombstoneFamily, pqFamily, txnFamily,
      List.mem_cons, List.not_mem_nil, or_false] at hx
  · rcases hx with rfl | rfl <;> exact hh _ e₁ e₂ s idx p
  all_goals (subst hx; exact hh _ e₁ e₂ s idx p)

/-- **The dispatch-level theorem with the modelled families concrete.** The consul dispatch table
    = the seven handlers of the store model (slots 0,1,2,3,5,7,8, any decoders) followed by the
    handlers of the not yet modelled families `rest` (ACL, config entries, intentions, CA, peering,
    …) over arbitrary further tables `O`. If `rest` meets its obligation — the part still open —
    two replicas replaying the same raw log under different environments compute the same trace. -/
theorem replicas_agree_consul_store {O R' : Type} (d : Decoders)
    (rest : Table Store.Env (State × O) (Store.Result ⊕ R'))
    (hrest : FamilyObligation (fun _ => True) rest) (ced : Bool)
    (envs₁ envs₂ : Nat → Store.Env) (s : State × O) (log : List (Nat × Bytes)) :
    run ((storeFamilies d).flatten ++ rest) ced envs₁ s log =
    run ((storeFamilies d).flatten ++ rest) ced envs₂ s log :=
  (replicas_agree_inv (fun _ => True) _
    (envIndependentOn_append _ _ _ (envIndependentOn_of_families _ _ (store_family_obligation d)) hrest)
    ced envs₁ envs₂ s trivial log).1

/-- the store families occupy exactly the audited slots of their message types -/
theorem store_family_slots {O R' : Type} (d : Decoders) :
    slots ((storeFamilies d).flatten : Table Store.Env (State × O) (Store.Result ⊕ R')) = [0, 1, 2, 3, 5, 7, 8] ∧
    [0, 1, 2, 3, 5, 7, 8] = (expectedSlots.filter fun x =>
      Consul.families.lookup x.2.1 ∈ [some "catalog", some "kv", some "session", some "tombstone",
        some "prepared-query", some "txn"]).map (·.1) := by
  constructor
  · rfl
  · decide

/-- **A rejected command leaves the state unchanged** — the whole store, `loc` included: a command
    answered with an error (for a transaction: with a non-empty error list) is not committed.
    (Lock delays of an aborted transaction are not applied either: /repo commit 6f192dd.) -/
theorem rejected_leaves_state (s : State) (idx : Nat) (c : Cmd) (h : (Store.apply s idx c).2.isErr = true) :
    (Store.apply s idx c).1 = s := by
  have hS : ∀ (x : Except Err State), (liftS s x).2.isErr = true → (liftS s x).1 = s := by
    intro x hx; cases x <;> simp_all [liftS, Store.Result.isErr]
  have hB : ∀ (x : Except Err (State × Bool)), (liftB s x).2.isErr = true → (liftB s x).1 = s := by
    intro x hx
    cases x with
    | error e => rfl
    | ok p => simp [liftB, Store.Result.isErr] at hx
  cases c <;> simp only [Store.apply] at h ⊢
  case kvDeleteTree => simp [Store.Result.isErr] at h
  case reap => simp [Store.Result.isErr] at h
  case pqDelete => simp [Store.Result.isErr] at h
  case deregister node svcId chkId =>
    by_cases h1 : svcId ≠ ""
    · simp only [if_pos h1] at h ⊢; exact hS _ h
    · simp only [if_neg h1] at h ⊢
      by_cases h2 : chkId ≠ ""
      · simp only [if_pos h2] at h ⊢; exact hS _ h
      · simp only [if_neg h2] at h ⊢; exact hS _ h
  case txn ops =>
    simp only [txnRW] at h ⊢
    generalize txnLoop idx ops 0 s [] [] = t at h ⊢
    obtain ⟨s', rs, es⟩ := t
    dsimp only at h ⊢
    split at h
    · simp [Store.Result.isErr] at h
    · rename_i he; simp only [he]; rfl
  all_goals first | exact hS _ h | exact hB _ h

/-- the same seen through the environment wrapper: replicated tables unchanged -/
theorem rejected_leaves_state_env (env : Store.Env) (s : State) (idx : Nat) (c : Cmd)
    (h : (applyEnv env s idx c).2.isErr = true) : (applyEnv env s idx c).1 = s.repl := by
  simp only [applyEnv] at h ⊢
  rw [rejected_leaves_state _ idx c h]; rfl

/-- a refused check-and-set / lock / unlock (`false`) does not commit either -/
theorem refused_leaves_state (s : State) (idx : Nat) (c : Cmd) (h : (Store.apply s idx c).2 = .bool false) :
    (Store.apply s idx c).1 = s := by
  have hB : ∀ (x : Except Err (State × Bool)), (liftB s x).2 = .bool false → (liftB s x).1 = s := by
    intro x hx
    cases x with
    | error e => rfl
    | ok p => obtain ⟨s', b⟩ := p; cases b <;> simp_all [liftB]
  have hS : ∀ (x : Except Err State), (liftS s x).2 ≠ .bool false := by
    intro x; cases x <;> simp [liftS]
  cases c <;> simp only [Store.apply] at h ⊢
  case deregister => split at h; exact absurd h (hS _); split at h <;> exact absurd h (hS _)
  case txn ops => revert h; generalize txnRW s idx ops = t; obtain ⟨a, b, c⟩ := t; simp
  all_goals first | exact hB _ h | exact absurd h (hS _) | simp at h

/- Non-vacuity of `rejected_leaves_state` (TESTS, see above): rejected commands exist — a lock by
   an unknown session, a transaction whose second operation fails — and so do accepted ones. -/
#guard (Store.apply State.empty 5 (.kvLock ⟨[97], "=v", 0, "nope", 0, 0, 0⟩)).2.isErr
#guard !(Store.apply State.empty 5 (.kvSet ⟨[97], "=v", 0, "", 0, 0, 0⟩)).2.isErr
#guard (Store.apply State.empty 5 (.txn [.kv .set ⟨[97], "=v", 0, "", 0, 0, 0⟩, .kv .get ⟨[98], "", 0, "", 0, 0, 0⟩])).2.isErr
#guard (Store.apply State.empty 5 (.txn [.kv .set ⟨[97], "=v", 0, "", 0, 0, 0⟩, .kv .get ⟨[98], "", 0, "", 0, 0, 0⟩])).1 == State.empty

end Store

/-! ## 5. Every command family that has a model, plugged into the dispatch table (round 4)

`CV/FsmFamilies.lean` wraps the models of C03/C04 (`CV.Store`), C10 (`CV.Cas`), C13 (`CV.Ixn`) and
C07 (`CV.Store.CatX`: system metadata, coordinates) as handlers over the product state `Joint`.
17 of the 36 registered message types are concrete; the hypothesis of
`replicas_agree_consul_families` is about the other 19 (`Families.opaqueTypes`). The tie of each
model to the code is the correspondence run of the owning property (`bin/check C03 C04 C07 C10 C13`). -/

section Families
open CV.Fsm.Families

/-- Every concrete family meets its obligation: the store handlers by the non-interference proof
    of section 4, all others because their models have no environment input at all. -/
theorem concrete_family_obligation {O R' : Type} (d : Families.Decoders) :
    ∀ f ∈ (concreteFamilies d : List (Table Store.Env (Joint O) (JRes R'))),
      FamilyObligation (fun _ => True) f := by
  have hs : ∀ (dec : Store.Decoder), HandlerEnvIndependent (storeH (O := O) (R' := R') dec) := by
    intro dec e₁ e₂ s idx p
    simp only [storeH]
    cases dec p with
    | none => rfl
    | some c => simp only [applyEnv_env_independent e₁ e₂ s.store s.store rfl idx c]
  have hp : ∀ (h : Handler Store.Env (Joint O) (JRes R')), (∀ e₁ e₂ s idx p, h e₁ s idx p = h e₂ s idx p) →
      HandlerEnvIndependent h := fun h hh => hh
  intro f hf
  simp only [concreteFamilies, List.mem_cons, List.not_mem_nil, or_false] at hf
  refine ⟨?_, fun _ _ _ _ _ _ _ _ _ _ => trivial⟩
  intro x hx e₁ e₂ s idx p _
  rcases hf with rfl | rfl | rfl | rfl | rfl <;>
    simp only [storeFamily, casFamily, ixnFamily, catFamily, legacyAclFamily,
      List.mem_cons, List.not_mem_nil, or_false] at hx
  · rcases hx with rfl | rfl | rfl | rfl | rfl | rfl | rfl <;> exact hs _ e₁ e₂ s idx p
  · rcases hx with rfl | rfl | rfl | rfl | rfl | rfl <;> rfl
  · subst hx; rfl
  · rcases hx with rfl | rfl <;> rfl
  · subst hx; rfl

/-- **Replicas agree on the consul dispatch table with 17 message types concrete.** `rest` stands
    for the handlers of the message types in `Families.opaqueTypes` (19: ACL bootstrap / policy /
    role / binding rule / auth method, CA leaf, federation state, the six peering commands, resource
    operations, manual virtual IPs) over the uncovered tables `O`; its obligation is the only
    hypothesis left. -/
theorem replicas_agree_consul_families {O R' : Type} (d : Families.Decoders)
    (rest : Table Store.Env (Joint O) (JRes R'))
    (hrest : FamilyObligation (fun _ => True) rest) (ced : Bool)
    (envs₁ envs₂ : Nat → Store.Env) (s : Joint O) (log : List (Nat × Bytes)) :
    run ((concreteFamilies d).flatten ++ rest) ced envs₁ s log =
    run ((concreteFamilies d).flatten ++ rest) ced envs₂ s log :=
  (replicas_agree_inv (fun _ => True) _
    (envIndependentOn_append _ _ _ (envIndependentOn_of_families _ _ (concrete_family_obligation d)) hrest)
    ced envs₁ envs₂ s trivial log).1

/-- The concrete handlers sit in the audited slots of their message types, and concrete + opaque
    message types are exactly the registered ones (17 + 19 = 36, no overlap). -/
theorem concrete_opaque_partition {O R' : Type} (d : Families.Decoders) :
    slots ((concreteFamilies d).flatten : Table Store.Env (Joint O) (JRes R')) =
      [0, 1, 2, 3, 5, 7, 8, 22, 13, 9, 45, 17, 18, 12, 31, 6, 4] ∧
    concreteTypes.map Consul.typeByte = [0, 1, 2, 3, 5, 7, 8, 22, 13, 9, 45, 17, 18, 12, 31, 6, 4].map some ∧
    (concreteTypes ++ opaqueTypes).Nodup ∧ (concreteTypes ++ opaqueTypes).length = 36 ∧
    (∀ m ∈ CV.Facts.Fsm.registeredCommands, m.1 ∈ concreteTypes ++ opaqueTypes) := by
  refine ⟨rfl, ?_, ?_, ?_, ?_⟩ <;> decide

/-! ### rejected ⇒ unchanged, per model -/

/-- CV.Cas: an error answer commits nothing (CA config mismatch, inadmissible roots, feature gate
    without status / policy, token batch error). -/
theorem cas_error_leaves_state (s : Cas.State) (i : Nat) (c : Cas.Cmd) (e : Cas.Err)
    (hc : (casConfigEntry c || casConnectCA c || casAutopilot c || casFeatureGate c || casTokenSet c || casTokenDelete c) = true)
    (h : (Cas.fsmApply s i c).res = .err e) : (Cas.fsmApply s i c).state = s := by
  cases c <;> simp [casConfigEntry, casConnectCA, casAutopilot, casFeatureGate, casTokenSet, casTokenDelete] at hc <;>
    simp only [Cas.fsmApply, Cas.storeApply, Cas.cfgCas, Cas.cfgDeleteCas, Cas.caConfigCas, Cas.caRootsCas,
      Cas.caRootsAndConfig, Cas.apCas, Cas.fgUpdate, Cas.tokBatchSet] at h ⊢ <;>
    (repeat' split at h) <;> (try simp_all)

/-- CV.Cas: a check-and-set answered `false` commits nothing. (Per command, with the exact matching
    condition, this is C10's `…_failed_unchanged` family and `fsm_conditional_not_reported_unchanged`
    in `CV/Props/C10.lean`; it is re-derived here from the definitions so that this module does not
    depend on another property's theorem file.) -/
theorem cas_refused_leaves_state (s : Cas.State) (i : Nat) (c : Cas.Cmd)
    (hc : (casConfigEntry c || casConnectCA c || casAutopilot c || casFeatureGate c || casTokenSet c || casTokenDelete c) = true)
    (h : (Cas.fsmApply s i c).res = .ok false) : (Cas.fsmApply s i c).state = s := by
  cases c <;> simp [casConfigEntry, casConnectCA, casAutopilot, casFeatureGate, casTokenSet, casTokenDelete] at hc <;>
    simp only [Cas.fsmApply, Cas.storeApply, Cas.cfgCas, Cas.cfgDeleteCas, Cas.caConfigCas, Cas.caRootsCas,
      Cas.caRootsAndConfig, Cas.apCas, Cas.fgUpdate, Cas.tokBatchSet] at h ⊢ <;>
    (repeat' split at h) <;> (try simp_all)

/-- CV.Ixn: a rejected intention write leaves the store as it was. -/
theorem ixn_rejected_leaves_store (st : Ixn.Store) (op : Ixn.Op) (e : Ixn.Err)
    (h : (Ixn.applyOpE st op).2 = some e) : (Ixn.applyOpE st op).1 = st := by
  cases op <;> simp only [Ixn.applyOpE] at h ⊢
  case ent x => simp only [Ixn.applyEntry] at h ⊢; split at h <;> simp_all
  case entdel n => simp at h
  case up dst v =>
    simp only [Ixn.mutUpsert] at h ⊢
    repeat' split at h
    all_goals (try simp_all)
    all_goals (try (split <;> rfl))
  case del dst src =>
    simp only [Ixn.mutDelete] at h ⊢
    repeat' split at h
    all_goals (try simp_all)
    all_goals (try (split <;> rfl))
  case lcreate dst v =>
    simp only [Ixn.mutLegacyCreate] at h ⊢
    repeat' split at h
    all_goals (try simp_all)
    all_goals (try (split <;> rfl))
  case lupdate id v =>
    simp only [Ixn.mutLegacyUpdate] at h ⊢
    repeat' split at h
    all_goals (try simp_all)
    all_goals (try (split <;> rfl))
  case ldelid id =>
    simp only [Ixn.mutLegacyDelete] at h ⊢
    repeat' split at h
    all_goals (try simp_all)
    all_goals (try (split <;> rfl))
  case lset id r =>
    simp only [Ixn.legacySet] at h ⊢
    repeat' split at h
    all_goals (try simp_all)
    all_goals (try (split <;> rfl))
  case ldel id =>
    simp only [Ixn.legacyDelete] at h ⊢
    repeat' split at h
    all_goals (try simp_all)
    all_goals (try (split <;> rfl))

/-- system metadata and coordinate batches are never rejected by the store (the FSM handler returns
    `true` / `nil`); there is nothing to leave unchanged -/
theorem cat_never_rejected (s : Store.XState) (idx : Nat) (c : Store.XCmd)
    (hc : (catSysMeta c || catCoords c) = true) : (Store.applyX s idx c).2 = .ok := by
  cases c <;> simp [catSysMeta, catCoords] at hc <;> rfl

/-- **Rejected ⇒ unchanged, on the joint table:** whichever concrete handler ran, an error answer
    leaves every component of the replicated state as it was (the store component is compared
    through `State.repl`: its server-local `loc` is not replicated state). -/
theorem concrete_rejected_leaves_state {O R' : Type} (d : Families.Decoders)
    (x : Nat × Handler Store.Env (Joint O) (JRes R')) (hx : x ∈ (concreteFamilies d).flatten)
    (env : Store.Env) (s s' : Joint O) (idx : Nat) (p : Bytes) (r : JRes R')
    (hr : x.2 env s idx p = some (s', r)) (he : r.isErr = true) :
    s'.store.repl = s.store.repl ∧ s'.cas = s.cas ∧ s'.ixn = s.ixn ∧ s'.cat = s.cat ∧ s'.other = s.other := by
  have hS : ∀ (dec : Store.Decoder), storeH (O := O) (R' := R') dec env s idx p = some (s', r) →
      s'.store.repl = s.store.repl ∧ s'.cas = s.cas ∧ s'.ixn = s.ixn ∧ s'.cat = s.cat ∧ s'.other = s.other := by
    intro dec h
    simp only [storeH] at h
    cases hd : dec p with
    | none => simp [hd] at h
    | some c =>
      simp only [hd, Option.some.injEq, Prod.mk.injEq] at h
      obtain ⟨h1, h2⟩ := h
      subst h1 h2
      simp only [JRes.isErr] at he
      refine ⟨?_, rfl, rfl, rfl, rfl⟩
      show (Store.applyEnv env s.store idx c).1.repl = s.store.repl
      rw [rejected_leaves_state_env env s.store idx c he]; rfl
  have hC : ∀ (al : Cas.Cmd → Bool) (dec : Bytes → Option Cas.Cmd),
      (∀ c, al c = true → (casConfigEntry c || casConnectCA c || casAutopilot c || casFeatureGate c || casTokenSet c || casTokenDelete c) = true) →
      casH (O := O) (R' := R') al dec env s idx p = some (s', r) →
      s'.store.repl = s.store.repl ∧ s'.cas = s.cas ∧ s'.ixn = s.ixn ∧ s'.cat = s.cat ∧ s'.other = s.other := by
    intro al dec hal h
    simp only [casH] at h
    cases hd : dec p with
    | none => simp [hd] at h
    | some c =>
      simp only [hd] at h
      by_cases ha : al c = true
      · simp only [ha, if_true, Option.some.injEq, Prod.mk.injEq] at h
        obtain ⟨h1, h2⟩ := h
        subst h1 h2
        cases hres : (Cas.fsmApply s.cas idx c).res with
        | err e => exact ⟨rfl, cas_error_leaves_state s.cas idx c e (hal c ha) hres, rfl, rfl, rfl⟩
        | _ => simp [JRes.isErr, hres] at he
      · simp [ha] at h
  have hI : ∀ (dec : Bytes → Option Ixn.Op), ixnH (O := O) (R' := R') dec env s idx p = some (s', r) →
      s'.store.repl = s.store.repl ∧ s'.cas = s.cas ∧ s'.ixn = s.ixn ∧ s'.cat = s.cat ∧ s'.other = s.other := by
    intro dec h
    simp only [ixnH] at h
    cases hd : dec p with
    | none => simp [hd] at h
    | some op =>
      simp only [hd] at h
      by_cases ha : ixnIntentionOp op = true
      · simp only [ha, if_true, Option.some.injEq, Prod.mk.injEq] at h
        obtain ⟨h1, h2⟩ := h
        subst h1 h2
        cases hres : (Ixn.applyOpE s.ixn op).2 with
        | none => simp [JRes.isErr, hres] at he
        | some e => exact ⟨rfl, rfl, ixn_rejected_leaves_store s.ixn op e hres, rfl, rfl⟩
      · simp [ha] at h
  have hX : ∀ (al : Store.XCmd → Bool) (dec : Bytes → Option Store.XCmd),
      (∀ c, al c = true → (catSysMeta c || catCoords c) = true) →
      catH (O := O) (R' := R') al dec env s idx p = some (s', r) →
      s'.store.repl = s.store.repl ∧ s'.cas = s.cas ∧ s'.ixn = s.ixn ∧ s'.cat = s.cat ∧ s'.other = s.other := by
    intro al dec hal h
    simp only [catH] at h
    cases hd : dec p with
    | none => simp [hd] at h
    | some c =>
      simp only [hd] at h
      by_cases ha : al c = true
      · simp only [ha, if_true, Option.some.injEq, Prod.mk.injEq] at h
        obtain ⟨h1, h2⟩ := h
        subst h2
        simp [JRes.isErr, cat_never_rejected s.cat idx c (hal c ha)] at he
      · simp [ha] at h
  simp only [concreteFamilies, storeFamily, casFamily, ixnFamily, catFamily, legacyAclFamily, List.flatten_cons,
    List.flatten_nil, List.append_nil, List.mem_append, List.mem_cons, List.not_mem_nil, or_false] at hx
  rcases hx with (h | h | h | h | h | h | h) | (h | h | h | h | h | h) | h | (h | h) | h
  all_goals subst h
  all_goals first
    | exact hS _ hr
    | exact hC _ _ (by intro c hc; simp [hc]) hr
    | exact hI _ hr
    | exact hX _ _ (by intro c hc; simp [hc]) hr
    | (simp only [legacyAclH, Option.some.injEq, Prod.mk.injEq] at hr; obtain ⟨h1, _⟩ := hr; subst h1
       exact ⟨rfl, rfl, rfl, rfl, rfl⟩)

/-! ### the environment-dependent family: `RegisterRequestType` with virtual IPs (`addIPOffset`) -/

/-- Whenever a registration leaves the service with a virtual-IP offset, the rendered address — a
    replicated `services` field — differs between an IPv4-bound and an IPv6-bound server, and a server
    that cannot determine its bind address yet rejects the command the others accept. -/
theorem vip_render_env_dependent (s : Rendered) (idx : Nat) (r : Store.XRegReq) (off : Nat)
    (hok : (Store.applyX s.1 idx (.register r)).2 = .ok)
    (hoff : registeredOffset (Store.applyX s.1 idx (.register r)).1 r = some off) :
    (registerRendered .v4 s idx r).1.2 ≠ (registerRendered .v6 s idx r).1.2 ∧
    (registerRendered .v4 s idx r).2 = .ok ∧
    (registerRendered .unset s idx r).2 ≠ .ok ∧ (registerRendered .unset s idx r).1 = s := by
  refine ⟨?_, ?_, ?_, ?_⟩
  · simp only [registerRendered, hok, hoff, renderVip]
    intro h
    simp only [List.cons.injEq, Prod.mk.injEq] at h
    have := h.1.2
    simp only [v4Base, v6Base] at this
    omega
  · simp only [registerRendered, hok, hoff, renderVip]
  · simp [registerRendered, hok, hoff, renderVip]
  · simp only [registerRendered, hok, hoff, renderVip]

/-- **Counterexample family.** For a decoder that can produce such a registration, the family
    `vipRegisterFamily` does NOT meet its obligation: `replicas_agree` cannot be instantiated for the
    real `RegisterRequestType` handler once connect services and virtual IPs are in play. This is
    the recorded finding `env:bind-address-family:services:RegisterRequestType` /
    `env:bind-address-unset:result:RegisterRequestType` in the model. -/
theorem vip_family_counterexample (dec : Bytes → Option Store.XRegReq) (p : Bytes) (r : Store.XRegReq)
    (s : Rendered) (idx off : Nat) (hdec : dec p = some r)
    (hok : (Store.applyX s.1 idx (.register r)).2 = .ok)
    (hoff : registeredOffset (Store.applyX s.1 idx (.register r)).1 r = some off) :
    ¬ FamilyObligation (fun _ => True) (vipRegisterFamily dec) := by
  intro hF
  have := hF.indep (0, vipRegisterH dec) (by simp [vipRegisterFamily]) .v4 .v6 s idx p trivial
  simp only [vipRegisterH, hdec, Option.some.injEq] at this
  exact (vip_render_env_dependent s idx r off hok hoff).1 (by rw [this])

/-- the witness of the harness (`envSection`): virtual IPs switched on, a connect-native service -/
def vipWitnessState : Store.XState := (Store.applyX {} 5 (.sysmeta "virtual-ips" (some "true"))).1
def vipWitnessReg : Store.XRegReq :=
  ⟨"", ⟨"n1", "", "10.0.0.1", 0, 0⟩, some ⟨"web", "web", 8080, .typical, true, "", [], false, 0⟩, []⟩

/- The hypotheses of `vip_family_counterexample` hold for that witness. TESTS (`#guard`, evaluated by
   the compiler — string order is not kernel-reducible). -/
#guard (Store.applyX vipWitnessState 7 (.register vipWitnessReg)).2 == .ok
#guard registeredOffset (Store.applyX vipWitnessState 7 (.register vipWitnessReg)).1 vipWitnessReg == some 1
#guard (registerRendered .v4 (vipWitnessState, []) 7 vipWitnessReg).1.2 == [("n1\x00web", v4Base + 1)]
#guard (registerRendered .v6 (vipWitnessState, []) 7 vipWitnessReg).1.2 == [("n1\x00web", v6Base + 1)]
#guard (registerRendered .unset (vipWitnessState, []) 7 vipWitnessReg).2 != .ok

end Families

end CV.Props.C01
