/-
Property C01, part 2 (round 5): the keyed-table command families, modelled (`CV/FsmKeyed.lean`) and
plugged into the dispatch-level theorem of `CV/Props/C01.lean`. Same namespace; a separate module only
to keep build times of the two files apart.
-/
import CV.Props.C01
import CV.FsmKeyed
import CV.FsmKeyedFamilies
import CV.Proofs.FsmKeyed

namespace CV.Props.C01
open CV CV.Fsm

/-! ## 6. The keyed-table families, modelled and plugged in (round 5)

`CV/FsmKeyed.lean` models ten more message types function by function — ACL policy / role / binding
rule / auth method set + delete (batches in request order, first error aborts, upsert keeps
`CreateIndex`, the auth-method delete cascade to binding rules), federation state, CA leaf — and
`CV/FsmKeyedFamilies.lean` wraps them as handlers over `Joint (Keyed.State × O)`. 27 of the 36
registered message types are now concrete; the hypothesis of `replicas_agree_consul_families_keyed`
is about the other 9 (`KeyedFamilies.opaqueTypes`). The tie of this model to the code is THIS check:
`keyedSection` of the harness compares every result and a dump of the affected tables after every
command of generated histories with `CV.Keyed.apply`. -/

section Keyed
open CV.Keyed CV.Fsm.Families CV.Fsm.KeyedFamilies

/-- The keyed handlers have no environment input at all: their obligation holds. -/
theorem keyed_family_obligation {O R' : Type} (d : KeyedFamilies.Decoders) :
    FamilyObligation (fun _ => True) (keyedFamily d : Table Store.Env (JointK O) (JResK R')) := by
  refine ⟨?_, fun _ _ _ _ _ _ _ _ _ _ => trivial⟩
  intro x hx e₁ e₂ s idx p _
  simp only [keyedFamily, List.mem_cons, List.not_mem_nil, or_false] at hx
  rcases hx with rfl | rfl | rfl | rfl | rfl | rfl | rfl | rfl | rfl | rfl <;> rfl

/-- **Replicas agree on the consul dispatch table with 27 message types concrete**: the 17 handlers of
    section 5, the 10 keyed-table handlers, and `rest` for the 9 message types of
    `KeyedFamilies.opaqueTypes` (ACL bootstrap, the six peering commands, resource operations, manual
    virtual IPs), whose obligation is the only hypothesis left. -/
theorem replicas_agree_consul_families_keyed {O R' : Type} (d : Families.Decoders) (kd : KeyedFamilies.Decoders)
    (rest : Table Store.Env (JointK O) (JResK R'))
    (hrest : FamilyObligation (fun _ => True) rest) (ced : Bool)
    (envs₁ envs₂ : Nat → Store.Env) (s : JointK O) (log : List (Nat × Bytes)) :
    run ((concreteFamilies d).flatten ++ (keyedFamily kd ++ rest)) ced envs₁ s log =
    run ((concreteFamilies d).flatten ++ (keyedFamily kd ++ rest)) ced envs₂ s log :=
  (replicas_agree_inv (fun _ => True) _
    (envIndependentOn_append _ _ _ (envIndependentOn_of_families _ _ (concrete_family_obligation d))
      (envIndependentOn_append _ _ _ (keyed_family_obligation kd) hrest))
    ced envs₁ envs₂ s trivial log).1

/-- The keyed handlers sit in the audited slots of their message types, no slot is claimed twice
    (`List.lookup` finds the intended handler), and concrete + keyed + opaque message types are exactly
    the registered ones (17 + 10 + 9 = 36, no overlap). -/
theorem keyed_partition {O R' : Type} (d : Families.Decoders) (kd : KeyedFamilies.Decoders) :
    slots (keyedFamily kd : Table Store.Env (JointK O) (JResK R')) = [19, 20, 23, 24, 25, 26, 27, 28, 30, 21] ∧
    keyedTypes.map Consul.typeByte = [19, 20, 23, 24, 25, 26, 27, 28, 30, 21].map some ∧
    (slots ((concreteFamilies d).flatten ++ keyedFamily kd : Table Store.Env (JointK O) (JResK R'))).Nodup ∧
    (concreteTypes ++ keyedTypes ++ KeyedFamilies.opaqueTypes).Nodup ∧
    (concreteTypes ++ keyedTypes ++ KeyedFamilies.opaqueTypes).length = 36 ∧
    (∀ m ∈ CV.Facts.Fsm.registeredCommands, m.1 ∈ concreteTypes ++ keyedTypes ++ KeyedFamilies.opaqueTypes) := by
  refine ⟨rfl, ?_, ?_, ?_, ?_, ?_⟩
  · decide
  · have : slots ((concreteFamilies d).flatten ++ keyedFamily kd : Table Store.Env (JointK O) (JResK R')) =
        [0, 1, 2, 3, 5, 7, 8, 22, 13, 9, 45, 17, 18, 12, 31, 6, 4, 19, 20, 23, 24, 25, 26, 27, 28, 30, 21] := rfl
    rw [this]; decide
  · decide
  · decide
  · decide

/-- **Rejected ⇒ unchanged** for the keyed families: a command answered with an error (an item of a
    batch was refused, a bogus operation) commits nothing — the whole modelled state is as before. -/
theorem keyed_rejected_leaves_state (s : Keyed.State) (idx : Nat) (c : Keyed.Cmd)
    (h : (Keyed.apply s idx c).2.isErr = true) : (Keyed.apply s idx c).1 = s := by
  have hc : ∀ (x : Except Keyed.Err Keyed.State), (Keyed.commit s x).2.isErr = true → (Keyed.commit s x).1 = s := by
    intro x hx; cases x <;> simp_all [Keyed.commit, Keyed.Res.isErr]
  cases c <;> simp only [Keyed.apply] at h ⊢
  case fedUpsert f => cases hf : Keyed.fedUpsert s idx f <;> simp_all [Keyed.Res.isErr]
  all_goals first | exact hc _ h | rfl | simp [Keyed.Res.isErr] at h

/-- **A batch is atomic and ordered**: if the items before `y` are accepted one after the other and `y`
    is refused in the state they lead to, the command answers with that error whatever follows `y`,
    and nothing of the accepted prefix is committed. (Instance for policies; the other batch commands
    are the same `batchE`.) -/
theorem policy_batch_atomic (s s₁ : Keyed.State) (idx : Nat) (xs zs : List Keyed.PolicyReq) (y : Keyed.PolicyReq) (e : Keyed.Err)
    (hpre : Keyed.batchE (fun st p => Keyed.policySetOne st idx p) s xs = .ok s₁)
    (hy : Keyed.policySetOne s₁ idx y = .error e) :
    Keyed.apply s idx (.policySet (xs ++ y :: zs)) = (s, .err e) := by
  simp only [Keyed.apply, Keyed.batchE_append, hpre, Keyed.batchE, hy, Keyed.commit]

/-- **An upsert keeps `CreateIndex` and stamps `ModifyIndex`**: after an accepted policy write the table
    holds the row of the request with `ModifyIndex = idx` and `CreateIndex` = that of the row it
    replaces (same case-folded id), or `idx` for a new row. -/
theorem policy_upsert_indexes (s s' : Keyed.State) (idx : Nat) (p : Keyed.PolicyReq)
    (h : Keyed.policySetOne s idx p = .ok s') :
    (⟨p.id, p.name, p.body,
        (match s.policies.find? fun r => r.key = Keyed.lc p.id with | some e => e.create | none => idx), idx⟩ : Keyed.Policy)
      ∈ s'.policies ∧
    ∀ r ∈ s'.policies, r.key ≠ Keyed.lc p.id → r ∈ s.policies := by
  unfold Keyed.policySetOne at h
  dsimp only at h
  generalize (List.find? (fun r => decide (r.key = Keyed.lc p.id)) s.policies) = ex at h ⊢
  cases ex
  all_goals dsimp only at h ⊢
  all_goals repeat' split at h
  all_goals first
    | (cases h; done)
    | (cases h
       refine ⟨Keyed.mem_upsertBy_self _ _ _, ?_⟩
       intro r hr hk
       rcases Keyed.mem_upsertBy _ _ _ _ hr with rfl | hr
       · exact absurd rfl hk
       · exact hr)

/-- **Referential integrity in every reachable state**: whatever history of keyed commands a replica
    replays from the empty store, every binding rule names an auth method that exists (a rule is only
    accepted for an existing method, and deleting a method deletes its rules in the same transaction). -/
theorem rules_reference_existing_methods (log : List (Nat × Keyed.Cmd)) :
    Keyed.RefInt (Keyed.replay {} log) := by
  have : ∀ (s : Keyed.State), Keyed.RefInt s → Keyed.RefInt (Keyed.replay s log) := by
    induction log with
    | nil => intro s hs; exact hs
    | cons x rest ih =>
      intro s hs
      obtain ⟨idx, c⟩ := x
      exact ih _ (Keyed.apply_refInt s idx c hs)
  exact this {} (fun r hr => by simp at hr)

/-- **The auth-method delete cascade**: after deleting `name` no auth method with that (case-folded)
    name is left, and if there was one, no binding rule naming it is left either. -/
theorem method_delete_cascade (s : Keyed.State) (idx : Nat) (name : String) :
    (∀ m ∈ (Keyed.methodDeleteOne s idx name).methods, m.key ≠ Keyed.lc name) ∧
    ((∃ m ∈ s.methods, m.key = Keyed.lc name) →
      ∀ r ∈ (Keyed.methodDeleteOne s idx name).rules, Keyed.lc r.method ≠ Keyed.lc name) := by
  unfold Keyed.methodDeleteOne
  split
  · rename_i hnone
    have hn := List.find?_eq_none.mp hnone
    have hno : ∀ m ∈ s.methods, m.key ≠ Keyed.lc name := by
      intro m hm hk
      have := hn m hm
      simp [hk] at this
    refine ⟨hno, ?_⟩
    rintro ⟨m, hm, hk⟩
    exact absurd hk (hno m hm)
  · rename_i m hm
    obtain ⟨_, hm2⟩ := Keyed.find?_key_some _ _ _ hm
    have hk : Keyed.lc m.name = Keyed.lc name := of_decide_eq_true hm2
    refine ⟨fun x hx => ((Keyed.mem_eraseBy _ _ _ _).mp hx).2, ?_⟩
    intro _ r hr
    simp only [List.mem_filter] at hr
    rw [← hk]
    simpa using hr.2

/-- `ConnectCALeafRequestType` writes nothing (`CALeafSetIndex` aborts its transaction) and answers
    with the raft index — a value carried by the log entry itself. -/
theorem ca_leaf_writes_nothing (s : Keyed.State) (idx : Nat) :
    Keyed.apply s idx .leafIncrement = (s, .num idx) := rfl

/- Non-vacuity (TESTS, `#guard`: string functions are not kernel-reducible). A history in which a
   binding rule is written for a case variant of the method's name, a batch is refused half-way, and
   the method delete takes the rule with it. -/
def keyedWitness : List (Nat × Keyed.Cmd) := [
  (5, .methodSet [⟨"m1", "jwt", "b"⟩]),
  (7, .ruleSet [⟨"33333333-0000-0000-0000-000000000001", "M1", "b1"⟩, ⟨"33333333-0000-0000-0000-000000000002", "m1", "b2"⟩]),
  (9, .policySet [⟨"11111111-0000-0000-0000-000000000001", "p1", "x", false, false⟩]),
  (11, .policySet [⟨"11111111-0000-0000-0000-000000000001", "p1", "y", false, false⟩, ⟨"11111111-0000-0000-0000-000000000002", "P1", "z", false, false⟩]),
  (13, .methodDelete ["M1"])]

#guard (Keyed.replay {} (keyedWitness.take 2)).rules.length == 2
#guard (Keyed.apply (Keyed.replay {} (keyedWitness.take 3)) 11 (.policySet [⟨"11111111-0000-0000-0000-000000000001", "p1", "y", false, false⟩, ⟨"11111111-0000-0000-0000-000000000002", "P1", "z", false, false⟩])).2 == .err .policyNameExists
#guard (Keyed.replay {} (keyedWitness.take 4)).policies == [⟨"11111111-0000-0000-0000-000000000001", "p1", "x", 9, 9⟩]
#guard (Keyed.replay {} keyedWitness).rules == [] && (Keyed.replay {} keyedWitness).methods == []
#guard (Keyed.replay {} keyedWitness).index == [("acl-auth-methods", 13), ("acl-binding-rules", 13), ("acl-policies", 9)]
#guard (Keyed.apply (Keyed.replay {} (keyedWitness.take 3)) 11 (.policySet [⟨"11111111-0000-0000-0000-000000000001", "p2", "y", false, false⟩])).1.policies
        == [⟨"11111111-0000-0000-0000-000000000001", "p2", "y", 9, 11⟩]

end Keyed

end CV.Props.C01
