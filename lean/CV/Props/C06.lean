/-
C06 — blocking-query contract: a change is never missed.

Property theorems only. Model: CV.Store.Query (read paths: index, result, watch footprint, on top of the
shared store model CV.Store.*) and CV.BlockingQuery (the loop of blockingquery.Query, with and without the
sentinel errors). Helper lemmas: CV/Proofs/StoreQueryIdx, StoreLadder, StoreQueryTbl, StoreQueryFoot, StoreQueryKv,
StoreQueryKeys, StoreQueryNode, StoreQueryDisc, StoreQuerySvc, StoreQueryLog, BlockingQuery (and, for the
catalog table specifications, the C07 files StoreCatFrame / StoreCatInv / StoreCatApply).

The statement of the property, per query `q` and per committed command `c` at Raft index `i` (larger
than every index in the state, `IdxInv`):
    result changes  ⇒  reported index strictly larger  ∧  the WatchSet built before the write fires;
    reported index ≥ 1;  the index never decreases (tombstone reaping excepted).
It is proved in full for the table-indexed read paths (`Query.tableLevel`) and for the footprint of
every read path that is not answered through the watch-set optimisation. For the read paths with their
own index rows (KVSList, the per-service and per-node paths) the full statement is FALSE for the code as
it is — seven recorded findings, each with a `_counterexample` theorem below — and a `_partial`
theorem states what holds. Round 2 (last sections): under decidable hypotheses on the log that exclude
exactly those mechanisms (`LogDisc`), the per-node and per-service read paths satisfy the full contract,
including the watch-set optimisation of CheckServiceNodes, end to end through the blocking loop.
-/
import CV.Proofs.StoreQueryTbl
import CV.Proofs.StoreQueryFoot
import CV.Proofs.BlockingQuery
import CV.Proofs.StoreQueryCex
import CV.Proofs.StoreQueryKv
import CV.Proofs.StoreQueryDefect
import CV.Proofs.StoreQueryLog
namespace CV.Store
open CV

/-! ### the reported index -/

/-- `SetQueryMeta`: the index handed to a client is never zero. -/
theorem reported_index_pos (i : Nat) : 1 ≤ reported i := by
  unfold reported; split <;> omega

/-- … and it is the index the query computed whenever that is not zero. -/
theorem reported_eq (i : Nat) (h : 1 ≤ i) : reported i = i := by
  unfold reported; split <;> omega

/-- A strictly larger raw index that is a real Raft index (Raft never commits a command at index 1:
    the first entries of a log are configuration and no-op entries) is reported strictly larger. -/
theorem reported_strict {a b : Nat} (h : a < b) (hb : 2 ≤ b) : reported a < reported b := by
  unfold reported; split <;> split <;> omega

theorem reported_mono {a b : Nat} (h : a ≤ b) : reported a ≤ reported b := by
  unfold reported; split <;> split <;> omega

/-! ### histories and the index invariant -/

/-- Raft hands the FSM strictly increasing indexes, all larger than `m` -/
def WellIndexed (m : Nat) : Log → Prop
  | [] => True
  | (i, _) :: rest => m < i ∧ WellIndexed i rest

/-- the index of the last entry (or `m` for the empty log) -/
def lastIndex (m : Nat) : Log → Nat
  | [] => m
  | (i, _) :: rest => lastIndex i rest

/-- every row of the index table is at most `m` (`m` = the index of the last applied command) -/
def IdxInv (m : Nat) (s : State) : Prop := IdxLe m s.index

/-- one command keeps the invariant, with its own index as the new bound -/
theorem idx_inv_step (s : State) (m i : Nat) (c : Cmd) (h : IdxInv m s) (hi : m ≤ i) : IdxInv i (apply s i c).1 :=
  (tbl_apply s i c).ops.le (h.mono hi)

/-- The index invariant holds in every state reachable by a well-indexed history. -/
theorem idx_inv_reachable (s : State) (m : Nat) (log : Log) (h : IdxInv m s) (hw : WellIndexed m log) :
    IdxInv (lastIndex m log) (replay s log) := by
  induction log generalizing s m with
  | nil => exact h
  | cons ic rest ih =>
    obtain ⟨i, c⟩ := ic
    exact ih (apply s i c).1 i (idx_inv_step s m i c h (Nat.le_of_lt hw.1)) hw.2

theorem idx_inv_empty : IdxInv 0 State.empty := idxLe_nil 0

/-! ### table-indexed read paths: the full contract -/

/-- the read paths whose index is a table row of the index table and whose result is a function of that
    table: KVSGet, SessionGet / SessionList / NodeSessions, Nodes, Services, NodeChecks, ServiceChecks,
    ChecksInState, PreparedQueryGet / PreparedQueryList -/
def Query.tableLevel : Query → Bool
  | .kvGet _ | .sessGet _ | .sessList | .nodeSessions _ | .nodes | .services
  | .nodeChecks _ | .serviceChecks _ | .checksInState _ | .pqGet _ | .pqList => true
  | _ => false

theorem tbl_val {i m : Nat} {s s' : State} {k : String} (hI : IdxLe m s.index) (hm : m ≤ i)
    (hk : Stable k) (hit : IxHit i k s.index s'.index) : idxVal s'.index k = i :=
  hit.val (hI.mono hm) hk

/-- CHANGE ⇒ INDEX. For every table-indexed query, every state satisfying the index invariant, every
    command of any type (KV verbs, sessions, register / deregister, prepared queries, transactions …)
    at a larger index: if the result changes, the new index is exactly the command's index, hence
    strictly larger than the old one. -/
theorem table_change_bumps_index (q : Query) (hq : q.tableLevel = true) (s : State) (m i : Nat) (c : Cmd)
    (hI : IdxInv m s) (hi : m < i) (hch : (q.run (apply s i c).1).2 ≠ (q.run s).2) :
    (q.run (apply s i c).1).1 = i ∧ (q.run s).1 < (q.run (apply s i c).1).1 := by
  have T := tbl_apply s i c
  have hle := Nat.le_of_lt hi
  have hI' : IdxLe i (apply s i c).1.index := T.ops.le (hI.mono hle)
  have key : ∀ (k : String), Stable k → IxHit i k s.index (apply s i c).1.index →
      idxVal (apply s i c).1.index k = i ∧ idxVal s.index k < idxVal (apply s i c).1.index k := by
    intro k hk hit
    have := tbl_val hI hle hk hit
    have := hI.val k
    omega
  cases q <;> simp only [Query.tableLevel] at hq <;> try (exact absurd hq (by decide))
  case kvGet k =>
    simp only [Query.run, Store.kvGet] at hch ⊢
    by_cases hk : k = []
    · simp [hk] at hch
    · simp only [hk, if_false] at hch ⊢
      have hne : (apply s i c).1.kvs ≠ s.kvs := by
        intro e; apply hch; simp [kvFind, e]
      have h1 := key "kvs" stable_kvs (T.kvs hne)
      have h2 := hI'.val "tombstones"
      have h3 := hI.val "tombstones"
      simp only [kvMaxIndex]
      omega
  case sessGet id =>
    simp only [Query.run] at hch ⊢
    exact key _ stable_sessions (T.sessions (by intro e; apply hch; simp [sessFind, e]))
  case sessList =>
    simp only [Query.run] at hch ⊢
    exact key _ stable_sessions (T.sessions (by intro e; apply hch; simp [e]))
  case nodeSessions n =>
    simp only [Query.run] at hch ⊢
    exact key _ stable_sessions (T.sessions (by intro e; apply hch; simp [sessOnNode, e]))
  case nodes =>
    simp only [Query.run] at hch ⊢
    exact key _ stable_nodes (T.nodes (by intro e; apply hch; simp [e]))
  case services =>
    simp only [Query.run] at hch ⊢
    exact key _ stable_services (T.svcs (by intro e; apply hch; simp [e]))
  case nodeChecks n =>
    simp only [Query.run] at hch ⊢
    exact key _ stable_checks (T.chks (by intro e; apply hch; simp [chksOnNode, e]))
  case serviceChecks n =>
    simp only [Query.run] at hch ⊢
    exact key _ stable_checks (T.chks (by intro e; apply hch; simp [chksOfService, e]))
  case checksInState st =>
    simp only [Query.run] at hch ⊢
    exact key _ stable_checks (T.chks (by intro e; apply hch; simp [chksInStatus, e]))
  case pqGet id =>
    simp only [Query.run] at hch ⊢
    exact key _ stable_pq (T.queries (by intro e; apply hch; simp [pqFind, e]))
  case pqList =>
    simp only [Query.run] at hch ⊢
    exact key _ stable_pq (T.queries (by intro e; apply hch; simp [e]))

/-- … in terms of what the client sees (`SetQueryMeta`): strictly larger reported index. -/
theorem table_change_bumps_reported_index (q : Query) (hq : q.tableLevel = true) (s : State) (m i : Nat) (c : Cmd)
    (hI : IdxInv m s) (hi : m < i) (hraft : 2 ≤ i) (hch : (q.run (apply s i c).1).2 ≠ (q.run s).2) :
    reported (q.run s).1 < reported (q.run (apply s i c).1).1 := by
  have h := table_change_bumps_index q hq s m i c hI hi hch
  exact reported_strict h.2 (by omega)

/-- INDEX MONOTONE. For the table-indexed queries the index never decreases — for every command,
    tombstone reaping included (reaping only lowers the index of KVSList, see below). -/
theorem table_index_monotone (q : Query) (hq : q.tableLevel = true) (s : State) (m i : Nat) (c : Cmd)
    (hI : IdxInv m s) (hi : m ≤ i) : (q.run s).1 ≤ (q.run (apply s i c).1).1 := by
  have T := tbl_apply s i c
  have mono : ∀ k, Stable k → idxVal s.index k ≤ idxVal (apply s i c).1.index k :=
    fun k hk => T.ops.mono (hI.mono hi) hk
  cases q <;> simp only [Query.tableLevel] at hq <;> try (exact absurd hq (by decide))
  case kvGet k =>
    simp only [Query.run, Store.kvGet]
    by_cases hk : k = []
    · simp [hk]
    · simp only [hk, if_false, kvMaxIndex]
      have := mono "kvs" stable_kvs
      have := mono "tombstones" stable_tombstones
      omega
  all_goals simp only [Query.run]
  case sessGet => exact mono _ stable_sessions
  case sessList => exact mono _ stable_sessions
  case nodeSessions => exact mono _ stable_sessions
  case nodes => exact mono _ stable_nodes
  case services => exact mono _ stable_services
  case nodeChecks => exact mono _ stable_checks
  case serviceChecks => exact mono _ stable_checks
  case checksInState => exact mono _ stable_checks
  case pqGet => exact mono _ stable_pq
  case pqList => exact mono _ stable_pq

/-! ### the read paths with their own index rows: the full statement and why it is false

FULL STATEMENT (what the property demands of every query `q`, including KVSList, ServiceNodes,
CheckServiceNodes, NodeServices, Services joined with nodes):

    theorem change_bumps_index (q : Query) (s : State) (m i : Nat) (c : Cmd) (hI : IdxInv m s) (hi : m < i) :
        (q.run (apply s i c).1).2 ≠ (q.run s).2 → (q.run s).1 < (q.run (apply s i c).1).1
    theorem change_fires_watch' … → q.fired s (apply s i c).1 = true
    theorem index_monotone (c not a reap) : (q.run s).1 ≤ (q.run (apply s i c).1).1

It is FALSE for the code as it is. Each theorem below exhibits a reachable state (the `…_reached` lemmas of
CV.Proofs.StoreQueryCex replay the history from the empty store), satisfying `IdxInv`, and one command at a
larger index after which the result differs while the index does not move up (and, for the
watch-optimised CheckServiceNodes, no watched row changes). The same histories are replayed against the
real store by the harness on every run (recorded findings of known_findings.txt). -/

/-- the witness states satisfy the hypotheses of the full statement -/
theorem witnesses_satisfy_idx_inv :
    IdxInv 10 wRename ∧ IdxInv 10 wShort ∧ IdxInv 10 wJoin ∧ IdxInv 20 wTree ∧ IdxInv 18 wNul := by
  refine ⟨?_, ?_, ?_, ?_, ?_⟩
  · rw [← wRename_reached]; exact idx_inv_step _ 0 10 _ idx_inv_empty (by omega)
  · rw [← wShort_reached]; exact idx_inv_step _ 0 10 _ idx_inv_empty (by omega)
  · rw [← wJoin_reached]; exact idx_inv_step _ 0 10 _ idx_inv_empty (by omega)
  · rw [← wTree_reached]
    exact idx_inv_step _ 12 20 _ (idx_inv_step _ 10 12 _ (idx_inv_step _ 0 10 _ idx_inv_empty (by omega)) (by omega)) (by omega)
  · rw [← wNul_reached]
    exact idx_inv_step _ 16 18 _ (idx_inv_step _ 0 16 _ idx_inv_empty (by omega)) (by omega)

/-- Finding `catalog:instance-renamed-in-place`: `register n1 {id web, name web} @10` then
    `register n1 {id web, name db} @12`: ServiceNodes("web") loses its only instance, the index stays 10;
    CheckServiceNodes("web") likewise, and the only row it watches (`service.web`) does not change. -/
theorem service_rename_counterexample :
    let s := wRename
    let s' := (apply s 12 regWebAsDb).1
    ((Query.serviceNodes "web").run s').2 ≠ ((Query.serviceNodes "web").run s).2 ∧
    ((Query.serviceNodes "web").run s').1 = ((Query.serviceNodes "web").run s).1 ∧
    ((Query.csn "web").run s').2 ≠ ((Query.csn "web").run s).2 ∧
    ((Query.csn "web").run s').1 = ((Query.csn "web").run s).1 ∧
    (Query.csn "web").fired s s' = false := by
  simp only [wRename2_reached]
  have h := rename_run
  refine ⟨?_, ?_, rename_csn.1, rename_csn.2.1, rename_csn.2.2⟩
  · rw [h.1, h.2]; simp
  · rw [h.1, h.2]

/-- Former finding `catalog:node-services:name-shorter-than-2` (repaired in /repo 8ebfe04; kept as a regression
    witness): `register m @10`, `deregister m @12`: NodeServices("m") goes from (10, node m) to (12, nothing) —
    the result changes and the index moves UP to the command's index (it used to fall to 0). -/
theorem node_services_short_name_repaired :
    let s := wShort
    let s' := (apply s 12 deregM).1
    ((Query.nodeServices "m").run s').2 ≠ ((Query.nodeServices "m").run s).2 ∧
    ((Query.nodeServices "m").run s).1 < ((Query.nodeServices "m").run s').1 ∧
    ((Query.nodeServices "m").run s').1 = 12 := by
  simp only [wShort2_reached]
  have h := short_run
  rw [h.1, h.2]; simp

/-- Finding `catalog:services-joined-with-nodes`: `register m(addr .2) + web @10`, `register m(addr .1) @12`:
    the joined listing changes (node address), the index (services table) stays 10. -/
theorem services_joined_counterexample :
    let s := wJoin
    let s' := (apply s 12 regMaddr).1
    ((Query.servicesJoin).run s').2 ≠ ((Query.servicesJoin).run s).2 ∧
    ((Query.servicesJoin).run s').1 = ((Query.servicesJoin).run s).1 := by
  simp only [wJoin2_reached]
  have h := join_run
  rw [h.1, h.2]; simp

/-- Finding `kv:list:delete-tree-above-list-prefix`: `set a/b @10; set a/bc @12; delete a/b @20`, then
    `delete-tree "a" @22`: KVSList("a/") goes from {a/bc} to {} and the index stays 20 (the tombstone left by
    the tree delete is on "a", outside the list prefix; the older tombstone of a/b is inside). -/
theorem kv_list_delete_tree_counterexample :
    let s := wTree
    let s' := (apply s 22 (.kvDeleteTree [97])).1
    ((Query.kvList [97, 47]).run s').2 ≠ ((Query.kvList [97, 47]).run s).2 ∧
    ((Query.kvList [97, 47]).run s').1 = ((Query.kvList [97, 47]).run s).1 := by
  simp only [wTree2_reached, Query.run]
  have h := tree_run
  rw [h.1, h.2]; simp

/-- Finding `kv:list:prefix-with-leading-NUL`: `set "\x00a" @16; set "\x00ab" @18`, then `delete "\x00ab" @22`:
    KVSList("\x00a") changes and its index goes from 18 DOWN to 16 (the graveyard lookup trims the NUL and
    misses the tombstone). -/
theorem kv_list_leading_nul_counterexample :
    let s := wNul
    let s' := (apply s 22 (.kvDelete [0, 97, 98])).1
    ((Query.kvList [0, 97]).run s').2 ≠ ((Query.kvList [0, 97]).run s).2 ∧
    ((Query.kvList [0, 97]).run s').1 < ((Query.kvList [0, 97]).run s).1 := by
  simp only [wNul2_reached, Query.run]
  have h := nul_run
  refine ⟨?_, by rw [h.1, h.2.1]; omega⟩
  intro e; exact h.2.2 (by simpa using e)

/-! ### KVSList / KVS.ListKeys: what holds (`_partial`) -/

/-- every index stored anywhere in the KV part (index table, entries' ModifyIndex, tombstones) is at most `m` -/
def KvInv (m : Nat) (s : State) : Prop := KvBound m s

theorem kv_inv_step (s : State) (m i : Nat) (c : Cmd) (h : KvInv m s) (hi : m ≤ i) : KvInv i (apply s i c).1 :=
  kvBound_step c h hi

/-- `KvInv` holds in every state reachable by a well-indexed history. -/
theorem kv_inv_reachable (s : State) (m : Nat) (log : Log) (h : KvInv m s) (hw : WellIndexed m log) :
    KvInv (lastIndex m log) (replay s log) := by
  induction log generalizing s m with
  | nil => exact h
  | cons ic rest ih =>
    obtain ⟨i, c⟩ := ic
    exact ih (apply s i c).1 i (kv_inv_step s m i c h (Nat.le_of_lt hw.1)) hw.2

theorem kv_inv_empty : KvInv 0 State.empty :=
  ⟨idxLe_nil 0, fun e he => by simp [State.empty] at he, fun t ht => by simp [State.empty] at ht⟩

/-- the excluded shape of finding `kv:list:delete-tree-above-list-prefix`: every delete-tree verb of the
    command (direct or inside a transaction) has a non-empty prefix that lies under the (NUL-trimmed) list
    prefix, i.e. the single tombstone it leaves is one the list looks at -/
def NoTreeAbove (p : Key) (c : Cmd) : Prop := ∀ d ∈ c.trees, d ≠ [] ∧ prefixMatch (trimNul p) d = true

/-- PARTIAL (full statement above): for a list prefix that is not empty and has no leading NUL byte
    (finding `kv:list:prefix-with-leading-NUL`) and a command with no delete-tree above the prefix, if the
    listing changes then the new index is exactly the command's index, strictly above the old one. Every
    command type: KV verbs, session invalidation releasing / deleting keys, transactions, … -/
theorem kv_list_change_bumps_index_partial (p : Key) (hp : p ≠ []) (hnul : p.head? ≠ some 0)
    (s : State) (m i : Nat) (c : Cmd) (hI : KvInv m s) (hi : m < i) (hT : NoTreeAbove p c)
    (hch : ((Query.kvList p).run (apply s i c).1).2 ≠ ((Query.kvList p).run s).2) :
    ((Query.kvList p).run (apply s i c).1).1 = i ∧ ((Query.kvList p).run s).1 < i := by
  simp only [Query.run] at hch ⊢
  have hold : (kvList s p).1 ≤ m := kvList_le hI
  by_cases hc : ∀ u, c ≠ .reap u
  · have L := list_apply (i := i) hnul c hc hT hI (Nat.le_of_lt hi)
    rcases L.view with hv | hf
    · exfalso; apply hch
      rw [kvList_eq _ p hp, kvList_eq _ p hp]; simp [hv.1]
    · exact ⟨kvList_fresh hp L.bound (by omega) hf, by omega⟩
  · have : ∃ u, c = .reap u := by
      cases c <;> simp at hc ⊢
    obtain ⟨u, rfl⟩ := this
    exfalso; apply hch
    simp [apply, reapTxn, kvList]

/-- … and the same for the key listing of `KVS.ListKeys` (any separator): it is computed from the listing. -/
theorem kv_keys_change_bumps_index_partial (p sep : Key) (hp : p ≠ []) (hnul : p.head? ≠ some 0)
    (s : State) (m i : Nat) (c : Cmd) (hI : KvInv m s) (hi : m < i) (hT : NoTreeAbove p c)
    (hch : ((Query.kvKeys p sep).run (apply s i c).1).2 ≠ ((Query.kvKeys p sep).run s).2) :
    ((Query.kvKeys p sep).run (apply s i c).1).1 = i ∧ ((Query.kvKeys p sep).run s).1 < i := by
  have := kv_list_change_bumps_index_partial p hp hnul s m i c hI hi hT (by
    simp only [Query.run] at hch ⊢
    intro e; apply hch
    simp at e; simp [e])
  simpa [Query.run] using this

/-- The listing of EVERYTHING (empty prefix) reports the table index: full contract, no exclusions. -/
theorem kv_list_all_change_bumps_index (s : State) (m i : Nat) (c : Cmd) (hI : IdxInv m s) (hi : m < i)
    (hch : ((Query.kvList []).run (apply s i c).1).2 ≠ ((Query.kvList []).run s).2) :
    ((Query.kvList []).run (apply s i c).1).1 = i ∧ ((Query.kvList []).run s).1 < i := by
  have T := tbl_apply s i c
  have hle := Nat.le_of_lt hi
  have hne : (apply s i c).1.kvs ≠ s.kvs := by
    intro e; apply hch; simp [Query.run, kvList, e]
  have h1 := tbl_val hI hle stable_kvs (T.kvs hne)
  have h2 := (T.ops.le (hI.mono hle)).val "tombstones"
  have h3 := hI.val "tombstones"
  have h4 := hI.val "kvs"
  have e : ∀ st : State, (kvList st []).1 = kvMaxIndex st := by
    intro st; simp [kvList]
  simp only [Query.run, e, kvMaxIndex]
  omega

/-- PARTIAL index monotonicity of KVSList: no decrease across any command that is not a tombstone reap
    (and has no delete-tree above the prefix). -/
theorem kv_list_index_monotone_partial (p : Key) (hp : p ≠ []) (hnul : p.head? ≠ some 0)
    (s : State) (m i : Nat) (c : Cmd) (hI : KvInv m s) (hi : m ≤ i) (hc : ∀ u, c ≠ .reap u) (hT : NoTreeAbove p c) :
    ((Query.kvList p).run s).1 ≤ ((Query.kvList p).run (apply s i c).1).1 := by
  simp only [Query.run]
  have hold : (kvList s p).1 ≤ m := kvList_le hI
  have L := list_apply (i := i) hnul c hc hT hI hi
  rcases L.view with hv | hf
  · rw [kvList_eq _ p hp, kvList_eq _ p hp, hv.1, hv.2]
    simp only
    have T := tbl_apply s i c
    have m1 := T.ops.mono (hI.idx.mono hi) stable_kvs
    have m2 := T.ops.mono (hI.idx.mono hi) stable_tombstones
    split
    · exact Nat.le_refl _
    · unfold kvMaxIndex; omega
  · by_cases h0 : i = 0
    · omega
    · rw [kvList_fresh hp L.bound (by omega) hf]; omega

/-- Tombstone reaping (the exception the property names) changes no listing at all; it can only lower the
    index of a list query, by forgetting tombstones. -/
theorem reap_changes_no_result (q : Query) (s : State) (i u : Nat) :
    (q.run (apply s i (.reap u)).1).2 = (q.run s).2 := by
  have hcsn : ∀ l, csnRows (reapTxn s u) l = csnRows s l := fun l =>
    csnRows_congr (fun _ _ => rfl) (fun _ _ => ⟨rfl, rfl⟩)
  cases q <;> simp [Query.run, apply, Store.kvGet, Store.kvList, kvFind, sessFind, sessOnNode, svcsNamed,
    joinNode, nodeFind, nodeServicesHead, svcsOnNode, chksOnNode, chksOfService, chksInStatus, csnResult, pqFind, hcsn]
  all_goals (try simp [reapTxn])
  case kvGet k => by_cases hk : k = [] <;> simp [hk]
  case servicesJoin => intro a _; rfl
  case serviceNodes => intro a _ _; rfl

/-! Findings `catalog:check-rebound-to-another-service` and `catalog:check-row-keeps-old-service-name` need two
services on one node; their concrete witnesses (`reg n1 web + c2 on web; reg n1 db; reg n1 c2 on db` and
`reg n1 web + c2 on web; reg n1 {id web, name db}; dereg check c2`) are replayed against the real store and
against the model driver on every run (exhaustive catalog words of the harness; the model agrees line by
line). On the model they are stated as general facts about the write path: -/

/-- Finding `catalog:check-rebound-to-another-service` on the model: when `ensureCheckTxn` writes a check bound to
    instance `hc.svcId` (service `v`), the only per-service index row it touches is `service.<v.name>` — the
    service the check was bound to before (if any) keeps its index row, whatever its result now shows. -/
theorem check_rebound_leaves_previous_service_index {s s1 : State} {i : Nat} {p : Bool} {hc hc1 : Chk} {md : Bool} {v : Svc}
    (hr : checkPrep s i p hc = .ok (s1, hc1, md)) (hs : hc.svcId ≠ "") (hv : svcFind s hc.node hc.svcId = some v)
    (name : String) (hne : lc name ≠ lc v.name) :
    idxGet s1.index (svcKey name) = idxGet s.index (svcKey name) ∧ idxGet s1.index kSvcExt = idxGet s.index kSvcExt := by
  have k1 := svcKey_ne hne
  have hn := normChk_node s i p hc
  rw [checkPrep_eq] at hr
  simp only [hn.1, hn.2.1, hs, hv, ne_eq, not_false_eq_true, if_true] at hr
  repeat' (split at hr)
  all_goals (try simp at hr)
  all_goals (obtain ⟨rfl, -, -⟩ := hr)
  all_goals (first | exact ⟨rfl, rfl⟩ | skip)
  all_goals
    simp [bumpServiceIdx, State.maxIdx2, State.maxIdx, idxGet_idxMax, svcKey, kSvcExt, lc_eq_iff, ikey, String.toList_append] at k1 ⊢
    exact fun h => absurd h k1

/-- Finding `catalog:check-row-keeps-old-service-name` on the model: deleting a service check bumps the index
    row named by the check row's own copy of the service name, and no other service's row. -/
theorem check_delete_bumps_only_the_row_s_service_name (s : State) (i : Nat) (node id : String) (x : Chk) (hx : x.svcId ≠ "")
    (name : String) (hne : lc name ≠ lc x.svcName) :
    idxGet (deleteCheckPre s i node id x).index (svcKey name) = idxGet s.index (svcKey name) := by
  have k1 := svcKey_ne hne
  simp [deleteCheckPre, hx, State.maxIdx2, State.maxIdx, idxGet_idxMax, svcKey, lc_eq_iff, ikey, String.toList_append] at k1 ⊢
  exact fun h => absurd h k1


/-- The Connect and tag-filtered variants (ConnectServiceNodes, ServiceTagNodes with a tag, CheckConnectServiceNodes,
    CheckServiceTagNodes) return no rows in this model (no Connect instances, no tags): their results never
    change, so the contract holds for them vacuously HERE; their real behaviour (proxies, gateways, tags) is
    covered by the monitor-only part of the harness, which records three findings about them. -/
theorem connect_and_tag_results_constant (s s' : State) (name tag : String) :
    ((Query.connectNodes name).run s').2 = ((Query.connectNodes name).run s).2 ∧
    ((Query.tagNodes name tag).run s').2 = ((Query.tagNodes name tag).run s).2 ∧
    ((Query.csnConnect name).run s').2 = ((Query.csnConnect name).run s).2 ∧
    ((Query.csnTag name tag).run s').2 = ((Query.csnTag name tag).run s).2 :=
  ⟨rfl, rfl, rfl, rfl⟩

/-! ### watch footprints -/

/-- CHANGE ⇒ WATCH. For every read path that is not answered through the watch-set optimisation
    (`Query.plainWatch`: everything except `CheckServiceNodes` of a service whose index row exists, and
    `NodeServiceList`, whose result also depends on its index), between ANY two states — whatever
    happened in between, one write or a thousand: if the result differs, something in the WatchSet built
    in the first state has changed. -/
theorem change_fires_watch (q : Query) (s s' : State) (hq : q.plainWatch s)
    (hch : (q.run s').2 ≠ (q.run s).2) : q.fired s s' = true := by
  cases h : q.fired s s' with
  | true => rfl
  | false => exact absurd (watch_sound q s s' hq h) hch

/-- non-vacuity: a KV write fires the watch of a get on that key and of a list over its prefix -/
example : (Query.kvGet [97]).fired State.empty (apply State.empty 5 (.kvSet ⟨[97], "=v", 0, "", 0, 0, 0⟩)).1 = true ∧
    (Query.kvList []).fired State.empty (apply State.empty 5 (.kvSet ⟨[97], "=v", 0, "", 0, 0, 0⟩)).1 = true := by
  decide

/-! ### the blocking loop -/

open CV.BQ in
/-- BLOCKING LOOP. Under the contract (changed result ⇒ strictly larger index and fired watch; index
    monotone) a request that blocks on the index it was given in state `a` and enters the loop in any later
    state either returns a strictly newer index, or runs into its timeout — and then NO state it slept
    through, from `a` to the end, had a result different from the one of `a`. -/
theorem blocking_loop_sound {ρ : Type} (t : Trace ρ) (a start : Nat) (h : Contract t a)
    (h1 : a ≤ start) (h2 : start ≤ t.last) :
    match run t (t.idx a) start with
    | .returned r => t.idx a < t.idx r ∧ start ≤ r ∧ r ≤ t.last
    | .timeout _ => ∀ k, a ≤ k → k ≤ t.last → t.res k = t.res a := by
  unfold run
  split
  · next r hr => exact loop_returned _ _ _ h2 hr
  · next e he => exact loop_timeout h _ _ _ h1 h2 (by omega) he


/-! ### end to end: a table-indexed query blocked across a history -/

/-- the states a history passes through: `stateAt s0 log k` is the store after the first `k` entries -/
def stateAt (s0 : State) (log : Log) (k : Nat) : State := replay s0 (log.take k)

/-- what the blocking loop observes of query `q` along the history (any wake-up schedule) -/
def queryTrace (q : Query) (s0 : State) (log : Log) (sched : Nat → Nat) : CV.BQ.Trace QRes where
  last := log.length
  idx k := reported (q.run (stateAt s0 log k)).1
  res k := (q.run (stateAt s0 log k)).2
  fired j k := q.fired (stateAt s0 log j) (stateAt s0 log k)
  sched := sched

theorem stateAt_succ (s0 : State) (log : Log) (k : Nat) (hk : k < log.length) :
    stateAt s0 log (k + 1) = (apply (stateAt s0 log k) (log[k]).1 (log[k]).2).1 := by
  unfold stateAt replay
  rw [List.take_succ_eq_append_getElem hk, List.foldl_append]
  rfl

theorem wellIndexed_next (m : Nat) (log : Log) (hw : WellIndexed m log) (k : Nat) (hk : k < log.length) :
    lastIndex m (log.take k) < (log[k]).1 ∧ m ≤ lastIndex m (log.take k) := by
  induction log generalizing m k with
  | nil => simp at hk
  | cons ic rest ih =>
    obtain ⟨i, c⟩ := ic
    cases k with
    | zero => simp [lastIndex]; exact hw.1
    | succ k =>
      have := ih i hw.2 k (by simpa using hk)
      simp only [List.take_succ_cons, lastIndex, List.getElem_cons_succ]
      exact ⟨this.1, Nat.le_trans (Nat.le_of_lt hw.1) this.2⟩

theorem idx_inv_stateAt (s0 : State) (m : Nat) (log : Log) (h : IdxInv m s0) (hw : WellIndexed m log) (k : Nat) :
    IdxInv (lastIndex m (log.take k)) (stateAt s0 log k) := by
  have hw' : WellIndexed m (log.take k) := by
    clear h
    induction log generalizing m k with
    | nil => simp [WellIndexed]
    | cons ic rest ih =>
      obtain ⟨i, c⟩ := ic
      cases k with
      | zero => simp [WellIndexed]
      | succ k => exact ⟨hw.1, ih i hw.2 k⟩
  exact idx_inv_reachable s0 m _ h hw'

/-- THE PROPERTY, END TO END, for the table-indexed read paths. Take any store state satisfying the
    index invariant (bound `m ≥ 1`), any well-indexed history of commands of any type, any table-indexed
    query, any schedule of wake-ups. A client that was given the result of state `a` and blocks on its
    index either gets an answer with a strictly larger index, or — if the request times out — NO state of
    the history from `a` on had a different result: a change is never missed. -/
theorem table_query_blocking_sound (q : Query) (hq : q.tableLevel = true) (s0 : State) (m : Nat) (hm : 1 ≤ m)
    (log : Log) (hI : IdxInv m s0) (hw : WellIndexed m log) (sched : Nat → Nat) (a start : Nat)
    (h1 : a ≤ start) (h2 : start ≤ log.length) :
    let t := queryTrace q s0 log sched
    match CV.BQ.run t (t.idx a) start with
    | .returned r => t.idx a < t.idx r ∧ start ≤ r ∧ r ≤ log.length
    | .timeout _ => ∀ k, a ≤ k → k ≤ log.length → t.res k = t.res a := by
  intro t
  have hplain : ∀ s, q.plainWatch s := by
    intro s; cases q <;> simp [Query.tableLevel] at hq <;> simp [Query.plainWatch]
  have hc : CV.BQ.Contract t a := by
    refine ⟨?_, ?_, ?_⟩
    · intro k _ hk
      have hk' : k < log.length := hk
      show reported _ ≤ reported _
      rw [stateAt_succ s0 log k hk']
      have hn := wellIndexed_next m log hw k hk'
      exact reported_mono (table_index_monotone q hq _ _ _ _ (idx_inv_stateAt s0 m log hI hw k) (Nat.le_of_lt hn.1))
    · intro k _ hk hch
      have hk' : k < log.length := hk
      show reported _ < reported _
      have hn := wellIndexed_next m log hw k hk'
      have hch' : (q.run (stateAt s0 log (k + 1))).2 ≠ (q.run (stateAt s0 log k)).2 := hch
      rw [stateAt_succ s0 log k hk'] at hch' ⊢
      exact table_change_bumps_reported_index q hq _ _ _ _ (idx_inv_stateAt s0 m log hI hw k) hn.1 (by omega) hch'
    · intro j k _ _ _ hch
      exact change_fires_watch q _ _ (hplain _) hch
  exact blocking_loop_sound t a start hc h1 h2

/-! ### round 2 — the per-node and per-service read paths: the POSITIVE contract under the naming discipline

The counterexamples above are the ONLY ways these read paths break the contract. Hypotheses, all decidable
on the command (and, further down, on the whole log):
  * node names are NUL-free when lower-cased (`NF`) (the former second restriction — a queried node name of at
    least two bytes, finding `catalog:node-services-short-name` — is gone since /repo 8ebfe04);
  * `D : Disc` fixes the service name of every instance key (node, id) and the service id of every check key
    (node, id): no instance is renamed in place (`catalog:service-renamed-in-place`), no check is rebound to
    another service (`catalog:check-rebound`). -/

/-- index invariant, and every node name stored in the catalog is NUL-free when lower-cased -/
def NodeInv (m : Nat) (s : State) : Prop :=
  IdxInv m s ∧ (∀ v ∈ s.svcs, NF v.node) ∧ (∀ nd ∈ s.nodes, NF nd.name)

/-- every node name the command mentions is NUL-free when lower-cased -/
def NodesNF (c : Cmd) : Prop := ∀ a ∈ c.nodes, NF a

instance (c : Cmd) : Decidable (NodesNF c) := by unfold NodesNF; infer_instance

theorem nodesNF_ok {c : Cmd} (h : NodesNF c) : c.ok nodeGuard :=
  ⟨fun _ _ => trivial, fun _ _ => trivial, h, fun _ _ => trivial⟩

theorem nodeStep_start {n : String} {s : State} {m i : Nat} (hI : NodeInv m s) (hi : m ≤ i) : NodeStep n i s s :=
  ⟨hI.1.mono hi, hI.2.1, hI.2.2, Or.inl ⟨rfl, rfl⟩⟩

/-- one command keeps the invariant -/
theorem node_inv_step (s : State) (m i : Nat) (c : Cmd) (h : NodeInv m s) (hi : m ≤ i) (hc : NodesNF c) :
    NodeInv i (apply s i c).1 := by
  have L := node_apply (n := "xx") c (nodesNF_ok hc) (nodeStep_start h hi)
  exact ⟨L.le, L.nf_svc, L.nf_node⟩

theorem node_inv_empty : NodeInv 0 State.empty :=
  ⟨idx_inv_empty, by intro v hv; simp [State.empty] at hv, by intro v hv; simp [State.empty] at hv⟩

/-- PARTIAL (only the NUL-free naming discipline `NodesNF` is left as a hypothesis): NodeServices(n) for EVERY node
    name, incl. names shorter than `minUUIDLookupLen`. If the result changes — the node row, or the set of service instances on the
    node — the new index is exactly the command's index, strictly above the old one. Every command type. -/
theorem node_services_change_bumps_index_partial (n : String) (s : State) (m i : Nat) (c : Cmd)
    (hI : NodeInv m s) (hi : m < i) (hc : NodesNF c)
    (hch : ((Query.nodeServices n).run (apply s i c).1).2 ≠ ((Query.nodeServices n).run s).2) :
    ((Query.nodeServices n).run (apply s i c).1).1 = i ∧ ((Query.nodeServices n).run s).1 < i := by
  have L := node_apply c (nodesNF_ok hc) (nodeStep_start (n := n) hI (Nat.le_of_lt hi))
  rw [nodeServices_idx, nodeServices_idx]
  have hold := nsIdx_le hI.1 n
  rcases L.view with ⟨hv, -⟩ | hf
  · exact absurd (nodeServices_res_of_view hv) hch
  · exact ⟨hf, by omega⟩

/-- … and the same for NodeServiceList(n), whose result additionally depends on whether its index is 0. -/
theorem node_service_list_change_bumps_index_partial (n : String) (s : State) (m i : Nat) (c : Cmd)
    (hI : NodeInv m s) (hi : m < i) (hc : NodesNF c)
    (hch : ((Query.nodeServiceList n).run (apply s i c).1).2 ≠ ((Query.nodeServiceList n).run s).2) :
    ((Query.nodeServiceList n).run (apply s i c).1).1 = i ∧ ((Query.nodeServiceList n).run s).1 < i := by
  have L := node_apply c (nodesNF_ok hc) (nodeStep_start (n := n) hI (Nat.le_of_lt hi))
  rw [nodeServiceList_idx, nodeServiceList_idx]
  have hold := nsIdx_le hI.1 n
  rcases L.view with ⟨hv, hx⟩ | hf
  · exact absurd (nodeServiceList_res_of_view hv hx) hch
  · exact ⟨hf, by omega⟩

/-- PARTIAL index monotonicity of NodeServices / NodeServiceList: no decrease across ANY command (a tombstone reap
    does not touch the catalog index rows). -/
theorem node_services_index_monotone_partial (n : String) (s : State) (m i : Nat) (c : Cmd)
    (hI : NodeInv m s) (hi : m ≤ i) (hc : NodesNF c) :
    ((Query.nodeServices n).run s).1 ≤ ((Query.nodeServices n).run (apply s i c).1).1 ∧
    ((Query.nodeServiceList n).run s).1 ≤ ((Query.nodeServiceList n).run (apply s i c).1).1 := by
  have L := node_apply c (nodesNF_ok hc) (nodeStep_start (n := n) hI hi)
  rw [nodeServices_idx, nodeServices_idx, nodeServiceList_idx, nodeServiceList_idx]
  have hold := nsIdx_le hI.1 n
  rcases L.view with ⟨-, hx⟩ | hf
  · rw [hx]; exact ⟨Nat.le_refl _, Nat.le_refl _⟩
  · rw [hf]; omega

/-- index invariant + the stored catalog rows follow the discipline `D` -/
def SvcInv (D : Disc) (m : Nat) (s : State) : Prop := IdxInv m s ∧ CatDisc D s

/-- one disciplined command keeps the invariant -/
theorem svc_inv_step (D : Disc) (s : State) (m i : Nat) (c : Cmd) (h : SvcInv D m s) (hi : m ≤ i) (hc : c.ok D.guard) :
    SvcInv D i (apply s i c).1 :=
  ⟨idx_inv_step s m i c h.1 hi, disc_apply c hc h.2⟩

theorem svc_inv_empty (D : Disc) (m : Nat) : SvcInv D m State.empty := ⟨idxLe_nil m, catDisc_empty D⟩

theorem svc_inv_reachable (D : Disc) (s : State) (m : Nat) (log : Log) (h : SvcInv D m s) (hw : WellIndexed m log)
    (hG : ∀ ic ∈ log, ic.2.ok D.guard) : SvcInv D (lastIndex m log) (replay s log) := by
  induction log generalizing s m with
  | nil => exact h
  | cons ic rest ih =>
    obtain ⟨i, c⟩ := ic
    exact ih (apply s i c).1 i (svc_inv_step D s m i c h (Nat.le_of_lt hw.1) (hG (i, c) List.mem_cons_self)) hw.2
      (fun x hx => hG x (List.mem_cons_of_mem _ hx))

theorem svcStep_start {D : Disc} {N : String} {s : State} {m i : Nat} (hI : SvcInv D m s) (hi : m ≤ i) :
    SvcStep D N i s s := SvcStep.start (hI.1.mono hi) hI.2

/-- PARTIAL (full statement refuted by `service_rename_counterexample`): ServiceNodes(N) under the discipline.
    If the result changes — an instance named N appears, disappears or is rewritten, or the node row of one of
    them changes — the new index is exactly the command's index, strictly above the old one. Every command
    type: registration, deregistration (service, node, with the cascades), node rename by ID, transactions. -/
theorem service_nodes_change_bumps_index_partial (D : Disc) (N : String) (s : State) (m i : Nat) (c : Cmd)
    (hI : SvcInv D m s) (hi : m < i) (hc : c.ok D.guard)
    (hch : ((Query.serviceNodes N).run (apply s i c).1).2 ≠ ((Query.serviceNodes N).run s).2) :
    ((Query.serviceNodes N).run (apply s i c).1).1 = i ∧ ((Query.serviceNodes N).run s).1 < i := by
  have L := svc_apply (N := N) c hc (svcStep_start hI (Nat.le_of_lt hi))
  have hold : svcIdx s N false ≤ m := svcIdx_le hI.1 N false
  show svcIdx _ N false = i ∧ svcIdx s N false < i
  rcases L.view with ⟨hv, -⟩ | hf
  · exact absurd (serviceNodes_res_of_view hv) hch
  · exact ⟨svcFresh_idx hf false, by omega⟩

/-- PARTIAL (full statement refuted by `check_rebound_leaves_previous_service_index` and the rename finding):
    CheckServiceNodes(N) under the discipline. If the result changes — instances, their node rows, the
    node-level checks of their nodes or their own checks (registered, updated, deleted, or flipped by a session
    invalidation) — then the new index is exactly the command's index, strictly above the old one, AND the
    WatchSet built before the write fires: also when it is the single `service.<N>` index row of the
    watch-set optimisation. -/
theorem check_service_nodes_change_bumps_index_partial (D : Disc) (N : String) (s : State) (m i : Nat) (c : Cmd)
    (hI : SvcInv D m s) (hi : m < i) (hc : c.ok D.guard)
    (hch : ((Query.csn N).run (apply s i c).1).2 ≠ ((Query.csn N).run s).2) :
    ((Query.csn N).run (apply s i c).1).1 = i ∧ ((Query.csn N).run s).1 < i ∧
    (Query.csn N).fired s (apply s i c).1 = true := by
  have L := svc_apply (N := N) c hc (svcStep_start hI (Nat.le_of_lt hi))
  have hold : svcIdx s N true ≤ m := svcIdx_le hI.1 N true
  show svcIdx _ N true = i ∧ svcIdx s N true < i ∧ _
  rcases L.view with ⟨hv, -⟩ | hf
  · exact absurd (csn_res_of_view hv) hch
  · refine ⟨svcFresh_idx hf true, by omega, ?_⟩
    by_cases hp : (Query.csn N).plainWatch s
    · exact change_fires_watch _ _ _ hp hch
    · -- the optimisation: the only watched channel is the `service.<N>` index row
      simp only [Query.plainWatch, not_or] at hp
      obtain ⟨he, hr⟩ := hp
      obtain ⟨v, hv⟩ := Option.ne_none_iff_exists'.mp hr
      have hvm : v ≤ m := hI.1 _ _ hv
      have hne : idxGet s.index (svcKey N) ≠ idxGet (apply s i c).1.index (svcKey N) := by
        rw [hv]
        rcases hf with ⟨-, h2⟩ | ⟨-, -, h2⟩
        · rw [h2]; intro e; simp at e; omega
        · rw [h2]; simp
      have he' : (svcsNamed s N).isEmpty = false := by simpa using he
      simp [Query.fired, Query.watch, he', hv, WatchItem.changed]
      rw [hv] at hne; exact hne

/-- PARTIAL index monotonicity of ServiceNodes / CheckServiceNodes: no decrease across ANY disciplined command. -/
theorem service_index_monotone_partial (D : Disc) (N : String) (s : State) (m i : Nat) (c : Cmd)
    (hI : SvcInv D m s) (hi : m ≤ i) (hc : c.ok D.guard) :
    ((Query.serviceNodes N).run s).1 ≤ ((Query.serviceNodes N).run (apply s i c).1).1 ∧
    ((Query.csn N).run s).1 ≤ ((Query.csn N).run (apply s i c).1).1 := by
  have L := svc_apply (N := N) c hc (svcStep_start hI hi)
  show svcIdx s N false ≤ svcIdx _ N false ∧ svcIdx s N true ≤ svcIdx _ N true
  have T := tbl_apply s i c
  rcases L.view with ⟨hv, hr⟩ | hf
  · exact ⟨svcIdx_mono T.ops (hI.1.mono hi) (view_isEmpty hv) hr false,
      svcIdx_mono T.ops (hI.1.mono hi) (view_isEmpty hv) hr true⟩
  · rw [svcFresh_idx hf false, svcFresh_idx hf true]
    have := svcIdx_le hI.1 N false; have := svcIdx_le hI.1 N true
    omega

/-- THE OPTIMISED WATCH, ANY NUMBER OF WRITES LATER. Along a disciplined history: either what
    CheckServiceNodes(N) shows and the `service.<N>` index row are both exactly as before, or the row is gone or
    holds an index above everything the start state knew. -/
theorem service_row_moves_with_view (D : Disc) (N : String) (s : State) (m : Nat) (log : Log)
    (hI : SvcInv D m s) (hw : WellIndexed m log) (hG : ∀ ic ∈ log, ic.2.ok D.guard) :
    (csnView (replay s log) N = csnView s N ∧
      idxGet (replay s log).index (svcKey N) = idxGet s.index (svcKey N)) ∨
    idxGet (replay s log).index (svcKey N) = none ∨
    ∃ w, idxGet (replay s log).index (svcKey N) = some w ∧ m < w := by
  induction log generalizing s m with
  | nil => exact Or.inl ⟨rfl, rfl⟩
  | cons ic rest ih =>
    obtain ⟨i, c⟩ := ic
    have hc := hG (i, c) List.mem_cons_self
    have L := svc_apply (N := N) c hc (svcStep_start hI (Nat.le_of_lt hw.1))
    have hI1 := svc_inv_step D s m i c hI (Nat.le_of_lt hw.1) hc
    have IH := ih (apply s i c).1 i hI1 hw.2 (fun x hx => hG x (List.mem_cons_of_mem _ hx))
    show _ ∨ idxGet (replay (apply s i c).1 rest).index _ = none ∨ ∃ w, idxGet (replay (apply s i c).1 rest).index _ = some w ∧ _
    rcases IH with ⟨v1, r1⟩ | hn | ⟨w, hw1, hlt⟩
    · rcases L.view with ⟨v0, r0⟩ | ⟨-, h2⟩ | ⟨-, -, h2⟩
      · exact Or.inl ⟨v1.trans v0, r1.trans r0⟩
      · exact Or.inr (Or.inr ⟨i, r1.trans h2, hw.1⟩)
      · exact Or.inr (Or.inl (r1.trans h2))
    · exact Or.inr (Or.inl hn)
    · exact Or.inr (Or.inr ⟨w, hw1, by have := hw.1; omega⟩)

/-! ### … end to end, and on the log -/

theorem wellIndexed_take (m : Nat) (log : Log) (hw : WellIndexed m log) (k : Nat) : WellIndexed m (log.take k) := by
  induction log generalizing m k with
  | nil => simp [WellIndexed]
  | cons ic rest ih =>
    obtain ⟨i, c⟩ := ic
    cases k with
    | zero => simp [WellIndexed]
    | succ k => exact ⟨hw.1, ih i hw.2 k⟩

theorem wellIndexed_drop (m : Nat) (log : Log) (hw : WellIndexed m log) (j : Nat) :
    WellIndexed (lastIndex m (log.take j)) (log.drop j) := by
  induction log generalizing m j with
  | nil => simp [WellIndexed, lastIndex]
  | cons ic rest ih =>
    obtain ⟨i, c⟩ := ic
    cases j with
    | zero => simpa [lastIndex] using hw
    | succ j => simpa [lastIndex] using ih i hw.2 j

theorem stateAt_split (s0 : State) (log : Log) {j k : Nat} (hjk : j ≤ k) :
    stateAt s0 log k = replay (stateAt s0 log j) ((log.take k).drop j) := by
  unfold stateAt replay
  rw [← List.foldl_append]
  have : log.take j = (log.take k).take j := by rw [List.take_take, Nat.min_eq_left hjk]
  rw [this, List.take_append_drop]

theorem svc_inv_stateAt (D : Disc) (s0 : State) (m : Nat) (log : Log) (h : SvcInv D m s0) (hw : WellIndexed m log)
    (hG : ∀ ic ∈ log, ic.2.ok D.guard) (k : Nat) : SvcInv D (lastIndex m (log.take k)) (stateAt s0 log k) :=
  svc_inv_reachable D s0 m _ h (wellIndexed_take m log hw k) (logDisc_mem_take hG k)

/-- the read paths of this section (NodeServiceList is not among them: its result also depends on whether its
    index is 0, which no channel of its WatchSet reports) -/
def Query.disciplined : Query → Prop
  | .nodeServices _ | .serviceNodes _ | .csn _ => True
  | _ => False

/-- CHANGE ⇒ WATCH for CheckServiceNodes INCLUDING the watch-set optimisation, between any two states of a
    disciplined history, however many writes apart. -/
theorem check_service_nodes_change_fires_watch (D : Disc) (N : String) (s0 : State) (m : Nat) (log : Log)
    (hI : SvcInv D m s0) (hw : WellIndexed m log) (hG : ∀ ic ∈ log, ic.2.ok D.guard) (j k : Nat) (hjk : j ≤ k)
    (hch : ((Query.csn N).run (stateAt s0 log k)).2 ≠ ((Query.csn N).run (stateAt s0 log j)).2) :
    (Query.csn N).fired (stateAt s0 log j) (stateAt s0 log k) = true := by
  by_cases hp : (Query.csn N).plainWatch (stateAt s0 log j)
  · exact change_fires_watch _ _ _ hp hch
  · simp only [Query.plainWatch, not_or] at hp
    obtain ⟨he, hr⟩ := hp
    obtain ⟨v, hv⟩ := Option.ne_none_iff_exists'.mp hr
    have hIj := svc_inv_stateAt D s0 m log hI hw hG j
    have hvm : v ≤ lastIndex m (log.take j) := hIj.1 _ _ hv
    have hwd : WellIndexed (lastIndex m (log.take j)) ((log.take k).drop j) := by
      have := wellIndexed_drop m (log.take k) (wellIndexed_take m log hw k) j
      rwa [List.take_take, Nat.min_eq_left hjk] at this
    have hGd : ∀ ic ∈ (log.take k).drop j, ic.2.ok D.guard :=
      fun ic hic => hG ic (List.mem_of_mem_take (List.mem_of_mem_drop hic))
    have M := service_row_moves_with_view D N (stateAt s0 log j) _ _ hIj hwd hGd
    rw [← stateAt_split s0 log hjk] at M
    have hne : idxGet (stateAt s0 log j).index (svcKey N) ≠ idxGet (stateAt s0 log k).index (svcKey N) := by
      rw [hv]
      rcases M with ⟨hview, -⟩ | h2 | ⟨w, h2, hlt⟩
      · exact absurd (csn_res_of_view hview) hch
      · rw [h2]; simp
      · rw [h2]; intro e; simp at e; omega
    have he' : (svcsNamed (stateAt s0 log j) N).isEmpty = false := by simpa using he
    simp [Query.fired, Query.watch, he', hv, WatchItem.changed]
    rw [hv] at hne; exact hne

/-- THE PROPERTY, END TO END, for NodeServices (every node name), ServiceNodes and CheckServiceNodes: take any
    store state whose catalog follows a discipline `D` (bound `m ≥ 1`), any well-indexed history of commands of
    any type that follow `D`, any schedule of wake-ups. A client that was given the result of state `a` and
    blocks on its index either gets an answer with a strictly larger index, or — if the request times out — NO
    state of the history from `a` on had a different result: a change is never missed. -/
theorem disciplined_query_blocking_sound (D : Disc) (q : Query) (hq : q.disciplined) (s0 : State) (m : Nat) (hm : 1 ≤ m)
    (log : Log) (hI : SvcInv D m s0) (hw : WellIndexed m log) (hG : ∀ ic ∈ log, ic.2.ok D.guard)
    (sched : Nat → Nat) (a start : Nat) (h1 : a ≤ start) (h2 : start ≤ log.length) :
    let t := queryTrace q s0 log sched
    match CV.BQ.run t (t.idx a) start with
    | .returned r => t.idx a < t.idx r ∧ start ≤ r ∧ r ≤ log.length
    | .timeout _ => ∀ k, a ≤ k → k ≤ log.length → t.res k = t.res a := by
  intro t
  have inv := svc_inv_stateAt D s0 m log hI hw hG
  have ninv : ∀ k, NodeInv (lastIndex m (log.take k)) (stateAt s0 log k) :=
    fun k => ⟨(inv k).1, (inv k).2.nf_svc, (inv k).2.nf_node⟩
  have cok : ∀ k (hk : k < log.length), (log[k]).2.ok D.guard := fun k hk => hG _ (List.getElem_mem hk)
  have hc : CV.BQ.Contract t a := by
    refine ⟨?_, ?_, ?_⟩
    · intro k _ hk
      have hk' : k < log.length := hk
      show reported _ ≤ reported _
      rw [stateAt_succ s0 log k hk']
      have hn := wellIndexed_next m log hw k hk'
      apply reported_mono
      cases q <;> simp only [Query.disciplined] at hq
      · exact (service_index_monotone_partial D _ _ _ _ _ (inv k) (Nat.le_of_lt hn.1) (cok k hk')).1
      · exact (node_services_index_monotone_partial _ _ _ _ _ (ninv k) (Nat.le_of_lt hn.1) (cok k hk').nodes).1
      · exact (service_index_monotone_partial D _ _ _ _ _ (inv k) (Nat.le_of_lt hn.1) (cok k hk')).2
    · intro k _ hk hch
      have hk' : k < log.length := hk
      show reported _ < reported _
      have hn := wellIndexed_next m log hw k hk'
      have hch' : (q.run (stateAt s0 log (k + 1))).2 ≠ (q.run (stateAt s0 log k)).2 := hch
      rw [stateAt_succ s0 log k hk'] at hch' ⊢
      have h2i : 2 ≤ (log[k]).1 := by omega
      cases q <;> simp only [Query.disciplined] at hq
      · have := service_nodes_change_bumps_index_partial D _ _ _ _ _ (inv k) hn.1 (cok k hk') hch'
        rw [this.1]; exact reported_strict this.2 h2i
      · have := node_services_change_bumps_index_partial _ _ _ _ _ (ninv k) hn.1 (cok k hk').nodes hch'
        rw [this.1]; exact reported_strict this.2 h2i
      · have := check_service_nodes_change_bumps_index_partial D _ _ _ _ _ (inv k) hn.1 (cok k hk') hch'
        rw [this.1]; exact reported_strict this.2.1 h2i
    · intro j k _ hjk _ hch
      cases q <;> simp only [Query.disciplined] at hq
      · exact change_fires_watch _ _ _ (by simp [Query.plainWatch]) hch
      · exact change_fires_watch _ _ _ (by simp [Query.plainWatch]) hch
      · exact check_service_nodes_change_fires_watch D _ s0 m log hI hw hG j k hjk hch
  exact blocking_loop_sound t a start hc h1 h2

/-- … and with the hypotheses on the LOG only: a history from the empty store that satisfies the decidable
    predicate `LogDisc` (NUL-free node names, no instance key registered under two names, no check key bound to
    two service ids). -/
theorem disciplined_log_blocking_sound (q : Query) (hq : q.disciplined) (log : Log) (hd : LogDisc log)
    (hw : WellIndexed 1 log) (sched : Nat → Nat) (a start : Nat) (h1 : a ≤ start) (h2 : start ≤ log.length) :
    let t := queryTrace q State.empty log sched
    match CV.BQ.run t (t.idx a) start with
    | .returned r => t.idx a < t.idx r ∧ start ≤ r ∧ r ≤ log.length
    | .timeout _ => ∀ k, a ≤ k → k ≤ log.length → t.res k = t.res a :=
  disciplined_query_blocking_sound (Disc.ofLog log) q hq State.empty 1 (Nat.le_refl _) log
    (svc_inv_empty _ 1) hw (logDisc_ok hd) sched a start h1 h2

/-- `LogDisc` implies the per-state invariant in every state of the history (from the empty store) -/
theorem log_disc_gives_state_invariant (log : Log) (hd : LogDisc log) (hw : WellIndexed 1 log) (k : Nat) :
    SvcInv (Disc.ofLog log) (lastIndex 1 (log.take k)) (stateAt State.empty log k) :=
  svc_inv_stateAt _ _ 1 log (svc_inv_empty _ 1) hw (logDisc_ok hd) k

/-! ### non-vacuity of the discipline -/

/-- register n1 / web1 (service "web") with check c1, flip the check to critical, deregister the service, then the node -/
def discLog : Log :=
  [(2, .register ⟨nodeN1, some ⟨"n1", "web1", "web", 80, 0, 0⟩, [⟨"n1", "c1", "passing", "web1", "", "", "", "", 0, 0⟩]⟩),
   (3, .register ⟨nodeN1, some ⟨"n1", "web1", "web", 80, 0, 0⟩, [⟨"n1", "c1", "critical", "web1", "", "", "", "down", 0, 0⟩]⟩),
   (4, .deregister "n1" "web1" ""),
   (5, .deregister "n1" "" "")]

theorem nf_iff (a : String) : NF a ↔ nulC ∉ ikey a := by unfold NF; rw [lc_toList]

/-- the hypotheses are satisfiable: a history with a registration, a check update, a service and a node
    deregistration is well-indexed and disciplined -/
theorem discipline_nonvacuous : LogDisc discLog ∧ WellIndexed 1 discLog := by
  refine ⟨⟨?_, ?_, ?_, ?_⟩, ?_⟩
  · simp (config := {decide := true}) [discLog, logNodes, Cmd.nodes, nodeN1, nf_iff, ikey]
  · simp (config := {decide := true}) [discLog, logChks, Cmd.chks, nodeN1, nf_iff, ikey]
  · simp (config := {decide := true}) [discLog, logSvcs, Cmd.svcs, nodeN1, Functional]
  · simp (config := {decide := true}) [discLog, logChks, Cmd.chks, nodeN1, Functional]
  · simp [discLog, WellIndexed]

/-- … and they exclude exactly the recorded mechanism: the history of `service_rename_counterexample`
    (instance n1/web re-registered under the name "db") is rejected -/
theorem discipline_rejects_rename : ¬ LogDisc [(10, regWeb), (12, regWebAsDb)] := by
  intro h
  have := h.noRename ("n1", "web", "web") (by simp [logSvcs, Cmd.svcs, regWeb, regWebAsDb, nodeN1])
    ("n1", "web", "db") (by simp [logSvcs, Cmd.svcs, regWeb, regWebAsDb, nodeN1]) rfl
  exact web_ne_db this.symm

/-- the premise "the result changes" is satisfiable under the discipline, and the theorem then pins the index:
    registering the first instance of "web" at index 10 makes ServiceNodes("web") report exactly 10 -/
theorem discipline_first_instance :
    ((Query.serviceNodes "web").run (apply State.empty 10 regWeb).1).1 = 10 := by
  have hd : LogDisc [(10, regWeb)] := by
    refine ⟨?_, ?_, ?_, ?_⟩
    · simp (config := {decide := true}) [logNodes, Cmd.nodes, regWeb, nodeN1, nf_iff, ikey]
    · simp [logChks, Cmd.chks, regWeb]
    · simp (config := {decide := true}) [logSvcs, Cmd.svcs, regWeb, nodeN1, Functional]
    · simp [logChks, Cmd.chks, regWeb, Functional]
  have hch : ((Query.serviceNodes "web").run (apply State.empty 10 regWeb).1).2 ≠
      ((Query.serviceNodes "web").run State.empty).2 := by
    rw [wRename_reached]
    simp (config := {decide := true}) [Query.run, svcsNamed, wRename, State.empty]
  exact (service_nodes_change_bumps_index_partial (Disc.ofLog [(10, regWeb)]) "web" State.empty 1 10 regWeb
    (svc_inv_empty _ 1) (by decide) (logDisc_ok hd (10, regWeb) (by simp)) hch).1

/-! ### the sentinel errors of `blockingquery.Query` -/

open CV.BQ in
/-- `ErrNotFound` / `ErrNotChanged` raise the index the loop blocks on to the one just reported, so the loop may
    sleep through index movement. If the query function uses them as its doc comment demands (`FlagsSound`: two
    "not found" answers mean the same result; "not changed" means the result of the previous evaluation), no
    wake-up for a change that is still there is lost: a request that times out holds, from its last evaluation
    `e` on, the result the client already has. (A change that was undone again before the loop re-evaluated is
    not reported — by design: "query result has not changed".) -/
theorem blocking_loop_sentinels_sound {ρ : Type} (t : Trace ρ) (f : Flags) (a start : Nat) (h : Contract t a)
    (hf : FlagsSound t f a) (h1 : a ≤ start) (h2 : start ≤ t.last) :
    match runF t f (t.idx a) start with
    | .returned r => t.idx a < t.idx r ∧ start ≤ r ∧ r ≤ t.last
    | .timeout e => t.res e = t.res a ∧ ∀ k, e ≤ k → k ≤ t.last → t.res k = t.res a := by
  have inv0 : LoopInv t f a ⟨t.idx a, false, none⟩ start :=
    ⟨a, Nat.le_refl _, h1, rfl, rfl, by intro j hj; simp at hj, by intro hs; simp at hs⟩
  unfold runF
  split
  · next r hr => exact loopF_returned h hf _ _ _ _ h1 h2 inv0 hr
  · next e he => exact loopF_timeout h hf _ _ _ _ h1 h2 (by omega) inv0 he

/-! ### round 5: the loop from its entry; scripted runs tied to the real `Server.blockingQuery` -/

open CV.BQ in
/-- NON-BLOCKING BRANCH of `blockingquery.Query`: with `MinQueryIndex = 0` the query function runs exactly once,
    whatever index it stores and whatever sentinel it raises. -/
theorem query_min_zero_single_evaluation {ρ : Type} (t : Trace ρ) (f : Flags) (start : Nat) :
    query t f 0 start = .returned start := by
  simp [query]

open CV.BQ in
/-- … and with `MinQueryIndex > 0` it is the sentinel loop the theorems above are about. -/
theorem query_min_pos_is_loop {ρ : Type} (t : Trace ρ) (f : Flags) (m start : Nat) (hm : 0 < m) :
    query t f m start = runF t f m start := by
  have : m ≠ 0 := by omega
  simp [query, this]

open CV.BQ in
/-- The sentinel handling is conservative: a query function that never raises `ErrNotFound` / `ErrNotChanged`
    runs through exactly the plain loop (`blocking_loop_sound` applies to it verbatim). -/
theorem loopF_without_sentinels_is_loop {ρ : Type} (t : Trace ρ) (m : Nat) :
    ∀ (fuel : Nat) (st : LoopSt) (c : Nat), st.min = m → loopF t noFlags fuel st c = loop t m fuel c := by
  intro fuel
  induction fuel with
  | zero => intro st c _; rfl
  | succ n ih =>
    intro st c hst
    have hmin : (evalStep t noFlags st c).min = m := by
      unfold evalStep noFlags
      cases st.prev <;> simp [hst]
    simp only [loopF, loop, hmin]
    split
    · rfl
    · split
      · rfl
      · exact ih _ _ hmin

open CV.BQ in
theorem runF_without_sentinels_is_run {ρ : Type} (t : Trace ρ) (m start : Nat) :
    runF t noFlags m start = run t m start :=
  loopF_without_sentinels_is_loop t m _ _ _ rfl

open CV.BQ in
/-- `ErrNotFound` KEEPS BLOCKING: once the query function has answered "not found", further "not found"
    answers never end the request, whatever the index does (each one raises the blocked-on index to the index
    just reported): the request runs into its time limit. This is the reason the sentinel exists — writes to
    other rows of the table must not wake a client that waits for an entry to appear. -/
theorem not_found_keeps_blocking {ρ : Type} (t : Trace ρ) (f : Flags) (hf : ∀ k, f.notFound k = true) :
    ∀ (fuel : Nat) (st : LoopSt) (c : Nat), st.sawNotFound = true → ∃ e, loopF t f fuel st c = .timeout e := by
  intro fuel
  induction fuel with
  | zero => intro st c _; exact ⟨c, rfl⟩
  | succ n ih =>
    intro st c hs
    have hstep : evalStep t f st c = { min := t.idx c, sawNotFound := true, prev := some c } := by
      simp [evalStep, hf c, hs]
    simp only [loopF, hstep, Nat.lt_irrefl, if_false]
    split
    · exact ⟨c, rfl⟩
    · exact ih _ _ rfl

open CV.BQ in
/-- … from the entry of the loop: if the entry is absent in every state and the first evaluation does not already
    carry a newer index than the one asked for, the request ends by its time limit, never by a spurious return. -/
theorem absent_entry_blocks_until_timeout {ρ : Type} (t : Trace ρ) (f : Flags) (hf : ∀ k, f.notFound k = true)
    (m start : Nat) (h0 : t.idx start ≤ m) (hfuel : 0 < t.last + 1 - start) :
    ∃ e, runF t f m start = .timeout e := by
  unfold runF
  obtain ⟨n, hn⟩ : ∃ n, t.last + 1 - start = n + 1 := ⟨t.last + 1 - start - 1, by omega⟩
  rw [hn]
  have hstep : evalStep t f ⟨m, false, none⟩ start = { min := m, sawNotFound := true, prev := some start } := by
    simp [evalStep, hf start]
  have hng : ¬ (t.idx start > m) := by omega
  simp only [loopF, hstep, hng, if_false]
  split
  · exact ⟨start, rfl⟩
  · exact not_found_keeps_blocking t f hf _ _ _ rfl

open CV.BQ in
/-- non-vacuity / regression values of the scripted model (the same scripts run against the real loop on every
    check): `ErrNotChanged` on a second evaluation raises the blocked-on index (4 evaluations, then the limit);
    two "not found" answers swallow an index that moved; `MinQueryIndex = 0` evaluates once. -/
example : scriptRun 1 [⟨1, .none, true⟩, ⟨1, .none, true⟩, ⟨2, .notChanged, true⟩, ⟨2, .notChanged, false⟩] = some (4, 2) ∧
    scriptRun 2 [⟨2, .notFound, true⟩, ⟨3, .notFound, true⟩, ⟨3, .none, false⟩] = some (3, 3) ∧
    scriptRun 2 [⟨2, .notFound, true⟩, ⟨3, .none, true⟩, ⟨9, .none, false⟩] = some (2, 3) ∧
    scriptRun 0 [⟨7, .notFound, false⟩] = some (1, 7) := by decide

end CV.Store
