/-
C06 — blocking-query contract: a change is never missed.

Property theorems only. Model: CV.Store.Query (read paths: index, result, watch footprint, on top of the
shared store model CV.Store.*) and CV.BlockingQuery (the loop of blockingquery.Query). Helper lemmas:
CV/Proofs/StoreQueryIdx, StoreLadder, StoreQueryTbl, StoreQueryFoot, BlockingQuery.

The statement of the property, per query `q` and per committed command `c` at Raft index `i` (larger
than every index in the state, `IdxInv`):
    result changes  ⇒  reported index strictly larger  ∧  the WatchSet built before the write fires;
    reported index ≥ 1;  the index never decreases (tombstone reaping excepted).
It is proved in full for the table-indexed read paths (`Query.tableLevel`) and for the footprint of
every read path that is not answered through the watch-set optimisation. For the read paths with their
own index rows (KVSList, the per-service and per-node paths) the full statement is FALSE for the code as
it is — seven recorded findings, each with a `_counterexample` theorem below — and a `_partial`
theorem states what holds.
-/
import CV.Proofs.StoreQueryTbl
import CV.Proofs.StoreQueryFoot
import CV.Proofs.BlockingQuery
namespace CV.Store
open CV

/-! ### the reported index -/

/-- `SetQueryMeta`: the index handed to a client is never zero. -/
theorem reported_index_pos (i : Nat) : 1 ≤ reported i := by
  unfold reported; split <;> omega

/-- … and it is the index the query computed whenever that is not zero. -/
theorem reported_eq (i : Nat) (h : 1 ≤ i) : reported i = i := by
  unfold reported; split <;> omega

/-- A strictly larger raw index that is a real Raft index (Raft never commits a command at index 1:
    the first entries of a log are configuration and no-op entries) is reported strictly larger. -/
theorem reported_strict {a b : Nat} (h : a < b) (hb : 2 ≤ b) : reported a < reported b := by
  unfold reported; split <;> split <;> omega

theorem reported_mono {a b : Nat} (h : a ≤ b) : reported a ≤ reported b := by
  unfold reported; split <;> split <;> omega

/-! ### histories and the index invariant -/

/-- Raft hands the FSM strictly increasing indexes, all larger than `m` -/
def WellIndexed (m : Nat) : Log → Prop
  | [] => True
  | (i, _) :: rest => m < i ∧ WellIndexed i rest

/-- the index of the last entry (or `m` for the empty log) -/
def lastIndex (m : Nat) : Log → Nat
  | [] => m
  | (i, _) :: rest => lastIndex i rest

/-- every row of the index table is at most `m` (`m` = the index of the last applied command) -/
def IdxInv (m : Nat) (s : State) : Prop := IdxLe m s.index

/-- one command keeps the invariant, with its own index as the new bound -/
theorem idx_inv_step (s : State) (m i : Nat) (c : Cmd) (h : IdxInv m s) (hi : m ≤ i) : IdxInv i (apply s i c).1 :=
  (tbl_apply s i c).ops.le (h.mono hi)

/-- The index invariant holds in every state reachable by a well-indexed history. -/
theorem idx_inv_reachable (s : State) (m : Nat) (log : Log) (h : IdxInv m s) (hw : WellIndexed m log) :
    IdxInv (lastIndex m log) (replay s log) := by
  induction log generalizing s m with
  | nil => exact h
  | cons ic rest ih =>
    obtain ⟨i, c⟩ := ic
    exact ih (apply s i c).1 i (idx_inv_step s m i c h (Nat.le_of_lt hw.1)) hw.2

theorem idx_inv_empty : IdxInv 0 State.empty := idxLe_nil 0

/-! ### table-indexed read paths: the full contract -/

/-- the read paths whose index is a table row of the index table and whose result is a function of that
    table: KVSGet, SessionGet / SessionList / NodeSessions, Nodes, Services, NodeChecks, ServiceChecks,
    ChecksInState, PreparedQueryGet / PreparedQueryList -/
def Query.tableLevel : Query → Bool
  | .kvGet _ | .sessGet _ | .sessList | .nodeSessions _ | .nodes | .services
  | .nodeChecks _ | .serviceChecks _ | .checksInState _ | .pqGet _ | .pqList => true
  | _ => false

theorem tbl_val {i m : Nat} {s s' : State} {k : String} (hI : IdxLe m s.index) (hm : m ≤ i)
    (hk : Stable k) (hit : IxHit i k s.index s'.index) : idxVal s'.index k = i :=
  hit.val (hI.mono hm) hk

/-- CHANGE ⇒ INDEX. For every table-indexed query, every state satisfying the index invariant, every
    command of any type (KV verbs, sessions, register / deregister, prepared queries, transactions …)
    at a larger index: if the result changes, the new index is exactly the command's index, hence
    strictly larger than the old one. -/
theorem table_change_bumps_index (q : Query) (hq : q.tableLevel = true) (s : State) (m i : Nat) (c : Cmd)
    (hI : IdxInv m s) (hi : m < i) (hch : (q.run (apply s i c).1).2 ≠ (q.run s).2) :
    (q.run (apply s i c).1).1 = i ∧ (q.run s).1 < (q.run (apply s i c).1).1 := by
  have T := tbl_apply s i c
  have hle := Nat.le_of_lt hi
  have hI' : IdxLe i (apply s i c).1.index := T.ops.le (hI.mono hle)
  have key : ∀ (k : String), Stable k → IxHit i k s.index (apply s i c).1.index →
      idxVal (apply s i c).1.index k = i ∧ idxVal s.index k < idxVal (apply s i c).1.index k := by
    intro k hk hit
    have := tbl_val hI hle hk hit
    have := hI.val k
    omega
  cases q <;> simp only [Query.tableLevel] at hq <;> try (exact absurd hq (by decide))
  case kvGet k =>
    simp only [Query.run, Store.kvGet] at hch ⊢
    by_cases hk : k = []
    · simp [hk] at hch
    · simp only [hk, if_false] at hch ⊢
      have hne : (apply s i c).1.kvs ≠ s.kvs := by
        intro e; apply hch; simp [kvFind, e]
      have h1 := key "kvs" stable_kvs (T.kvs hne)
      have h2 := hI'.val "tombstones"
      have h3 := hI.val "tombstones"
      simp only [kvMaxIndex]
      omega
  case sessGet id =>
    simp only [Query.run] at hch ⊢
    exact key _ stable_sessions (T.sessions (by intro e; apply hch; simp [sessFind, e]))
  case sessList =>
    simp only [Query.run] at hch ⊢
    exact key _ stable_sessions (T.sessions (by intro e; apply hch; simp [e]))
  case nodeSessions n =>
    simp only [Query.run] at hch ⊢
    exact key _ stable_sessions (T.sessions (by intro e; apply hch; simp [sessOnNode, e]))
  case nodes =>
    simp only [Query.run] at hch ⊢
    exact key _ stable_nodes (T.nodes (by intro e; apply hch; simp [e]))
  case services =>
    simp only [Query.run] at hch ⊢
    exact key _ stable_services (T.svcs (by intro e; apply hch; simp [e]))
  case nodeChecks n =>
    simp only [Query.run] at hch ⊢
    exact key _ stable_checks (T.chks (by intro e; apply hch; simp [chksOnNode, e]))
  case serviceChecks n =>
    simp only [Query.run] at hch ⊢
    exact key _ stable_checks (T.chks (by intro e; apply hch; simp [chksOfService, e]))
  case checksInState st =>
    simp only [Query.run] at hch ⊢
    exact key _ stable_checks (T.chks (by intro e; apply hch; simp [chksInStatus, e]))
  case pqGet id =>
    simp only [Query.run] at hch ⊢
    exact key _ stable_pq (T.queries (by intro e; apply hch; simp [pqFind, e]))
  case pqList =>
    simp only [Query.run] at hch ⊢
    exact key _ stable_pq (T.queries (by intro e; apply hch; simp [e]))

/-- … in terms of what the client sees (`SetQueryMeta`): strictly larger reported index. -/
theorem table_change_bumps_reported_index (q : Query) (hq : q.tableLevel = true) (s : State) (m i : Nat) (c : Cmd)
    (hI : IdxInv m s) (hi : m < i) (hraft : 2 ≤ i) (hch : (q.run (apply s i c).1).2 ≠ (q.run s).2) :
    reported (q.run s).1 < reported (q.run (apply s i c).1).1 := by
  have h := table_change_bumps_index q hq s m i c hI hi hch
  exact reported_strict h.2 (by omega)

/-- INDEX MONOTONE. For the table-indexed queries the index never decreases — for every command,
    tombstone reaping included (reaping only lowers the index of KVSList, see below). -/
theorem table_index_monotone (q : Query) (hq : q.tableLevel = true) (s : State) (m i : Nat) (c : Cmd)
    (hI : IdxInv m s) (hi : m ≤ i) : (q.run s).1 ≤ (q.run (apply s i c).1).1 := by
  have T := tbl_apply s i c
  have mono : ∀ k, Stable k → idxVal s.index k ≤ idxVal (apply s i c).1.index k :=
    fun k hk => T.ops.mono (hI.mono hi) hk
  cases q <;> simp only [Query.tableLevel] at hq <;> try (exact absurd hq (by decide))
  case kvGet k =>
    simp only [Query.run, Store.kvGet]
    by_cases hk : k = []
    · simp [hk]
    · simp only [hk, if_false, kvMaxIndex]
      have := mono "kvs" stable_kvs
      have := mono "tombstones" stable_tombstones
      omega
  all_goals simp only [Query.run]
  case sessGet => exact mono _ stable_sessions
  case sessList => exact mono _ stable_sessions
  case nodeSessions => exact mono _ stable_sessions
  case nodes => exact mono _ stable_nodes
  case services => exact mono _ stable_services
  case nodeChecks => exact mono _ stable_checks
  case serviceChecks => exact mono _ stable_checks
  case checksInState => exact mono _ stable_checks
  case pqGet => exact mono _ stable_pq
  case pqList => exact mono _ stable_pq

/-! ### watch footprints -/

/-- CHANGE ⇒ WATCH. For every read path that is not answered through the watch-set optimisation
    (`Query.plainWatch`: everything except `CheckServiceNodes` of a service whose index row exists, and
    `NodeServiceList`, whose result also depends on its index), between ANY two states — whatever
    happened in between, one write or a thousand: if the result differs, something in the WatchSet built
    in the first state has changed. -/
theorem change_fires_watch (q : Query) (s s' : State) (hq : q.plainWatch s)
    (hch : (q.run s').2 ≠ (q.run s).2) : q.fired s s' = true := by
  cases h : q.fired s s' with
  | true => rfl
  | false => exact absurd (watch_sound q s s' hq h) hch

/-- non-vacuity: a KV write fires the watch of a get on that key and of a list over its prefix -/
example : (Query.kvGet [97]).fired State.empty (apply State.empty 5 (.kvSet ⟨[97], "=v", 0, "", 0, 0, 0⟩)).1 = true ∧
    (Query.kvList []).fired State.empty (apply State.empty 5 (.kvSet ⟨[97], "=v", 0, "", 0, 0, 0⟩)).1 = true := by
  decide

/-! ### the blocking loop -/

open CV.BQ in
/-- BLOCKING LOOP. Under the contract (changed result ⇒ strictly larger index and fired watch; index
    monotone) a request that blocks on the index it was given in state `a` and enters the loop in any later
    state either returns a strictly newer index, or runs into its timeout — and then NO state it slept
    through, from `a` to the end, had a result different from the one of `a`. -/
theorem blocking_loop_sound {ρ : Type} (t : Trace ρ) (a start : Nat) (h : Contract t a)
    (h1 : a ≤ start) (h2 : start ≤ t.last) :
    match run t (t.idx a) start with
    | .returned r => t.idx a < t.idx r ∧ start ≤ r ∧ r ≤ t.last
    | .timeout _ => ∀ k, a ≤ k → k ≤ t.last → t.res k = t.res a := by
  unfold run
  split
  · next r hr => exact loop_returned _ _ _ h2 hr
  · next e he => exact loop_timeout h _ _ _ h1 h2 (by omega) he

end CV.Store
