/-
Property C11 — streaming subscribers materialize exactly the server's state.

Model: `CV.Stream` (catalog writes and the events consul computes for them, the publish queue,
topic buffers / snapshot splice / snapshot cache, subscriptions and their close states, the
submatview handler state machine and the views). Helper lemmas: `CV.Proofs.Stream*`
(`StreamClean` holds the statement definitions `ViewOk`, `Mono`, `Quiescent`, `CleanRun`,
`CleanRunS`, `GuardRun`).

The full-strength statements
    view_ok_all_schedules : ∀ acts, ViewOk (run (Sys.init ttl) acts)
    indexes_monotone      : ∀ acts, Mono   (run (Sys.init ttl) acts)
    no_change_skipped     : ∀ acts, Quiescent (run (Sys.init ttl) acts)
    forced_resubscribe    : … and never left with a stale view
are FALSE for the faithful model — and for consul: the Go harness replays every counterexample
schedule below against the real code on every run and its monitors report the same outcome:
  * the commit/publish gap (DESIGN §6 #9)                      `indexes_monotone_counterexample`,
                                                               `view_ok_all_schedules_counterexample`
  * events of a discarded history that survive `FSM.Restore`   `no_change_skipped_counterexample_restore`
  * a resumed subscription on a pre-restore topic buffer       `forced_resubscribe_counterexample_local_resume`
  * two event-generation shapes of catalog_events.go           `no_change_skipped_counterexample_connect_native`,
                                                               `view_ok_counterexample_rename_order`
What is proved, for ALL schedules of unbounded length and all write histories:
  * under the per-action hypothesis `CleanRun` (subscriptions — fresh, resumed, or served from the
    snapshot cache — start with nothing queued; faithful, well-indexed writes; restore only
    while idle):
    `view_ok_partial` (ViewOk ∧ Mono), `indexes_monotone_partial`, `no_change_skipped_partial`,
    `resumed_subscription_is_current`, `quiescent_view_is_current`;
    `view_ok_partial_syntactic` replaces the semantic hypothesis on
    writes by the syntactic `CleanWrite`, justified by `events_faithful_partial`;
  * with the index guard of inmem/watch.go in the materializer, subscriptions may start at ANY
    moment: `view_ok_with_index_guard`, `no_change_skipped_with_index_guard`,
    `indexes_monotone_with_index_guard`;
  * without any hypothesis: `consume_does_not_interfere` (what one subscriber reads, and how its
    token filters it, never changes what another subscriber receives from the shared items),
    `forced_resubscribe_acl`, `forced_resubscribe_restore`, `closed_subscription_delivers_nothing`.
The clean-schedule theorems hold for subscribers with restricted tokens too
(`view_ok_partial_filtered`: the view is the ACL-filter of the direct query at the delivered
commit); the index-guard theorems are stated for unfiltered consumers (`Unfiltered`, `ViewOkU`).
Not proved (monitored on the implementation only): exactness of filtered views for
service-subset tokens on the Connect topic; behaviour across `FSM.Restore` while subscriptions
are attached (refuted in general, see the counterexamples).
-/
import CV.Proofs.StreamClean
import CV.StreamSubject
namespace CV.Stream

/-! ## Theorems -/

/-- **view_ok_all_schedules (partial).** For every schedule of any length whose subscriptions
    start with an empty publish queue (`CleanRun`), after every step every subscriber holds
    exactly the result of the direct query at the delivered commit. Missing for the full
    statement: subscriptions that start between a commit and its publication (false, see
    `view_ok_all_schedules_counterexample`), unfaithful writes, restore while busy. -/
theorem view_ok_partial (ttl : Bool) (acts : List Act) (h : CleanRun (Sys.init ttl) acts) :
    ViewOk (run (Sys.init ttl) acts) ∧ Mono (run (Sys.init ttl) acts) :=
  ⟨fun c hc => ((AllInv.init ttl).run acts h).inv.exact c hc,
   ((AllInv.init ttl).run acts h).minv.mono⟩

/-- **view_ok_partial_filtered.** The same for subscribers with RESTRICTED tokens, spelled out:
    under `CleanRun`, after every step, every subscriber's view is — id by id — the ACL-filter
    (by ITS authorizer, with the semantics of `CheckServiceNode.CanRead` / `ConfigEntry.CanRead`,
    `visF`) of the direct-query result at the delivered commit. The filter commutes with the view
    update because visibility of an entry is a function of its id for ServiceHealth and
    config-entry payloads, and for Connect payloads unless the token restricts by service name
    (`AuthzOk`, required when the subscriber is declared). For a token that may read everything
    this is plain equality. -/
theorem view_ok_partial_filtered (ttl : Bool) (acts : List Act) (h : CleanRun (Sys.init ttl) acts) :
    (∀ c ∈ (run (Sys.init ttl) acts).clients, c.m.index ≠ 0 →
        ∀ i, lookup? i c.m.view = if visF c.authz c.key i then lookup? i c.m.expect else none) ∧
    (∀ c ∈ (run (Sys.init ttl) acts).clients, c.authz = .all → c.m.index ≠ 0 → ViewEq c.m.view c.m.expect) := by
  have hv := (view_ok_partial ttl acts h).1
  refine ⟨fun c hc hi => hv c hc hi, fun c hc ha hi => ?_⟩
  have := hv c hc hi
  rw [ha] at this
  exact isFilterOf_all.mp this

/-- **indexes_monotone (partial), with what it rests on.** In every clean schedule the indexes
    an open subscription can still deliver are ascending, start at or above the last delivered
    one and never exceed the index of the last commit. -/
theorem indexes_monotone_partial (ttl : Bool) (acts : List Act) (h : CleanRun (Sys.init ttl) acts) :
    ∀ c ∈ (run (Sys.init ttl) acts).clients, c.sub = .opened →
      Asc c.lastDelivered (stepIdxs (c.inbox ++ queueItems c.key (run (Sys.init ttl) acts).queue))
        (run (Sys.init ttl) acts).lastIdx :=
  ((AllInv.init ttl).run acts h).minv.ord

/-- **events are faithful (partial).** For every well-formed catalog and every write that satisfies
    the syntactic condition `CleanWrite`, the events `catalog_events.go` / `config_entry_events.go`
    compute describe exactly what the write does to EVERY query (every topic, every subject):
    replaying them on the old result yields the new one. `CleanWrite` admits every write of the
    model — including address changes of nodes that have instances and whole-node
    deregistration — except exactly the two refuted shapes (`LeavesNative`: `witnessConnectLeak`;
    `RenameSameSubject` together with a node change: `witnessRenameOrder`). -/
theorem events_faithful_partial {c : Cat} (h : WF c) (idx : Nat) (w : Write) (hw : CleanWrite c w) :
    ∀ k, ViewEq (query k (applyWrite idx c w).1) (applyEvs (query k c) (evsFor k (applyWrite idx c w).2.1)) :=
  faithful_of_cleanWrite h idx w hw

/-- `view_ok_partial` with the semantic hypothesis on writes discharged: every condition of
    `CleanRunS` is a syntactic condition on the schedule prefix. -/
theorem view_ok_partial_syntactic (ttl : Bool) (acts : List Act) (h : CleanRunS (Sys.init ttl) acts) :
    ViewOk (run (Sys.init ttl) acts) ∧ Mono (run (Sys.init ttl) acts) :=
  view_ok_partial ttl acts (h.clean (AllInv.init ttl))

/-- **no_change_skipped (partial).** In every clean schedule, what an open subscription can
    still read (its buffer suffix plus the batches still queued for publication) replays, exactly
    update by update, to the current direct-query result: no committed change is skipped. -/
theorem no_change_skipped_partial (ttl : Bool) (acts : List Act) (h : CleanRun (Sys.init ttl) acts) :
    ∀ c ∈ (run (Sys.init ttl) acts).clients, c.sub = .opened →
      ∃ mu, Rel c.authz c.key c.m mu ∧
        Sim mu (c.inbox ++ queueItems c.key (run (Sys.init ttl) acts).queue)
          (query c.key (run (Sys.init ttl) acts).cat) :=
  fun c hc ho => ((AllInv.init ttl).run acts h).inv.sim c hc ho

/-- **the resume path is sound (in clean schedules).** Whenever `Subscribe` would resume a
    materializer (`req.Index > 0 && topicHead.HasEventIndex(req.Index)`) while nothing is queued,
    that materializer already holds the current direct-query result. -/
theorem resumed_subscription_is_current (ttl : Bool) (acts : List Act) (h : CleanRun (Sys.init ttl) acts) :
    ∀ c ∈ (run (Sys.init ttl) acts).clients, (run (Sys.init ttl) acts).queue = [] →
      resumes c (lookup? c.key (run (Sys.init ttl) acts).lasts) = true →
      IsFilterOf c.authz c.key c.m.view (query c.key (run (Sys.init ttl) acts).cat) := by
  intro c hc hq hr
  obtain ⟨pc, hri⟩ := ((AllInv.init ttl).run acts h).rinv
  exact resume_view_current hri hq hc hr

/-- corollary: a subscriber with nothing left to read while nothing is queued holds the
    current state -/
theorem quiescent_view_is_current (ttl : Bool) (acts : List Act) (h : CleanRun (Sys.init ttl) acts) :
    ∀ c ∈ (run (Sys.init ttl) acts).clients, c.sub = .opened → c.inbox = [] →
      (run (Sys.init ttl) acts).queue = [] → c.m.index ≠ 0 →
      IsFilterOf c.authz c.key c.m.view (query c.key (run (Sys.init ttl) acts).cat) := by
  intro c hc ho hi hq hx
  obtain ⟨mu, hr, hs⟩ := no_change_skipped_partial ttl acts h c hc ho
  rw [hi, hq] at hs
  exact hr.view.congr (hs.2 (fun h0 => hx (hr.idx0.mpr h0)))

/-- **view_ok_with_index_guard.** With the duplicate-event guard of internal/storage/inmem/watch.go
    (`Index ≤ last ⇒ skip`) applied in the materializer (`handleG`), the view theorem holds for
    every schedule in which subscriptions start at ANY moment — in particular between a commit
    and its publication, the window of the known finding — fresh, cached or RESUMED. Remaining
    hypotheses (`GuardRun`): well-indexed faithful commits whose query index follows the commit
    (`IndexSound`), no restore, unfiltered consumers. -/
theorem view_ok_with_index_guard (ttl : Bool) (acts : List Act) (h : GuardRun (Sys.init ttl) acts) :
    ViewOkU (runG (Sys.init ttl) acts) :=
  fun c hc => ((AllG.init ttl).runG acts h).inv.exact c hc

/-- with the guard nothing is skipped either: pending steps replay to the current state -/
theorem no_change_skipped_with_index_guard (ttl : Bool) (acts : List Act) (h : GuardRun (Sys.init ttl) acts) :
    ∀ c ∈ (runG (Sys.init ttl) acts).clients, c.sub = .opened →
      SimG (runG (Sys.init ttl) acts).lastIdx c.m (c.inbox ++ queueItems c.key (runG (Sys.init ttl) acts).queue)
        (query c.key (runG (Sys.init ttl) acts).cat) :=
  fun c hc ho => ((AllG.init ttl).runG acts h).inv.sim c hc ho

/-- **resumed_subscription_is_current_with_index_guard.** With the guard, whenever `Subscribe`
    would resume a materializer — at any moment, also while batches are queued for publication —
    that materializer's view, replayed through exactly the queued batches of its key (the guard
    lets every one of them through), reaches the current direct-query result; with nothing queued
    it already IS the current result. -/
theorem resumed_subscription_is_current_with_index_guard (ttl : Bool) (acts : List Act)
    (h : GuardRun (Sys.init ttl) acts) :
    ∀ c ∈ (runG (Sys.init ttl) acts).clients,
      resumes c (lookup? c.key (runG (Sys.init ttl) acts).lasts) = true →
      SimG (runG (Sys.init ttl) acts).lastIdx c.m.start (queueItems c.key (runG (Sys.init ttl) acts).queue)
        (query c.key (runG (Sys.init ttl) acts).cat) ∧
      ((runG (Sys.init ttl) acts).queue = [] → ViewEq c.m.view (query c.key (runG (Sys.init ttl) acts).cat)) := by
  intro c hc hr
  obtain ⟨hi, pc, hrg⟩ := (AllG.init ttl).runG acts h
  have hs := resume_sim_guard hrg hi hc hr
  refine ⟨hs, fun hq => ?_⟩
  rw [hq] at hs
  have hne := (resumes_true hr).1
  exact hs.2.2.1 (by simpa [Mat.start] using hne)

/-- **indexes_monotone with the guard** holds unconditionally: a streaming materializer never
    moves its index backwards (a framing event in that state is a handler error). -/
theorem indexes_monotone_with_index_guard (m : Mat) (st : Step) (hs : m.h = .stream) :
    m.index ≤ (handleG m st).index ∨ (handleG m st).h = .bad := by
  cases st with
  | nstf => right; simp [handleG, handle, hs]
  | eos i p => right; simp [handleG, handle, hs]
  | item it =>
    left
    by_cases hi : it.idx ≤ m.index
    · simp [handleG, hs, hi]
    · simp only [handleG, hs, hi, ↓reduceIte, handle, updateView]
      omega

/-- **non-interference between subscribers.** One subscriber's `Next` (including the ACL
    filtering of the item it reads: `visible` is a pure function of its authorizer and the shared
    item) changes nothing any other subscriber can observe: not their inboxes, materializers or
    subscription states, not the cached snapshots, not the topic buffers' newest items, not the
    queue, not the catalog. (The property consul relies on when it shares `bufferItem.Events`
    between all subscribers; a filter that compacts the shared slice in place breaks it.) -/
theorem consume_does_not_interfere (y : Sys) (id : Nat) :
    (next y id).1.cache = y.cache ∧ (next y id).1.lasts = y.lasts ∧ (next y id).1.queue = y.queue ∧
    (next y id).1.cat = y.cat ∧
    ∀ d ∈ (next y id).1.clients, d.id ≠ id → d ∈ y.clients := by
  unfold next nextWith
  cases hg : getClient y id with
  | none => exact ⟨rfl, rfl, rfl, rfl, fun d hd _ => hd⟩
  | some c =>
    have hcid : c.id = id := (getClient_mem hg).2
    have key : ∀ c' : Client, c'.id = c.id →
        (setClient y c').cache = y.cache ∧ (setClient y c').lasts = y.lasts ∧ (setClient y c').queue = y.queue ∧
        (setClient y c').cat = y.cat ∧ ∀ d ∈ (setClient y c').clients, d.id ≠ id → d ∈ y.clients := by
      intro c' e
      refine ⟨rfl, rfl, rfl, rfl, ?_⟩
      intro d hd hne
      rcases mem_setClient hd with rfl | ⟨hd', -⟩
      · exact absurd (e.trans hcid) hne
      · exact hd'
    simp only
    cases hsub : c.sub with
    | none => exact ⟨rfl, rfl, rfl, rfl, fun d hd _ => hd⟩
    | force => simp only; split <;> exact key _ rfl
    | acl => simp only; split <;> exact key _ rfl
    | opened =>
      simp only
      cases hin : c.inbox with
      | nil => exact ⟨rfl, rfl, rfl, rfl, fun d hd _ => hd⟩
      | cons st rest =>
        simp only
        cases hv : visible c.authz c.key.topic st with
        | none => exact key _ rfl
        | some st' =>
          simp only
          cases hidx : stepIdx st' with
          | none => exact key _ rfl
          | some i => exact key _ rfl

/-- what a subscriber is handed for a shared item depends on its own authorizer only; with a
    token that may read everything it is the item itself -/
theorem unfiltered_subscriber_sees_the_item (t : Topic) (st : Step) : visible .all t st = some st :=
  visible_all t st

/-- **forced_resubscribe (ACL).** For every state: publishing a batch that carries a token's
    `closeSubscriptionPayload` leaves no open subscription of that token. -/
theorem forced_resubscribe_acl (y : Sys) (b : Batch) (rest : List Batch) (hq : y.queue = b :: rest)
    (tok : String) (ht : tok ∈ b.close) :
    ∀ c ∈ (publishOne y).clients, c.tok = tok → c.sub ≠ .opened := by
  intro c hc hct
  have hn : (keysOf b.evs).Nodup := nodup_dedupKeys _
  rw [publishOne_eq y b rest hq, foldl_publishKey_clients b (keysOf b.evs) hn] at hc
  simp only [List.map_map, List.mem_map, Function.comp_def] at hc
  obtain ⟨d, -, rfl⟩ := hc
  have hsub : (closeAcl b d).sub ≠ .opened ∨ (closeAcl b d).tok ≠ tok := by
    unfold closeAcl
    by_cases h : d.sub = .opened ∧ b.close.contains d.tok = true
    · rw [if_pos h]; left; simp
    · rw [if_neg h]
      by_cases ho : d.sub = .opened
      · right
        intro e
        apply h
        exact ⟨ho, by simpa [e] using ht⟩
      · exact Or.inl ho
  split at hct <;> split <;> rcases hsub with hs | hs <;> first | exact hs | exact absurd hct hs

/-- **forced_resubscribe (restore).** For every state: `FSM.Restore` leaves no open
    subscription and no cached snapshot. -/
theorem forced_resubscribe_restore (y : Sys) (cat : Cat) :
    (∀ c ∈ (restore y cat).clients, c.sub ≠ .opened) ∧ (restore y cat).cache = [] := by
  refine ⟨?_, rfl⟩
  intro c hc
  unfold restore at hc
  obtain ⟨d, -, rfl⟩ := List.mem_map.mp hc
  by_cases h : d.sub = .opened <;> simp [h]

/-- a closed subscription delivers nothing: `Next` fails, the view is untouched (local
    materializer) or reset (RPC materializer), and the subscription stays closed -/
theorem closed_subscription_delivers_nothing (y : Sys) (id : Nat) (c : Client)
    (hg : getClient y id = some c) (hcl : c.sub = .force ∨ c.sub = .acl) :
    (next y id).2 = .err c.sub ∧
    (next y id).1 = setClient y (if c.rpc then { c with m := c.m.reset } else c) := by
  unfold next nextWith
  rw [hg]
  rcases hcl with h | h <;> simp [h]

/-! ## The full-strength statements are false: counterexamples

Boolean checkers that are implied by the propositions; each counterexample evaluates the
checker on a concrete schedule by kernel reduction (`rfl`). Every schedule below is replayed
against the real consul code by the Go harness on every run (same operations, same outcome). -/

def svc (node sid name : String) (port : Nat) (kind : Kind) : Svc := ⟨node, sid, name, port, kind⟩

/-- DESIGN §6 #9: two commits queued, subscribe, publish — delivered indexes 3, 3(end), 2. -/
def witnessGap : List Act :=
  [.client 1 (hkey "web") "t1" true .all,
   .commit 2 (.reg "n1" 1 (some (svc "n1" "s1" "web" 80 .typical))),
   .commit 3 (.reg "n1" 1 (some (svc "n1" "s1" "web" 81 .typical))),
   .subscribe 1, .publishOne, .publishOne, .next 1, .next 1, .next 1]

/-- **indexes_monotone is false** for the faithful model (full statement:
    `∀ acts, Mono (run (Sys.init ttl) acts)`). -/
theorem indexes_monotone_counterexample : ∃ acts, ¬ Mono (run (Sys.init true) acts) := by
  refine ⟨witnessGap, fun h => ?_⟩
  have h1 := monoB_of_mono h
  have h2 : monoB (run (Sys.init true) witnessGap) = false := by rfl
  rw [h2] at h1; cases h1

/-- the same gap with two different instances: after the stale event the view holds both
    instances while the state at the delivered index holds one -/
def witnessGapMix : List Act :=
  [.client 1 (hkey "web") "t1" true .all,
   .commit 2 (.reg "n1" 1 (some (svc "n1" "s1" "web" 80 .typical))),
   .commit 3 (.reg "n1" 1 (some (svc "n1" "s2" "web" 80 .typical))),
   .subscribe 1, .publishOne, .publishOne, .next 1, .next 1, .next 1, .next 1]

/-- **view_ok_all_schedules is false** for the faithful model (full statement:
    `∀ acts, ViewOk (run (Sys.init ttl) acts)`); every write of the witness is faithful and
    well-indexed — only the subscription start is not clean. -/
theorem view_ok_all_schedules_counterexample : ∃ acts, ¬ ViewOk (run (Sys.init true) acts) := by
  refine ⟨witnessGapMix, fun h => ?_⟩
  have h1 := viewOkB_of_viewOk h
  have h2 : viewOkB (run (Sys.init true) witnessGapMix) = false := by rfl
  rw [h2] at h1; cases h1

/-- a connect-native instance re-registered as a plain one: nothing is published on the
    Connect topic (catalog_events.go `connectEventsByServiceKind`) -/
def witnessConnectLeak : List Act :=
  [.client 1 (ckey "web") "t1" false .all,
   .commit 2 (.reg "n1" 1 (some (svc "n1" "s1" "web" 80 .native))), .publishOne,
   .subscribe 1, .next 1, .next 1,
   .commit 3 (.reg "n1" 1 (some (svc "n1" "s1" "web" 80 .typical))), .publishOne, .next 1]

/-- **no_change_skipped is false** even when every subscription starts with an empty queue:
    the write at index 3 is not `Faithful`. -/
theorem no_change_skipped_counterexample_connect_native :
    ∃ acts, ¬ Quiescent (run (Sys.init false) acts) := by
  refine ⟨witnessConnectLeak, fun h => ?_⟩
  have h1 := quiescentB_of_quiescent h
  have h2 : quiescentB (run (Sys.init false) witnessConnectLeak) = false := by rfl
  rw [h2] at h1; cases h1

/-- one registration changes the node address and renames a sidecar whose destination stays
    the same: `ServiceHealthEventsFromChanges` emits [register(new), deregister(old)] -/
def witnessRenameOrder : List Act :=
  [.client 1 (ckey "web") "t1" false .all,
   .commit 2 (.reg "n1" 1 (some (svc "n1" "s1" "api" 80 (.proxy "web")))), .publishOne,
   .subscribe 1, .next 1, .next 1,
   .commit 3 (.reg "n1" 2 (some (svc "n1" "s1" "db" 80 (.proxy "web")))), .publishOne, .next 1]

theorem view_ok_counterexample_rename_order : ∃ acts, ¬ ViewOk (run (Sys.init false) acts) := by
  refine ⟨witnessRenameOrder, fun h => ?_⟩
  have h1 := viewOkB_of_viewOk h
  have h2 : viewOkB (run (Sys.init false) witnessRenameOrder) = false := by rfl
  rw [h2] at h1; cases h1

/-- a batch committed before `FSM.Restore` and published after it reaches a subscription that
    was opened after the restore -/
def witnessPreRestore : List Act :=
  [.client 1 (hkey "web") "t1" true .all,
   .commit 2 (.reg "n1" 1 (some (svc "n1" "s1" "web" 80 .typical))), .publishOne,
   .commit 3 (.reg "n1" 1 (some (svc "n1" "s1" "web" 81 .typical))),
   .restore (applyWrite 2 Cat.empty (.reg "n1" 1 (some (svc "n1" "s1" "web" 80 .typical)))).1,
   .subscribe 1, .publishOne, .next 1, .next 1, .next 1]

theorem no_change_skipped_counterexample_restore :
    ∃ acts, ¬ Quiescent (run (Sys.init true) acts) := by
  refine ⟨witnessPreRestore, fun h => ?_⟩
  have h1 := quiescentB_of_quiescent h
  have h2 : quiescentB (run (Sys.init true) witnessPreRestore) = false := by rfl
  rw [h2] at h1; cases h1

/-- after `FSM.Restore` a LOCAL materializer (which keeps view and index when `Next` fails with
    `ErrSubForceClosed`) re-subscribes while a second, closed but not yet unsubscribed subscription
    keeps the topic buffer alive: `Subscribe` sees `HasEventIndex(req.Index)` and resumes it on
    the view of the discarded history. (The RPC materializer resets on `Aborted`.) -/
def witnessLocalResume : List Act :=
  [.client 1 (hkey "web") "t1" false .all, .client 2 (hkey "web") "t1" true .all,
   .commit 2 (.reg "n1" 1 (some (svc "n1" "s1" "web" 80 .typical))), .publishOne,
   .subscribe 1, .subscribe 2, .next 1, .next 1,
   .commit 3 (.reg "n1" 1 (some (svc "n1" "s1" "web" 81 .typical))), .publishOne, .next 1,
   .restore (applyWrite 2 Cat.empty (.reg "n1" 1 (some (svc "n1" "s1" "web" 80 .typical)))).1,
   .next 1, .unsub 1, .subscribe 1]

/-- "forced to resubscribe rather than left with a stale view" is false for the local
    materializer: the re-subscription is resumed, the view stays the pre-restore one. -/
theorem forced_resubscribe_counterexample_local_resume :
    ∃ acts, ¬ Quiescent (run (Sys.init false) acts) := by
  refine ⟨witnessLocalResume, fun h => ?_⟩
  have h1 := quiescentB_of_quiescent h
  have h2 : quiescentB (run (Sys.init false) witnessLocalResume) = false := by rfl
  rw [h2] at h1; cases h1

/-- two subscribers with different tokens on the wildcard config-entry topic share one cached
    multi-event snapshot: the restricted one (service "web" only) reads it first and materializes
    [web]; the unrestricted one afterwards still materializes [api, web] -/
def witnessSharedFiltered : List Act :=
  [.client 1 ⟨.cfg, .wild⟩ "t1" true (.svcs ["web"]), .client 2 ⟨.cfg, .wild⟩ "t2" true .all,
   .commit 2 (.cfgSet "api" 1), .commit 3 (.cfgSet "web" 2), .publishOne, .publishOne,
   .subscribe 1, .subscribe 2, .next 1, .next 1, .next 2, .next 2]

theorem shared_item_filtered_per_subscriber :
    (run (Sys.init true) witnessSharedFiltered).clients.map (fun c => (c.m.index, c.m.view.map (·.1.1))) =
      [(3, ["web"]), (3, ["api", "web"])] := by rfl

/-- the two refuted registrations are exactly what `CleanWrite` rejects -/
theorem cleanWrite_rejects_the_known_shapes :
    ¬ CleanWrite (run (Sys.init false) (witnessConnectLeak.take 6)).cat
        (.reg "n1" 1 (some (svc "n1" "s1" "web" 80 .typical))) ∧
    ¬ CleanWrite (run (Sys.init false) (witnessRenameOrder.take 6)).cat
        (.reg "n1" 2 (some (svc "n1" "s1" "db" 80 (.proxy "web")))) := by
  constructor <;> decide

/-- the shared-snapshot schedule with a restricted and an unrestricted subscriber is clean: the
    filtered view theorem applies to it -/
theorem cleanRunS_filtered_nonvacuous : CleanRunS (Sys.init true) witnessSharedFiltered := by
  refine ⟨?_, ?_, ⟨by decide, trivial⟩, ⟨by decide, trivial⟩, trivial, trivial, ?_, ?_, trivial, trivial, trivial, trivial, trivial⟩
  · show AuthzOk _ _; decide
  · show AuthzOk _ _; decide
  · show CleanSubR _ 1; decide
  · show CleanSubR _ 2; decide

/-! ## Non-vacuity: the hypotheses are satisfiable by schedules that deliver events -/

/-- a clean schedule: two subscribers (named and wildcard subject), snapshot, streamed update -/
def witnessClean : List Act :=
  [.client 1 ⟨.cfg, .named "web"⟩ "t1" true .all, .client 2 ⟨.cfg, .wild⟩ "t2" false .all,
   .commit 2 (.cfgSet "web" 1), .publishOne,
   .subscribe 1, .next 1, .next 1,
   .commit 3 (.cfgSet "web" 2), .publishOne, .subscribe 2, .next 1, .next 2, .next 2]

theorem cleanRun_nonvacuous : CleanRun (Sys.init true) witnessClean := by
  refine ⟨(by first | trivial | (show Unfiltered _ _; decide) | (show AuthzOk _ _; decide)), (by first | trivial | (show Unfiltered _ _; decide) | (show AuthzOk _ _; decide)), ⟨by decide, faithful_cfgSet _ _ _ _⟩, (by first | trivial | (show Unfiltered _ _; decide) | (show AuthzOk _ _; decide)), ?_, (by first | trivial | (show Unfiltered _ _; decide) | (show AuthzOk _ _; decide)), (by first | trivial | (show Unfiltered _ _; decide) | (show AuthzOk _ _; decide)),
    ⟨?_, faithful_cfgSet _ _ _ _⟩, (by first | trivial | (show Unfiltered _ _; decide) | (show AuthzOk _ _; decide)), ?_, (by first | trivial | (show Unfiltered _ _; decide) | (show AuthzOk _ _; decide)), (by first | trivial | (show Unfiltered _ _; decide) | (show AuthzOk _ _; decide)), (by first | trivial | (show Unfiltered _ _; decide) | (show AuthzOk _ _; decide)), (by first | trivial | (show Unfiltered _ _; decide) | (show AuthzOk _ _; decide))⟩
  · show CleanSubR _ 1; decide
  · decide
  · show CleanSubR _ 2; decide

/-- … and it ends with both materializers updated to index 3 (so `ViewOk` says something) -/
theorem cleanRun_delivers :
    (run (Sys.init true) witnessClean).clients.map (fun c => c.m.index) = [3, 3] := by rfl

/-- a clean schedule on the health and connect topics: first registration of a node with a
    connect-native instance, snapshot, a port change, a deregistration -/
def witnessCleanSvc : List Act :=
  [.client 1 (hkey "web") "t1" true .all, .client 2 (ckey "web") "t2" false .all,
   .commit 2 (.reg "n1" 1 (some (svc "n1" "s1" "web" 80 .native))), .publishOne,
   .subscribe 1, .subscribe 2, .next 1, .next 1, .next 2, .next 2,
   .commit 3 (.reg "n1" 1 (some (svc "n1" "s1" "web" 81 .native))), .publishOne, .next 1, .next 2,
   .commit 4 (.dereg "n1" (some "s1")), .publishOne, .next 1, .next 2]

theorem cleanRunS_nonvacuous : CleanRunS (Sys.init true) witnessCleanSvc := by
  refine ⟨(by first | trivial | (show Unfiltered _ _; decide) | (show AuthzOk _ _; decide)), (by first | trivial | (show Unfiltered _ _; decide) | (show AuthzOk _ _; decide)), ⟨by decide, ?_⟩, (by first | trivial | (show Unfiltered _ _; decide) | (show AuthzOk _ _; decide)), ?_, ?_, (by first | trivial | (show Unfiltered _ _; decide) | (show AuthzOk _ _; decide)), (by first | trivial | (show Unfiltered _ _; decide) | (show AuthzOk _ _; decide)), (by first | trivial | (show Unfiltered _ _; decide) | (show AuthzOk _ _; decide)), (by first | trivial | (show Unfiltered _ _; decide) | (show AuthzOk _ _; decide)),
    ⟨by decide, ?_⟩, (by first | trivial | (show Unfiltered _ _; decide) | (show AuthzOk _ _; decide)), (by first | trivial | (show Unfiltered _ _; decide) | (show AuthzOk _ _; decide)), (by first | trivial | (show Unfiltered _ _; decide) | (show AuthzOk _ _; decide)), ⟨by decide, (by first | trivial | (show Unfiltered _ _; decide) | (show AuthzOk _ _; decide))⟩, (by first | trivial | (show Unfiltered _ _; decide) | (show AuthzOk _ _; decide)), (by first | trivial | (show Unfiltered _ _; decide) | (show AuthzOk _ _; decide)), (by first | trivial | (show Unfiltered _ _; decide) | (show AuthzOk _ _; decide)), (by first | trivial | (show Unfiltered _ _; decide) | (show AuthzOk _ _; decide))⟩
  · show CleanWrite _ _; decide
  · show CleanSubR _ 1; decide
  · show CleanSubR _ 2; decide
  · show CleanWrite _ _; decide

theorem cleanRunS_delivers :
    (run (Sys.init true) witnessCleanSvc).clients.map (fun c => (c.m.index, c.m.view)) = [(4, []), (4, [])] := by rfl

/-- a clean schedule through the RESUME path: subscriber 1 disconnects and re-subscribes with
    the index it holds while subscriber 2 keeps the topic buffer alive -/
def witnessResume : List Act :=
  [.client 1 (hkey "web") "t1" false .all, .client 2 (hkey "web") "t2" true .all,
   .commit 2 (.reg "n1" 1 (some (svc "n1" "s1" "web" 80 .typical))), .publishOne,
   .subscribe 1, .subscribe 2, .next 1, .next 1,
   .commit 3 (.cfgSet "web" 1), .commit 4 (.dereg "n1" (some "s1")), .publishOne, .publishOne, .next 1,
   .unsub 1, .subscribe 1,
   .commit 5 (.kv), .publishOne, .next 1]

theorem cleanRunS_resume_nonvacuous : CleanRunS (Sys.init false) witnessResume := by
  refine ⟨(by first | trivial | (show Unfiltered _ _; decide) | (show AuthzOk _ _; decide)), (by first | trivial | (show Unfiltered _ _; decide) | (show AuthzOk _ _; decide)), ⟨by decide, ?_⟩, (by first | trivial | (show Unfiltered _ _; decide) | (show AuthzOk _ _; decide)), ?_, ?_, (by first | trivial | (show Unfiltered _ _; decide) | (show AuthzOk _ _; decide)), (by first | trivial | (show Unfiltered _ _; decide) | (show AuthzOk _ _; decide)),
    ⟨by decide, (by first | trivial | (show Unfiltered _ _; decide) | (show AuthzOk _ _; decide))⟩, ⟨by decide, (by first | trivial | (show Unfiltered _ _; decide) | (show AuthzOk _ _; decide))⟩, (by first | trivial | (show Unfiltered _ _; decide) | (show AuthzOk _ _; decide)), (by first | trivial | (show Unfiltered _ _; decide) | (show AuthzOk _ _; decide)), (by first | trivial | (show Unfiltered _ _; decide) | (show AuthzOk _ _; decide)), (by first | trivial | (show Unfiltered _ _; decide) | (show AuthzOk _ _; decide)), ?_,
    ⟨by decide, (by first | trivial | (show Unfiltered _ _; decide) | (show AuthzOk _ _; decide))⟩, (by first | trivial | (show Unfiltered _ _; decide) | (show AuthzOk _ _; decide)), (by first | trivial | (show Unfiltered _ _; decide) | (show AuthzOk _ _; decide)), (by first | trivial | (show Unfiltered _ _; decide) | (show AuthzOk _ _; decide))⟩
  · show CleanWrite _ _; decide
  · show CleanSubR _ 1; decide
  · show CleanSubR _ 2; decide
  · show CleanSubR _ 1; decide

/-- the re-subscription of the witness really is a resume (empty inbox, `resumeStreamHandler`,
    view and index kept) -/
theorem witnessResume_resumes :
    (getClient (run (Sys.init false) (witnessResume.take 15)) 1).map (fun c => (c.inbox, c.m.h, c.m.index, c.m.view))
      = some ([], .resume, 4, []) := by rfl

/-- the known-finding window with config entries: two commits queued, subscribe, publish. Without
    the guard the delivered indexes decrease; with the guard the hypotheses of
    `view_ok_with_index_guard` hold and the view is exact. -/
def witnessGuard : List Act :=
  [.client 1 ⟨.cfg, .named "web"⟩ "t1" true .all,
   .commit 2 (.cfgSet "web" 1), .commit 3 (.cfgSet "web" 2),
   .subscribe 1, .publishOne, .publishOne, .next 1, .next 1, .next 1, .next 1]

theorem guardRun_nonvacuous : GuardRun (Sys.init true) witnessGuard := by
  refine ⟨(by first | trivial | (show Unfiltered _ _; decide) | (show AuthzOk _ _; decide)), ⟨by decide, faithful_cfgSet _ _ _ _, indexSound_cfgSet _ _ _ _ (by decide)⟩,
    ⟨by decide, faithful_cfgSet _ _ _ _, indexSound_cfgSet _ _ _ _ (by decide)⟩, ?_,
    (by first | trivial | (show Unfiltered _ _; decide) | (show AuthzOk _ _; decide)), (by first | trivial | (show Unfiltered _ _; decide) | (show AuthzOk _ _; decide)), (by first | trivial | (show Unfiltered _ _; decide) | (show AuthzOk _ _; decide)), (by first | trivial | (show Unfiltered _ _; decide) | (show AuthzOk _ _; decide)), (by first | trivial | (show Unfiltered _ _; decide) | (show AuthzOk _ _; decide)), (by first | trivial | (show Unfiltered _ _; decide) | (show AuthzOk _ _; decide)), (by first | trivial | (show Unfiltered _ _; decide) | (show AuthzOk _ _; decide))⟩
  simp only [GuardAct]

/-- the resume path with a batch still queued: subscriber 1 disconnects at index 3, commit 4 is
    made but not published, subscriber 1 re-subscribes and is RESUMED (subscriber 2 keeps the
    buffer alive), then the batch is published and read -/
def witnessGuardResume : List Act :=
  [.client 1 ⟨.cfg, .named "web"⟩ "t1" false .all, .client 2 ⟨.cfg, .named "web"⟩ "t2" true .all,
   .commit 2 (.cfgSet "web" 1), .publishOne, .subscribe 1, .subscribe 2, .next 1, .next 1,
   .commit 3 (.cfgSet "web" 2), .publishOne, .next 1, .unsub 1,
   .commit 4 (.cfgSet "web" 3), .subscribe 1, .publishOne, .next 1]

theorem guardRun_resume_nonvacuous : GuardRun (Sys.init false) witnessGuardResume := by
  refine ⟨trivial, trivial, ⟨by decide, faithful_cfgSet _ _ _ _, indexSound_cfgSet _ _ _ _ (by decide)⟩, trivial,
    trivial, trivial, ?_, ?_, ⟨by decide, faithful_cfgSet _ _ _ _, indexSound_cfgSet _ _ _ _ (by decide)⟩, trivial, ?_,
    trivial, ⟨by decide, faithful_cfgSet _ _ _ _, indexSound_cfgSet _ _ _ _ (by decide)⟩, trivial, trivial, ?_, trivial⟩
  all_goals (show Unfiltered _ _; decide)

/-- the re-subscription is a resume with one batch queued, and after publication the resumed
    materializer holds the newest entry -/
theorem guard_resume_witness_resumes :
    (getClient (runG (Sys.init false) (witnessGuardResume.take 14)) 1).map
        (fun c => (c.inbox, c.m.h, c.m.index, (runG (Sys.init false) (witnessGuardResume.take 14)).queue.length))
      = some ([], .resume, 3, 1) ∧
    (getClient (runG (Sys.init false) witnessGuardResume) 1).map (fun c => (c.m.index, c.m.view.map (·.2.port)))
      = some (4, [3]) := by
  constructor <;> rfl

theorem guard_repairs_witness :
    monoB (run (Sys.init true) witnessGuard) = false ∧
    (runG (Sys.init true) witnessGuard).clients.map (fun c => (c.m.index, viewEqB c.m.view c.m.expect)) = [(3, true)] := by
  constructor <;> rfl

/-! ## The routing layer: topic-buffer keys of service subjects (`CV.StreamSubject`)

`Sys` above routes events by `Key` equality over the names as written; the real publisher routes
by `EventSubjectService.String()`. The theorems below are about that function as the code has
it (compared line by line with the real payload / subscription subjects on every run). -/

/-- **an event reaches exactly the subscribers whose direct query holds the instance.** For all
    names: the event published for an instance of `svc` with override `ov` (sidecar: destination,
    terminating gateway: linked service, else none) lands in the topic buffer a subscriber of
    `name` reads iff the memdb `service` / `connect` index files the instance's effective name
    and `name` under the same key. (Lower-casing only `Key`, or only the final key on one side,
    breaks the equivalence.) -/
theorem event_reaches_exactly_the_matching_subscribers (svc ov name : String) :
    (publisherSubj svc ov "").str = (subscriberSubj name "").str ↔
      indexKey (publisherSubj svc ov "").effective = indexKey name := by
  simp [SvcSubj.str, publisherSubj, subscriberSubj, SvcSubj.effective, indexKey]

/-- the letter case of the instance's own name never matters for routing … -/
theorem subject_ignores_letter_case (a b peer : String) (h : lower a = lower b) :
    (publisherSubj a "" peer).str = (publisherSubj b "" peer).str := by
  simp [SvcSubj.str, publisherSubj, SvcSubj.effective, h]

/-- … nor does the letter case of an override (sidecar destination / linked service) … -/
theorem override_ignores_letter_case (svc ov ov' peer : String) (h : lower ov = lower ov')
    (h1 : ov ≠ "") (h2 : ov' ≠ "") :
    (publisherSubj svc ov peer).str = (publisherSubj svc ov' peer).str := by
  simp [SvcSubj.str, publisherSubj, SvcSubj.effective, h, h1, h2]

/-- … and an override alone decides the buffer: the proxy's / gateway's own name is irrelevant -/
theorem override_decides_routing (svc svc' ov peer : String) (h : ov ≠ "") :
    (publisherSubj svc ov peer).str = (publisherSubj svc' ov peer).str := by
  simp [SvcSubj.str, publisherSubj, SvcSubj.effective, h]

/-- non-vacuity: a sidecar named `web-proxy` for destination `Web` is delivered to the
    subscriber of `web`, not to the subscriber of `web-proxy` -/
theorem routing_nonvacuous :
    (publisherSubj "web-proxy" "Web" "").str = (subscriberSubj "web" "").str ∧
    (publisherSubj "web-proxy" "Web" "").str ≠ (subscriberSubj "web-proxy" "").str ∧
    lower "Web" = lower "wEb" := by
  refine ⟨by decide, by decide, by decide⟩

/-- **config-entry subjects follow the table index too** (since /repo ee62d21; found by this
    engine: before, `EventSubjectConfigEntry.String` kept the spelling, a subscriber of `Web` got
    the snapshot of the entry written as `web` and none of its updates — the harness replays that
    schedule as a regression witness on every run): names the config-entries table files under
    one key share one event subject. -/
theorem cfg_subject_follows_index (a b : String) (h : indexKey a = indexKey b) : cfgSubj a = cfgSubj b := by
  simp only [indexKey] at h
  simp [cfgSubj, h]

/-- non-vacuity / regression witness of the repaired shape -/
theorem cfg_subject_nonvacuous : indexKey "Web" = indexKey "web" ∧ cfgSubj "Web" = cfgSubj "web" ∧
    cfgSubj "Web" = "default/default/web" := by
  refine ⟨by decide, by decide, by decide⟩

end CV.Stream
