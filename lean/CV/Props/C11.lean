/-
Property C11 — streaming subscribers materialize exactly the server's state.

Model: `CV.Stream` (catalog writes and the events consul computes for them, the publish queue,
topic buffers / snapshot splice / snapshot cache, subscriptions, the submatview handler state
machine and the views). Helper lemmas: `CV.Proofs.Stream*`.

The full-strength statements are FALSE for the faithful model (and for consul: the Go monitors
reproduce every counterexample below on the real code on every run):
  * `view_ok_all_schedules`, `indexes_monotone`: refuted by the commit/publish gap (DESIGN §6 #9),
  * and, independently of any interleaving, by two event-generation shapes of catalog_events.go
    and by events of a discarded history that survive `FSM.Restore`.
They are kept visible as `…_counterexample` theorems. What is proved for ALL schedules of
unbounded length: `view_ok_partial` / `no_change_skipped_partial` (every subscription starts with
nothing queued for publication — the decidable-per-step hypothesis `CleanRun`),
`forced_resubscribe_*` (no hypothesis).
-/
import CV.Proofs.StreamInv
namespace CV.Stream

/-! ## Statements -/

/-- every materializer that has been updated holds exactly the direct-query result that belongs
    to its last update (`expect` is the ghost copy of `query key <catalog right after the commit
    the delivered event belongs to>`, resp. of the query the snapshot was built from) -/
def ViewOk (y : Sys) : Prop := ∀ c ∈ y.clients, c.m.index ≠ 0 → ViewEq c.m.view c.m.expect

/-- delivered indexes of every subscription never decreased -/
def Mono (y : Sys) : Prop := ∀ c ∈ y.clients, c.mono = true

/-- the hypothesis of the partial theorems, one decidable-in-context condition per action:
    * commits are well-indexed (Raft) and their events are faithful (see `Faithful`; it fails
      exactly for the two catalog_events.go shapes refuted below),
    * a subscription starts while nothing is queued for publication, does not take the
      resume path and splices at the live tail,
    * a restore happens while nothing is queued and no subscription is attached. -/
def CleanAct (y : Sys) : Act → Prop
  | .commit idx w => y.lastIdx < idx ∧ Faithful y.cat idx w
  | .subscribe id => CleanSub y id
  | .restore c => WF c ∧ y.queue = [] ∧ ∀ d ∈ y.clients, attached d = false
  | _ => True

def CleanRun (y : Sys) : List Act → Prop
  | [] => True
  | a :: r => CleanAct y a ∧ CleanRun (step y a) r

theorem Inv.step {y : Sys} (h : Inv y) (a : Act) (hc : CleanAct y a) : Inv (step y a) := by
  cases a with
  | client id k t r => exact h.addClient id k t r
  | commit idx w => exact h.commit idx w (by have := hc.1; omega) hc.2
  | publishOne => exact h.publishOne
  | subscribe id => exact h.subscribe id hc
  | next id => exact h.next id
  | unsub id => exact h.unsub id
  | expire => exact h.expire
  | restore c => exact h.restore c hc.1 hc.2.1 hc.2.2

theorem Inv.run {y : Sys} (h : Inv y) (acts : List Act) (hc : CleanRun y acts) : Inv (run y acts) := by
  induction acts generalizing y with
  | nil => exact h
  | cons a r ih => exact ih (h.step a hc.1) hc.2

/-! ## Theorems -/

/-- **view_ok_all_schedules (partial).** For every schedule of any length whose subscriptions
    start with an empty publish queue (`CleanRun`), after every step every subscriber holds
    exactly the result of the direct query at the delivered commit. Missing for the full
    statement: subscriptions that start between a commit and its publication (false, see
    `view_ok_all_schedules_counterexample`), the resume path, unfaithful writes. -/
theorem view_ok_partial (ttl : Bool) (acts : List Act) (h : CleanRun (Sys.init ttl) acts) :
    ViewOk (run (Sys.init ttl) acts) :=
  fun c hc => ((Inv.init ttl).run acts h).exact c hc

/-- **no_change_skipped (partial).** In every clean schedule, what an open subscription can
    still read (its buffer suffix plus the batches still queued for publication) replays, exactly
    update by update, to the current direct-query result: no committed change is skipped. -/
theorem no_change_skipped_partial (ttl : Bool) (acts : List Act) (h : CleanRun (Sys.init ttl) acts) :
    ∀ c ∈ (run (Sys.init ttl) acts).clients, c.sub = .opened →
      Sim c.m (c.inbox ++ queueItems c.key (run (Sys.init ttl) acts).queue)
        (query c.key (run (Sys.init ttl) acts).cat) :=
  fun c hc ho => ((Inv.init ttl).run acts h).sim c hc ho

/-- corollary: a subscriber with nothing left to read while nothing is queued holds the
    current state -/
theorem quiescent_view_is_current (ttl : Bool) (acts : List Act) (h : CleanRun (Sys.init ttl) acts) :
    ∀ c ∈ (run (Sys.init ttl) acts).clients, c.sub = .opened → c.inbox = [] →
      (run (Sys.init ttl) acts).queue = [] → c.m.index ≠ 0 →
      ViewEq c.m.view (query c.key (run (Sys.init ttl) acts).cat) := by
  intro c hc ho hi hq hx
  have := no_change_skipped_partial ttl acts h c hc ho
  rw [hi, hq] at this
  exact this.2 hx

/-- **forced_resubscribe (ACL).** For every state: publishing a batch that carries a token's
    `closeSubscriptionPayload` leaves no open subscription of that token. -/
theorem forced_resubscribe_acl (y : Sys) (b : Batch) (rest : List Batch) (hq : y.queue = b :: rest)
    (tok : String) (ht : tok ∈ b.close) :
    ∀ c ∈ (publishOne y).clients, c.tok = tok → c.sub ≠ .opened := by
  intro c hc hct
  have hn : (keysOf b.evs).Nodup := nodup_dedupKeys _
  rw [publishOne_eq y b rest hq, foldl_publishKey_clients b (keysOf b.evs) hn] at hc
  simp only [List.map_map, List.mem_map, Function.comp_def] at hc
  obtain ⟨d, -, rfl⟩ := hc
  have hsub : (closeAcl b d).sub ≠ .opened ∨ (closeAcl b d).tok ≠ tok := by
    unfold closeAcl
    by_cases h : d.sub = .opened ∧ b.close.contains d.tok = true
    · rw [if_pos h]; left; simp
    · rw [if_neg h]
      by_cases ho : d.sub = .opened
      · right
        intro e
        apply h
        exact ⟨ho, by simpa [e] using ht⟩
      · exact Or.inl ho
  split at hct <;> split <;> rcases hsub with hs | hs <;> first | exact hs | exact absurd hct hs

/-- **forced_resubscribe (restore).** For every state: `FSM.Restore` leaves no open
    subscription and no cached snapshot. -/
theorem forced_resubscribe_restore (y : Sys) (cat : Cat) :
    (∀ c ∈ (restore y cat).clients, c.sub ≠ .opened) ∧ (restore y cat).cache = [] := by
  refine ⟨?_, rfl⟩
  intro c hc
  unfold restore at hc
  obtain ⟨d, -, rfl⟩ := List.mem_map.mp hc
  by_cases h : d.sub = .opened <;> simp [h]

/-- a closed subscription delivers nothing: `Next` fails, the view is untouched (local
    materializer) or reset (RPC materializer), and the subscription stays closed -/
theorem closed_subscription_delivers_nothing (y : Sys) (id : Nat) (c : Client)
    (hg : getClient y id = some c) (hcl : c.sub = .force ∨ c.sub = .acl) :
    (next y id).2 = .err c.sub ∧
    (next y id).1 = setClient y (if c.rpc then { c with m := c.m.reset } else c) := by
  unfold next
  rw [hg]
  rcases hcl with h | h <;> simp [h]

/-! ## The full-strength statements are false: counterexamples

Boolean checkers that are implied by the propositions; each counterexample evaluates the
checker on a concrete schedule by kernel reduction (`rfl`). Every schedule below is replayed
against the real consul code by the Go harness on every run (same operations, same outcome). -/

def viewEqB (a b : View) : Bool := (a ++ b).all fun p => lookup? p.1 a == lookup? p.1 b

theorem viewEqB_of_viewEq {a b : View} (h : ViewEq a b) : viewEqB a b = true := by
  unfold viewEqB
  rw [List.all_eq_true]
  intro p _
  simp [h p.1]

def viewOkB (y : Sys) : Bool := y.clients.all fun c => decide (c.m.index = 0) || viewEqB c.m.view c.m.expect

theorem viewOkB_of_viewOk {y : Sys} (h : ViewOk y) : viewOkB y = true := by
  unfold viewOkB
  rw [List.all_eq_true]
  intro c hc
  by_cases hi : c.m.index = 0
  · simp [hi]
  · simp [hi, viewEqB_of_viewEq (h c hc hi)]

def monoB (y : Sys) : Bool := y.clients.all (·.mono)

theorem monoB_of_mono {y : Sys} (h : Mono y) : monoB y = true := by
  unfold monoB; rw [List.all_eq_true]; exact h

/-- "no committed change is skipped", observed at quiescence -/
def Quiescent (y : Sys) : Prop :=
  y.queue = [] → ∀ c ∈ y.clients, c.sub = .opened → c.inbox = [] → c.m.index ≠ 0 →
    ViewEq c.m.view (query c.key y.cat)

def quiescentB (y : Sys) : Bool :=
  !y.queue.isEmpty || y.clients.all fun c =>
    !(decide (c.sub = .opened) && c.inbox.isEmpty && decide (c.m.index ≠ 0)) || viewEqB c.m.view (query c.key y.cat)

theorem quiescentB_of_quiescent {y : Sys} (h : Quiescent y) : quiescentB y = true := by
  unfold quiescentB
  by_cases hq : y.queue = []
  · simp only [hq, List.isEmpty_nil, Bool.not_true, Bool.false_or]
    rw [List.all_eq_true]
    intro c hc
    by_cases hp : c.sub = .opened ∧ c.inbox = [] ∧ c.m.index ≠ 0
    · have := viewEqB_of_viewEq (h hq c hc hp.1 hp.2.1 hp.2.2)
      simp [this]
    · have : (decide (c.sub = .opened) && c.inbox.isEmpty && decide (c.m.index ≠ 0)) = false := by
        rw [Bool.eq_false_iff]
        intro hh
        apply hp
        simp only [Bool.and_eq_true, decide_eq_true_eq, List.isEmpty_iff] at hh
        exact ⟨hh.1.1, hh.1.2, hh.2⟩
      rw [this]; rfl
  · have : y.queue.isEmpty = false := by simpa using hq
    simp [this]

def svc (node sid name : String) (port : Nat) (kind : Kind) : Svc := ⟨node, sid, name, port, kind⟩

/-- DESIGN §6 #9: two commits queued, subscribe, publish — delivered indexes 3, 3(end), 2. -/
def witnessGap : List Act :=
  [.client 1 (hkey "web") "t1" true,
   .commit 2 (.reg "n1" 1 (some (svc "n1" "s1" "web" 80 .typical))),
   .commit 3 (.reg "n1" 1 (some (svc "n1" "s1" "web" 81 .typical))),
   .subscribe 1, .publishOne, .publishOne, .next 1, .next 1, .next 1]

/-- **indexes_monotone is false** for the faithful model (full statement:
    `∀ acts, Mono (run (Sys.init ttl) acts)`). -/
theorem indexes_monotone_counterexample : ∃ acts, ¬ Mono (run (Sys.init true) acts) := by
  refine ⟨witnessGap, fun h => ?_⟩
  have h1 := monoB_of_mono h
  have h2 : monoB (run (Sys.init true) witnessGap) = false := by rfl
  rw [h2] at h1; cases h1

/-- the same gap with two different instances: after the stale event the view holds both
    instances while the state at the delivered index holds one -/
def witnessGapMix : List Act :=
  [.client 1 (hkey "web") "t1" true,
   .commit 2 (.reg "n1" 1 (some (svc "n1" "s1" "web" 80 .typical))),
   .commit 3 (.reg "n1" 1 (some (svc "n1" "s2" "web" 80 .typical))),
   .subscribe 1, .publishOne, .publishOne, .next 1, .next 1, .next 1, .next 1]

/-- **view_ok_all_schedules is false** for the faithful model (full statement:
    `∀ acts, ViewOk (run (Sys.init ttl) acts)`); every write of the witness is faithful and
    well-indexed — only the subscription start is not clean. -/
theorem view_ok_all_schedules_counterexample : ∃ acts, ¬ ViewOk (run (Sys.init true) acts) := by
  refine ⟨witnessGapMix, fun h => ?_⟩
  have h1 := viewOkB_of_viewOk h
  have h2 : viewOkB (run (Sys.init true) witnessGapMix) = false := by rfl
  rw [h2] at h1; cases h1

/-- a connect-native instance re-registered as a plain one: nothing is published on the
    Connect topic (catalog_events.go `connectEventsByServiceKind`) -/
def witnessConnectLeak : List Act :=
  [.client 1 (ckey "web") "t1" false,
   .commit 2 (.reg "n1" 1 (some (svc "n1" "s1" "web" 80 .native))), .publishOne,
   .subscribe 1, .next 1, .next 1,
   .commit 3 (.reg "n1" 1 (some (svc "n1" "s1" "web" 80 .typical))), .publishOne, .next 1]

/-- **no_change_skipped is false** even when every subscription starts with an empty queue:
    the write at index 3 is not `Faithful`. -/
theorem no_change_skipped_counterexample_connect_native :
    ∃ acts, ¬ Quiescent (run (Sys.init false) acts) := by
  refine ⟨witnessConnectLeak, fun h => ?_⟩
  have h1 := quiescentB_of_quiescent h
  have h2 : quiescentB (run (Sys.init false) witnessConnectLeak) = false := by rfl
  rw [h2] at h1; cases h1

/-- one registration changes the node address and renames a sidecar whose destination stays
    the same: `ServiceHealthEventsFromChanges` emits [register(new), deregister(old)] -/
def witnessRenameOrder : List Act :=
  [.client 1 (ckey "web") "t1" false,
   .commit 2 (.reg "n1" 1 (some (svc "n1" "s1" "api" 80 (.proxy "web")))), .publishOne,
   .subscribe 1, .next 1, .next 1,
   .commit 3 (.reg "n1" 2 (some (svc "n1" "s1" "db" 80 (.proxy "web")))), .publishOne, .next 1]

theorem view_ok_counterexample_rename_order : ∃ acts, ¬ ViewOk (run (Sys.init false) acts) := by
  refine ⟨witnessRenameOrder, fun h => ?_⟩
  have h1 := viewOkB_of_viewOk h
  have h2 : viewOkB (run (Sys.init false) witnessRenameOrder) = false := by rfl
  rw [h2] at h1; cases h1

/-- a batch committed before `FSM.Restore` and published after it reaches a subscription that
    was opened after the restore -/
def witnessPreRestore : List Act :=
  [.client 1 (hkey "web") "t1" true,
   .commit 2 (.reg "n1" 1 (some (svc "n1" "s1" "web" 80 .typical))), .publishOne,
   .commit 3 (.reg "n1" 1 (some (svc "n1" "s1" "web" 81 .typical))),
   .restore (applyWrite 2 Cat.empty (.reg "n1" 1 (some (svc "n1" "s1" "web" 80 .typical)))).1,
   .subscribe 1, .publishOne, .next 1, .next 1, .next 1]

theorem no_change_skipped_counterexample_restore :
    ∃ acts, ¬ Quiescent (run (Sys.init true) acts) := by
  refine ⟨witnessPreRestore, fun h => ?_⟩
  have h1 := quiescentB_of_quiescent h
  have h2 : quiescentB (run (Sys.init true) witnessPreRestore) = false := by rfl
  rw [h2] at h1; cases h1

end CV.Stream
