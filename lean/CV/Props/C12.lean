/-
C12 — the Connect CA issues only authorized, verifiable identities.
Property theorems only; the model is CV/Ca.lean, helper lemmas are in CV/Proofs/Ca.lean.

All theorems are for arbitrary byte strings, URI lists, authorizers and command sequences
(no bound).  Where the faithful model of the code does NOT satisfy the property text the
full-strength statement is kept as a `…_counterexample` (a concrete witness) next to a `…_partial`
theorem whose extra hypothesis names exactly the excluded case.
-/
import CV.Proofs.Ca
namespace CV.Ca
open CV

/-! ## issuing -/

/-- A certificate is issued only for a request with exactly one URI SAN and no e-mail SAN whose URI
    parses to a supported identity, on which the caller's token grants write (service: that
    service; agent: that node; mesh gateway: mesh; server: acl), whose datacenter is the local one
    and — for every kind except agent, whose host is replaced instead — whose host is the
    cluster's trust domain up to case. -/
theorem issued_single_supported (cfg : Cfg) (az : Authz) (csr : Csr) (n : Nat) (c : Cert)
    (h : authorizeAndSign cfg az csr n = .ok c) :
    ∃ u id, csr.uris = [u] ∧ csr.emails = 0 ∧ parseId u = .ok id ∧ supported id = true ∧
      (∃ sc, scopeOf id = some sc ∧ aclWrite az sc = true) ∧ dcOf id = some cfg.dc ∧
      (isAgent id = false → lc (hostOf id) = cfg.trustDomain) := by
  obtain ⟨u, id, uris, hu, hem, hid, hval, haz, _, _⟩ := authorizeAndSign_ok cfg az csr n c h
  have h2 := authorize_ok cfg az id haz
  have h3 := signUris_ok cfg u id uris (by assumption)
  refine ⟨u, id, hu, hem, hid, validateScopes_ok id hval, h2.1, h2.2, ?_⟩
  intro hag
  cases id with
  | agent => simp [isAgent] at hag
  | signing => exact absurd h3 id
  | service => exact h3.1
  | gateway => exact h3.1
  | server => exact h3.1

/-- **issued_agent_dc_checked**: agent identities, like every other kind, are signed only for the
    local datacenter. -/
theorem issued_agent_dc_checked (cfg : Cfg) (az : Authz) (u : Url) (csr : Csr) (n : Nat) (c : Cert) (id : Id)
    (h : authorizeAndSign cfg az csr n = .ok c) (hu : csr.uris = [u]) (hid : parseId u = .ok id) :
    dcOf id = some cfg.dc := by
  obtain ⟨u', id', hu', _, hid', _, _, hdc, _⟩ := issued_single_supported cfg az csr n c h
  rw [hu] at hu'
  simp only [List.cons.injEq, and_true] at hu'
  subst hu'
  rw [hid] at hid'
  simp only [Except.ok.injEq] at hid'
  subst hid'
  exact hdc

/-- The certificate is never a CA, carries exactly one URI, the DNS and IP SANs of the request and
    no e-mail SAN, the serial Raft handed out and the configured signing root as issuer. -/
theorem not_ca (cfg : Cfg) (az : Authz) (csr : Csr) (n : Nat) (c : Cert)
    (h : authorizeAndSign cfg az csr n = .ok c) :
    c.isCA = false ∧ c.uris.length = 1 ∧ c.dns = csr.dns ∧ c.ips = csr.ips ∧ c.emails = 0 ∧
      c.serial = n ∧ c.issuer = cfg.root := by
  obtain ⟨u, id, uris, _, _, _, _, _, hsu, rfl⟩ := authorizeAndSign_ok cfg az csr n c h
  refine ⟨rfl, ?_, rfl, rfl, rfl, rfl, rfl⟩
  have h3 := signUris_ok cfg u id uris hsu
  cases id with
  | agent => rcases h3 with ⟨_, rfl⟩ | ⟨_, _, rfl⟩ | ⟨_, _, rfl⟩ <;> rfl
  | signing => exact absurd h3 id
  | service => rw [h3.2]; rfl
  | gateway => rw [h3.2]; rfl
  | server => rw [h3.2]; rfl

/-- What the agent branch of `SignCertificate` needs for the issued URI to denote the authorized
    identity: the host already is the trust domain (URI copied as it is), or the decoded
    datacenter and node segments contain no '/' (they are re-rendered unescaped). -/
def AgentRewriteOK (cfg : Cfg) : Id → Prop
  | .agent host _ dc node => host = cfg.trustDomain ∨ (47 ∉ dc ∧ 47 ∉ node)
  | _ => True

/-- the identity the certificate carries: agents are moved into the trust domain (and lose their
    partition, which the CE build does not render) -/
def normalize (cfg : Cfg) : Id → Id
  | .agent host ap dc node => if host = cfg.trustDomain then .agent host ap dc node else .agent cfg.trustDomain bDefault dc node
  | id => id

/-- **cert_carries_identity** (partial: agents only under `AgentRewriteOK`).  The URI in the
    certificate parses — with the same parser a verifier uses — to the authorized identity, agents
    being moved into the trust domain, and that identity's host is the trust domain up to case. -/
theorem cert_carries_identity_partial (cfg : Cfg) (az : Authz) (csr : Csr) (n : Nat) (c : Cert)
    (htd : lc cfg.trustDomain = cfg.trustDomain)
    (h : authorizeAndSign cfg az csr n = .ok c) :
    ∃ u id, csr.uris = [u] ∧ parseId u = .ok id ∧
      (AgentRewriteOK cfg id →
        ∃ u', c.uris = [u'] ∧ parseId u' = .ok (normalize cfg id) ∧
          lc (hostOf (normalize cfg id)) = cfg.trustDomain) := by
  obtain ⟨u, id, uris, hu, _, hid, _, _, hsu, rfl⟩ := authorizeAndSign_ok cfg az csr n c h
  refine ⟨u, id, hu, hid, ?_⟩
  intro hok
  have h3 := signUris_ok cfg u id uris hsu
  cases id with
  | signing => exact absurd h3 id
  | service => exact ⟨u, by rw [h3.2], hid, h3.1⟩
  | gateway => exact ⟨u, by rw [h3.2], hid, h3.1⟩
  | server => exact ⟨u, by rw [h3.2], hid, h3.1⟩
  | agent host ap dc node =>
    rcases h3 with ⟨hh, rfl⟩ | ⟨hh, hs, rfl⟩ | ⟨hh, hs, rfl⟩
    · exact ⟨u, rfl, by simpa [normalize, hh] using hid, by simp [normalize, hh, hostOf, htd]⟩
    · have hne := parseId_agent_ne_nil u host ap dc node hid
      rcases hok with hok | ⟨hdc, hnode⟩
      · exact absurd hok hh
      · refine ⟨_, rfl, ?_, by simp [normalize, hh, hostOf, htd]⟩
        simp only [normalize, hh, if_false]
        exact parse_agent_canon cfg.trustDomain ap dc node ⟨hne.1, hdc⟩ ⟨hne.2, hnode⟩
    · rw [sameAgentUri_self u host ap dc node hid] at hs
      exact absurd hs (by simp)

/-- **cert_carries_identity at full strength is FALSE for the code as it is.**  An agent CSR with
    a foreign host whose node segment is `a%2Fb` is authorized for node `a/b`; the URI is re-rendered
    from the decoded segments as `spiffe://td.consul/agent/client/dc/dc1/id/a/b`, which no longer
    parses as any identity (the certificate is unusable; by `agent_rewrite_no_confusion` it can at
    least never name another identity). -/
def cxCfg : Cfg := ⟨[100, 99, 49], [116, 100, 46, 99, 111, 110, 115, 117, 108], [114, 49]⟩   -- dc1, td.consul, r1
def cxForeign : Bytes := [102, 111, 114, 101, 105, 103, 110, 46, 99, 111, 110, 115, 117, 108]   -- foreign.consul
/-- `spiffe://foreign.consul/agent/client/dc/dc1/id/a%2Fb` as net/url parses it -/
def cxUrl : Url :=
  { scheme := bSpiffe, host := cxForeign,
    path := joinSegs [bAgent, bClient, bDc, [100, 99, 49], bId, [97, 47, 98]],
    rawPath := joinSegs [bAgent, bClient, bDc, [100, 99, 49], bId, [97, 37, 50, 70, 98]],
    str := bSpiffePfx ++ cxForeign ++ joinSegs [bAgent, bClient, bDc, [100, 99, 49], bId, [97, 37, 50, 70, 98]] }
def cxAz : Authz := { serviceWrite := fun _ => false, nodeWrite := fun n => n = [97, 47, 98], meshWrite := false, aclWrite := false }

theorem cert_carries_identity_counterexample :
    parseId cxUrl = .ok (.agent cxForeign bDefault [100, 99, 49] [97, 47, 98]) ∧
    authorizeAndSign cxCfg cxAz ⟨[cxUrl], 0, [], []⟩ 7
      = .ok ⟨[uriOf (.agent cxCfg.trustDomain bDefault [100, 99, 49] [97, 47, 98])], [], [], 0, false, 7, cxCfg.root⟩ ∧
    parseId (uriOf (.agent cxCfg.trustDomain bDefault [100, 99, 49] [97, 47, 98])) = .error .format :=
  ⟨by decide, by decide, by decide⟩

/-- Whatever is issued is inside the cluster's trust domain: the host of the certificate's URI is
    the trust domain up to case — for agents too, in canonical form or not (full strength). -/
theorem cert_host_in_trust_domain (cfg : Cfg) (az : Authz) (csr : Csr) (n : Nat) (c : Cert)
    (htd : lc cfg.trustDomain = cfg.trustDomain)
    (h : authorizeAndSign cfg az csr n = .ok c) :
    ∃ u', c.uris = [u'] ∧ lc u'.host = cfg.trustDomain ∧ u'.scheme = bSpiffe := by
  obtain ⟨u, id, uris, hu, _, hid, _, _, hsu, rfl⟩ := authorizeAndSign_ok cfg az csr n c h
  have h3 := signUris_ok cfg u id uris hsu
  have hsch : u.scheme = bSpiffe := by
    unfold parseId at hid
    split at hid
    · simp at hid
    · rename_i hs; simpa using hs
  have hhost := parseId_host u id hid
  cases id with
  | signing => exact absurd h3 id
  | service host ap ns dc svc =>
    rcases hhost with hh | ⟨_, _, hh⟩
    · exact ⟨u, by rw [h3.2], by rw [← hh]; exact h3.1, hsch⟩
    · simp at hh
  | gateway host ap dc =>
    rcases hhost with hh | ⟨_, _, hh⟩
    · exact ⟨u, by rw [h3.2], by rw [← hh]; exact h3.1, hsch⟩
    · simp at hh
  | server host dc =>
    rcases hhost with hh | ⟨_, _, hh⟩
    · exact ⟨u, by rw [h3.2], by rw [← hh]; exact h3.1, hsch⟩
    · simp at hh
  | agent host ap dc node =>
    rcases hhost with hh | ⟨_, _, hh⟩
    · rcases h3 with ⟨h1, rfl⟩ | ⟨_, _, rfl⟩ | ⟨h1, hs, rfl⟩
      · exact ⟨u, rfl, by rw [← hh]; simp [hostOf, h1, htd], hsch⟩
      · exact ⟨_, rfl, by simp [uriOf, hostOf, htd], rfl⟩
      · rw [sameAgentUri_self u host ap dc node hid] at hs
        exact absurd hs (by simp)
    · simp at hh

/-- **The certificate never names another identity** (full strength).  Whatever the request looks
    like — escaped or case-varied segments, '/' hidden in `%2F`, foreign hosts — if the URI in the
    issued certificate parses at all (with the parser every verifier uses) it parses to exactly the
    identity that was authorized, agents being moved into the trust domain.  Together with
    `cert_carries_identity_partial` (it does parse, except for the `%2F` case above). -/
theorem cert_never_carries_another_identity (cfg : Cfg) (az : Authz) (csr : Csr) (n : Nat) (c : Cert)
    (h : authorizeAndSign cfg az csr n = .ok c) :
    ∃ u id, csr.uris = [u] ∧ parseId u = .ok id ∧
      ∃ u', c.uris = [u'] ∧ ∀ id', parseId u' = .ok id' → id' = normalize cfg id := by
  obtain ⟨u, id, uris, hu, _, hid, _, _, hsu, rfl⟩ := authorizeAndSign_ok cfg az csr n c h
  refine ⟨u, id, hu, hid, ?_⟩
  have h3 := signUris_ok cfg u id uris hsu
  have same : ∀ id', parseId u = .ok id' → id' = id := by
    intro id' h'; rw [hid] at h'; simpa using h'.symm
  cases id with
  | signing => exact absurd h3 id
  | service => exact ⟨u, by rw [h3.2], fun id' h' => by simpa [normalize] using same id' h'⟩
  | gateway => exact ⟨u, by rw [h3.2], fun id' h' => by simpa [normalize] using same id' h'⟩
  | server => exact ⟨u, by rw [h3.2], fun id' h' => by simpa [normalize] using same id' h'⟩
  | agent host ap dc node =>
    rcases h3 with ⟨hh, rfl⟩ | ⟨hh, _, rfl⟩ | ⟨hh, hs, rfl⟩
    · exact ⟨u, rfl, fun id' h' => by simpa [normalize, hh] using same id' h'⟩
    · refine ⟨_, rfl, fun id' h' => ?_⟩
      simp only [normalize, hh, if_false]
      exact agent_render_parse cfg.trustDomain ap dc node id' h'
    · rw [sameAgentUri_self u host ap dc node hid] at hs
      exact absurd hs (by simp)

/-- Re-rendering an agent identity from its decoded fields can never produce a URI that parses to
    anything but that very agent: for ALL byte strings, '/' inside the fields included. -/
theorem agent_rewrite_no_confusion (td ap dc node : Bytes) (id : Id)
    (h : parseId (uriOf (.agent td ap dc node)) = .ok id) : id = .agent td bDefault dc node :=
  agent_render_parse td ap dc node id h

/-! ## parsing -/

/-- well-formed identities: segments non-empty and slash-free; namespace `default` (the CE build
    renders nothing else); agents and gateways in the default partition (CE renders none); a
    service partition is lower case; a signing id is lower case with a dot-free cluster id -/
def WellFormed : Id → Prop
  | .service _ ap ns dc svc => ns = bDefault ∧ Seg ap ∧ lc ap = ap ∧ Seg dc ∧ Seg svc
  | .agent _ ap dc node => ap = bDefault ∧ Seg dc ∧ Seg node
  | .gateway _ ap dc => ap = bDefault ∧ Seg dc
  | .server _ dc => Seg dc
  | .signing c d => c ≠ [] ∧ 46 ∉ c ∧ lc c = c ∧ lc d = d

/-- What a verifier parses out of the URI that `URI()` renders is the identity itself. -/
theorem parse_uri_roundtrip (id : Id) (h : WellFormed id) : parseId (uriOf id) = .ok id := by
  cases id with
  | service host ap ns dc svc =>
    obtain ⟨rfl, ha, hal, hd, hs⟩ := h
    exact parse_service_canon host ap dc svc ha hal hd hs
  | agent host ap dc node =>
    obtain ⟨rfl, hd, hn⟩ := h
    exact parse_agent_canon host bDefault dc node hd hn
  | gateway host ap dc =>
    obtain ⟨rfl, hd⟩ := h
    exact parse_gateway_canon host bDefault dc hd
  | server host dc => exact parse_server_canon host dc h
  | signing c d =>
    obtain ⟨h0, hdot, hc, hd⟩ := h
    exact parse_signing_canon c d h0 hdot hc hd

/-- No path is read as two different kinds: the four anchored patterns are pairwise exclusive on
    every segment list (so the order of the `if … else if` chain in `ParseCertURI` is immaterial),
    and parsing is a function of the URL. -/
theorem parse_no_confusion (segs : List Bytes) :
    (matchService segs).isSome.toNat + (matchAgent segs).isSome.toNat +
      (matchGateway segs).isSome.toNat + (matchServer segs).isSome.toNat ≤ 1 := by
  cases hs : matchService segs <;> cases ha : matchAgent segs <;> cases hg : matchGateway segs <;>
    cases hv : matchServer segs <;> simp
  all_goals first
    | exact excl_service_agent segs _ _ hs ha
    | exact excl_service_gateway segs _ _ hs hg
    | exact excl_service_server segs _ _ hs hv
    | exact excl_agent_gateway segs _ _ ha hg
    | exact excl_agent_server segs _ _ ha hv
    | exact excl_gateway_server segs _ _ hg hv

theorem parse_deterministic (u : Url) (id₁ id₂ : Id) (h₁ : parseId u = .ok id₁) (h₂ : parseId u = .ok id₂) :
    id₁ = id₂ := by
  rw [h₁] at h₂; simpa using h₂

/-! ## the CA tables -/

/-- empty (CA not bootstrapped yet) or exactly one active root -/
def RootsOK (s : CaState) : Prop := s.roots = [] ∨ (activeRoots s).length = 1

/-- Every command leaves the root table as it was or replaces it completely by the requested set
    (with the result `true`); nothing in between. -/
theorem roots_replaced_atomically (s : CaState) (idx : Nat) (cmd : CaCmd) :
    (caStep s idx cmd).1.roots = s.roots ∧ (caStep s idx cmd).1.rootsIdx = s.rootsIdx ∨
    ∃ cidx rs, (cmd = .setRoots cidx rs ∨ ∃ c, cmd = .setBoth cidx rs c) ∧ s.rootsIdx = cidx ∧
      activeCount rs = 1 ∧ (caStep s idx cmd).1.roots = buildRoots idx s.roots rs ∧
      (caStep s idx cmd).1.rootsIdx = idx ∧ (caStep s idx cmd).2 = .bool true := by
  cases cmd with
  | setConfig c => left; simp only [caStep]; split <;> (try split) <;> simp
  | setProv id => left; simp [caStep]
  | delProv id => left; simp only [caStep]; split <;> simp
  | incSerial => left; simp [caStep]
  | invalid => left; simp [caStep]
  | setRoots cidx rs =>
    simp only [caStep]
    split
    · left; simp
    · left; simp
    · rename_i rs' h
      obtain ⟨h1, h2, h3⟩ := rootsCas_some s idx cidx rs rs' h
      right; exact ⟨cidx, rs, Or.inl rfl, h2, h1, by simp [h3], by simp, by simp⟩
  | setBoth cidx rs c =>
    simp only [caStep]
    split
    · left; simp
    · left; simp
    · rename_i rs' h
      obtain ⟨h1, h2, h3⟩ := rootsCas_some s idx cidx rs rs' h
      split
      · right; exact ⟨cidx, rs, Or.inr ⟨c, rfl⟩, h2, h1, by simp [h3], by simp, by simp⟩
      · left; simp

/-- The composite command is all-or-nothing: either roots *and* config are the requested ones (and
    both indexes matched), or the tables are exactly as before. -/
theorem roots_and_config_atomic (s : CaState) (idx cidx : Nat) (rs : List ReqRoot) (c : ReqCfg) :
    (caStep s idx (.setBoth cidx rs c)).1 = s ∧ (caStep s idx (.setBoth cidx rs c)).2 ≠ .bool true ∨
    (caStep s idx (.setBoth cidx rs c)).2 = .bool true ∧ s.rootsIdx = cidx ∧ cfgMatches s c.cidx = true ∧
      (caStep s idx (.setBoth cidx rs c)).1 =
        { s with roots := buildRoots idx s.roots rs, rootsIdx := idx, config := some (newCfg s idx c) } := by
  simp only [caStep]
  split
  · left; simp
  · left; simp
  · rename_i rs' h
    obtain ⟨_, h2, h3⟩ := rootsCas_some s idx cidx rs rs' h
    split
    · rename_i hm; right; simp [h2, h3, hm]
    · left; simp

/-- Conditional writes are honest: a root replacement reports `true` only when the index matched,
    and anything else than `true` leaves every table untouched. -/
theorem set_roots_honest (s : CaState) (idx cidx : Nat) (rs : List ReqRoot) :
    ((caStep s idx (.setRoots cidx rs)).2 = .bool true → s.rootsIdx = cidx ∧ activeCount rs = 1) ∧
    ((caStep s idx (.setRoots cidx rs)).2 ≠ .bool true → (caStep s idx (.setRoots cidx rs)).1 = s) := by
  simp only [caStep]
  split
  · simp
  · simp
  · rename_i rs' h
    obtain ⟨h1, h2, _⟩ := rootsCas_some s idx cidx rs rs' h
    simp [h1, h2]

/-- **A refused or failed write leaves every CA table unchanged.**  Whatever the command, a result
    `false` or an error means the state after the step is the state before it.  The leader's
    rotation is "prepare the request (read roots and config, build the new lists); one conditional
    write": with this theorem a rotation whose write is refused, fails, or loses its CAS to a
    concurrent writer leaves the old root active and the old config in place.

    ASSUMPTION made explicit: the *prepare* phase is pure with respect to the objects the store
    hands out (the model's commands are the only way tables change).  Go returns pointers to the
    live memdb rows from read-only queries, so this is an assumption about the code, not a
    theorem; it is validated on every run by the harness: the store is sampled inside the
    delegate's apply hook (request prepared, nothing committed) and after every manager operation
    — with injected apply failures, refused writes and CAS losers — and every field of the root
    and config rows must equal what the last applied command left
    (`ca:…-outside-raft-apply`, `ca:store-has-N-active-roots`,
    `ca:leader-signs-with-a-root-the-store-does-not-mark-active`). -/
theorem refused_write_leaves_tables_unchanged (s : CaState) (idx : Nat) (cmd : CaCmd)
    (h : (caStep s idx cmd).2 = .bool false ∨ ∃ e, (caStep s idx cmd).2 = .err e) :
    (caStep s idx cmd).1 = s := by
  cases cmd with
  | setConfig c =>
    simp only [caStep] at h ⊢
    split
    · split
      · rename_i h1 h2; simp [h1, h2] at h
      · rfl
    · rename_i h1; simp [h1] at h
  | setRoots cidx rs =>
    simp only [caStep] at h ⊢
    split <;> simp_all
  | setProv id => simp [caStep] at h
  | delProv id =>
    simp only [caStep] at h ⊢
    split <;> simp_all
  | setBoth cidx rs c =>
    simp only [caStep] at h ⊢
    split
    · rfl
    · rfl
    · split
      · rename_i heq h2; simp [heq, h2] at h
      · rfl
  | incSerial => simp [caStep] at h
  | invalid => rfl

theorem one_active_root_step (s : CaState) (idx : Nat) (cmd : CaCmd) (h : RootsOK s) :
    RootsOK (caStep s idx cmd).1 := by
  rcases roots_replaced_atomically s idx cmd with ⟨h1, _⟩ | ⟨cidx, rs, _, _, hact, hr, _, _⟩
  · unfold RootsOK activeRoots at *
    rw [h1]; exact h
  · right
    unfold activeRoots
    rw [hr, active_buildRoots, hact]

/-- **one_active_root**: along every command sequence — matching or stale indexes, colliding or
    empty root ids, any number of active flags in the request — the root table is empty (CA not
    bootstrapped) or has exactly one active root. -/
theorem one_active_root (s : CaState) (cmds : List (Nat × CaCmd)) (h : RootsOK s) : RootsOK (runCa s cmds) := by
  induction cmds generalizing s with
  | nil => simpa [runCa] using h
  | cons c cs ih =>
    obtain ⟨idx, cmd⟩ := c
    simp only [runCa]
    exact ih _ (one_active_root_step s idx cmd h)

/-- duplicate ids in a request overwrite each other (last one wins) and are counted once:
    `[a active, a inactive]` is refused, `[a inactive, b inactive, a active]` (rotating back to an
    earlier root) is accepted with one active root. -/
theorem duplicate_root_ids_counted_once :
    (caStep {} 5 (.setRoots 0 [⟨[97], true⟩, ⟨[97], false⟩])).2 = .err .activeCount ∧
    (caStep {} 5 (.setRoots 0 [⟨[97], false⟩, ⟨[98], false⟩, ⟨[97], true⟩])).1.roots
      = [⟨[97], true, 5, 5⟩, ⟨[98], false, 5, 5⟩] := by decide

/-! ## serial numbers and the signing root -/

/-- A certificate issued by the system is signed by the unique root the table marks active, with
    the next serial number, which is recorded; roots and config are untouched; the rate limiter
    had a token (which is consumed) and the root was not expired.  A rejected request leaves the
    CA tables unchanged (no serial number is consumed; see `rejected_changes_nothing`). -/
theorem issued_chains_to_active_root (s : Sys) (az : Authz) (csr : Csr) (s' : Sys) (c : Cert)
    (h : signStep s az csr = (s', .ok c)) :
    ∃ r, activeRoots s.ca = [r] ∧ c.issuer = r.id ∧ c.serial = nextSerial s.ca ∧
      s'.ca = { s.ca with serial := some c.serial } ∧
      (providerReady s = true ∧ s.provKey = true ∧ s.provCert = true ∧ s.provMatch = true) ∧
      limiterTokens s ≠ some 0 ∧ s.rootExpired = false := by
  unfold signStep at h
  split at h
  · simp at h
  · split at h
    · rename_i r hr
      split at h
      · simp at h
      · rename_i cert hc
        split at h
        · simp at h
        · rename_i hl
          split at h
          · simp at h
          · rename_i hx
            split at h
            · rename_i hp
              split at h
              · rename_i hcert
                split at h
                · rename_i hm
                  simp only [Prod.mk.injEq, Except.ok.injEq] at h
                  obtain ⟨rfl, rfl⟩ := h
                  obtain ⟨_, _, _, _, _, hser, hiss⟩ := not_ca _ _ _ _ _ hc
                  simp only [Bool.and_eq_true] at hp
                  exact ⟨r, hr, hiss, hser, by simp [hser], ⟨hp.1, hp.2, hcert, hm⟩, hl, by simpa using hx⟩
                · simp at h
              · simp at h
            · simp at h
    · simp at h

/-- A rejected request leaves the CA tables unchanged — with the one exception the code has: when
    the provider's private key is not the key of its signing certificate the serial number is
    taken before `x509.CreateCertificate` notices; that number is then never used by anybody. -/
theorem rejected_changes_nothing (s : Sys) (az : Authz) (csr : Csr) (s' : Sys) (e : Err)
    (h : signStep s az csr = (s', .error e)) :
    (s'.ca = s.ca ∨ (e = .keyMismatch ∧ s'.ca = { s.ca with serial := some (nextSerial s.ca) })) ∧
    (e ≠ .keyMismatch → s'.ca = s.ca) ∧
    s'.dc = s.dc ∧ s'.mgrProv = s.mgrProv ∧ s'.rootExpired = s.rootExpired := by
  unfold signStep at h
  split at h
  · simp at h; obtain ⟨rfl, _⟩ := h; simp
  · split at h
    · split at h
      · simp at h; obtain ⟨rfl, _⟩ := h; simp
      · split at h
        · simp at h; obtain ⟨rfl, _⟩ := h; simp
        · split at h
          · simp at h; obtain ⟨rfl, _⟩ := h; simp
          · split at h
            · split at h
              · split at h
                · simp at h
                · simp at h; obtain ⟨rfl, rfl⟩ := h; simp
              · simp at h; obtain ⟨rfl, rfl⟩ := h; simp
            · simp at h; obtain ⟨rfl, rfl⟩ := h; simp
    · simp at h; obtain ⟨rfl, _⟩ := h; simp

/-- An exhausted rate limiter and an expired signing root each stop every request, whatever it
    carries, and no serial number is consumed. -/
theorem rate_limited_or_expired_never_issues (s : Sys) (az : Authz) (csr : Csr)
    (h : limiterTokens s = some 0 ∨ s.rootExpired = true) :
    ∃ e, (signStep s az csr).2 = .error e ∧ (signStep s az csr).1.ca = s.ca := by
  unfold signStep
  split
  · exact ⟨_, rfl, rfl⟩
  · split
    · split
      · exact ⟨_, rfl, rfl⟩
      · split
        · exact ⟨_, rfl, rfl⟩
        · rename_i hl
          split
          · exact ⟨_, rfl, rfl⟩
          · rename_i hx
            rcases h with h | h
            · exact absurd h hl
            · exact absurd h hx
    · exact ⟨_, rfl, rfl⟩

/-- every operation hands out at most one serial number, and it is the next one -/
theorem sysStep_serial (s : Sys) (op : SysOp) :
    ((sysStep s op).2 = [] ∧ (sysStep s op).1.ca.serial = s.ca.serial) ∨
    (∃ n, (sysStep s op).2 = [n] ∧ (sysStep s op).1.ca.serial = some n ∧ n = nextSerial s.ca) := by
  cases op with
  | mgr p k c => left; simp [sysStep]
  | restore => left; simp [sysStep, restoreCa]
  | rate k => left; simp [sysStep]
  | leader => left; simp [sysStep]
  | clock e => left; simp [sysStep]
  | ca idx c =>
    have hcs := caStep_serial s.ca idx c
    simp only [sysStep]
    cases hst : caStep s.ca idx c with
    | mk ca' r =>
      rw [hst] at hcs
      simp only at hcs
      cases r with
      | num n =>
        rcases hcs with ⟨_, h2⟩ | ⟨_, h2, h3⟩
        · exact absurd rfl (h2 n)
        · right
          simp only [CaRes.num.injEq] at h2
          exact ⟨n, rfl, by simp [h3, h2], h2⟩
      | nil => left; rcases hcs with ⟨h1, _⟩ | ⟨_, h2, _⟩ <;> simp_all
      | bool b => left; rcases hcs with ⟨h1, _⟩ | ⟨_, h2, _⟩ <;> simp_all
      | err e => left; rcases hcs with ⟨h1, _⟩ | ⟨_, h2, _⟩ <;> simp_all
  | sign az csr =>
    simp only [sysStep]
    split
    · rename_i s' cert heq
      obtain ⟨r, _, _, hser, hs', _⟩ := issued_chains_to_active_root s az csr s' cert heq
      right; exact ⟨cert.serial, rfl, by simp [hs'], hser⟩
    · rename_i s' e heq
      rcases (rejected_changes_nothing s az csr s' e heq).1 with h1 | ⟨_, h1⟩
      · left; simp [h1]
      · by_cases hs : s'.ca.serial = s.ca.serial
        · left; simp [hs]
        · right; simp only [hs, if_false]; exact ⟨_, rfl, by simp [h1], rfl⟩

/-- **serials_strictly_increase**: along every sequence of CA commands and sign requests the serial
    numbers handed out (to leaf certificates and to `increment-provider-serial` callers alike)
    are strictly increasing — in particular no serial is ever used twice — and larger than the
    one recorded before the run. -/
theorem serials_strictly_increase (ops : List SysOp) (s : Sys) :
    (runSerials s ops).2.Pairwise (· < ·) ∧
    (∀ k, s.ca.serial = some k → ∀ n ∈ (runSerials s ops).2, k < n) ∧
    ((runSerials s ops).2 = [] → (runSerials s ops).1.ca.serial = s.ca.serial) ∧
    (∀ n, (runSerials s ops).2.getLast? = some n → (runSerials s ops).1.ca.serial = some n) := by
  induction ops generalizing s with
  | nil => simp [runSerials]
  | cons op ops ih =>
    obtain ⟨ih1, ih2, ih3, ih4⟩ := ih (sysStep s op).1
    simp only [runSerials]
    rcases sysStep_serial s op with ⟨h1, h2⟩ | ⟨n, h1, h2, h3⟩
    · rw [h1]
      simp only [List.nil_append]
      rw [h2] at ih2 ih3
      exact ⟨ih1, ih2, ih3, ih4⟩
    · rw [h1]
      have hlt : ∀ m ∈ (runSerials (sysStep s op).1 ops).2, n < m := ih2 n h2
      refine ⟨?_, ?_, ?_, ?_⟩
      · simp only [List.singleton_append, List.pairwise_cons]
        exact ⟨hlt, ih1⟩
      · intro k hk m hm
        have hkn : k < n := by rw [h3]; exact nextSerial_gt _ _ hk
        simp only [List.singleton_append, List.mem_cons] at hm
        rcases hm with rfl | hm
        · exact hkn
        · exact Nat.lt_trans hkn (hlt m hm)
      · simp
      · intro m hm
        cases hr : (runSerials (sysStep s op).1 ops).2 with
        | nil =>
          rw [hr] at hm
          simp at hm
          subst hm
          rw [ih3 hr, h2]
        | cons x xs =>
          rw [hr] at hm
          apply ih4
          rw [hr]
          simpa [List.getLast?_cons_cons] using hm

theorem serials_never_reused (ops : List SysOp) (s : Sys) : (runSerials s ops).2.Nodup := by
  have := (serials_strictly_increase ops s).1
  exact this.imp (fun h => Nat.ne_of_lt h)

/-! ## trust-domain allow-list, snapshot-restore, the leader's rotation request -/

/-- **CanSign is an allow-list of the cluster's own trust domain**: it never accepts an agent id,
    accepts a service / mesh-gateway / server id only when its lower-cased host is the cluster's
    trust domain, and another signing id only when both render to the same URI. -/
theorem canSign_sound (cluster : Bytes) (id : Id) (h : canSign cluster id = true) :
    isAgent id = false ∧
    (∀ c d, id = .signing c d → (uriOf (.signing cluster bConsul)).str = (uriOf (.signing c d)).str) ∧
    ((∀ c d, id ≠ .signing c d) → lc (hostOf id) = trustDomainOf cluster) := by
  have htd : hostOf (.signing cluster bConsul) = trustDomainOf cluster := by
    simp [hostOf, trustDomainOf, bConsul, bDotConsul, lc_append]
  cases id with
  | agent => simp [canSign] at h
  | signing c d =>
    refine ⟨rfl, ?_, ?_⟩
    · intro c' d' he; cases he; simpa [canSign] using h
    · intro hne; exact absurd rfl (hne c d)
  | service host ap ns dc svc =>
    refine ⟨rfl, ?_, fun _ => ?_⟩
    · intro c d he; cases he
    · rw [← htd]; simpa [canSign] using h
  | gateway host ap dc =>
    refine ⟨rfl, ?_, fun _ => ?_⟩
    · intro c d he; cases he
    · rw [← htd]; simpa [canSign] using h
  | server host dc =>
    refine ⟨rfl, ?_, fun _ => ?_⟩
    · intro c d he; cases he
    · rw [← htd]; simpa [canSign] using h


/-- **Snapshot + restore keeps the CA where it was** (same lineage): roots, their index, provider
    rows and the serial counter are restored as persisted, so the next serial number is the same
    (`serials_strictly_increase` quantifies over runs containing restores) and the active root is
    the same. -/
theorem restore_same_lineage (s : CaState) :
    (restoreCa s).roots = s.roots ∧ (restoreCa s).rootsIdx = s.rootsIdx ∧ (restoreCa s).provs = s.provs ∧
    (restoreCa s).serial = s.serial ∧ nextSerial (restoreCa s) = nextSerial s ∧
    activeRoots (restoreCa s) = activeRoots s := by
  simp [restoreCa, nextSerial, activeRoots]


theorem restore_keeps_one_active_root (s : CaState) (h : RootsOK s) : RootsOK (restoreCa s) := by
  unfold RootsOK at *
  rw [(restore_same_lineage s).1, (restore_same_lineage s).2.2.2.2.2]
  exact h

/-- **The root list the leader builds for a rotation always holds exactly one active root** — the
    new one — whatever the stored table looks like (any number of roots, the new root's id already
    present as in a rotation back to an earlier root, even a corrupted table with several active
    roots): every stored root is copied inactive and the new root comes last, so it wins its id. -/
theorem rotation_request_has_one_active (old : List Root) (n : Bytes) :
    activeCount (rotationRoots old (some n)) = 1 := by
  unfold activeCount lastById rotationRoots
  rw [List.foldl_append]
  simp only [List.foldl_cons, List.foldl_nil]
  have hin : ∀ y ∈ (old.map (fun r : Root => (⟨r.id, false⟩ : ReqRoot))).foldl (upsert (·.id)) [], y.active = false := by
    apply foldl_upsert_inactive
    · simp
    · intro y hy; simp only [List.mem_map] at hy; obtain ⟨r, _, rfl⟩ := hy; rfl
  have hnd : (((old.map (fun r : Root => (⟨r.id, false⟩ : ReqRoot))).foldl (upsert (·.id)) []).map (·.id)).Nodup :=
    lastById_from _ [] (by simp)
  generalize (old.map (fun r : Root => (⟨r.id, false⟩ : ReqRoot))).foldl (upsert (·.id)) [] = acc at hin hnd ⊢
  unfold upsert
  split
  · rename_i hany
    rw [replace_count acc ⟨n, true⟩ hin hnd rfl, hany]; rfl
  · rw [List.filter_append]
    have : acc.filter (·.active) = [] := by
      simp only [List.filter_eq_nil_iff]
      intro y hy; simp [hin y hy]
    simp [this]


/-- … hence the store never refuses a rotation request for its active-root count. -/
theorem rotation_request_never_refused_for_active_count (s : CaState) (idx : Nat) (n : Bytes) :
    rootsCas s idx s.rootsIdx (rotationRoots s.roots (some n)) ≠ .error .activeCount := by
  unfold rootsCas
  rw [rotation_request_has_one_active]
  simp only [ne_eq, not_true_eq_false, if_false]
  split
  · simp
  · simp

/-! ## non-vacuity -/

def exTd : Bytes := [116, 100, 46, 99, 111, 110, 115, 117, 108]
/-- `spiffe://TD.consul/ns/default/dc/dc1/svc/web` (upper-case host) -/
def exSvcUrl : Url :=
  { scheme := bSpiffe, host := [84, 68, 46, 99, 111, 110, 115, 117, 108],
    path := joinSegs [bNs, bDefault, bDc, [100, 99, 49], bSvc, [119, 101, 98]], rawPath := [], str := [] }
def exAz : Authz := { serviceWrite := fun n => n = [119, 101, 98], nodeWrite := fun _ => false, meshWrite := false, aclWrite := false }

/-- a service request is accepted … -/
example : authorizeAndSign ⟨[100, 99, 49], exTd, [114, 49]⟩ exAz ⟨[exSvcUrl], 0, [[120]], []⟩ 3
    = .ok ⟨[exSvcUrl], [[120]], [], 0, false, 3, [114, 49]⟩ := by decide
/-- … the same request is refused without the permission, with a second URI, or for another datacenter -/
example : authorizeAndSign ⟨[100, 99, 49], exTd, [114, 49]⟩ { exAz with serviceWrite := fun _ => false } ⟨[exSvcUrl], 0, [], []⟩ 3 = .error .acl := by decide
example : authorizeAndSign ⟨[100, 99, 49], exTd, [114, 49]⟩ exAz ⟨[exSvcUrl, exSvcUrl], 0, [], []⟩ 3 = .error .uriCount := by decide
example : authorizeAndSign ⟨[100, 99, 50], exTd, [114, 49]⟩ exAz ⟨[exSvcUrl], 0, [], []⟩ 3 = .error .dc := by decide
/-- an agent request with a canonical URI and a foreign host is moved into the trust domain -/
example : authorizeAndSign cxCfg ⟨fun _ => false, fun _ => true, false, false⟩
      ⟨[uriOf (.agent cxForeign bDefault [100, 99, 49] [110, 49])], 0, [], []⟩ 7
    = .ok ⟨[uriOf (.agent cxCfg.trustDomain bDefault [100, 99, 49] [110, 49])], [], [], 0, false, 7, cxCfg.root⟩ := by decide
/-- … also when the URI is not in canonical form (`n%31` for `n1`) -/
example : authorizeAndSign cxCfg ⟨fun _ => false, fun _ => true, false, false⟩
      ⟨[{ scheme := bSpiffe, host := cxForeign, path := joinSegs [bAgent, bClient, bDc, [100, 99, 49], bId, [110, 49]],
          rawPath := joinSegs [bAgent, bClient, bDc, [100, 99, 49], bId, [110, 37, 51, 49]], str := [63] }], 0, [], []⟩ 7
    = .ok ⟨[uriOf (.agent cxCfg.trustDomain bDefault [100, 99, 49] [110, 49])], [], [], 0, false, 7, cxCfg.root⟩ := by decide
/-- … and refused for another datacenter -/
example : authorizeAndSign cxCfg ⟨fun _ => false, fun _ => true, false, false⟩
      ⟨[uriOf (.agent cxForeign bDefault [100, 99, 57] [110, 49])], 0, [], []⟩ 7 = .error .dc := by decide
/-- `AgentRewriteOK`, `WellFormed`, `RootsOK` are satisfiable by non-trivial values -/
example : AgentRewriteOK cxCfg (.agent cxForeign bDefault [100, 99, 49] [110, 49]) :=
  Or.inr ⟨by decide, by decide⟩
example : WellFormed (.service exTd [102, 111, 111] bDefault [100, 99, 49] [119, 101, 98]) := by
  simp [WellFormed, Seg, lc, lcByte]
example : WellFormed (.signing [99, 49] [99, 111, 110, 115, 117, 108]) := by
  simp [WellFormed, lc, lcByte]
/-- a rotation: `[a active]`, then `[a inactive, b active]` with the matching index; a stale retry is refused -/
example : (runCa {} [(5, .setRoots 0 [⟨[97], true⟩]), (9, .setRoots 5 [⟨[97], false⟩, ⟨[98], true⟩]),
      (12, .setRoots 5 [⟨[99], true⟩])]).roots = [⟨[97], false, 5, 9⟩, ⟨[98], true, 9, 9⟩] := by decide
example : RootsOK (runCa {} [(5, .setRoots 0 [⟨[97], true⟩]), (9, .setRoots 5 [⟨[97], false⟩, ⟨[98], true⟩])]) := by
  right; decide
/-- serial numbers along a run with a legacy provider row at index 7: 8, 9 -/
example : (runSerials {} [.ca 7 (.setProv [112]), .ca 8 .incSerial, .ca 20 (.setProv [113]), .ca 21 .incSerial]).2 = [8, 9] := by decide

/-- a cluster's signing id may sign a service id of its own trust domain (upper-case host), not a foreign one, never an agent -/
example : canSign [99, 49] (.service [67, 49, 46, 99, 111, 110, 115, 117, 108] bDefault bDefault [100] [119]) = true := by decide
example : canSign [99, 49] (.service [99, 50, 46, 99, 111, 110, 115, 117, 108] bDefault bDefault [100] [119]) = false := by decide
example : canSign [99, 49] (.agent [99, 49, 46, 99, 111, 110, 115, 117, 108] bDefault [100] [110]) = false := by decide
/-- a rotation back to an earlier root: `[a inactive, b active]` + new root `a` gives `[a;0, b;0, a;1]`, one active -/
example : rotationRoots [⟨[97], false, 5, 9⟩, ⟨[98], true, 9, 9⟩] (some [97]) = [⟨[97], false⟩, ⟨[98], false⟩, ⟨[97], true⟩] := by decide
example : activeCount (rotationRoots [⟨[97], false, 5, 9⟩, ⟨[98], true, 9, 9⟩] (some [97])) = 1 := by decide
/-- the hypotheses of `rate_limited_or_expired_never_issues` are satisfiable: a limiter created for
    the configured value with no token left; a fresh limiter has one -/
example : limiterTokens { rate := some 1, limiter := some (1, 0) } = some 0 := by decide
example : limiterTokens { rate := some 2, limiter := some (1, 0) } = some 1 := by decide

end CV.Ca
