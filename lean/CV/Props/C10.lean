/-
C10 — conditional writes are honest: applied iff matched, reported iff applied.

For every conditional command type T of the consul state store the model function (CV.Cas, one
per Go function, written with the code's own comparison) satisfies the triple
  T_reported_iff_matched   the command reports success  ⇔  the supplied index matches
                           (and, where the write itself can be refused, the payload is admissible)
  T_failed_unchanged       no match  ⇒  the state — every table, every index entry — is unchanged
  T_applied_effect         match     ⇒  the state is exactly the one the unconditional write produces
plus `caRootsAndConfig_atomic` for the composite CA command.  All statements quantify over
arbitrary states, raft indexes, keys, payloads and supplied indexes (no bound).
The matching rules are `SetMatch` (0 = create only), `DelMatch` (row exists with that index),
`KvDelMatch` (an absent key counts as success), `CaMatch` (absent = 0), the roots-table index,
and the two feature-gate indexes.
Helper lemmas: CV/Proofs/Cas.lean.
-/
import CV.Proofs.Cas
namespace CV.Cas

/-- a transaction answer without errors (the transaction was committed) -/
def Out.committed (o : Out) : Bool := match o.res with | .txnOk _ => true | _ => false

/-! ## KV: `KVSSetCAS` / txn verb `cas` -/

/-- KV set-cas reports `true` exactly when the supplied index matches (0 ⇔ key absent). -/
theorem kvCas_reported_iff_matched (s : State) (i : Nat) (k : String) (v : KVal) (c : Nat) :
    (kvCas s i k v c).reported = true ↔ SetMatch (tget s.kvs k) c := by
  rw [← setCasFails_eq_false_iff]
  unfold kvCas Out.reported
  cases setCasFails (tget s.kvs k) c <;> simp

/-- A KV set-cas whose index does not match answers `false` and leaves the whole state unchanged. -/
theorem kvCas_failed_unchanged (s : State) (i : Nat) (k : String) (v : KVal) (c : Nat)
    (h : ¬ SetMatch (tget s.kvs k) c) : kvCas s i k v c = ⟨s, .ok false⟩ := by
  rw [← setCasFails_eq_true_iff] at h
  simp [kvCas, h]

/-- A matching KV set-cas does exactly what the unconditional set does. -/
theorem kvCas_applied_effect (s : State) (i : Nat) (k : String) (v : KVal) (c : Nat)
    (h : SetMatch (tget s.kvs k) c) : kvCas s i k v c = ⟨kvSet s i k v, .ok true⟩ := by
  rw [← setCasFails_eq_false_iff] at h
  simp [kvCas, h]

/-- What the set writes: the requested content; CreateIndex inherited or `i`; ModifyIndex `i`
    unless the stored entry already equals the request (then the row is left alone). -/
theorem kvSet_get (s : State) (i : Nat) (k : String) (v : KVal) :
    tget (kvSet s i k v).kvs k =
      match tget s.kvs k with
      | some e => if e.val = v then some e else some ⟨v, e.create, i⟩
      | none => some ⟨v, i, i⟩ := by
  cases h : tget s.kvs k with
  | none => simp [kvSet, h]
  | some e => by_cases hv : e.val = v <;> simp [kvSet, h, hv]

/-- …and no other key is touched. -/
theorem kvSet_frame (s : State) (i : Nat) (k k' : String) (v : KVal) (h : k' ≠ k) :
    tget (kvSet s i k v).kvs k' = tget s.kvs k' := by
  unfold kvSet
  split
  · split <;> simp [tget_tput_ne _ _ _ _ h]
  · simp [tget_tput_ne _ _ _ _ h]

/-! ## KV: `KVSDeleteCAS` / txn verb `delete-cas` -/

/-- the code's rule for KV delete-cas: an absent key "matches" (reported true, nothing to do) -/
def KvDelMatch (c : Cell KVal) (cidx : Nat) : Prop :=
  match c with
  | none => True
  | some e => e.modify = cidx

instance (c : Cell KVal) (cidx : Nat) : Decidable (KvDelMatch c cidx) := by
  unfold KvDelMatch; split <;> infer_instance

theorem kvDeleteCas_reported_iff_matched (s : State) (i : Nat) (k : String) (c : Nat) :
    (kvDeleteCas s i k c).reported = true ↔ KvDelMatch (tget s.kvs k) c := by
  cases h : tget s.kvs k with
  | none => simp [kvDeleteCas, KvDelMatch, Out.reported, h]
  | some e => by_cases hm : e.modify = c <;> simp [kvDeleteCas, KvDelMatch, Out.reported, h, hm]

theorem kvDeleteCas_failed_unchanged (s : State) (i : Nat) (k : String) (c : Nat)
    (h : ¬ KvDelMatch (tget s.kvs k) c) : kvDeleteCas s i k c = ⟨s, .ok false⟩ := by
  unfold kvDeleteCas
  unfold KvDelMatch at h
  split
  · next he => simp [he] at h
  · next e he => simp [he] at h; simp [h]

theorem kvDeleteCas_applied_effect (s : State) (i : Nat) (k : String) (c : Nat)
    (h : KvDelMatch (tget s.kvs k) c) : kvDeleteCas s i k c = ⟨kvDelete s i k, .ok true⟩ := by
  unfold kvDeleteCas
  unfold KvDelMatch at h
  split
  · next he => simp [kvDelete, he]
  · next e he => simp [he] at h; simp [h]

/-- after the delete the key is gone (and a delete of an absent key is the identity) -/
theorem kvDelete_get (s : State) (i : Nat) (k : String) : tget (kvDelete s i k).kvs k = none := by
  unfold kvDelete
  split
  · next he => exact he
  · simp

/-! ## Catalog verbs inside a transaction (single-operation transactions)

`txn s i [op]` is `Store.TxnRW(idx, [op])`; "reported" = the response carries no error. -/

/-- node cas: committed ⇔ the supplied index matches the registration stored under the request's
    NAME (whatever node ID the request carries) and `ensureNodeTxn` accepts the write -/
theorem nodeCas_reported_iff_matched (s : State) (i : Nat) (n : String) (v : NodeVal) (c : Nat) :
    (txn s i [.nodeCas n v c]).committed = true ↔
      SetMatch (tget s.nodes n) c ∧ nodeRefused s n v = false := by
  rw [← setCasFails_eq_false_iff, txn_single]
  cases h : setCasFails (tget s.nodes n) c with
  | true => simp [tapply, nodeCas, h, Out.committed, Except.map]
  | false =>
    cases hr : nodeRefused s n v with
    | true => simp [tapply, nodeCas, h, nodeSet_refused s i n v hr, Out.committed, Except.map]
    | false =>
      obtain ⟨s', hs⟩ := nodeSet_ok s i n v hr
      simp [tapply, nodeCas, h, hs, Out.committed, Except.map]

/-- an index that does not match the registration under the NAME is refused as stale and nothing
    changes — for every node ID the request may carry (own, another registration's, unknown, none) -/
theorem nodeCas_stale_refused (s : State) (i : Nat) (n : String) (v : NodeVal) (c : Nat)
    (h : ¬ SetMatch (tget s.nodes n) c) : txn s i [.nodeCas n v c] = ⟨s, .txnErr [(0, .stale)]⟩ := by
  rw [← setCasFails_eq_true_iff] at h
  simp [txn_single, tapply, nodeCas, h, Except.map]

/-- create-only (index 0) on a name that is registered is refused, whatever the request's node ID
    (the seeded regression C10-1 (a): comparison by ID let it overwrite the registration) -/
theorem nodeCas_createOnly_on_present_refused (s : State) (i : Nat) (n : String) (v : NodeVal)
    (e : Ver NodeVal) (h : tget s.nodes n = some e) :
    txn s i [.nodeCas n v 0] = ⟨s, .txnErr [(0, .stale)]⟩ :=
  nodeCas_stale_refused s i n v 0 (by simp [SetMatch, h])

/-- a cas addressed at name `n` with another registration's node ID and that registration's index
    is judged against `n`'s own index (C10-1 (b)) -/
theorem nodeCas_foreign_id_judged_by_name (s : State) (i : Nat) (n : String) (v : NodeVal) (c : Nat)
    (e : Ver NodeVal) (h : tget s.nodes n = some e) (hc : c ≠ e.modify) :
    txn s i [.nodeCas n v c] = ⟨s, .txnErr [(0, .stale)]⟩ :=
  nodeCas_stale_refused s i n v c (by simp [SetMatch, h, hc])

/-- not committed (no match, or the name is defended) ⇒ nothing changes -/
theorem nodeCas_failed_unchanged (s : State) (i : Nat) (n : String) (v : NodeVal) (c : Nat)
    (h : ¬ (SetMatch (tget s.nodes n) c ∧ nodeRefused s n v = false)) :
    (txn s i [.nodeCas n v c]).state = s ∧ (txn s i [.nodeCas n v c]).committed = false := by
  have hc : ¬ (txn s i [.nodeCas n v c]).committed = true :=
    fun hh => h ((nodeCas_reported_iff_matched s i n v c).mp hh)
  refine ⟨?_, by simpa using hc⟩
  rw [txn_single] at hc ⊢
  cases ht : tapply s i (.nodeCas n v c) with
  | ok x => simp [ht, Out.committed] at hc
  | error e => rfl

theorem nodeCas_applied_effect (s : State) (i : Nat) (n : String) (v : NodeVal) (c : Nat)
    (h : SetMatch (tget s.nodes n) c) (hr : nodeRefused s n v = false) :
    ∃ s', nodeSet s i n v = .ok s' ∧ txn s i [.nodeCas n v c] = ⟨s', .txnOk (nodeRes s' n v.id)⟩ := by
  rw [← setCasFails_eq_false_iff] at h
  obtain ⟨s', hs⟩ := nodeSet_ok s i n v hr
  exact ⟨s', hs, by simp [txn_single, tapply, nodeCas, h, hs, Except.map]⟩

/-- what an accepted node write leaves under the name: the requested content (ID and address)
    stamped with `i` — or nothing at all changed (identical registration already stored) -/
theorem nodeSet_get (s s' : State) (i : Nat) (n : String) (v : NodeVal) (h : nodeSet s i n v = .ok s') :
    s' = s ∨ ∃ c, tget s'.nodes n = some ⟨v, c, i⟩ := by
  have byName : ∀ t, nodeSetByName s i n v = t → t = s ∨ ∃ c, tget t.nodes n = some ⟨v, c, i⟩ := by
    intro t ht
    unfold nodeSetByName at ht
    cases hn : tget s.nodes n with
    | none => simp [hn] at ht; subst ht; right; exact ⟨i, by simp⟩
    | some e =>
      by_cases hv : e.val = v
      · simp [hn, hv] at ht; left; exact ht.symm
      · simp [hn, hv] at ht; subst ht; right; exact ⟨e.create, by simp⟩
  unfold nodeSet at h
  by_cases hid : v.id = ""
  · simp [hid] at h; exact byName s' h
  · simp only [ne_eq, hid, not_false_eq_true, if_true] at h
    cases hb : nodeById s.nodes v.id with
    | none =>
      simp only [hb] at h
      split at h
      · simp at h
      · simp at h; exact byName s' h
    | some x =>
      obtain ⟨oldName, e⟩ := x
      simp only [hb] at h
      by_cases hn : oldName = n
      · by_cases hv : e.val = v
        · simp [hn, hv] at h; left; exact h.symm
        · simp [hn, hv] at h; subst h; right; exact ⟨e.create, by simp⟩
      · simp only [hn, not_false_eq_true, if_true] at h
        split at h
        · simp at h
        · simp at h; subst h; right; exact ⟨e.create, by simp⟩

/-- without a node ID the write is by name only, exactly as for every other keyed entity -/
theorem nodeSet_noid_get (s : State) (i : Nat) (n addr : String) :
    ∃ s', nodeSet s i n ⟨"", addr⟩ = .ok s' ∧
      tget s'.nodes n =
        match tget s.nodes n with
        | some e => if e.val = ⟨"", addr⟩ then some e else some ⟨⟨"", addr⟩, e.create, i⟩
        | none => some ⟨⟨"", addr⟩, i, i⟩ := by
  refine ⟨nodeSetByName s i n ⟨"", addr⟩, by simp [nodeSet], ?_⟩
  cases h : tget s.nodes n with
  | none => simp [nodeSetByName, h]
  | some e => by_cases hv : e.val = ⟨"", addr⟩ <;> simp [nodeSetByName, h, hv]

/-- node delete-cas: committed ⇔ the node exists with exactly that ModifyIndex -/
theorem nodeDeleteCas_reported_iff_matched (s : State) (i : Nat) (n : String) (c : Nat) :
    (txn s i [.nodeDeleteCas n c]).committed = true ↔ DelMatch (tget s.nodes n) c := by
  unfold DelMatch
  cases h : tget s.nodes n with
  | none => simp [txn, txnLoop, tapply, nodeDeleteCas, h, Out.committed, Except.map]
  | some e => by_cases hm : e.modify = c <;>
      simp [txn, txnLoop, tapply, nodeDeleteCas, h, hm, Out.committed, Except.map]

theorem nodeDeleteCas_failed_unchanged (s : State) (i : Nat) (n : String) (c : Nat)
    (hn : ¬ DelMatch (tget s.nodes n) c) : txn s i [.nodeDeleteCas n c] = ⟨s, .txnErr [(0, .stale)]⟩ := by
  unfold DelMatch at hn
  cases h : tget s.nodes n with
  | none => simp [txn, txnLoop, tapply, nodeDeleteCas, h, Except.map]
  | some e => simp [h] at hn; simp [txn, txnLoop, tapply, nodeDeleteCas, h, hn, Except.map]

theorem nodeDeleteCas_applied_effect (s : State) (i : Nat) (n : String) (c : Nat)
    (hn : DelMatch (tget s.nodes n) c) : txn s i [.nodeDeleteCas n c] = ⟨nodeDelete s n, .txnOk []⟩ := by
  unfold DelMatch at hn
  cases h : tget s.nodes n with
  | none => simp [h] at hn
  | some e => simp [h] at hn; simp [txn, txnLoop, tapply, nodeDeleteCas, h, hn, Except.map]

/-- the delete cascades: node, its services and its checks are gone -/
theorem nodeDelete_effect (s : State) (n : String) (e : Ver NodeVal) (h : tget s.nodes n = some e) :
    tget (nodeDelete s n).nodes n = none ∧
    (∀ p ∈ (nodeDelete s n).svcs, p.1.1 ≠ n) ∧ (∀ p ∈ (nodeDelete s n).chks, p.1.1 ≠ n) := by
  simp [nodeDelete, h]

/-- service cas: committed ⇔ matched and the node is registered (`ErrMissingNode` otherwise) -/
theorem serviceCas_reported_iff_matched (s : State) (i : Nat) (n id : String) (p c : Nat) :
    (txn s i [.svcCas n id p c]).committed = true ↔
      SetMatch (tget s.svcs (n, id)) c ∧ (tget s.nodes n).isSome := by
  rw [← setCasFails_eq_false_iff, txn_single]
  cases h : setCasFails (tget s.svcs (n, id)) c with
  | true => simp [tapply, svcCas, h, Out.committed, Except.map]
  | false =>
    cases hn : tget s.nodes n with
    | none => simp [tapply, svcCas, h, svcSet_missing _ _ _ _ _ hn, Out.committed, Except.map]
    | some e =>
      obtain ⟨s', hs⟩ := svcSet_ok s i n id p (by simp [hn])
      simp [tapply, svcCas, h, hs, Out.committed, Except.map]

/-- a service cas that is not committed (no match, or node missing) changes nothing -/
theorem serviceCas_failed_unchanged (s : State) (i : Nat) (n id : String) (p c : Nat)
    (h : ¬ (SetMatch (tget s.svcs (n, id)) c ∧ (tget s.nodes n).isSome)) :
    (txn s i [.svcCas n id p c]).state = s ∧ (txn s i [.svcCas n id p c]).committed = false := by
  have hc : ¬ (txn s i [.svcCas n id p c]).committed = true :=
    fun hh => h ((serviceCas_reported_iff_matched s i n id p c).mp hh)
  refine ⟨?_, by simpa using hc⟩
  rw [txn_single] at hc ⊢
  cases ht : tapply s i (.svcCas n id p c) with
  | ok x => simp [ht, Out.committed] at hc
  | error e => rfl

theorem serviceCas_applied_effect (s : State) (i : Nat) (n id : String) (p c : Nat)
    (h : SetMatch (tget s.svcs (n, id)) c) (hn : (tget s.nodes n).isSome) :
    ∃ s', svcSet s i n id p = .ok s' ∧ txn s i [.svcCas n id p c] = ⟨s', .txnOk (svcRes s' n id)⟩ := by
  rw [← setCasFails_eq_false_iff] at h
  obtain ⟨s', hs⟩ := svcSet_ok s i n id p hn
  exact ⟨s', hs, by simp [txn_single, tapply, svcCas, h, hs, Except.map]⟩

theorem svcSet_get (s s' : State) (i : Nat) (n id : String) (p : Nat) (h : svcSet s i n id p = .ok s') :
    tget s'.svcs (n, id) =
      match tget s.svcs (n, id) with
      | some e => if e.val = p then some e else some ⟨p, e.create, i⟩
      | none => some ⟨p, i, i⟩ := by
  cases hn : tget s.nodes n with
  | none => simp [svcSet, hn] at h
  | some x =>
    cases hs : tget s.svcs (n, id) with
    | none => simp [svcSet, hn, hs] at h; subst h; simp
    | some e =>
      by_cases hv : e.val = p
      · simp [svcSet, hn, hs, hv] at h; subst h; simp [hs, hv]
      · simp [svcSet, hn, hs, hv] at h; subst h; simp [hv]

theorem serviceDeleteCas_reported_iff_matched (s : State) (i : Nat) (n id : String) (c : Nat) :
    (txn s i [.svcDeleteCas n id c]).committed = true ↔ DelMatch (tget s.svcs (n, id)) c := by
  unfold DelMatch
  cases h : tget s.svcs (n, id) with
  | none => simp [txn, txnLoop, tapply, svcDeleteCas, h, Out.committed, Except.map]
  | some e => by_cases hm : e.modify = c <;>
      simp [txn, txnLoop, tapply, svcDeleteCas, h, hm, Out.committed, Except.map]

theorem serviceDeleteCas_failed_unchanged (s : State) (i : Nat) (n id : String) (c : Nat)
    (hn : ¬ DelMatch (tget s.svcs (n, id)) c) : txn s i [.svcDeleteCas n id c] = ⟨s, .txnErr [(0, .stale)]⟩ := by
  unfold DelMatch at hn
  cases h : tget s.svcs (n, id) with
  | none => simp [txn, txnLoop, tapply, svcDeleteCas, h, Except.map]
  | some e => simp [h] at hn; simp [txn, txnLoop, tapply, svcDeleteCas, h, hn, Except.map]

theorem serviceDeleteCas_applied_effect (s : State) (i : Nat) (n id : String) (c : Nat)
    (hn : DelMatch (tget s.svcs (n, id)) c) : txn s i [.svcDeleteCas n id c] = ⟨svcDelete s n id, .txnOk []⟩ := by
  unfold DelMatch at hn
  cases h : tget s.svcs (n, id) with
  | none => simp [h] at hn
  | some e => simp [h] at hn; simp [txn, txnLoop, tapply, svcDeleteCas, h, hn, Except.map]

/-! ### check cas (`txnCheck`, repaired by "fix: do not swallow write errors of check-and-set
verbs in transactions": before it a refused write — missing node / missing bound service — was
overwritten by the nil error of the re-read, and the transaction answered success with nothing
written; witness `txn {} 5 [check cas n1/c1 index 0]`) -/

/-- check cas: committed ⇔ matched and the prerequisites exist (node; bound service) -/
theorem checkCas_reported_iff_matched (s : State) (i : Nat) (n id : String) (v : ChkVal) (c : Nat) :
    (txn s i [.chkCas n id v c]).committed = true ↔ SetMatch (tget s.chks (n, id)) c ∧ ChkAdm s n v := by
  rw [← setCasFails_eq_false_iff, txn_single]
  cases h : setCasFails (tget s.chks (n, id)) c with
  | true => simp [tapply, chkCas, h, Out.committed, Except.map]
  | false =>
    by_cases ha : ChkAdm s n v
    · obtain ⟨s', hs⟩ := chkSet_ok s i n id v ha
      simp [tapply, chkCas, h, hs, ha, Out.committed, Except.map]
    · obtain ⟨e, hs⟩ := chkSet_refused s i n id v ha
      simp [tapply, chkCas, h, hs, ha, Out.committed, Except.map]

/-- a check cas that is not committed (no match, or a prerequisite missing) changes nothing -/
theorem checkCas_failed_unchanged (s : State) (i : Nat) (n id : String) (v : ChkVal) (c : Nat)
    (h : ¬ (SetMatch (tget s.chks (n, id)) c ∧ ChkAdm s n v)) :
    (txn s i [.chkCas n id v c]).state = s ∧ (txn s i [.chkCas n id v c]).committed = false := by
  have hc : ¬ (txn s i [.chkCas n id v c]).committed = true :=
    fun hh => h ((checkCas_reported_iff_matched s i n id v c).mp hh)
  refine ⟨?_, by simpa using hc⟩
  rw [txn_single] at hc ⊢
  cases ht : tapply s i (.chkCas n id v c) with
  | ok x => simp [ht, Out.committed] at hc
  | error e => rfl

/-- the former defect's witness, now answered with the error and an untouched store -/
theorem checkCas_missing_node_example :
    txn {} 5 [.chkCas "n1" "c1" ⟨"", "out"⟩ 0] = ⟨{}, .txnErr [(0, .missingNode)]⟩ := by
  simp [txn, txnLoop, tapply, chkCas, setCasFails, chkSet, tget, Except.map]

theorem checkCas_applied_effect (s : State) (i : Nat) (n id : String) (v : ChkVal) (c : Nat)
    (h : SetMatch (tget s.chks (n, id)) c) (ha : ChkAdm s n v) :
    ∃ s', chkSet s i n id v = .ok s' ∧ txn s i [.chkCas n id v c] = ⟨s', .txnOk (chkRes s' n id)⟩ := by
  rw [← setCasFails_eq_false_iff] at h
  obtain ⟨s', hs⟩ := chkSet_ok s i n id v ha
  exact ⟨s', hs, by simp [txn_single, tapply, chkCas, h, hs, Except.map]⟩

theorem chkSet_get (s s' : State) (i : Nat) (n id : String) (v : ChkVal) (h : chkSet s i n id v = .ok s') :
    tget s'.chks (n, id) =
      match tget s.chks (n, id) with
      | some e => if e.val = v then some e else some ⟨v, e.create, i⟩
      | none => some ⟨v, i, i⟩ := by
  unfold chkSet at h
  cases hn : tget s.nodes n with
  | none => simp [hn] at h
  | some x =>
    simp only [hn] at h
    split at h
    · simp at h
    · cases hs : tget s.chks (n, id) with
      | none => simp [hs] at h; subst h; simp
      | some e =>
        by_cases hv : e.val = v
        · simp [hs, hv] at h; subst h; simp [hs, hv]
        · simp [hs, hv] at h; subst h; simp [hv]

theorem checkDeleteCas_reported_iff_matched (s : State) (i : Nat) (n id : String) (c : Nat) :
    (txn s i [.chkDeleteCas n id c]).committed = true ↔ DelMatch (tget s.chks (n, id)) c := by
  unfold DelMatch
  cases h : tget s.chks (n, id) with
  | none => simp [txn_single, tapply, chkDeleteCas, h, Out.committed, Except.map]
  | some e => by_cases hm : e.modify = c <;>
      simp [txn_single, tapply, chkDeleteCas, h, hm, Out.committed, Except.map]

theorem checkDeleteCas_failed_unchanged (s : State) (i : Nat) (n id : String) (c : Nat)
    (hn : ¬ DelMatch (tget s.chks (n, id)) c) : txn s i [.chkDeleteCas n id c] = ⟨s, .txnErr [(0, .stale)]⟩ := by
  unfold DelMatch at hn
  cases h : tget s.chks (n, id) with
  | none => simp [txn_single, tapply, chkDeleteCas, h, Except.map]
  | some e => simp [h] at hn; simp [txn_single, tapply, chkDeleteCas, h, hn, Except.map]

theorem checkDeleteCas_applied_effect (s : State) (i : Nat) (n id : String) (c : Nat)
    (hn : DelMatch (tget s.chks (n, id)) c) : txn s i [.chkDeleteCas n id c] = ⟨chkDelete s n id, .txnOk []⟩ := by
  unfold DelMatch at hn
  cases h : tget s.chks (n, id) with
  | none => simp [h] at hn
  | some e => simp [h] at hn; simp [txn_single, tapply, chkDeleteCas, h, hn, Except.map]

/-! ## Config entries: `EnsureConfigEntryCAS`, `EnsureConfigEntryWithStatusCAS`, `DeleteConfigEntryCAS`
(`st = false` is the plain upsert, `st = true` the upsert-with-status) -/

theorem configCas_reported_iff_matched (s : State) (i : Nat) (st : Bool) (k : String × String) (v : CfgVal) (c : Nat) :
    (cfgCas s i st k v c).reported = true ↔ SetMatch (tget s.cfgs k) c := by
  rw [← setCasFails_eq_false_iff]
  unfold cfgCas Out.reported
  cases setCasFails (tget s.cfgs k) c <;> simp

theorem configCas_failed_unchanged (s : State) (i : Nat) (st : Bool) (k : String × String) (v : CfgVal) (c : Nat)
    (h : ¬ SetMatch (tget s.cfgs k) c) : cfgCas s i st k v c = ⟨s, .ok false⟩ := by
  rw [← setCasFails_eq_true_iff] at h
  simp [cfgCas, h]

theorem configCas_applied_effect (s : State) (i : Nat) (st : Bool) (k : String × String) (v : CfgVal) (c : Nat)
    (h : SetMatch (tget s.cfgs k) c) : cfgCas s i st k v c = ⟨cfgEnsure s i st k v, .ok true⟩ := by
  rw [← setCasFails_eq_false_iff] at h
  simp [cfgCas, h]

/-- the upsert always stamps ModifyIndex = i and inherits CreateIndex -/
theorem cfgEnsure_get (s : State) (i : Nat) (st : Bool) (k : String × String) (v : CfgVal) :
    tget (cfgEnsure s i st k v).cfgs k =
      some (stamp (tget s.cfgs k) i ⟨v.val, cfgStatus (tget s.cfgs k) st k.1 v⟩) := by
  simp [cfgEnsure]

/-- only the status-cas (or an uncontrolled kind) stores the caller's status … -/
theorem cfgStatus_update (old : Cell CfgVal) (kind : String) (v : CfgVal) :
    cfgStatus old true kind v = v.status := by
  unfold cfgStatus; split <;> simp

/-- … a plain upsert-cas of a controlled entry keeps the stored status -/
theorem cfgStatus_keep (e : Ver CfgVal) (kind : String) (v : CfgVal) (h : controlled kind = true) :
    cfgStatus (some e) false kind v = e.val.status := by
  simp [cfgStatus, h]

theorem configDeleteCas_reported_iff_matched (s : State) (i : Nat) (k : String × String) (c : Nat) :
    (cfgDeleteCas s i k c).reported = true ↔ DelMatch (tget s.cfgs k) c := by
  cases h : tget s.cfgs k with
  | none => simp [cfgDeleteCas, DelMatch, Out.reported, h]
  | some e => by_cases hm : e.modify = c <;> simp [cfgDeleteCas, DelMatch, Out.reported, h, hm]

theorem configDeleteCas_failed_unchanged (s : State) (i : Nat) (k : String × String) (c : Nat)
    (hn : ¬ DelMatch (tget s.cfgs k) c) : cfgDeleteCas s i k c = ⟨s, .ok false⟩ := by
  cases h : tget s.cfgs k with
  | none => simp [cfgDeleteCas, h]
  | some e => simp [DelMatch, h] at hn; simp [cfgDeleteCas, h, hn]

theorem configDeleteCas_applied_effect (s : State) (i : Nat) (k : String × String) (c : Nat)
    (hn : DelMatch (tget s.cfgs k) c) : cfgDeleteCas s i k c = ⟨cfgDelete s i k, .ok true⟩ := by
  cases h : tget s.cfgs k with
  | none => simp [DelMatch, h] at hn
  | some e => simp [DelMatch, h] at hn; simp [cfgDeleteCas, h, hn]

theorem cfgDelete_get (s : State) (i : Nat) (k : String × String) : tget (cfgDelete s i k).cfgs k = none := by
  cases h : tget s.cfgs k <;> simp [cfgDelete, h]

/-! ## CA configuration: `CACheckAndSetConfig` (a mismatch is an error, not `false`) -/

/-- the stored CA configuration has exactly the supplied index (an absent one has index 0) -/
def CaMatch (c : Cell CaVal) (cidx : Nat) : Prop := modOf c = cidx

instance (c : Cell CaVal) (cidx : Nat) : Decidable (CaMatch c cidx) := by unfold CaMatch; infer_instance

theorem caConfigMismatch_eq_false_iff (c : Cell CaVal) (cidx : Nat) :
    caConfigMismatch c cidx = false ↔ CaMatch c cidx := by
  cases c with
  | none => simp only [caConfigMismatch, CaMatch, modOf]; constructor <;> intro h <;> simp_all <;> omega
  | some e => simp [caConfigMismatch, CaMatch, modOf]

theorem caConfigCas_reported_iff_matched (s : State) (i : Nat) (v : CaVal) (c : Nat) :
    (caConfigCas s i v c).reported = true ↔ CaMatch s.caConfig c := by
  rw [← caConfigMismatch_eq_false_iff]
  unfold caConfigCas Out.reported
  cases caConfigMismatch s.caConfig c <;> simp

theorem caConfigCas_failed_unchanged (s : State) (i : Nat) (v : CaVal) (c : Nat)
    (h : ¬ CaMatch s.caConfig c) : caConfigCas s i v c = ⟨s, .err .casMismatch⟩ := by
  rw [← caConfigMismatch_eq_false_iff] at h
  simp at h
  simp [caConfigCas, h]

theorem caConfigCas_applied_effect (s : State) (i : Nat) (v : CaVal) (c : Nat)
    (h : CaMatch s.caConfig c) : caConfigCas s i v c = ⟨caSet s i v, .ok true⟩ := by
  rw [← caConfigMismatch_eq_false_iff] at h
  simp [caConfigCas, h]

theorem caSet_get (s : State) (i : Nat) (v : CaVal) :
    (caSet s i v).caConfig =
      match s.caConfig with
      | some e => some ⟨⟨v.provider, if v.cluster = "" then e.val.cluster else v.cluster⟩, e.create, i⟩
      | none => some ⟨v, i, i⟩ := by
  cases h : s.caConfig <;> simp [caSet, h]

/-! ## CA roots: `CARootSetCAS` (repaired: reports `false` on an index mismatch) -/

/-- the supplied index is the current index of the roots table -/
def RootsMatch (s : State) (cidx : Nat) : Prop := imaxIndex s.idx "connect-ca-roots" = cidx

instance (s : State) (cidx : Nat) : Decidable (RootsMatch s cidx) := by unfold RootsMatch; infer_instance

/-- the decision of `caRootSetCASAppliedTxn`, spelled out -/
theorem rootsCasTxn_spec (s : State) (i : Nat) (c : Nat) (rs : List RootReq) :
    (RootsMatch s c ∧ RootsAdm rs → rootsCasTxn s i c rs = .ok (true, rootsWrite s i rs)) ∧
    (¬ (RootsMatch s c ∧ RootsAdm rs) →
        rootsCasTxn s i c rs = .ok (false, s) ∨ ∃ e, rootsCasTxn s i c rs = .error e) := by
  unfold RootsMatch RootsAdm rootsCasTxn
  by_cases h2 : activeCount rs = 1
  · by_cases h3 : imaxIndex s.idx "connect-ca-roots" = c
    · by_cases h4 : rs.any (fun r => r.1 = "") = true
      · simp [h2, h3, h4]
      · simp only [h2, h3, h4]; simp
    · simp [h2, h3]
  · simp [h2]

theorem caRootsCas_reported_iff_matched (s : State) (i : Nat) (c : Nat) (rs : List RootReq) :
    (caRootsCas s i c rs).reported = true ↔ RootsMatch s c ∧ RootsAdm rs := by
  have sp := rootsCasTxn_spec s i c rs
  by_cases h : RootsMatch s c ∧ RootsAdm rs
  · simp [caRootsCas, sp.1 h, Out.reported, h]
  · rcases sp.2 h with h' | ⟨e, h'⟩ <;> simp [caRootsCas, h', Out.reported, h]

/-- not (matched and admissible) ⇒ the whole state is unchanged and the answer is `false` or an error -/
theorem caRootsCas_failed_unchanged (s : State) (i : Nat) (c : Nat) (rs : List RootReq)
    (h : ¬ (RootsMatch s c ∧ RootsAdm rs)) :
    (caRootsCas s i c rs).state = s ∧ (caRootsCas s i c rs).reported = false := by
  rcases (rootsCasTxn_spec s i c rs).2 h with h' | ⟨e, h'⟩ <;> simp [caRootsCas, h', Out.reported]

/-- a stale index on an otherwise valid request answers exactly `false` (the repaired defect §6 #4) -/
theorem caRootsCas_stale_reports_false (s : State) (i : Nat) (c : Nat) (rs : List RootReq)
    (ha : RootsAdm rs) (h : ¬ RootsMatch s c) : caRootsCas s i c rs = ⟨s, .ok false⟩ := by
  obtain ⟨h1, h2⟩ := ha
  unfold RootsMatch at h
  simp [caRootsCas, rootsCasTxn, h1, h]

theorem caRootsCas_applied_effect (s : State) (i : Nat) (c : Nat) (rs : List RootReq)
    (h : RootsMatch s c) (ha : RootsAdm rs) : caRootsCas s i c rs = ⟨rootsWrite s i rs, .ok true⟩ := by
  simp [caRootsCas, (rootsCasTxn_spec s i c rs).1 ⟨h, ha⟩]

/-- what the replaced root set contains: exactly the requested roots (the last entry of an ID
    wins), stamped with `i`, CreateIndex inherited by ID; every other ID is gone; the table index
    is `i`. -/
theorem rootsWrite_get (s : State) (i : Nat) (rs : List RootReq) (id : String) :
    tget (rootsWrite s i rs).roots id =
      (match lastLookup rs id with
       | some v => some (stamp (tget s.roots id) i v)
       | none => none) ∧
    imaxIndex (rootsWrite s i rs).idx "connect-ca-roots" = i := by
  refine ⟨?_, by simp [rootsWrite, imaxIndex_iset_self]⟩
  simp only [rootsWrite]
  rw [tget_rootsInsert]
  cases lastLookup rs id <;> simp [tget]

/-! ## The composite `CAOpSetRootsAndConfig` (repaired: ONE write transaction) -/

theorem caRootsAndConfig_reported_iff_matched (s : State) (i rc : Nat) (rs : List RootReq) (cc : Nat) (v : CaVal) :
    (caRootsAndConfig s i rc rs cc v).reported = true ↔
      RootsMatch s rc ∧ RootsAdm rs ∧ CaMatch s.caConfig cc := by
  have sp := rootsCasTxn_spec s i rc rs
  by_cases h : RootsMatch s rc ∧ RootsAdm rs
  · have hc : (rootsWrite s i rs).caConfig = s.caConfig := rfl
    cases hm : caConfigMismatch s.caConfig cc with
    | true =>
      have : ¬ CaMatch s.caConfig cc := by rw [← caConfigMismatch_eq_false_iff]; simp [hm]
      simp [caRootsAndConfig, sp.1 h, hc, hm, Out.reported, this]
    | false =>
      have : CaMatch s.caConfig cc := (caConfigMismatch_eq_false_iff _ _).mp hm
      simp [caRootsAndConfig, sp.1 h, hc, hm, Out.reported, this, h]
  · have h2 : ¬ (RootsMatch s rc ∧ RootsAdm rs ∧ CaMatch s.caConfig cc) := fun ⟨a, b, _⟩ => h ⟨a, b⟩
    rcases sp.2 h with h' | ⟨e, h'⟩ <;> simp [caRootsAndConfig, h', Out.reported, h2]

theorem caRootsAndConfig_failed_unchanged (s : State) (i rc : Nat) (rs : List RootReq) (cc : Nat) (v : CaVal)
    (h : ¬ (RootsMatch s rc ∧ RootsAdm rs ∧ CaMatch s.caConfig cc)) :
    (caRootsAndConfig s i rc rs cc v).state = s ∧ (caRootsAndConfig s i rc rs cc v).reported = false := by
  have hr : ¬ (caRootsAndConfig s i rc rs cc v).reported = true :=
    fun hh => h ((caRootsAndConfig_reported_iff_matched s i rc rs cc v).mp hh)
  refine ⟨?_, by simpa using hr⟩
  have sp := rootsCasTxn_spec s i rc rs
  by_cases h1 : RootsMatch s rc ∧ RootsAdm rs
  · have hc : (rootsWrite s i rs).caConfig = s.caConfig := rfl
    cases hm : caConfigMismatch s.caConfig cc with
    | true => simp [caRootsAndConfig, sp.1 h1, hc, hm]
    | false => exact absurd ⟨h1.1, h1.2, (caConfigMismatch_eq_false_iff _ _).mp hm⟩ h
  · rcases sp.2 h1 with h' | ⟨e, h'⟩ <;> simp [caRootsAndConfig, h']

theorem caRootsAndConfig_applied_effect (s : State) (i rc : Nat) (rs : List RootReq) (cc : Nat) (v : CaVal)
    (hr : RootsMatch s rc) (ha : RootsAdm rs) (hc : CaMatch s.caConfig cc) :
    caRootsAndConfig s i rc rs cc v = ⟨caSet (rootsWrite s i rs) i v, .ok true⟩ := by
  have hm : caConfigMismatch (rootsWrite s i rs).caConfig cc = false := (caConfigMismatch_eq_false_iff _ _).mpr hc
  simp [caRootsAndConfig, (rootsCasTxn_spec s i rc rs).1 ⟨hr, ha⟩, hm]

/-- HEADLINE: the composite applies all of its parts or none — either both the roots and the
    configuration are the requested ones and success is reported, or the state is untouched and
    success is not reported.  (Refuted by the code before `fix: replace CA roots and CA config in
    one transaction`: roots matched + stale config index left the roots replaced.) -/
theorem caRootsAndConfig_atomic (s : State) (i rc : Nat) (rs : List RootReq) (cc : Nat) (v : CaVal) :
    let r := caRootsAndConfig s i rc rs cc v
    (r.state.roots = rootsInsert s.roots i rs [] ∧ r.state.caConfig = (caSet s i v).caConfig ∧ r.reported = true) ∨
    (r.state = s ∧ r.reported = false) := by
  intro r
  by_cases h : RootsMatch s rc ∧ RootsAdm rs ∧ CaMatch s.caConfig cc
  · left
    have := caRootsAndConfig_applied_effect s i rc rs cc v h.1 h.2.1 h.2.2
    simp only [r, this, Out.reported]
    refine ⟨?_, ?_, by simp⟩
    · cases hcfg : s.caConfig <;> simp [caSet, rootsWrite, hcfg]
    · cases hcfg : s.caConfig <;> simp [caSet, rootsWrite, hcfg]
  · right; exact caRootsAndConfig_failed_unchanged s i rc rs cc v h

/-! ## Autopilot: `AutopilotCASConfig` (an absent configuration never matches) -/

theorem autopilotCas_reported_iff_matched (s : State) (i v c : Nat) :
    (apCas s i v c).reported = true ↔ DelMatch s.autopilot c := by
  cases h : s.autopilot with
  | none => simp [apCas, DelMatch, Out.reported, h]
  | some e => by_cases hm : e.modify = c <;> simp [apCas, DelMatch, Out.reported, h, hm]

theorem autopilotCas_failed_unchanged (s : State) (i v c : Nat)
    (hn : ¬ DelMatch s.autopilot c) : apCas s i v c = ⟨s, .ok false⟩ := by
  cases h : s.autopilot with
  | none => simp [apCas, h]
  | some e => simp [DelMatch, h] at hn; simp [apCas, h, hn]

theorem autopilotCas_applied_effect (s : State) (i v c : Nat)
    (hn : DelMatch s.autopilot c) : apCas s i v c = ⟨apSet s i v, .ok true⟩ := by
  cases h : s.autopilot with
  | none => simp [DelMatch, h] at hn
  | some e => simp [DelMatch, h] at hn; simp [apCas, h, hn]

theorem apSet_get (s : State) (i v : Nat) : (apSet s i v).autopilot = some (stamp s.autopilot i v) := rfl

/-! ## Feature gates: `FeatureGateUpdate` (two expected indexes, one transaction) -/

def FgMatch (s : State) (expP expS : Nat) : Prop := modOf s.fgPolicy = expP ∧ modOf s.fgStatus = expS

/-- the request carries a status, and a policy exists or is supplied -/
def FgAdm (s : State) (pol st : Option String) : Prop := st.isSome ∧ (pol.isSome ∨ s.fgPolicy.isSome)

instance (s : State) (a b : Nat) : Decidable (FgMatch s a b) := by unfold FgMatch; infer_instance
instance (s : State) (a b : Option String) : Decidable (FgAdm s a b) := by unfold FgAdm; infer_instance

theorem featureGate_reported_iff_matched (s : State) (i : Nat) (pol st : Option String) (ep es : Nat) :
    (fgUpdate s i pol st ep es).reported = true ↔ FgMatch s ep es ∧ FgAdm s pol st := by
  unfold FgMatch FgAdm fgUpdate Out.reported
  cases st with
  | none => simp
  | some d =>
    cases hp : s.fgPolicy <;> cases pol <;>
      by_cases h1 : modOf s.fgPolicy = ep <;> by_cases h2 : modOf s.fgStatus = es <;> simp_all

/-- both indexes must match: if either differs (or the request is inadmissible) nothing changes -/
theorem featureGate_failed_unchanged (s : State) (i : Nat) (pol st : Option String) (ep es : Nat)
    (h : ¬ (FgMatch s ep es ∧ FgAdm s pol st)) :
    (fgUpdate s i pol st ep es).state = s ∧ (fgUpdate s i pol st ep es).reported = false := by
  have hr : ¬ (fgUpdate s i pol st ep es).reported = true :=
    fun hh => h ((featureGate_reported_iff_matched s i pol st ep es).mp hh)
  refine ⟨?_, by simpa using hr⟩
  unfold FgMatch FgAdm at h
  unfold fgUpdate
  cases st with
  | none => rfl
  | some d =>
    cases hp : s.fgPolicy <;> cases pol <;>
      by_cases h1 : modOf s.fgPolicy = ep <;> by_cases h2 : modOf s.fgStatus = es <;> simp_all

theorem featureGate_applied_effect (s : State) (i : Nat) (pol : Option String) (d : String) (ep es : Nat)
    (hm : FgMatch s ep es) (ha : FgAdm s pol (some d)) :
    fgUpdate s i pol (some d) ep es =
      ⟨{ s with fgPolicy := (match pol with | some p => some (stamp s.fgPolicy i p) | none => s.fgPolicy)
                fgStatus := some (stamp s.fgStatus i ⟨d, match pol with | some _ => i | none => ep⟩) }, .ok true⟩ := by
  obtain ⟨h1, h2⟩ := hm
  unfold FgAdm at ha
  unfold fgUpdate
  cases pol with
  | some p => simp [h1, h2]
  | none =>
    cases hp : s.fgPolicy with
    | none => simp [hp] at ha
    | some e => rw [hp] at h1; simp [h1, h2]

/-! ## ACL tokens: `aclTokenSetTxn` with `opts.CAS` — the silent one -/

/-- a well-formed token request: both IDs present and the secret is the stored one (immutable) -/
def TokValid (s : State) (t : TokReq) : Prop :=
  t.secret ≠ "" ∧ t.accessor ≠ "" ∧ ∀ e, tget s.toks t.accessor = some e → e.val.secret = t.secret

/-- the row written for a token -/
def tokWrite (s : State) (i : Nat) (t : TokReq) : State :=
  { s with toks := tput s.toks t.accessor (stamp (tget s.toks t.accessor) i ⟨t.secret, t.desc⟩)
           idx := imax s.idx "acl-tokens" i }

/-- "reported" is vacuous: the token batch never answers with a boolean -/
theorem aclTokenCas_never_reports (s : State) (i : Nat) (cas : Bool) (ts : List TokReq) :
    (tokBatchSet s i cas ts).reported = false := by
  unfold tokBatchSet Out.reported
  cases tokLoop s i cas ts <;> simp

theorem aclTokenCas_failed_unchanged (s : State) (i : Nat) (t : TokReq) (hv : TokValid s t)
    (h : ¬ SetMatch (tget s.toks t.accessor) t.modify) : tokSetOne s i true t = .ok s := by
  rw [← setCasFails_eq_true_iff] at h
  simp [tokSetOne, hv.1, hv.2.1, h]

theorem aclTokenCas_applied_effect (s : State) (i : Nat) (t : TokReq) (hv : TokValid s t)
    (h : SetMatch (tget s.toks t.accessor) t.modify) : tokSetOne s i true t = .ok (tokWrite s i t) := by
  rw [← setCasFails_eq_false_iff] at h
  cases ho : tget s.toks t.accessor with
  | none => simp [tokSetOne, hv.1, hv.2.1, h]; simp [tokWrite, stamp, ho]
  | some e =>
    have hs := hv.2.2 e ho
    simp only [tokSetOne, hv.1, hv.2.1, if_false, h]
    simp [ho, hs, tokWrite, stamp]

/-- the token takes effect iff matched (what "honest" means for a command without a boolean) -/
theorem aclTokenCas_effect_iff_matched (s : State) (i : Nat) (t : TokReq) (hv : TokValid s t) :
    tokSetOne s i true t = .ok (if SetMatch (tget s.toks t.accessor) t.modify then tokWrite s i t else s) := by
  by_cases h : SetMatch (tget s.toks t.accessor) t.modify
  · simp [h, aclTokenCas_applied_effect s i t hv h]
  · simp [h, aclTokenCas_failed_unchanged s i t hv h]

/-- a batch that hits an error (missing IDs, changed secret) aborts as a whole -/
theorem aclTokenBatch_error_unchanged (s : State) (i : Nat) (cas : Bool) (ts : List TokReq) (e : Err)
    (h : (tokBatchSet s i cas ts).res = .err e) : (tokBatchSet s i cas ts).state = s := by
  unfold tokBatchSet at h ⊢
  cases hl : tokLoop s i cas ts <;> simp_all

/-! ## Transactions and the FSM layer -/

/-- `TxnRW` is all-or-nothing: a response with errors means nothing was committed -/
theorem txn_all_or_nothing (s : State) (i : Nat) (ops : List TOp) :
    (txn s i ops).committed = false → (txn s i ops).state = s := by
  simp only [txn, Out.committed]
  by_cases h : (txnLoop s i 0 ops).2.2.isEmpty = true <;> simp [h]

/-- a stale conditional verb anywhere in a transaction aborts the whole transaction -/
theorem txn_committed_iff_no_error (s : State) (i : Nat) (ops : List TOp) :
    (txn s i ops).committed = true ↔ (txnLoop s i 0 ops).2.2 = [] := by
  simp only [txn, Out.committed]
  by_cases h : (txnLoop s i 0 ops).2.2 = [] <;> simp [h]

/-- conditional commands that answer with a boolean (everything except the token batch and txn) -/
def Cmd.conditional : Cmd → Bool
  | .kvCas .. | .kvDeleteCas .. | .cfgCas .. | .cfgStatusCas .. | .cfgDeleteCas .. | .caCas ..
  | .rootsCas .. | .rootsAndConfig .. | .apCas .. | .fg .. => true
  | _ => false

/-- SUMMARY over the Store API: a conditional command that does not report success has not
    changed anything — for every command type, state, raft index, payload and supplied index. -/
theorem conditional_not_reported_unchanged (s : State) (i : Nat) (c : Cmd) (hc : c.conditional = true)
    (h : (storeApply s i c).reported = false) : (storeApply s i c).state = s := by
  cases c <;> simp [Cmd.conditional] at hc <;> simp only [storeApply] at h ⊢
  case kvCas k v c =>
    by_cases m : SetMatch (tget s.kvs k) c
    · simp [(kvCas_reported_iff_matched s i k v c).mpr m] at h
    · simp [kvCas_failed_unchanged s i k v c m]
  case kvDeleteCas k c =>
    by_cases m : KvDelMatch (tget s.kvs k) c
    · simp [(kvDeleteCas_reported_iff_matched s i k c).mpr m] at h
    · simp [kvDeleteCas_failed_unchanged s i k c m]
  case cfgCas k v c =>
    by_cases m : SetMatch (tget s.cfgs k) c
    · simp [(configCas_reported_iff_matched s i false k v c).mpr m] at h
    · simp [configCas_failed_unchanged s i false k v c m]
  case cfgStatusCas k v c =>
    by_cases m : SetMatch (tget s.cfgs k) c
    · simp [(configCas_reported_iff_matched s i true k v c).mpr m] at h
    · simp [configCas_failed_unchanged s i true k v c m]
  case cfgDeleteCas k c =>
    by_cases m : DelMatch (tget s.cfgs k) c
    · simp [(configDeleteCas_reported_iff_matched s i k c).mpr m] at h
    · simp [configDeleteCas_failed_unchanged s i k c m]
  case caCas v c =>
    by_cases m : CaMatch s.caConfig c
    · simp [(caConfigCas_reported_iff_matched s i v c).mpr m] at h
    · simp [caConfigCas_failed_unchanged s i v c m]
  case rootsCas c rs =>
    by_cases m : RootsMatch s c ∧ RootsAdm rs
    · simp [(caRootsCas_reported_iff_matched s i c rs).mpr m] at h
    · exact (caRootsCas_failed_unchanged s i c rs m).1
  case rootsAndConfig rc rs cc v =>
    by_cases m : RootsMatch s rc ∧ RootsAdm rs ∧ CaMatch s.caConfig cc
    · simp [(caRootsAndConfig_reported_iff_matched s i rc rs cc v).mpr m] at h
    · exact (caRootsAndConfig_failed_unchanged s i rc rs cc v m).1
  case apCas v c =>
    by_cases m : DelMatch s.autopilot c
    · simp [(autopilotCas_reported_iff_matched s i v c).mpr m] at h
    · simp [autopilotCas_failed_unchanged s i v c m]
  case fg p st ep es =>
    by_cases m : FgMatch s ep es ∧ FgAdm s p st
    · simp [(featureGate_reported_iff_matched s i p st ep es).mpr m] at h
    · exact (featureGate_failed_unchanged s i p st ep es m).1

/-- The raft command handlers add nothing to the Store methods for conditional commands, with one
    documented exception: `CAOpSetConfig` carrying ModifyIndex 0 is the UNconditional write. -/
theorem fsm_conditional_eq_store (s : State) (i : Nat) (c : Cmd) (hc : c.conditional = true)
    (hz : ∀ v, c ≠ .caCas v 0) : fsmApply s i c = storeApply s i c := by
  cases c <;> simp [Cmd.conditional] at hc <;> try rfl
  case caCas v c =>
    have : c ≠ 0 := fun e => hz v (by rw [e])
    simp [fsmApply, storeApply, this]

theorem fsm_caSetConfig_index0_unconditional (s : State) (i : Nat) (v : CaVal) :
    fsmApply s i (.caCas v 0) = ⟨caSet s i v, .unit⟩ := by simp [fsmApply]

/-- hence at the FSM layer too: not reported ⇒ unchanged (for the genuinely conditional commands) -/
theorem fsm_conditional_not_reported_unchanged (s : State) (i : Nat) (c : Cmd) (hc : c.conditional = true)
    (hz : ∀ v, c ≠ .caCas v 0) (h : (fsmApply s i c).reported = false) : (fsmApply s i c).state = s := by
  rw [fsm_conditional_eq_store s i c hc hz] at h ⊢
  exact conditional_not_reported_unchanged s i c hc h

/-! ## Non-vacuity: every hypothesis used above is satisfiable, and both outcomes occur -/

/-- a store holding key `a` written at index 5 -/
def exKV : State := kvSet {} 5 "a" ⟨"v", 0⟩

example : SetMatch (tget exKV.kvs "a") 5 ∧ ¬ SetMatch (tget exKV.kvs "a") 4 ∧ ¬ SetMatch (tget exKV.kvs "a") 0 ∧
    SetMatch (tget exKV.kvs "b") 0 ∧ ¬ SetMatch (tget exKV.kvs "b") 5 := by
  simp [exKV, kvSet, tget, tput, tdel, SetMatch]

/-- current index ⇒ applied with the new ModifyIndex; stale index ⇒ refused, state identical -/
theorem kvCas_example :
    (kvCas exKV 9 "a" ⟨"w", 0⟩ 5).res = .ok true ∧
    tget (kvCas exKV 9 "a" ⟨"w", 0⟩ 5).state.kvs "a" = some ⟨⟨"w", 0⟩, 5, 9⟩ ∧
    kvCas exKV 9 "a" ⟨"w", 0⟩ 4 = ⟨exKV, .ok false⟩ := by
  simp [exKV, kvCas, kvSet, setCasFails, tget, tput, tdel]

/-- re-created entity: the index of the earlier life (5) no longer matches the new life (8) -/
theorem recreated_example :
    let s := kvSet (kvDelete exKV 7 "a") 8 "a" ⟨"v", 0⟩
    kvCas s 9 "a" ⟨"w", 0⟩ 5 = ⟨s, .ok false⟩ ∧ (kvCas s 9 "a" ⟨"w", 0⟩ 8).res = .ok true := by
  simp [exKV, kvCas, kvSet, kvDelete, setCasFails, tget, tput, tdel]

def exRoots : List RootReq := [("r1", ⟨"ca", true⟩), ("r2", ⟨"old", false⟩)]

example : RootsAdm exRoots ∧ ¬ RootsAdm [("r1", ⟨"ca", false⟩)] ∧
    ¬ RootsAdm (exRoots ++ [("r1", ⟨"dup", false⟩)]) ∧ RootsMatch {} 0 ∧ ¬ RootsMatch {} 3 := by
  decide

/-- composite: roots index matches (0 on the empty store) but the config index is stale —
    nothing is applied (before the repair the roots were replaced here) -/
theorem composite_example :
    caRootsAndConfig {} 9 0 exRoots 4 ⟨"consul", "cl"⟩ = ⟨{}, .err .casMismatch⟩ ∧
    (caRootsAndConfig {} 9 0 exRoots 0 ⟨"consul", "cl"⟩).res = .ok true := by
  have ha : activeCount exRoots = 1 := by decide
  simp [caRootsAndConfig, rootsCasTxn, ha, imaxIndex, iget, caConfigMismatch, rootsWrite]
  simp [exRoots]

example : ChkAdm (nodeSetByName {} 3 "n1" ⟨"", "10.0.0.1"⟩) "n1" ⟨"", "out"⟩ ∧ ¬ ChkAdm {} "n1" ⟨"", "out"⟩ := by
  simp [ChkAdm, nodeSetByName, tget, tput, tdel]

/-- two registrations: web (no ID, index 5) and db (ID A, index 7) -/
def exNodes : State := { nodes := [("db", ⟨⟨"A", "10.0.0.2"⟩, 7, 7⟩), ("web", ⟨⟨"", "10.0.0.1"⟩, 5, 5⟩)] }

/-- C10-1 (a): create-only cas on `web` carrying an unknown ID is refused;
    (b): cas on `web` with db's ID and db's index is refused; with web's own index it is a rename
    of db onto web (db disappears, the row keeps db's CreateIndex) -/
theorem nodeCas_id_examples :
    txn exNodes 9 [.nodeCas "web" ⟨"X", "10.9.9.9"⟩ 0] = ⟨exNodes, .txnErr [(0, .stale)]⟩ ∧
    txn exNodes 9 [.nodeCas "web" ⟨"A", "10.9.9.9"⟩ 7] = ⟨exNodes, .txnErr [(0, .stale)]⟩ ∧
    (txn exNodes 9 [.nodeCas "web" ⟨"A", "10.9.9.9"⟩ 5]).state.nodes = [("web", ⟨⟨"A", "10.9.9.9"⟩, 7, 9⟩)] ∧
    nodeRefused exNodes "web" ⟨"A", "x"⟩ = false ∧
    nodeRefused { exNodes with chks := [(("web", "serfHealth"), ⟨⟨"", "ok"⟩, 6, 6⟩)] } "web" ⟨"A", "x"⟩ = true := by
  decide

example : FgMatch {} 0 0 ∧ FgAdm {} (some "gate") (some "d") ∧ ¬ FgAdm {} none (some "d") ∧ ¬ FgMatch {} 1 0 := by
  simp [FgMatch, FgAdm, modOf]

example : TokValid {} ⟨"acc", "sec", "d", 0⟩ ∧ ¬ TokValid {} ⟨"acc", "", "d", 0⟩ := by
  simp [TokValid, tget]

example : DelMatch (apSet {} 4 100).autopilot 4 ∧ ¬ DelMatch ({} : State).autopilot 0 := by
  simp [DelMatch, apSet, stamp]

end CV.Cas
