/-
C10 — conditional writes are honest: applied iff matched, reported iff applied.

For every conditional command type T of the consul state store the model function (CV.Cas, one
per Go function, written with the code's own comparison) satisfies the triple
  T_reported_iff_matched   the command reports success  ⇔  the supplied index matches
                           (and, where the write itself can be refused, the payload is admissible)
  T_failed_unchanged       no match  ⇒  the state — every table, every index entry — is unchanged
  T_applied_effect         match     ⇒  the state is exactly the one the unconditional write produces
plus `caRootsAndConfig_atomic` for the composite CA command.  All statements quantify over
arbitrary states, raft indexes, keys, payloads and supplied indexes (no bound).
The matching rules are `SetMatch` (0 = create only), `DelMatch` (row exists with that index),
`KvDelMatch` (an absent key counts as success), `CaMatch` (absent = 0), the roots-table index,
and the two feature-gate indexes.
Helper lemmas: CV/Proofs/Cas.lean.
-/
import CV.Proofs.Cas
namespace CV.Cas

/-- a transaction answer without errors (the transaction was committed) -/
def Out.committed (o : Out) : Bool := match o.res with | .txnOk _ => true | _ => false

/-! ## KV: `KVSSetCAS` / txn verb `cas` -/

/-- KV set-cas reports `true` exactly when the supplied index matches (0 ⇔ key absent). -/
theorem kvCas_reported_iff_matched (s : State) (i : Nat) (k : String) (v : KVal) (c : Nat) :
    (kvCas s i k v c).reported = true ↔ SetMatch (tget s.kvs k) c := by
  rw [← setCasFails_eq_false_iff]
  unfold kvCas Out.reported
  cases setCasFails (tget s.kvs k) c <;> simp

/-- A KV set-cas whose index does not match answers `false` and leaves the whole state unchanged. -/
theorem kvCas_failed_unchanged (s : State) (i : Nat) (k : String) (v : KVal) (c : Nat)
    (h : ¬ SetMatch (tget s.kvs k) c) : kvCas s i k v c = ⟨s, .ok false⟩ := by
  rw [← setCasFails_eq_true_iff] at h
  simp [kvCas, h]

/-- A matching KV set-cas does exactly what the unconditional set does. -/
theorem kvCas_applied_effect (s : State) (i : Nat) (k : String) (v : KVal) (c : Nat)
    (h : SetMatch (tget s.kvs k) c) : kvCas s i k v c = ⟨kvSet s i k v, .ok true⟩ := by
  rw [← setCasFails_eq_false_iff] at h
  simp [kvCas, h]

/-- the content `kvsSetTxn` stores: the request, with the stored lock holder unless the caller
    (lock / unlock / session invalidation) updates the session -/
def kvStored (old : Cell KVal) (v : KVal) (updateSession : Bool) : KVal :=
  if updateSession then v else { v with session := match old with | some e => e.val.session | none => "" }

/-- What the set writes: the requested content (the lock holder is kept); CreateIndex inherited
    or `i`; ModifyIndex `i` unless the stored entry already equals it (then the row is left alone). -/
theorem kvSetCore_get (s : State) (i : Nat) (k : String) (v : KVal) (u : Bool) :
    tget (kvSetCore s i k v u).kvs k =
      match tget s.kvs k with
      | some e => if e.val = kvStored (some e) v u then some e else some ⟨kvStored (some e) v u, e.create, i⟩
      | none => some ⟨kvStored none v u, i, i⟩ := by
  cases h : tget s.kvs k with
  | none => cases u <;> simp [kvSetCore, kvStored, h]
  | some e =>
    cases u
    · by_cases hv : e.val = { v with session := e.val.session }
      · simp only [kvSetCore, kvStored, h]; simp [← hv, h]
      · simp only [kvSetCore, kvStored, h]; simp [hv]
    · by_cases hv : e.val = v <;> simp [kvSetCore, kvStored, h, hv]

theorem kvSet_get (s : State) (i : Nat) (k : String) (v : KVal) :
    tget (kvSet s i k v).kvs k =
      match tget s.kvs k with
      | some e => if e.val = kvStored (some e) v false then some e else some ⟨kvStored (some e) v false, e.create, i⟩
      | none => some ⟨kvStored none v false, i, i⟩ := kvSetCore_get s i k v false

/-- a plain set (and therefore a cas) never changes the lock holder of the key -/
theorem kvSet_keeps_session (s : State) (i : Nat) (k : String) (v : KVal) (e : Ver KVal)
    (h : tget s.kvs k = some e) :
    ∃ e', tget (kvSet s i k v).kvs k = some e' ∧ e'.val.session = e.val.session := by
  rw [kvSet_get, h]
  by_cases hv : e.val = kvStored (some e) v false
  · exact ⟨e, by simp only [← hv, if_true], rfl⟩
  · exact ⟨⟨kvStored (some e) v false, e.create, i⟩, by simp only [hv, if_false], by simp [kvStored]⟩

/-- …and no other key is touched. -/
theorem kvSetCore_frame (s : State) (i : Nat) (k k' : String) (v : KVal) (u : Bool) (h : k' ≠ k) :
    tget (kvSetCore s i k v u).kvs k' = tget s.kvs k' := by
  have key : ∀ (x : Ver KVal), tget (tput s.kvs k x) k' = tget s.kvs k' := fun x => tget_tput_ne _ _ _ _ h
  unfold kvSetCore
  split
  · dsimp only
    split <;> (split <;> first | rfl | exact key _)
  · exact key _

theorem kvSet_frame (s : State) (i : Nat) (k k' : String) (v : KVal) (h : k' ≠ k) :
    tget (kvSet s i k v).kvs k' = tget s.kvs k' := kvSetCore_frame s i k k' v false h

/-! ## KV: `KVSDeleteCAS` / txn verb `delete-cas` -/

/-- the code's rule for KV delete-cas: an absent key "matches" (reported true, nothing to do) -/
def KvDelMatch (c : Cell KVal) (cidx : Nat) : Prop :=
  match c with
  | none => True
  | some e => e.modify = cidx

instance (c : Cell KVal) (cidx : Nat) : Decidable (KvDelMatch c cidx) := by
  unfold KvDelMatch; split <;> infer_instance

theorem kvDeleteCas_reported_iff_matched (s : State) (i : Nat) (k : String) (c : Nat) :
    (kvDeleteCas s i k c).reported = true ↔ KvDelMatch (tget s.kvs k) c := by
  cases h : tget s.kvs k with
  | none => simp [kvDeleteCas, KvDelMatch, Out.reported, h]
  | some e => by_cases hm : e.modify = c <;> simp [kvDeleteCas, KvDelMatch, Out.reported, h, hm]

theorem kvDeleteCas_failed_unchanged (s : State) (i : Nat) (k : String) (c : Nat)
    (h : ¬ KvDelMatch (tget s.kvs k) c) : kvDeleteCas s i k c = ⟨s, .ok false⟩ := by
  unfold kvDeleteCas
  unfold KvDelMatch at h
  split
  · next he => simp [he] at h
  · next e he => simp [he] at h; simp [h]

theorem kvDeleteCas_applied_effect (s : State) (i : Nat) (k : String) (c : Nat)
    (h : KvDelMatch (tget s.kvs k) c) : kvDeleteCas s i k c = ⟨kvDelete s i k, .ok true⟩ := by
  unfold kvDeleteCas
  unfold KvDelMatch at h
  split
  · next he => simp [kvDelete, he]
  · next e he => simp [he] at h; simp [h]

/-- after the delete the key is gone (and a delete of an absent key is the identity) -/
theorem kvDelete_get (s : State) (i : Nat) (k : String) : tget (kvDelete s i k).kvs k = none := by
  unfold kvDelete
  split
  · next he => exact he
  · simp

/-! ## KV: session-conditioned writes `KVSLock` / `KVSUnlock` and the txn verbs `lock` / `unlock`

The condition is not an index but the lock holder: `lock` applies iff the named session exists and
the key is free or already held by that very session; `unlock` applies iff the key is held by the
named session. -/

/-- the key is held by session `se` -/
def HeldBy (c : Cell KVal) (se : String) : Prop :=
  match c with
  | none => False
  | some e => e.val.session = se

instance (c : Cell KVal) (se : String) : Decidable (HeldBy c se) := by unfold HeldBy; split <;> infer_instance

/-- nobody else holds the key -/
def FreeFor (c : Cell KVal) (se : String) : Prop :=
  match c with
  | none => True
  | some e => e.val.session = se ∨ e.val.session = ""

instance (c : Cell KVal) (se : String) : Decidable (FreeFor c se) := by unfold FreeFor; split <;> infer_instance

def LockMatch (s : State) (k se : String) : Prop :=
  se ≠ "" ∧ (tget s.sess se).isSome ∧ FreeFor (tget s.kvs k) se

def UnlockMatch (s : State) (k se : String) : Prop := se ≠ "" ∧ HeldBy (tget s.kvs k) se

instance (s : State) (k se : String) : Decidable (LockMatch s k se) := by unfold LockMatch; infer_instance
instance (s : State) (k se : String) : Decidable (UnlockMatch s k se) := by unfold UnlockMatch; infer_instance

/-- the LockIndex a successful `lock` stores -/
def lockIndexAfter (c : Cell KVal) (se : String) : Nat :=
  match c with
  | none => 1
  | some e => if e.val.session = se then e.val.lockIndex else e.val.lockIndex + 1

/-- the complete behaviour of `kvsLockTxn` in terms of `LockMatch` -/
theorem kvLockTxn_spec (s : State) (i : Nat) (k : String) (v : KVal) :
    kvLockTxn s i k v =
      if v.session = "" then .error .missingSession
      else if (tget s.sess v.session).isNone then .error .invalidSession
      else if FreeFor (tget s.kvs k) v.session then
        .ok (true, kvSetCore s i k { v with lockIndex := lockIndexAfter (tget s.kvs k) v.session } true)
      else .ok (false, s) := by
  unfold kvLockTxn
  by_cases h1 : v.session = ""
  · simp [h1]
  · by_cases h2 : (tget s.sess v.session).isNone = true
    · simp [h1, h2]
    · simp only [h1, h2, if_false]
      cases hk : tget s.kvs k with
      | none => simp [FreeFor, lockIndexAfter]
      | some e =>
        by_cases h3 : e.val.session = v.session
        · simp [FreeFor, lockIndexAfter, h3]
        · by_cases h4 : e.val.session = ""
          · have h5 : ¬ "" = v.session := fun hh => h1 hh.symm
            simp [FreeFor, lockIndexAfter, h4, h5]
          · simp [FreeFor, h3, h4]

/-- `KVSLock` reports `true` exactly when the session exists and nobody else holds the key -/
theorem kvLock_reported_iff_matched (s : State) (i : Nat) (k : String) (v : KVal) :
    (kvLock s i k v).reported = true ↔ LockMatch s k v.session := by
  unfold kvLock LockMatch
  rw [kvLockTxn_spec]
  by_cases h1 : v.session = ""
  · simp [h1, ofLock, Out.reported]
  · by_cases h2 : (tget s.sess v.session).isNone = true
    · have : (tget s.sess v.session).isSome = false := by simpa using h2
      simp [h1, h2, this, ofLock, Out.reported]
    · have : (tget s.sess v.session).isSome = true := by
        cases h : tget s.sess v.session <;> simp_all
      by_cases h3 : FreeFor (tget s.kvs k) v.session <;> simp [h1, h2, h3, this, ofLock, Out.reported]

/-- not reported (held by another session, or no such session: an error) ⇒ nothing changes -/
theorem kvLock_failed_unchanged (s : State) (i : Nat) (k : String) (v : KVal)
    (h : ¬ LockMatch s k v.session) : (kvLock s i k v).state = s := by
  unfold kvLock
  cases hr : kvLockTxn s i k v with
  | error e => rfl
  | ok x =>
    obtain ⟨b, s'⟩ := x
    cases b with
    | false => rfl
    | true =>
      exfalso; apply h
      have := (kvLock_reported_iff_matched s i k v).mp (by simp [kvLock, hr, ofLock, Out.reported])
      exact this

/-- reported ⇒ the key now carries the request's value and flags, is held by the session, with
    LockIndex kept on re-acquisition and raised by one on a fresh acquisition -/
theorem kvLock_applied_effect (s : State) (i : Nat) (k : String) (v : KVal)
    (h : LockMatch s k v.session) :
    kvLock s i k v =
      ⟨kvSetCore s i k { v with lockIndex := lockIndexAfter (tget s.kvs k) v.session } true, .ok true⟩ := by
  obtain ⟨h1, h2, h3⟩ := h
  have h2' : (tget s.sess v.session).isNone = false := by cases hh : tget s.sess v.session <;> simp_all
  unfold kvLock
  rw [kvLockTxn_spec]
  simp [h1, h2', h3, ofLock]

/-- after a successful lock the session holds the key -/
theorem kvLock_holds (s : State) (i : Nat) (k : String) (v : KVal) (h : LockMatch s k v.session) :
    HeldBy (tget (kvLock s i k v).state.kvs k) v.session := by
  rw [kvLock_applied_effect s i k v h]
  simp only [kvSetCore_get, kvStored, if_true]
  cases hk : tget s.kvs k with
  | none => simp [HeldBy]
  | some e =>
    simp only []
    split
    · next heq => simp only [HeldBy]; rw [heq]
    · simp [HeldBy]

theorem kvUnlockTxn_spec (s : State) (i : Nat) (k : String) (v : KVal) :
    kvUnlockTxn s i k v =
      if v.session = "" then .error .missingSession
      else if HeldBy (tget s.kvs k) v.session then
        .ok (true, kvSetCore s i k { v with session := "", lockIndex := match tget s.kvs k with | some e => e.val.lockIndex | none => 0 } true)
      else .ok (false, s) := by
  unfold kvUnlockTxn
  by_cases h1 : v.session = ""
  · simp [h1]
  · cases hk : tget s.kvs k with
    | none => simp [h1, HeldBy]
    | some e => by_cases h3 : e.val.session = v.session <;> simp [h1, HeldBy, h3]

/-- `KVSUnlock` reports `true` exactly when the named session holds the key -/
theorem kvUnlock_reported_iff_matched (s : State) (i : Nat) (k : String) (v : KVal) :
    (kvUnlock s i k v).reported = true ↔ UnlockMatch s k v.session := by
  unfold kvUnlock UnlockMatch
  rw [kvUnlockTxn_spec]
  by_cases h1 : v.session = ""
  · simp [h1, ofLock, Out.reported]
  · by_cases h3 : HeldBy (tget s.kvs k) v.session <;> simp [h1, h3, ofLock, Out.reported]

theorem kvUnlock_failed_unchanged (s : State) (i : Nat) (k : String) (v : KVal)
    (h : ¬ UnlockMatch s k v.session) : (kvUnlock s i k v).state = s := by
  unfold kvUnlock
  rw [kvUnlockTxn_spec]
  by_cases h1 : v.session = ""
  · simp [h1, ofLock]
  · have h3 : ¬ HeldBy (tget s.kvs k) v.session := fun hh => h ⟨h1, hh⟩
    simp [h1, h3, ofLock]

theorem kvUnlock_applied_effect (s : State) (i : Nat) (k : String) (v : KVal)
    (h : UnlockMatch s k v.session) :
    kvUnlock s i k v =
      ⟨kvSetCore s i k { v with session := "", lockIndex := match tget s.kvs k with | some e => e.val.lockIndex | none => 0 } true, .ok true⟩ := by
  unfold kvUnlock
  rw [kvUnlockTxn_spec]
  simp [h.1, h.2, ofLock]

/-- the txn verb `lock` is accepted exactly when `LockMatch` holds in the working state… -/
theorem kvLockTxn_reported_iff_matched (w : State) (i : Nat) (k : String) (v : KVal) :
    (txn w i [.kvLock k v]).committed = true ↔ LockMatch w k v.session := by
  rw [← kvLock_reported_iff_matched w i k v, txn_single]
  unfold kvLock
  cases h : kvLockTxn w i k v with
  | error e => simp [tapply, h, ofLockTxn, ofLock, Out.committed, Out.reported, Except.map]
  | ok x => obtain ⟨b, s'⟩ := x; cases b <;> simp [tapply, h, ofLockTxn, ofLock, Out.committed, Out.reported, Except.map]

/-- …and `unlock` exactly when `UnlockMatch` does -/
theorem kvUnlockTxn_reported_iff_matched (w : State) (i : Nat) (k : String) (v : KVal) :
    (txn w i [.kvUnlock k v]).committed = true ↔ UnlockMatch w k v.session := by
  rw [← kvUnlock_reported_iff_matched w i k v, txn_single]
  unfold kvUnlock
  cases h : kvUnlockTxn w i k v with
  | error e => simp [tapply, h, ofLockTxn, ofLock, Out.committed, Out.reported, Except.map]
  | ok x => obtain ⟨b, s'⟩ := x; cases b <;> simp [tapply, h, ofLockTxn, ofLock, Out.committed, Out.reported, Except.map]

/-- the pure guards of a transaction (`check-index`, `check-session`, `check-not-exists`) never
    change the working state, whatever they answer -/
theorem txn_guard_writes_nothing (w : State) (i : Nat) (op : TOp) (r : State × List TRes)
    (hg : match op with | .kvCheckIndex .. | .kvCheckSession .. | .kvCheckNotExists .. => True | _ => False)
    (h : tapply w i op = .ok r) : r.1 = w := by
  cases op <;> simp at hg
  all_goals
    simp only [tapply, Except.map] at h
    split at h <;> simp at h
    rw [← h]

/-- a transaction guarded by `check-index` applies NONE of its writes when the guard fails:
    all-or-nothing is conditional on every guard -/
theorem txn_failed_guard_unchanged (s : State) (i : Nat) (k : String) (c : Nat) (ops : List TOp)
    (h : ¬ DelMatch (tget s.kvs k) c) : (txn s i (.kvCheckIndex k c :: ops)).state = s := by
  have he : tapply s i (.kvCheckIndex k c) = .error (match tget s.kvs k with | none => .keyMissing | some _ => .indexMismatch) := by
    unfold DelMatch at h
    cases hk : tget s.kvs k with
    | none => simp [tapply, kvCheckIndex, hk, Except.map]
    | some e => simp [hk] at h; simp [tapply, kvCheckIndex, hk, h, Except.map]
  simp [txn, txnLoop, he]

/-! ## Catalog verbs inside a transaction (single-operation transactions)

`txn s i [op]` is `Store.TxnRW(idx, [op])`; "reported" = the response carries no error. -/

/-- node cas: committed ⇔ the supplied index matches the registration stored under the request's
    NAME (whatever node ID the request carries) and `ensureNodeTxn` accepts the write -/
theorem nodeCas_reported_iff_matched (s : State) (i : Nat) (v : NodeVal) (c : Nat) :
    (txn s i [.nodeCas v c]).committed = true ↔
      SetMatch (tget s.nodes (lc v.name)) c ∧ nodeRefused s v = false := by
  rw [← setCasFails_eq_false_iff, txn_single]
  cases h : setCasFails (tget s.nodes (lc v.name)) c with
  | true => simp [tapply, nodeCas, h, Out.committed, Except.map]
  | false =>
    cases hr : nodeRefused s v with
    | true => simp [tapply, nodeCas, h, nodeSet_refused s i v hr, Out.committed, Except.map]
    | false =>
      obtain ⟨s', hs⟩ := nodeSet_ok s i v hr
      simp [tapply, nodeCas, h, hs, Out.committed, Except.map]

/-- an index that does not match the registration under the NAME is refused as stale and nothing
    changes — for every node ID the request may carry (own, another registration's, unknown, none) -/
theorem nodeCas_stale_refused (s : State) (i : Nat) (v : NodeVal) (c : Nat)
    (h : ¬ SetMatch (tget s.nodes (lc v.name)) c) : txn s i [.nodeCas v c] = ⟨s, .txnErr [(0, .stale)]⟩ := by
  rw [← setCasFails_eq_true_iff] at h
  simp [txn_single, tapply, nodeCas, h, Except.map]

/-- create-only (index 0) on a name that is registered is refused, whatever the request's node ID
    (the seeded regression C10-1 (a): comparison by ID let it overwrite the registration) -/
theorem nodeCas_createOnly_on_present_refused (s : State) (i : Nat) (v : NodeVal)
    (e : Ver NodeVal) (h : tget s.nodes (lc v.name) = some e) :
    txn s i [.nodeCas v 0] = ⟨s, .txnErr [(0, .stale)]⟩ :=
  nodeCas_stale_refused s i v 0 (by simp [SetMatch, h])

/-- a cas addressed at name `n` with another registration's node ID and that registration's index
    is judged against `n`'s own index (C10-1 (b)) -/
theorem nodeCas_foreign_id_judged_by_name (s : State) (i : Nat) (v : NodeVal) (c : Nat)
    (e : Ver NodeVal) (h : tget s.nodes (lc v.name) = some e) (hc : c ≠ e.modify) :
    txn s i [.nodeCas v c] = ⟨s, .txnErr [(0, .stale)]⟩ :=
  nodeCas_stale_refused s i v c (by simp [SetMatch, h, hc])

/-- not committed (no match, or the name is defended) ⇒ nothing changes -/
theorem nodeCas_failed_unchanged (s : State) (i : Nat) (v : NodeVal) (c : Nat)
    (h : ¬ (SetMatch (tget s.nodes (lc v.name)) c ∧ nodeRefused s v = false)) :
    (txn s i [.nodeCas v c]).state = s ∧ (txn s i [.nodeCas v c]).committed = false := by
  have hc : ¬ (txn s i [.nodeCas v c]).committed = true :=
    fun hh => h ((nodeCas_reported_iff_matched s i v c).mp hh)
  refine ⟨?_, by simpa using hc⟩
  rw [txn_single] at hc ⊢
  cases ht : tapply s i (.nodeCas v c) with
  | ok x => simp [ht, Out.committed] at hc
  | error e => rfl

theorem nodeCas_applied_effect (s : State) (i : Nat) (v : NodeVal) (c : Nat)
    (h : SetMatch (tget s.nodes (lc v.name)) c) (hr : nodeRefused s v = false) :
    ∃ s', nodeSet s i v = .ok s' ∧ txn s i [.nodeCas v c] = ⟨s', .txnOk (nodeRes s' v)⟩ := by
  rw [← setCasFails_eq_false_iff] at h
  obtain ⟨s', hs⟩ := nodeSet_ok s i v hr
  exact ⟨s', hs, by simp [txn_single, tapply, nodeCas, h, hs, Except.map]⟩

/-- what an accepted node write leaves under the (lower-cased) name: the requested registration
    stamped with `i` — or nothing at all changed (same ID and address already stored) -/
theorem nodeSet_get (s s' : State) (i : Nat) (v : NodeVal) (h : nodeSet s i v = .ok s') :
    s' = s ∨ ∃ c, tget s'.nodes (lc v.name) = some ⟨v, c, i⟩ := by
  have ins : ∀ (w : State) (c : Nat), tget (nodeInsert w i v c).nodes (lc v.name) = some ⟨v, c, i⟩ := by
    intro w c; simp [nodeInsert]
  have byName : ∀ t, nodeSetByName s i v = t → t = s ∨ ∃ c, tget t.nodes (lc v.name) = some ⟨v, c, i⟩ := by
    intro t ht
    unfold nodeSetByName at ht
    cases hn : tget s.nodes (lc v.name) with
    | none => simp only [hn] at ht; subst ht; right; exact ⟨i, ins s i⟩
    | some e =>
      by_cases hv : sameNode e.val v = true
      · simp [hn, hv] at ht; left; exact ht.symm
      · simp only [hn, hv] at ht; subst ht; right; exact ⟨e.create, ins s e.create⟩
  unfold nodeSet at h
  by_cases hid : v.id = ""
  · simp [hid] at h; exact byName s' h
  · simp only [ne_eq, hid, not_false_eq_true, if_true] at h
    cases hb : nodeById s.nodes v.id with
    | none =>
      simp only [hb] at h
      split at h
      · simp at h
      · simp at h; exact byName s' h
    | some x =>
      obtain ⟨oldKey, e⟩ := x
      simp only [hb] at h
      by_cases hn : oldKey = lc v.name
      · by_cases hv : sameNode e.val v = true
        · simp [hn, hv] at h; left; exact h.symm
        · simp [hn, hv] at h; subst h; right; exact ⟨e.create, ins s e.create⟩
      · simp only [hn, not_false_eq_true, if_true] at h
        split at h
        · simp at h
        · simp at h; subst h; right; exact ⟨e.create, ins _ e.create⟩

/-- every index-table entry a node write raises carries exactly the raft index of the write -/
theorem nodeInsert_index (w : State) (i : Nat) (v : NodeVal) (c : Nat) :
    (nodeInsert w i v c).idx = ixServicesOfNode w.svcs (ixNode (ixNodes w.idx i) v.name i) (lc v.name) i := rfl

/-- node delete-cas: committed ⇔ the node exists with exactly that ModifyIndex -/
theorem nodeDeleteCas_reported_iff_matched (s : State) (i : Nat) (n : String) (c : Nat) :
    (txn s i [.nodeDeleteCas n c]).committed = true ↔ DelMatch (tget s.nodes (lc n)) c := by
  unfold DelMatch
  cases h : tget s.nodes (lc n) with
  | none => simp [txn, txnLoop, tapply, nodeDeleteCas, h, Out.committed, Except.map]
  | some e => by_cases hm : e.modify = c <;>
      simp [txn, txnLoop, tapply, nodeDeleteCas, h, hm, Out.committed, Except.map]

theorem nodeDeleteCas_failed_unchanged (s : State) (i : Nat) (n : String) (c : Nat)
    (hn : ¬ DelMatch (tget s.nodes (lc n)) c) : txn s i [.nodeDeleteCas n c] = ⟨s, .txnErr [(0, .stale)]⟩ := by
  unfold DelMatch at hn
  cases h : tget s.nodes (lc n) with
  | none => simp [txn, txnLoop, tapply, nodeDeleteCas, h, Except.map]
  | some e => simp [h] at hn; simp [txn, txnLoop, tapply, nodeDeleteCas, h, hn, Except.map]

theorem nodeDeleteCas_applied_effect (s : State) (i : Nat) (n : String) (c : Nat)
    (hn : DelMatch (tget s.nodes (lc n)) c) : txn s i [.nodeDeleteCas n c] = ⟨nodeDelete s i n, .txnOk []⟩ := by
  unfold DelMatch at hn
  cases h : tget s.nodes (lc n) with
  | none => simp [h] at hn
  | some e => simp [h] at hn; simp [txn, txnLoop, tapply, nodeDeleteCas, h, hn, Except.map]

/-- the delete cascades: the node, its services and its checks are gone -/
theorem nodeDelete_effect (s : State) (i : Nat) (n : String) (e : Ver NodeVal) (h : tget s.nodes (lc n) = some e) :
    tget (nodeDelete s i n).nodes (lc n) = none ∧
    (∀ p ∈ (nodeDelete s i n).svcs, p.1.1 ≠ lc n) ∧ (∀ p ∈ (nodeDelete s i n).chks, p.1.1 ≠ lc n) := by
  simp only [nodeDelete, h, List.foldl_map]
  obtain ⟨hN, hS, hC⟩ := foldl_sessDelete_CatEq (fun y : String × Ver SessVal => y.1)
    (List.filter (fun p => decide (lc p.2.val.node = lc n)) _) _ i
  rw [hN, hS, hC]
  refine ⟨?_, ?_, ?_⟩
  · simp [(foldl_chkDelete _ _ _ i n).1, (foldl_svcDelete _ _ _ i n).1]
  · intro p hp hk
    simp only [(foldl_chkDelete _ _ _ i n).2.1, (foldl_svcDelete _ _ _ i n).2] at hp
    have := mem_foldl_tdel (fun y : (String × String) × Ver Nat => (lc n, y.1.2)) _ _ p hp
    exact this.2 p (by simp [this.1, hk]) (by rw [← hk])
  · intro p hp hk
    simp only [(foldl_chkDelete _ _ _ i n).2.2] at hp
    have := mem_foldl_tdel (fun y : (String × String) × Ver ChkVal => (lc n, y.1.2)) _ _ p hp
    exact this.2 p (by simp [this.1, hk]) (by rw [← hk])

/-- service cas: committed ⇔ matched and the node is registered (`ErrMissingNode` otherwise) -/
theorem serviceCas_reported_iff_matched (s : State) (i : Nat) (n id : String) (p c : Nat) :
    (txn s i [.svcCas n id p c]).committed = true ↔
      SetMatch (tget s.svcs (lc n, id)) c ∧ (tget s.nodes (lc n)).isSome := by
  rw [← setCasFails_eq_false_iff, txn_single]
  cases h : setCasFails (tget s.svcs (lc n, id)) c with
  | true => simp [tapply, svcCas, h, Out.committed, Except.map]
  | false =>
    cases hn : tget s.nodes (lc n) with
    | none => simp [tapply, svcCas, h, svcSet_missing _ _ _ _ _ hn, Out.committed, Except.map]
    | some e =>
      obtain ⟨s', hs⟩ := svcSet_ok s i n id p (by simp [hn])
      simp [tapply, svcCas, h, hs, Out.committed, Except.map]

/-- a service cas that is not committed (no match, or node missing) changes nothing -/
theorem serviceCas_failed_unchanged (s : State) (i : Nat) (n id : String) (p c : Nat)
    (h : ¬ (SetMatch (tget s.svcs (lc n, id)) c ∧ (tget s.nodes (lc n)).isSome)) :
    (txn s i [.svcCas n id p c]).state = s ∧ (txn s i [.svcCas n id p c]).committed = false := by
  have hc : ¬ (txn s i [.svcCas n id p c]).committed = true :=
    fun hh => h ((serviceCas_reported_iff_matched s i n id p c).mp hh)
  refine ⟨?_, by simpa using hc⟩
  rw [txn_single] at hc ⊢
  cases ht : tapply s i (.svcCas n id p c) with
  | ok x => simp [ht, Out.committed] at hc
  | error e => rfl

theorem serviceCas_applied_effect (s : State) (i : Nat) (n id : String) (p c : Nat)
    (h : SetMatch (tget s.svcs (lc n, id)) c) (hn : (tget s.nodes (lc n)).isSome) :
    ∃ s', svcSet s i n id p = .ok s' ∧ txn s i [.svcCas n id p c] = ⟨s', .txnOk (svcRes s' n id)⟩ := by
  rw [← setCasFails_eq_false_iff] at h
  obtain ⟨s', hs⟩ := svcSet_ok s i n id p hn
  exact ⟨s', hs, by simp [txn_single, tapply, svcCas, h, hs, Except.map]⟩

theorem svcSet_get (s s' : State) (i : Nat) (n id : String) (p : Nat) (h : svcSet s i n id p = .ok s') :
    tget s'.svcs (lc n, id) =
      match tget s.svcs (lc n, id) with
      | some e => if e.val = p then some e else some ⟨p, e.create, i⟩
      | none => some ⟨p, i, i⟩ := by
  cases hn : tget s.nodes (lc n) with
  | none => simp [svcSet, hn] at h
  | some x =>
    by_cases hk : id ∈ s.ksn <;>
    cases hs : tget s.svcs (lc n, id) with
    | none => simp [svcSet, hn, hs, hk] at h; subst h; simp
    | some e =>
      by_cases hv : e.val = p
      · simp [svcSet, hn, hs, hv, hk] at h; subst h; simp [hs, hv]
      · simp [svcSet, hn, hs, hv, hk] at h; subst h; simp [hv]

theorem serviceDeleteCas_reported_iff_matched (s : State) (i : Nat) (n id : String) (c : Nat) :
    (txn s i [.svcDeleteCas n id c]).committed = true ↔ DelMatch (tget s.svcs (lc n, id)) c := by
  unfold DelMatch
  cases h : tget s.svcs (lc n, id) with
  | none => simp [txn, txnLoop, tapply, svcDeleteCas, h, Out.committed, Except.map]
  | some e => by_cases hm : e.modify = c <;>
      simp [txn, txnLoop, tapply, svcDeleteCas, h, hm, Out.committed, Except.map]

theorem serviceDeleteCas_failed_unchanged (s : State) (i : Nat) (n id : String) (c : Nat)
    (hn : ¬ DelMatch (tget s.svcs (lc n, id)) c) : txn s i [.svcDeleteCas n id c] = ⟨s, .txnErr [(0, .stale)]⟩ := by
  unfold DelMatch at hn
  cases h : tget s.svcs (lc n, id) with
  | none => simp [txn, txnLoop, tapply, svcDeleteCas, h, Except.map]
  | some e => simp [h] at hn; simp [txn, txnLoop, tapply, svcDeleteCas, h, hn, Except.map]

theorem serviceDeleteCas_applied_effect (s : State) (i : Nat) (n id : String) (c : Nat)
    (hn : DelMatch (tget s.svcs (lc n, id)) c) : txn s i [.svcDeleteCas n id c] = ⟨svcDelete s i n id, .txnOk []⟩ := by
  unfold DelMatch at hn
  cases h : tget s.svcs (lc n, id) with
  | none => simp [h] at hn
  | some e => simp [h] at hn; simp [txn, txnLoop, tapply, svcDeleteCas, h, hn, Except.map]

/-! ### check cas (`txnCheck`, repaired by "fix: do not swallow write errors of check-and-set
verbs in transactions": before it a refused write — missing node / missing bound service — was
overwritten by the nil error of the re-read, and the transaction answered success with nothing
written; witness `txn {} 5 [check cas n1/c1 index 0]`) -/

/-- check cas: committed ⇔ matched and the prerequisites exist (node; bound service) -/
theorem checkCas_reported_iff_matched (s : State) (i : Nat) (n id : String) (v : ChkVal) (c : Nat) :
    (txn s i [.chkCas n id v c]).committed = true ↔ SetMatch (tget s.chks (lc n, id)) c ∧ ChkAdm s n v := by
  rw [← setCasFails_eq_false_iff, txn_single]
  cases h : setCasFails (tget s.chks (lc n, id)) c with
  | true => simp [tapply, chkCas, h, Out.committed, Except.map]
  | false =>
    by_cases ha : ChkAdm s n v
    · obtain ⟨s', hs⟩ := chkSet_ok s i n id v ha
      simp [tapply, chkCas, h, hs, ha, Out.committed, Except.map]
    · obtain ⟨e, hs⟩ := chkSet_refused s i n id v ha
      simp [tapply, chkCas, h, hs, ha, Out.committed, Except.map]

/-- a check cas that is not committed (no match, or a prerequisite missing) changes nothing -/
theorem checkCas_failed_unchanged (s : State) (i : Nat) (n id : String) (v : ChkVal) (c : Nat)
    (h : ¬ (SetMatch (tget s.chks (lc n, id)) c ∧ ChkAdm s n v)) :
    (txn s i [.chkCas n id v c]).state = s ∧ (txn s i [.chkCas n id v c]).committed = false := by
  have hc : ¬ (txn s i [.chkCas n id v c]).committed = true :=
    fun hh => h ((checkCas_reported_iff_matched s i n id v c).mp hh)
  refine ⟨?_, by simpa using hc⟩
  rw [txn_single] at hc ⊢
  cases ht : tapply s i (.chkCas n id v c) with
  | ok x => simp [ht, Out.committed] at hc
  | error e => rfl

/-- the former defect's witness, now answered with the error and an untouched store -/
theorem checkCas_missing_node_example :
    txn {} 5 [.chkCas "n1" "c1" ⟨"", "out", "passing"⟩ 0] = ⟨{}, .txnErr [(0, .missingNode)]⟩ := by
  simp [txn, txnLoop, tapply, chkCas, setCasFails, chkSet, tget, Except.map]

theorem checkCas_applied_effect (s : State) (i : Nat) (n id : String) (v : ChkVal) (c : Nat)
    (h : SetMatch (tget s.chks (lc n, id)) c) (ha : ChkAdm s n v) :
    ∃ s', chkSet s i n id v = .ok s' ∧ txn s i [.chkCas n id v c] = ⟨s', .txnOk (chkRes s' n id)⟩ := by
  rw [← setCasFails_eq_false_iff] at h
  obtain ⟨s', hs⟩ := chkSet_ok s i n id v ha
  exact ⟨s', hs, by simp [txn_single, tapply, chkCas, h, hs, Except.map]⟩

theorem chkSet_get (s s' : State) (i : Nat) (n id : String) (v : ChkVal) (h : chkSet s i n id v = .ok s') :
    tget s'.chks (lc n, id) =
      match tget s.chks (lc n, id) with
      | some e => if e.val = v then some e else some ⟨v, e.create, i⟩
      | none => some ⟨v, i, i⟩ := by
  unfold chkSet at h
  cases hn : tget s.nodes (lc n) with
  | none => simp [hn] at h
  | some x =>
    simp only [hn] at h
    split at h
    · simp at h
    · cases hs : tget s.chks (lc n, id) with
      | none => simp [hs] at h; subst h; simp
      | some e =>
        by_cases hv : e.val = v
        · simp [hs, hv] at h; subst h; simp [hs, hv]
        · simp [hs, hv] at h; subst h; simp [hv]

theorem checkDeleteCas_reported_iff_matched (s : State) (i : Nat) (n id : String) (c : Nat) :
    (txn s i [.chkDeleteCas n id c]).committed = true ↔ DelMatch (tget s.chks (lc n, id)) c := by
  unfold DelMatch
  cases h : tget s.chks (lc n, id) with
  | none => simp [txn_single, tapply, chkDeleteCas, h, Out.committed, Except.map]
  | some e => by_cases hm : e.modify = c <;>
      simp [txn_single, tapply, chkDeleteCas, h, hm, Out.committed, Except.map]

theorem checkDeleteCas_failed_unchanged (s : State) (i : Nat) (n id : String) (c : Nat)
    (hn : ¬ DelMatch (tget s.chks (lc n, id)) c) : txn s i [.chkDeleteCas n id c] = ⟨s, .txnErr [(0, .stale)]⟩ := by
  unfold DelMatch at hn
  cases h : tget s.chks (lc n, id) with
  | none => simp [txn_single, tapply, chkDeleteCas, h, Except.map]
  | some e => simp [h] at hn; simp [txn_single, tapply, chkDeleteCas, h, hn, Except.map]

theorem checkDeleteCas_applied_effect (s : State) (i : Nat) (n id : String) (c : Nat)
    (hn : DelMatch (tget s.chks (lc n, id)) c) : txn s i [.chkDeleteCas n id c] = ⟨chkDelete s i n id, .txnOk []⟩ := by
  unfold DelMatch at hn
  cases h : tget s.chks (lc n, id) with
  | none => simp [h] at hn
  | some e => simp [h] at hn; simp [txn_single, tapply, chkDeleteCas, h, hn, Except.map]

/-! ## Config entries: `EnsureConfigEntryCAS`, `EnsureConfigEntryWithStatusCAS`, `DeleteConfigEntryCAS`
(`st = false` is the plain upsert, `st = true` the upsert-with-status) -/

theorem configCas_reported_iff_matched (s : State) (i : Nat) (st : Bool) (k : String × String) (v : CfgVal) (c : Nat) :
    (cfgCas s i st k v c).reported = true ↔ SetMatch (tget s.cfgs k) c ∧ cfgRefused s k v = none := by
  rw [← setCasFails_eq_false_iff]
  unfold cfgCas Out.reported cfgEnsure
  cases setCasFails (tget s.cfgs k) c <;> cases cfgRefused s k v <;> simp

/-- no match, or a refused entry (gateway name clash, permissive mutual TLS without the mesh
    entry's consent, splitter on a tcp service): nothing changes and success is not reported -/
theorem configCas_failed_unchanged (s : State) (i : Nat) (st : Bool) (k : String × String) (v : CfgVal) (c : Nat)
    (h : ¬ (SetMatch (tget s.cfgs k) c ∧ cfgRefused s k v = none)) :
    (cfgCas s i st k v c).state = s ∧ (cfgCas s i st k v c).reported = false := by
  rw [← setCasFails_eq_false_iff] at h
  unfold cfgCas Out.reported cfgEnsure
  cases hm : setCasFails (tget s.cfgs k) c <;> cases hr : cfgRefused s k v <;> simp_all

/-- a matching but inadmissible cas answers with the validation error, never with `true` -/
theorem configCas_inadmissible (s : State) (i : Nat) (st : Bool) (k : String × String) (v : CfgVal) (c : Nat)
    (h : SetMatch (tget s.cfgs k) c) (e : Err) (hr : cfgRefused s k v = some e) :
    cfgCas s i st k v c = ⟨s, .err e⟩ := by
  rw [← setCasFails_eq_false_iff] at h
  simp [cfgCas, cfgEnsure, h, hr]

theorem configCas_applied_effect (s : State) (i : Nat) (st : Bool) (k : String × String) (v : CfgVal) (c : Nat)
    (h : SetMatch (tget s.cfgs k) c) (hr : cfgRefused s k v = none) :
    cfgCas s i st k v c = ⟨cfgWrite s i st k v, .ok true⟩ := by
  rw [← setCasFails_eq_false_iff] at h
  simp [cfgCas, cfgEnsure, h, hr]

/-- the upsert always stamps ModifyIndex = i and inherits CreateIndex -/
theorem cfgWrite_get (s : State) (i : Nat) (st : Bool) (k : String × String) (v : CfgVal) :
    tget (cfgWrite s i st k v).cfgs k =
      some (stamp (tget s.cfgs k) i ⟨v.val, cfgStatus (tget s.cfgs k) st k.1 v, v.flag⟩) := by
  simp [cfgWrite]

/-- the admission rules, spelled out for the generated kinds -/
theorem cfgRefused_gateway_clash (s : State) (name : String) (v : CfgVal) (e : Ver CfgVal)
    (h : tget s.cfgs ("terminating-gateway", name) = some e) :
    cfgRefused s ("ingress-gateway", name) v = some .cfgGatewayClash := by
  simp [cfgRefused, h]

theorem cfgRefused_permissive (s : State) (name : String) (v : CfgVal) (hf : v.flag = true)
    (hold : ∀ e, tget s.cfgs ("service-defaults", name) = some e → e.val.flag = false)
    (hmesh : meshAllowsPermissive s.cfgs = false) :
    cfgRefused s ("service-defaults", name) v = some .cfgMtls := by
  cases ho : tget s.cfgs ("service-defaults", name) with
  | none => simp [cfgRefused, ho, hf, hmesh]
  | some e => simp [cfgRefused, ho, hf, hmesh, hold e ho]

theorem cfgStatus_update (old : Cell CfgVal) (kind : String) (v : CfgVal) :
    cfgStatus old true kind v = v.status := by
  unfold cfgStatus; split <;> simp

/-- … a plain upsert-cas of a controlled entry keeps the stored status -/
theorem cfgStatus_keep (e : Ver CfgVal) (kind : String) (v : CfgVal) (h : controlled kind = true) :
    cfgStatus (some e) false kind v = e.val.status := by
  simp [cfgStatus, h]

theorem configDeleteCas_reported_iff_matched (s : State) (i : Nat) (k : String × String) (c : Nat) :
    (cfgDeleteCas s i k c).reported = true ↔ DelMatch (tget s.cfgs k) c := by
  cases h : tget s.cfgs k with
  | none => simp [cfgDeleteCas, DelMatch, Out.reported, h]
  | some e => by_cases hm : e.modify = c <;> simp [cfgDeleteCas, DelMatch, Out.reported, h, hm]

theorem configDeleteCas_failed_unchanged (s : State) (i : Nat) (k : String × String) (c : Nat)
    (hn : ¬ DelMatch (tget s.cfgs k) c) : cfgDeleteCas s i k c = ⟨s, .ok false⟩ := by
  cases h : tget s.cfgs k with
  | none => simp [cfgDeleteCas, h]
  | some e => simp [DelMatch, h] at hn; simp [cfgDeleteCas, h, hn]

theorem configDeleteCas_applied_effect (s : State) (i : Nat) (k : String × String) (c : Nat)
    (hn : DelMatch (tget s.cfgs k) c) : cfgDeleteCas s i k c = ⟨cfgDelete s i k, .ok true⟩ := by
  cases h : tget s.cfgs k with
  | none => simp [DelMatch, h] at hn
  | some e => simp [DelMatch, h] at hn; simp [cfgDeleteCas, h, hn]

theorem cfgDelete_get (s : State) (i : Nat) (k : String × String) : tget (cfgDelete s i k).cfgs k = none := by
  cases h : tget s.cfgs k <;> simp [cfgDelete, h]

/-! ## CA configuration: `CACheckAndSetConfig` (a mismatch is an error, not `false`) -/

/-- the stored CA configuration has exactly the supplied index (an absent one has index 0) -/
def CaMatch (c : Cell CaVal) (cidx : Nat) : Prop := modOf c = cidx

instance (c : Cell CaVal) (cidx : Nat) : Decidable (CaMatch c cidx) := by unfold CaMatch; infer_instance

theorem caConfigMismatch_eq_false_iff (c : Cell CaVal) (cidx : Nat) :
    caConfigMismatch c cidx = false ↔ CaMatch c cidx := by
  cases c with
  | none => simp only [caConfigMismatch, CaMatch, modOf]; constructor <;> intro h <;> simp_all <;> omega
  | some e => simp [caConfigMismatch, CaMatch, modOf]

theorem caConfigCas_reported_iff_matched (s : State) (i : Nat) (v : CaVal) (c : Nat) :
    (caConfigCas s i v c).reported = true ↔ CaMatch s.caConfig c := by
  rw [← caConfigMismatch_eq_false_iff]
  unfold caConfigCas Out.reported
  cases caConfigMismatch s.caConfig c <;> simp

theorem caConfigCas_failed_unchanged (s : State) (i : Nat) (v : CaVal) (c : Nat)
    (h : ¬ CaMatch s.caConfig c) : caConfigCas s i v c = ⟨s, .err .casMismatch⟩ := by
  rw [← caConfigMismatch_eq_false_iff] at h
  simp at h
  simp [caConfigCas, h]

theorem caConfigCas_applied_effect (s : State) (i : Nat) (v : CaVal) (c : Nat)
    (h : CaMatch s.caConfig c) : caConfigCas s i v c = ⟨caSet s i v, .ok true⟩ := by
  rw [← caConfigMismatch_eq_false_iff] at h
  simp [caConfigCas, h]

theorem caSet_get (s : State) (i : Nat) (v : CaVal) :
    (caSet s i v).caConfig =
      match s.caConfig with
      | some e => some ⟨⟨v.provider, if v.cluster = "" then e.val.cluster else v.cluster⟩, e.create, i⟩
      | none => some ⟨v, i, i⟩ := by
  cases h : s.caConfig <;> simp [caSet, h]

/-! ## CA roots: `CARootSetCAS` (repaired: reports `false` on an index mismatch) -/

/-- the supplied index is the current index of the roots table -/
def RootsMatch (s : State) (cidx : Nat) : Prop := imaxIndex s.idx "connect-ca-roots" = cidx

instance (s : State) (cidx : Nat) : Decidable (RootsMatch s cidx) := by unfold RootsMatch; infer_instance

/-- the decision of `caRootSetCASAppliedTxn`, spelled out -/
theorem rootsCasTxn_spec (s : State) (i : Nat) (c : Nat) (rs : List RootReq) :
    (RootsMatch s c ∧ RootsAdm rs → rootsCasTxn s i c rs = .ok (true, rootsWrite s i rs)) ∧
    (¬ (RootsMatch s c ∧ RootsAdm rs) →
        rootsCasTxn s i c rs = .ok (false, s) ∨ ∃ e, rootsCasTxn s i c rs = .error e) := by
  unfold RootsMatch RootsAdm rootsCasTxn
  by_cases h2 : activeCount rs = 1
  · by_cases h3 : imaxIndex s.idx "connect-ca-roots" = c
    · by_cases h4 : rs.any (fun r => r.1 = "") = true
      · simp [h2, h3, h4]
      · simp only [h2, h3, h4]; simp
    · simp [h2, h3]
  · simp [h2]

theorem caRootsCas_reported_iff_matched (s : State) (i : Nat) (c : Nat) (rs : List RootReq) :
    (caRootsCas s i c rs).reported = true ↔ RootsMatch s c ∧ RootsAdm rs := by
  have sp := rootsCasTxn_spec s i c rs
  by_cases h : RootsMatch s c ∧ RootsAdm rs
  · simp [caRootsCas, sp.1 h, Out.reported, h]
  · rcases sp.2 h with h' | ⟨e, h'⟩ <;> simp [caRootsCas, h', Out.reported, h]

/-- not (matched and admissible) ⇒ the whole state is unchanged and the answer is `false` or an error -/
theorem caRootsCas_failed_unchanged (s : State) (i : Nat) (c : Nat) (rs : List RootReq)
    (h : ¬ (RootsMatch s c ∧ RootsAdm rs)) :
    (caRootsCas s i c rs).state = s ∧ (caRootsCas s i c rs).reported = false := by
  rcases (rootsCasTxn_spec s i c rs).2 h with h' | ⟨e, h'⟩ <;> simp [caRootsCas, h', Out.reported]

/-- a stale index on an otherwise valid request answers exactly `false` (the repaired defect §6 #4) -/
theorem caRootsCas_stale_reports_false (s : State) (i : Nat) (c : Nat) (rs : List RootReq)
    (ha : RootsAdm rs) (h : ¬ RootsMatch s c) : caRootsCas s i c rs = ⟨s, .ok false⟩ := by
  obtain ⟨h1, h2⟩ := ha
  unfold RootsMatch at h
  simp [caRootsCas, rootsCasTxn, h1, h]

theorem caRootsCas_applied_effect (s : State) (i : Nat) (c : Nat) (rs : List RootReq)
    (h : RootsMatch s c) (ha : RootsAdm rs) : caRootsCas s i c rs = ⟨rootsWrite s i rs, .ok true⟩ := by
  simp [caRootsCas, (rootsCasTxn_spec s i c rs).1 ⟨h, ha⟩]

/-- what the replaced root set contains: exactly the requested roots (the last entry of an ID
    wins), stamped with `i`, CreateIndex inherited by ID; every other ID is gone; the table index
    is `i`. -/
theorem rootsWrite_get (s : State) (i : Nat) (rs : List RootReq) (id : String) :
    tget (rootsWrite s i rs).roots id =
      (match lastLookup rs id with
       | some v => some (stamp (tget s.roots id) i v)
       | none => none) ∧
    imaxIndex (rootsWrite s i rs).idx "connect-ca-roots" = i := by
  refine ⟨?_, by simp [rootsWrite, imaxIndex_iset_self]⟩
  simp only [rootsWrite]
  rw [tget_rootsInsert]
  cases lastLookup rs id <;> simp [tget]

/-! ## The composite `CAOpSetRootsAndConfig` (repaired: ONE write transaction) -/

theorem caRootsAndConfig_reported_iff_matched (s : State) (i rc : Nat) (rs : List RootReq) (cc : Nat) (v : CaVal) :
    (caRootsAndConfig s i rc rs cc v).reported = true ↔
      RootsMatch s rc ∧ RootsAdm rs ∧ CaMatch s.caConfig cc := by
  have sp := rootsCasTxn_spec s i rc rs
  by_cases h : RootsMatch s rc ∧ RootsAdm rs
  · have hc : (rootsWrite s i rs).caConfig = s.caConfig := rfl
    cases hm : caConfigMismatch s.caConfig cc with
    | true =>
      have : ¬ CaMatch s.caConfig cc := by rw [← caConfigMismatch_eq_false_iff]; simp [hm]
      simp [caRootsAndConfig, sp.1 h, hc, hm, Out.reported, this]
    | false =>
      have : CaMatch s.caConfig cc := (caConfigMismatch_eq_false_iff _ _).mp hm
      simp [caRootsAndConfig, sp.1 h, hc, hm, Out.reported, this, h]
  · have h2 : ¬ (RootsMatch s rc ∧ RootsAdm rs ∧ CaMatch s.caConfig cc) := fun ⟨a, b, _⟩ => h ⟨a, b⟩
    rcases sp.2 h with h' | ⟨e, h'⟩ <;> simp [caRootsAndConfig, h', Out.reported, h2]

theorem caRootsAndConfig_failed_unchanged (s : State) (i rc : Nat) (rs : List RootReq) (cc : Nat) (v : CaVal)
    (h : ¬ (RootsMatch s rc ∧ RootsAdm rs ∧ CaMatch s.caConfig cc)) :
    (caRootsAndConfig s i rc rs cc v).state = s ∧ (caRootsAndConfig s i rc rs cc v).reported = false := by
  have hr : ¬ (caRootsAndConfig s i rc rs cc v).reported = true :=
    fun hh => h ((caRootsAndConfig_reported_iff_matched s i rc rs cc v).mp hh)
  refine ⟨?_, by simpa using hr⟩
  have sp := rootsCasTxn_spec s i rc rs
  by_cases h1 : RootsMatch s rc ∧ RootsAdm rs
  · have hc : (rootsWrite s i rs).caConfig = s.caConfig := rfl
    cases hm : caConfigMismatch s.caConfig cc with
    | true => simp [caRootsAndConfig, sp.1 h1, hc, hm]
    | false => exact absurd ⟨h1.1, h1.2, (caConfigMismatch_eq_false_iff _ _).mp hm⟩ h
  · rcases sp.2 h1 with h' | ⟨e, h'⟩ <;> simp [caRootsAndConfig, h']

theorem caRootsAndConfig_applied_effect (s : State) (i rc : Nat) (rs : List RootReq) (cc : Nat) (v : CaVal)
    (hr : RootsMatch s rc) (ha : RootsAdm rs) (hc : CaMatch s.caConfig cc) :
    caRootsAndConfig s i rc rs cc v = ⟨caSet (rootsWrite s i rs) i v, .ok true⟩ := by
  have hm : caConfigMismatch (rootsWrite s i rs).caConfig cc = false := (caConfigMismatch_eq_false_iff _ _).mpr hc
  simp [caRootsAndConfig, (rootsCasTxn_spec s i rc rs).1 ⟨hr, ha⟩, hm]

/-- HEADLINE: the composite applies all of its parts or none — either both the roots and the
    configuration are the requested ones and success is reported, or the state is untouched and
    success is not reported.  (Refuted by the code before `fix: replace CA roots and CA config in
    one transaction`: roots matched + stale config index left the roots replaced.) -/
theorem caRootsAndConfig_atomic (s : State) (i rc : Nat) (rs : List RootReq) (cc : Nat) (v : CaVal) :
    let r := caRootsAndConfig s i rc rs cc v
    (r.state.roots = rootsInsert s.roots i rs [] ∧ r.state.caConfig = (caSet s i v).caConfig ∧ r.reported = true) ∨
    (r.state = s ∧ r.reported = false) := by
  intro r
  by_cases h : RootsMatch s rc ∧ RootsAdm rs ∧ CaMatch s.caConfig cc
  · left
    have := caRootsAndConfig_applied_effect s i rc rs cc v h.1 h.2.1 h.2.2
    simp only [r, this, Out.reported]
    refine ⟨?_, ?_, by simp⟩
    · cases hcfg : s.caConfig <;> simp [caSet, rootsWrite, hcfg]
    · cases hcfg : s.caConfig <;> simp [caSet, rootsWrite, hcfg]
  · right; exact caRootsAndConfig_failed_unchanged s i rc rs cc v h

/-! ## Autopilot: `AutopilotCASConfig` (an absent configuration never matches) -/

theorem autopilotCas_reported_iff_matched (s : State) (i v c : Nat) :
    (apCas s i v c).reported = true ↔ DelMatch s.autopilot c := by
  cases h : s.autopilot with
  | none => simp [apCas, DelMatch, Out.reported, h]
  | some e => by_cases hm : e.modify = c <;> simp [apCas, DelMatch, Out.reported, h, hm]

theorem autopilotCas_failed_unchanged (s : State) (i v c : Nat)
    (hn : ¬ DelMatch s.autopilot c) : apCas s i v c = ⟨s, .ok false⟩ := by
  cases h : s.autopilot with
  | none => simp [apCas, h]
  | some e => simp [DelMatch, h] at hn; simp [apCas, h, hn]

theorem autopilotCas_applied_effect (s : State) (i v c : Nat)
    (hn : DelMatch s.autopilot c) : apCas s i v c = ⟨apSet s i v, .ok true⟩ := by
  cases h : s.autopilot with
  | none => simp [DelMatch, h] at hn
  | some e => simp [DelMatch, h] at hn; simp [apCas, h, hn]

theorem apSet_get (s : State) (i v : Nat) : (apSet s i v).autopilot = some (stamp s.autopilot i v) := rfl

/-! ## Feature gates: `FeatureGateUpdate` (two expected indexes, one transaction) -/

def FgMatch (s : State) (expP expS : Nat) : Prop := modOf s.fgPolicy = expP ∧ modOf s.fgStatus = expS

/-- the request carries a status, and a policy exists or is supplied -/
def FgAdm (s : State) (pol st : Option String) : Prop := st.isSome ∧ (pol.isSome ∨ s.fgPolicy.isSome)

instance (s : State) (a b : Nat) : Decidable (FgMatch s a b) := by unfold FgMatch; infer_instance
instance (s : State) (a b : Option String) : Decidable (FgAdm s a b) := by unfold FgAdm; infer_instance

theorem featureGate_reported_iff_matched (s : State) (i : Nat) (pol st : Option String) (ep es : Nat) :
    (fgUpdate s i pol st ep es).reported = true ↔ FgMatch s ep es ∧ FgAdm s pol st := by
  unfold FgMatch FgAdm fgUpdate Out.reported
  cases st with
  | none => simp
  | some d =>
    cases hp : s.fgPolicy <;> cases pol <;>
      by_cases h1 : modOf s.fgPolicy = ep <;> by_cases h2 : modOf s.fgStatus = es <;> simp_all

/-- both indexes must match: if either differs (or the request is inadmissible) nothing changes -/
theorem featureGate_failed_unchanged (s : State) (i : Nat) (pol st : Option String) (ep es : Nat)
    (h : ¬ (FgMatch s ep es ∧ FgAdm s pol st)) :
    (fgUpdate s i pol st ep es).state = s ∧ (fgUpdate s i pol st ep es).reported = false := by
  have hr : ¬ (fgUpdate s i pol st ep es).reported = true :=
    fun hh => h ((featureGate_reported_iff_matched s i pol st ep es).mp hh)
  refine ⟨?_, by simpa using hr⟩
  unfold FgMatch FgAdm at h
  unfold fgUpdate
  cases st with
  | none => rfl
  | some d =>
    cases hp : s.fgPolicy <;> cases pol <;>
      by_cases h1 : modOf s.fgPolicy = ep <;> by_cases h2 : modOf s.fgStatus = es <;> simp_all

theorem featureGate_applied_effect (s : State) (i : Nat) (pol : Option String) (d : String) (ep es : Nat)
    (hm : FgMatch s ep es) (ha : FgAdm s pol (some d)) :
    fgUpdate s i pol (some d) ep es =
      ⟨{ s with fgPolicy := (match pol with | some p => some (stamp s.fgPolicy i p) | none => s.fgPolicy)
                fgStatus := some (stamp s.fgStatus i ⟨d, match pol with | some _ => i | none => ep⟩) }, .ok true⟩ := by
  obtain ⟨h1, h2⟩ := hm
  unfold FgAdm at ha
  unfold fgUpdate
  cases pol with
  | some p => simp [h1, h2]
  | none =>
    cases hp : s.fgPolicy with
    | none => simp [hp] at ha
    | some e => rw [hp] at h1; simp [h1, h2]

/-! ## ACL tokens: `aclTokenSetTxn` with `opts.CAS` — the silent one -/

/-- a well-formed token request: both IDs present and the secret is the stored one (immutable) -/
def TokValid (s : State) (t : TokReq) : Prop :=
  t.secret ≠ "" ∧ t.accessor ≠ "" ∧ ∀ e, tget s.toks t.accessor = some e → e.val.secret = t.secret

/-- the row written for a token -/
def tokWrite (s : State) (i : Nat) (t : TokReq) : State :=
  { s with toks := tput s.toks t.accessor (stamp (tget s.toks t.accessor) i ⟨t.secret, t.desc⟩)
           idx := imax s.idx "acl-tokens" i }

/-- "reported" is vacuous: the token batch never answers with a boolean -/
theorem aclTokenCas_never_reports (s : State) (i : Nat) (cas : Bool) (ts : List TokReq) :
    (tokBatchSet s i cas ts).reported = false := by
  unfold tokBatchSet Out.reported
  cases tokLoop s i cas ts <;> simp

theorem aclTokenCas_failed_unchanged (s : State) (i : Nat) (t : TokReq) (hv : TokValid s t)
    (h : ¬ SetMatch (tget s.toks t.accessor) t.modify) : tokSetOne s i true t = .ok s := by
  rw [← setCasFails_eq_true_iff] at h
  simp [tokSetOne, hv.1, hv.2.1, h]

theorem aclTokenCas_applied_effect (s : State) (i : Nat) (t : TokReq) (hv : TokValid s t)
    (h : SetMatch (tget s.toks t.accessor) t.modify) : tokSetOne s i true t = .ok (tokWrite s i t) := by
  rw [← setCasFails_eq_false_iff] at h
  cases ho : tget s.toks t.accessor with
  | none => simp [tokSetOne, hv.1, hv.2.1, h]; simp [tokWrite, stamp, ho]
  | some e =>
    have hs := hv.2.2 e ho
    simp only [tokSetOne, hv.1, hv.2.1, if_false, h]
    simp [ho, hs, tokWrite, stamp]

/-- the token takes effect iff matched (what "honest" means for a command without a boolean) -/
theorem aclTokenCas_effect_iff_matched (s : State) (i : Nat) (t : TokReq) (hv : TokValid s t) :
    tokSetOne s i true t = .ok (if SetMatch (tget s.toks t.accessor) t.modify then tokWrite s i t else s) := by
  by_cases h : SetMatch (tget s.toks t.accessor) t.modify
  · simp [h, aclTokenCas_applied_effect s i t hv h]
  · simp [h, aclTokenCas_failed_unchanged s i t hv h]

/-- a batch that hits an error (missing IDs, changed secret) aborts as a whole -/
theorem aclTokenBatch_error_unchanged (s : State) (i : Nat) (cas : Bool) (ts : List TokReq) (e : Err)
    (h : (tokBatchSet s i cas ts).res = .err e) : (tokBatchSet s i cas ts).state = s := by
  unfold tokBatchSet at h ⊢
  cases hl : tokLoop s i cas ts <;> simp_all

/-! ## ACL bootstrap: `ACLBootstrap(idx, resetIndex, token)` — conditional on the reset index -/

/-- bootstrap is allowed: never done before, or the supplied reset index is the recorded one -/
def BootMatch (s : State) (reset : Nat) : Prop :=
  match iget s.idx "acl-token-bootstrap" with
  | none => True
  | some v => reset ≠ 0 ∧ reset = v

instance (s : State) (reset : Nat) : Decidable (BootMatch s reset) := by unfold BootMatch; split <;> infer_instance

theorem tokSetOne_plain (s : State) (i : Nat) (t : TokReq) (hv : TokValid s t) :
    tokSetOne s i false t = .ok (tokWrite s i t) := by
  cases ho : tget s.toks t.accessor with
  | none => simp [tokSetOne, hv.1, hv.2.1, ho]; simp [tokWrite, stamp, ho]
  | some e =>
    have hs := hv.2.2 e ho
    simp only [tokSetOne, hv.1, hv.2.1, if_false]
    simp [ho, hs, tokWrite, stamp]

/-- the bootstrap succeeds (answers nil) exactly when it is allowed -/
theorem aclBootstrap_reported_iff_matched (s : State) (i reset : Nat) (t : TokReq) (hv : TokValid s t) :
    (tokBootstrap s i reset t).res = .unit ↔ BootMatch s reset := by
  unfold tokBootstrap BootMatch
  simp only [tokSetOne_plain s i t hv]
  cases iget s.idx "acl-token-bootstrap" with
  | none => simp
  | some v =>
    by_cases h0 : reset = 0
    · simp [h0]
    · by_cases h1 : reset = v
      · subst h1; simp [h0]
      · simp [h0, h1]

/-- a bootstrap that does not succeed — wrong or missing reset index, or a token the store
    refuses — leaves every table and the bootstrap marker unchanged -/
theorem aclBootstrap_failed_unchanged (s : State) (i reset : Nat) (t : TokReq)
    (h : (tokBootstrap s i reset t).res ≠ .unit) : (tokBootstrap s i reset t).state = s := by
  unfold tokBootstrap at h ⊢
  cases ht : tokSetOne s i false t with
  | error e => simp only []; split <;> (try split) <;> (try split) <;> rfl
  | ok w =>
    simp only [ht] at h ⊢
    split at h <;> (try split at h) <;> (try split at h) <;> simp_all

/-- a stale or zero reset index after a bootstrap is refused with the documented errors -/
theorem aclBootstrap_unmatched_errors (s : State) (i reset : Nat) (t : TokReq) (h : ¬ BootMatch s reset) :
    tokBootstrap s i reset t = ⟨s, .err (if reset = 0 then .bootstrapNotAllowed else .bootstrapInvalidReset)⟩ := by
  unfold BootMatch at h
  unfold tokBootstrap
  cases hb : iget s.idx "acl-token-bootstrap" with
  | none => simp [hb] at h
  | some v =>
    simp only [hb] at h ⊢
    by_cases h0 : reset = 0
    · simp [h0]
    · have : reset ≠ v := fun e => h ⟨h0, e⟩
      simp [h0, this]

/-- allowed ⇒ the token is written and the marker is set to the raft index: from then on the only
    reset index that is accepted is this very index (one-shot; each reset consumes its index) -/
theorem aclBootstrap_applied_effect (s : State) (i reset : Nat) (t : TokReq) (hv : TokValid s t)
    (h : BootMatch s reset) :
    tokBootstrap s i reset t =
      ⟨{ tokWrite s i t with idx := iset (tokWrite s i t).idx "acl-token-bootstrap" i }, .unit⟩ ∧
    ∀ r, BootMatch (tokBootstrap s i reset t).state r ↔ (r ≠ 0 ∧ r = i) := by
  have key : tokBootstrap s i reset t =
      ⟨{ tokWrite s i t with idx := iset (tokWrite s i t).idx "acl-token-bootstrap" i }, .unit⟩ := by
    unfold BootMatch at h
    unfold tokBootstrap
    simp only [tokSetOne_plain s i t hv]
    cases hb : iget s.idx "acl-token-bootstrap" with
    | none => rfl
    | some v =>
      simp only [hb] at h
      obtain ⟨h1, h2⟩ := h
      subst h2
      simp [h1]
  refine ⟨key, fun r => ?_⟩
  rw [key]
  simp [BootMatch, iget_iset_self]

/-! ## Session invalidation: no lock outlives its session -/

theorem kvSetCore_sess (s : State) (i : Nat) (k : String) (v : KVal) (u : Bool) : (kvSetCore s i k v u).sess = s.sess := by
  cases h : tget s.kvs k with
  | none => simp [kvSetCore, h]
  | some e => simp only [kvSetCore, h]; split <;> (split <;> rfl)

/-- destroying a session removes it, whatever its behaviour… -/
theorem sessDelete_gone (s : State) (i : Nat) (id : String) : tget (sessDelete s i id).sess id = none := by
  unfold sessDelete
  cases h : tget s.sess id with
  | none => simpa using h
  | some e =>
    simp only []
    have hd : ∀ (l : List String) (w : State), (l.foldl (fun w k => kvDelete w i k) w).sess = w.sess := by
      intro l; induction l with
      | nil => intro w; rfl
      | cons k l ih => intro w; rw [List.foldl_cons, ih]; unfold kvDelete; split <;> rfl
    have hr : ∀ (l : List String) (w : State), (l.foldl (fun w k => kvRelease w i k) w).sess = w.sess := by
      intro l; induction l with
      | nil => intro w; rfl
      | cons k l ih =>
        intro w; rw [List.foldl_cons, ih]; unfold kvRelease
        split
        · exact kvSetCore_sess _ _ _ _ _
        · rfl
    split
    · rw [hd]; simp
    · rw [hr]; simp

/-- …and a session that does not exist is destroyed without any effect (`SessionDestroy` and the
    txn verb are idempotent) -/
theorem sessDelete_absent (s : State) (i : Nat) (id : String) (h : tget s.sess id = none) :
    sessDelete s i id = s := by simp [sessDelete, h]

/-- a session can only be created on a registered node; a refused creation changes nothing -/
theorem sessCreate_needs_node (s : State) (i : Nat) (id n b : String) (h : tget s.nodes (lc n) = none) :
    ∃ e, sessCreate s i id n b = .error e := by
  unfold sessCreate
  split
  · exact ⟨_, rfl⟩
  · split
    · exact ⟨_, rfl⟩
    · exact ⟨.missingNode, by simp [h]⟩

/-! ## Transactions and the FSM layer -/

/-- `TxnRW` is all-or-nothing: a response with errors means nothing was committed -/
theorem txn_all_or_nothing (s : State) (i : Nat) (ops : List TOp) :
    (txn s i ops).committed = false → (txn s i ops).state = s := by
  simp only [txn, Out.committed]
  by_cases h : (txnLoop s i 0 ops).2.2.isEmpty = true <;> simp [h]

/-- a stale conditional verb anywhere in a transaction aborts the whole transaction -/
theorem txn_committed_iff_no_error (s : State) (i : Nat) (ops : List TOp) :
    (txn s i ops).committed = true ↔ (txnLoop s i 0 ops).2.2 = [] := by
  simp only [txn, Out.committed]
  by_cases h : (txnLoop s i 0 ops).2.2 = [] <;> simp [h]

/-! ### every operation of a transaction is judged in the state the earlier operations left -/

/-- the working state in which the operation at position `p` of `ops` runs (`txnDispatch`:
    a refused operation leaves the working state as it was and the loop goes on) -/
def txnPre (w : State) (i : Nat) : List TOp → Nat → State
  | [], _ => w
  | _ :: _, 0 => w
  | op :: ops, p + 1 =>
    match tapply w i op with
    | .ok (w', _) => txnPre w' i ops p
    | .error _ => txnPre w i ops p

/-- when a transaction verb is accepted in working state `w`: the conditional verbs need their
    index to match the row as it is in `w`; every write needs its prerequisites -/
def OpMatched (w : State) : TOp → Prop
  | .kvSet _ _ | .kvDelete _ | .nodeDelete _ | .svcDelete _ _ | .chkDelete _ _ | .sessDelete _ => True
  | .kvLock k v => LockMatch w k v.session
  | .kvUnlock k v => UnlockMatch w k v.session
  | .kvCheckSession k se => HeldBy (tget w.kvs k) se
  | .kvCheckIndex k c => DelMatch (tget w.kvs k) c
  | .kvCheckNotExists k => tget w.kvs k = none
  | .kvCas k _ c => SetMatch (tget w.kvs k) c
  | .kvDeleteCas k c => KvDelMatch (tget w.kvs k) c
  | .nodeSet v => nodeRefused w v = false
  | .nodeCas v c => SetMatch (tget w.nodes (lc v.name)) c ∧ nodeRefused w v = false
  | .nodeDeleteCas n c => DelMatch (tget w.nodes (lc n)) c
  | .svcSet n _ _ => (tget w.nodes (lc n)).isSome
  | .svcCas n id _ c => SetMatch (tget w.svcs (lc n, id)) c ∧ (tget w.nodes (lc n)).isSome
  | .svcDeleteCas n id c => DelMatch (tget w.svcs (lc n, id)) c
  | .chkSet n _ v => ChkAdm w n v
  | .chkCas n id v c => SetMatch (tget w.chks (lc n, id)) c ∧ ChkAdm w n v
  | .chkDeleteCas n id c => DelMatch (tget w.chks (lc n, id)) c

theorem committed_single_iff (w : State) (i : Nat) (op : TOp) :
    (txn w i [op]).committed = true ↔ ∃ r, tapply w i op = .ok r := by
  rw [txn_single]
  cases h : tapply w i op <;> simp [Out.committed]

/-- one operation is accepted exactly when it is matched (and admissible) in its working state -/
theorem tapply_ok_iff (w : State) (i : Nat) (op : TOp) : (∃ r, tapply w i op = .ok r) ↔ OpMatched w op := by
  cases op with
  | kvSet k v => simp [tapply, OpMatched]
  | kvDelete k => simp [tapply, OpMatched]
  | nodeDelete n => simp [tapply, OpMatched]
  | svcDelete n id => simp [tapply, OpMatched]
  | chkDelete n id => simp [tapply, OpMatched]
  | sessDelete id => simp [tapply, OpMatched]
  | kvLock k v => rw [← committed_single_iff]; exact kvLockTxn_reported_iff_matched w i k v
  | kvUnlock k v => rw [← committed_single_iff]; exact kvUnlockTxn_reported_iff_matched w i k v
  | kvCheckSession k se =>
    simp only [OpMatched, HeldBy]
    cases h : tget w.kvs k with
    | none => simp [tapply, kvCheckSession, h, Except.map]
    | some e => by_cases hm : e.val.session = se <;> simp [tapply, kvCheckSession, h, hm, Except.map]
  | kvCheckIndex k c =>
    simp only [OpMatched, DelMatch]
    cases h : tget w.kvs k with
    | none => simp [tapply, kvCheckIndex, h, Except.map]
    | some e => by_cases hm : e.modify = c <;> simp [tapply, kvCheckIndex, h, hm, Except.map]
  | kvCheckNotExists k =>
    simp only [OpMatched]
    cases h : tget w.kvs k <;> simp [tapply, kvCheckNotExists, h, Except.map]
  | kvCas k v c =>
    simp only [OpMatched, ← setCasFails_eq_false_iff]
    cases h : setCasFails (tget w.kvs k) c <;> simp [tapply, kvCas, ofCas, h, Except.map]
  | kvDeleteCas k c =>
    simp only [OpMatched, KvDelMatch]
    cases h : tget w.kvs k with
    | none => simp [tapply, kvDeleteCas, ofCas, h, Except.map]
    | some e => by_cases hm : e.modify = c <;> simp [tapply, kvDeleteCas, ofCas, h, hm, Except.map]
  | nodeSet v =>
    simp only [OpMatched]
    cases hr : nodeRefused w v with
    | true => simp [tapply, nodeSet_refused w i v hr, Except.map]
    | false => obtain ⟨s', hs⟩ := nodeSet_ok w i v hr; simp [tapply, hs, Except.map]
  | nodeCas v c => rw [← committed_single_iff]; exact nodeCas_reported_iff_matched w i v c
  | nodeDeleteCas n c => rw [← committed_single_iff]; exact nodeDeleteCas_reported_iff_matched w i n c
  | svcSet n id p =>
    simp only [OpMatched]
    cases hn : tget w.nodes (lc n) with
    | none => simp [tapply, svcSet_missing w i n id p hn, Except.map]
    | some e => obtain ⟨s', hs⟩ := svcSet_ok w i n id p (by simp [hn]); simp [tapply, hs, Except.map]
  | svcCas n id p c => rw [← committed_single_iff]; exact serviceCas_reported_iff_matched w i n id p c
  | svcDeleteCas n id c => rw [← committed_single_iff]; exact serviceDeleteCas_reported_iff_matched w i n id c
  | chkSet n id v =>
    simp only [OpMatched]
    by_cases ha : ChkAdm w n v
    · obtain ⟨s', hs⟩ := chkSet_ok w i n id v ha; simp [tapply, hs, ha, Except.map]
    · obtain ⟨e, hs⟩ := chkSet_refused w i n id v ha; simp [tapply, hs, ha, Except.map]
  | chkCas n id v c => rw [← committed_single_iff]; exact checkCas_reported_iff_matched w i n id v c
  | chkDeleteCas n id c => rw [← committed_single_iff]; exact checkDeleteCas_reported_iff_matched w i n id c

theorem txnLoop_err_ge (w : State) (i n : Nat) (ops : List TOp) (k : Nat) (e : Err)
    (h : (k, e) ∈ (txnLoop w i n ops).2.2) : n ≤ k := by
  induction ops generalizing w n with
  | nil => simp [txnLoop] at h
  | cons op ops ih =>
    simp only [txnLoop] at h
    cases ht : tapply w i op with
    | ok x =>
      obtain ⟨w', rs⟩ := x
      simp only [ht] at h
      have := ih w' (n + 1) h; omega
    | error e0 =>
      simp only [ht, List.mem_cons, Prod.mk.injEq] at h
      cases h with
      | inl h => omega
      | inr h => have := ih w (n + 1) h; omega

theorem txnLoop_op_error_iff (w : State) (i n : Nat) (ops : List TOp) (p : Nat) (op : TOp)
    (h : ops[p]? = some op) :
    (∀ e, (n + p, e) ∉ (txnLoop w i n ops).2.2) ↔ ∃ r, tapply (txnPre w i ops p) i op = .ok r := by
  induction ops generalizing w n p with
  | nil => simp at h
  | cons op0 ops ih =>
    cases p with
    | zero =>
      simp only [List.getElem?_cons_zero, Option.some.injEq] at h
      subst h
      simp only [txnPre, txnLoop, Nat.add_zero]
      cases ht : tapply w i op0 with
      | ok x =>
        obtain ⟨w', rs⟩ := x
        simp only [Except.ok.injEq, exists_eq', iff_true]
        intro e he
        have := txnLoop_err_ge w' i (n + 1) ops n e he
        omega
      | error e0 =>
        simp only [reduceCtorEq, exists_false, iff_false]
        intro hh
        exact hh e0 (by simp)
    | succ p =>
      simp only [List.getElem?_cons_succ] at h
      simp only [txnPre, txnLoop]
      cases ht : tapply w i op0 with
      | ok x =>
        obtain ⟨w', rs⟩ := x
        have := ih w' (n + 1) p h
        simp only [show n + 1 + p = n + (p + 1) by omega] at this
        simpa using this
      | error e0 =>
        have := ih w (n + 1) p h
        simp only [show n + 1 + p = n + (p + 1) by omega] at this
        simp only [List.mem_cons, Prod.mk.injEq, not_or, not_and]
        constructor
        · intro hh; exact this.mp (fun e => (hh e).2)
        · intro hh e; exact ⟨fun hne => by omega, (this.mpr hh) e⟩

/-- HEADLINE for multi-operation transactions: the operation at position `p` is reported as failed
    (an entry `(p, _)` in `TxnResponse.Errors`) exactly when it is NOT matched in the working
    state left by the operations before it — position-wise, for every transaction, state, index. -/
theorem txn_op_reported_iff_matched (s : State) (i : Nat) (ops : List TOp) (p : Nat) (op : TOp)
    (h : ops[p]? = some op) :
    (∀ e, (p, e) ∉ (txnLoop s i 0 ops).2.2) ↔ OpMatched (txnPre s i ops p) op := by
  have := txnLoop_op_error_iff s i 0 ops p op h
  simp only [Nat.zero_add] at this
  rw [this, tapply_ok_iff]

/-- the second `cas` with the same index inside one transaction is judged against the row the
    first one wrote: it is refused, and so is the whole transaction -/
theorem txn_chain_example :
    let s := kvSet {} 5 "a" ⟨"v", 0, 0, ""⟩
    txn s 9 [.kvCas "a" ⟨"w", 0, 0, ""⟩ 5, .kvCas "a" ⟨"x", 0, 0, ""⟩ 5] = ⟨s, .txnErr [(1, .stale)]⟩ ∧
    (txn s 9 [.kvCas "a" ⟨"w", 0, 0, ""⟩ 5, .kvCas "a" ⟨"x", 0, 0, ""⟩ 9]).committed = true := by
  decide

/-- conditional commands that answer with a boolean (everything except the token batch and txn) -/
def Cmd.conditional : Cmd → Bool
  | .kvCas .. | .kvDeleteCas .. | .cfgCas .. | .cfgStatusCas .. | .cfgDeleteCas .. | .caCas ..
  | .rootsCas .. | .rootsAndConfig .. | .apCas .. | .fg .. | .kvLock .. | .kvUnlock .. => true
  | _ => false

/-- SUMMARY over the Store API: a conditional command that does not report success has not
    changed anything — for every command type, state, raft index, payload and supplied index. -/
theorem conditional_not_reported_unchanged (s : State) (i : Nat) (c : Cmd) (hc : c.conditional = true)
    (h : (storeApply s i c).reported = false) : (storeApply s i c).state = s := by
  cases c <;> simp [Cmd.conditional] at hc <;> simp only [storeApply] at h ⊢
  case kvCas k v c =>
    by_cases m : SetMatch (tget s.kvs k) c
    · simp [(kvCas_reported_iff_matched s i k v c).mpr m] at h
    · simp [kvCas_failed_unchanged s i k v c m]
  case kvDeleteCas k c =>
    by_cases m : KvDelMatch (tget s.kvs k) c
    · simp [(kvDeleteCas_reported_iff_matched s i k c).mpr m] at h
    · simp [kvDeleteCas_failed_unchanged s i k c m]
  case cfgCas k v c =>
    by_cases m : SetMatch (tget s.cfgs k) c ∧ cfgRefused s k v = none
    · simp [(configCas_reported_iff_matched s i false k v c).mpr m] at h
    · exact (configCas_failed_unchanged s i false k v c m).1
  case cfgStatusCas k v c =>
    by_cases m : SetMatch (tget s.cfgs k) c ∧ cfgRefused s k v = none
    · simp [(configCas_reported_iff_matched s i true k v c).mpr m] at h
    · exact (configCas_failed_unchanged s i true k v c m).1
  case cfgDeleteCas k c =>
    by_cases m : DelMatch (tget s.cfgs k) c
    · simp [(configDeleteCas_reported_iff_matched s i k c).mpr m] at h
    · simp [configDeleteCas_failed_unchanged s i k c m]
  case caCas v c =>
    by_cases m : CaMatch s.caConfig c
    · simp [(caConfigCas_reported_iff_matched s i v c).mpr m] at h
    · simp [caConfigCas_failed_unchanged s i v c m]
  case rootsCas c rs =>
    by_cases m : RootsMatch s c ∧ RootsAdm rs
    · simp [(caRootsCas_reported_iff_matched s i c rs).mpr m] at h
    · exact (caRootsCas_failed_unchanged s i c rs m).1
  case rootsAndConfig rc rs cc v =>
    by_cases m : RootsMatch s rc ∧ RootsAdm rs ∧ CaMatch s.caConfig cc
    · simp [(caRootsAndConfig_reported_iff_matched s i rc rs cc v).mpr m] at h
    · exact (caRootsAndConfig_failed_unchanged s i rc rs cc v m).1
  case apCas v c =>
    by_cases m : DelMatch s.autopilot c
    · simp [(autopilotCas_reported_iff_matched s i v c).mpr m] at h
    · simp [autopilotCas_failed_unchanged s i v c m]
  case fg p st ep es =>
    by_cases m : FgMatch s ep es ∧ FgAdm s p st
    · simp [(featureGate_reported_iff_matched s i p st ep es).mpr m] at h
    · exact (featureGate_failed_unchanged s i p st ep es m).1
  case kvLock k v =>
    by_cases m : LockMatch s k v.session
    · simp [(kvLock_reported_iff_matched s i k v).mpr m] at h
    · exact kvLock_failed_unchanged s i k v m
  case kvUnlock k v =>
    by_cases m : UnlockMatch s k v.session
    · simp [(kvUnlock_reported_iff_matched s i k v).mpr m] at h
    · exact kvUnlock_failed_unchanged s i k v m

/-- The raft command handlers add nothing to the Store methods for conditional commands, with one
    documented exception: `CAOpSetConfig` carrying ModifyIndex 0 is the UNconditional write. -/
theorem fsm_conditional_eq_store (s : State) (i : Nat) (c : Cmd) (hc : c.conditional = true)
    (hz : ∀ v, c ≠ .caCas v 0) : fsmApply s i c = storeApply s i c := by
  cases c <;> simp [Cmd.conditional] at hc <;> try rfl
  case caCas v c =>
    have : c ≠ 0 := fun e => hz v (by rw [e])
    simp [fsmApply, storeApply, this]

theorem fsm_caSetConfig_index0_unconditional (s : State) (i : Nat) (v : CaVal) :
    fsmApply s i (.caCas v 0) = ⟨caSet s i v, .unit⟩ := by simp [fsmApply]

/-- hence at the FSM layer too: not reported ⇒ unchanged (for the genuinely conditional commands) -/
theorem fsm_conditional_not_reported_unchanged (s : State) (i : Nat) (c : Cmd) (hc : c.conditional = true)
    (hz : ∀ v, c ≠ .caCas v 0) (h : (fsmApply s i c).reported = false) : (fsmApply s i c).state = s := by
  rw [fsm_conditional_eq_store s i c hc hz] at h ⊢
  exact conditional_not_reported_unchanged s i c hc h

/-! ## Non-vacuity: every hypothesis used above is satisfiable, and both outcomes occur -/

/-- a store holding key `a` written at index 5 -/
def exKV : State := kvSet {} 5 "a" ⟨"v", 0, 0, ""⟩

example : SetMatch (tget exKV.kvs "a") 5 ∧ ¬ SetMatch (tget exKV.kvs "a") 4 ∧ ¬ SetMatch (tget exKV.kvs "a") 0 ∧
    SetMatch (tget exKV.kvs "b") 0 ∧ ¬ SetMatch (tget exKV.kvs "b") 5 := by
  simp [exKV, kvSet, kvSetCore, tget, tput, tdel, SetMatch]

/-- current index ⇒ applied with the new ModifyIndex; stale index ⇒ refused, state identical -/
theorem kvCas_example :
    (kvCas exKV 9 "a" ⟨"w", 0, 0, ""⟩ 5).res = .ok true ∧
    tget (kvCas exKV 9 "a" ⟨"w", 0, 0, ""⟩ 5).state.kvs "a" = some ⟨⟨"w", 0, 0, ""⟩, 5, 9⟩ ∧
    kvCas exKV 9 "a" ⟨"w", 0, 0, ""⟩ 4 = ⟨exKV, .ok false⟩ := by
  simp [exKV, kvCas, kvSet, kvSetCore, setCasFails, tget, tput, tdel]

/-- re-created entity: the index of the earlier life (5) no longer matches the new life (8) -/
theorem recreated_example :
    let s := kvSet (kvDelete exKV 7 "a") 8 "a" ⟨"v", 0, 0, ""⟩
    kvCas s 9 "a" ⟨"w", 0, 0, ""⟩ 5 = ⟨s, .ok false⟩ ∧ (kvCas s 9 "a" ⟨"w", 0, 0, ""⟩ 8).res = .ok true := by
  simp [exKV, kvCas, kvSet, kvSetCore, kvDelete, setCasFails, tget, tput, tdel]

def exRoots : List RootReq := [("r1", ⟨"ca", true⟩), ("r2", ⟨"old", false⟩)]

example : RootsAdm exRoots ∧ ¬ RootsAdm [("r1", ⟨"ca", false⟩)] ∧
    ¬ RootsAdm (exRoots ++ [("r1", ⟨"dup", false⟩)]) ∧ RootsMatch {} 0 ∧ ¬ RootsMatch {} 3 := by
  decide

/-- composite: roots index matches (0 on the empty store) but the config index is stale —
    nothing is applied (before the repair the roots were replaced here) -/
theorem composite_example :
    caRootsAndConfig {} 9 0 exRoots 4 ⟨"consul", "cl"⟩ = ⟨{}, .err .casMismatch⟩ ∧
    (caRootsAndConfig {} 9 0 exRoots 0 ⟨"consul", "cl"⟩).res = .ok true := by
  have ha : activeCount exRoots = 1 := by decide
  simp [caRootsAndConfig, rootsCasTxn, ha, imaxIndex, iget, caConfigMismatch, rootsWrite]
  simp [exRoots]

example : ChkAdm (nodeSetByName {} 3 ⟨"n1", "", "10.0.0.1"⟩) "N1" ⟨"", "out", "passing"⟩ ∧
    ¬ ChkAdm {} "n1" ⟨"", "out", "passing"⟩ := by
  decide

/-- two registrations: web (no ID, index 5) and db (ID A, index 7) -/
def exNodes : State :=
  { nodes := [("db", ⟨⟨"db", "A", "10.0.0.2"⟩, 7, 7⟩), ("web", ⟨⟨"web", "", "10.0.0.1"⟩, 5, 5⟩)] }

/-- C10-1 (a): create-only cas on `web` carrying an unknown ID is refused — also under the
    spelling `WEB`; (b): cas on `web` with db's ID and db's index is refused; with web's own index
    it is a rename of db onto web (db disappears, the row keeps db's CreateIndex); a passing Serf
    check defends the name, a critical one does not -/
theorem nodeCas_id_examples :
    txn exNodes 9 [.nodeCas ⟨"web", "X", "10.9.9.9"⟩ 0] = ⟨exNodes, .txnErr [(0, .stale)]⟩ ∧
    txn exNodes 9 [.nodeCas ⟨"WEB", "X", "10.9.9.9"⟩ 0] = ⟨exNodes, .txnErr [(0, .stale)]⟩ ∧
    txn exNodes 9 [.nodeCas ⟨"web", "A", "10.9.9.9"⟩ 7] = ⟨exNodes, .txnErr [(0, .stale)]⟩ ∧
    (txn exNodes 9 [.nodeCas ⟨"web", "A", "10.9.9.9"⟩ 5]).state.nodes = [("web", ⟨⟨"web", "A", "10.9.9.9"⟩, 7, 9⟩)] ∧
    nodeRefused exNodes ⟨"web", "A", "x"⟩ = false ∧
    nodeRefused { exNodes with chks := [(("web", "serfHealth"), ⟨⟨"", "ok", "passing"⟩, 6, 6⟩)] } ⟨"web", "A", "x"⟩ = true ∧
    nodeRefused { exNodes with chks := [(("web", "serfHealth"), ⟨⟨"", "ok", "critical"⟩, 6, 6⟩)] } ⟨"web", "A", "x"⟩ = false := by
  decide

/-- a failed node cas leaves every index-table entry alone; an applied one raises `nodes`,
    `node.<name>` and the entries of the services registered on the node -/
theorem nodeCas_index_example :
    let s : State := { nodes := [("web", ⟨⟨"web", "", "a"⟩, 5, 5⟩)], svcs := [(("web", "api"), ⟨80, 6, 6⟩)]
                       idx := [("nodes", 5), ("peer.~:node.web", 5), ("peer.~:service.api", 6)] }
    (txn s 9 [.nodeCas ⟨"web", "", "b"⟩ 4]).state.idx = s.idx ∧
    (txn s 9 [.nodeCas ⟨"web", "", "b"⟩ 5]).state.idx =
      [("peer.~:service_kind.typical", 9), ("service_kind.typical", 9), ("peer.~:service.api", 9),
       ("peer.~:node.web", 9), ("peer.~:nodes", 9), ("nodes", 9)] := by
  decide

/-- admission of config entries: clash, permissive mutual TLS, splitter -/
example :
    let s : State := { cfgs := [(("terminating-gateway", "gw"), ⟨⟨"1", "", false⟩, 4, 4⟩)] }
    cfgCas s 9 false ("ingress-gateway", "gw") ⟨"1", "", false⟩ 0 = ⟨s, .err .cfgGatewayClash⟩ ∧
    cfgCas s 9 false ("service-defaults", "web") ⟨"1", "", true⟩ 0 = ⟨s, .err .cfgMtls⟩ ∧
    (cfgCas s 9 false ("service-defaults", "web") ⟨"1", "", false⟩ 0).res = .ok true ∧
    cfgCas s 9 false ("service-splitter", "web") ⟨"1", "", false⟩ 0 = ⟨s, .err .cfgGraph⟩ := by
  decide

example : FgMatch {} 0 0 ∧ FgAdm {} (some "gate") (some "d") ∧ ¬ FgAdm {} none (some "d") ∧ ¬ FgMatch {} 1 0 := by
  simp [FgMatch, FgAdm, modOf]

example : TokValid {} ⟨"acc", "sec", "d", 0⟩ ∧ ¬ TokValid {} ⟨"acc", "", "d", 0⟩ := by
  simp [TokValid, tget]

/-- a store with node n1, session `s1` on it, and key `a` locked by `s1` at index 7 -/
def exLock : State :=
  let s0 : State := nodeSetByName {} 3 ⟨"n1", "", "10.0.0.1"⟩
  match sessCreate s0 5 "s1" "n1" "" with
  | .ok s1 => (kvLock s1 7 "a" ⟨"v", 0, 0, "s1"⟩).state
  | .error _ => s0

/-- lock / unlock: both outcomes occur, the holder is recorded, a cas keeps the holder, and
    invalidating the node releases the key at the raft index of the delete -/
theorem lock_examples :
    HeldBy (tget exLock.kvs "a") "s1" ∧ LockMatch exLock "a" "s1" ∧ ¬ LockMatch exLock "a" "s2" ∧
    UnlockMatch exLock "a" "s1" ∧ ¬ UnlockMatch exLock "a" "s2" ∧ ¬ UnlockMatch exLock "b" "s1" ∧
    kvLock exLock 9 "a" ⟨"w", 0, 0, "s2"⟩ = ⟨exLock, .err .invalidSession⟩ ∧
    (kvUnlock exLock 9 "a" ⟨"w", 0, 0, "s1"⟩).res = .ok true ∧
    tget (kvUnlock exLock 9 "a" ⟨"w", 0, 0, "s1"⟩).state.kvs "a" = some ⟨⟨"w", 0, 1, ""⟩, 7, 9⟩ ∧
    tget (kvCas exLock 9 "a" ⟨"w", 0, 0, ""⟩ 7).state.kvs "a" = some ⟨⟨"w", 0, 0, "s1"⟩, 7, 9⟩ ∧
    tget (nodeDelete exLock 11 "n1").kvs "a" = some ⟨⟨"v", 0, 1, ""⟩, 7, 11⟩ ∧
    (nodeDelete exLock 11 "n1").sess = [] := by
  decide

example : BootMatch {} 0 ∧ BootMatch {} 7 ∧
    ¬ BootMatch (tokBootstrap {} 4 0 ⟨"acc", "sec", "d", 0⟩).state 0 ∧
    BootMatch (tokBootstrap {} 4 0 ⟨"acc", "sec", "d", 0⟩).state 4 ∧
    ¬ BootMatch (tokBootstrap {} 4 0 ⟨"acc", "sec", "d", 0⟩).state 3 := by
  decide

example : DelMatch (apSet {} 4 100).autopilot 4 ∧ ¬ DelMatch ({} : State).autopilot 0 := by
  simp [DelMatch, apSet, stamp]

end CV.Cas
