/-
C05 — transactions are all-or-nothing and isolated.
Property theorems only. Model: `CV.Store.txnRW` / `txnRO` (CV/Store/Txn.lean, mirroring
agent/consul/state/txn.go `txnDispatch`, `TxnRW`, `TxnRO`); helper lemmas: CV/Proofs/StoreTxn.lean.
`workState idx s ops` is the left fold of the operations over the working copy (`stepState`: an
operation that fails leaves the copy as it was and the dispatcher goes on), `resultsFrom` /
`errorsFrom` are the results / (position, error) pairs of that fold.
Second part (round 5): the layers above the store — `Txn.preCheck` / `Txn.Apply` / `Txn.Read` /
`FilterTxnResults` (agent/consul/txn_endpoint.go, filter.go) and the routing of the HTTP handler
(agent/txn_endpoint.go), model CV/Store/TxnEndpoint.lean, helper lemmas CV/Proofs/StoreTxnEndpoint.lean.
-/
import CV.Proofs.StoreTxn
import CV.Proofs.StoreFuel
import CV.Proofs.StoreTxnEndpoint
namespace CV.Store
open CV

/-- All or nothing: if any operation of a transaction fails, NOTHING changes — the whole `State`
    record is the one before: every table row, the index table, the tombstones, and the leader-local
    lock-delay record. No results are returned. -/
theorem txn_all_or_nothing (s : State) (idx : Nat) (ops : List TxnOp)
    (h : (txnRW s idx ops).2.2 ≠ []) : (txnRW s idx ops).1 = s ∧ (txnRW s idx ops).2.1 = [] := by
  rw [txnRW_spec] at h ⊢
  split
  · next he => simp [he] at h
  · exact ⟨rfl, rfl⟩

/-- The same at the level of a committed Raft entry (`fsm.applyTxn`). -/
theorem txn_command_all_or_nothing (s : State) (idx : Nat) (ops : List TxnOp)
    (h : (apply s idx (.txn ops)).2.isErr = true) : (apply s idx (.txn ops)).1 = s := by
  simp only [apply] at h ⊢
  have hspec := txn_all_or_nothing s idx ops
  generalize txnRW s idx ops = r at h hspec
  obtain ⟨s', rs, es⟩ := r
  cases es with
  | nil => simp [Result.isErr] at h
  | cons e es => exact (hspec (by simp)).1

/-- In particular the leader-local lock delay is not armed by an aborted transaction (the repaired
    code defers `lockDelay.SetExpiration` to the commit; DESIGN §6 #10). -/
theorem txn_abort_local_unchanged (s : State) (idx : Nat) (ops : List TxnOp)
    (h : (txnRW s idx ops).2.2 ≠ []) : (txnRW s idx ops).1.loc = s.loc := by
  rw [(txn_all_or_nothing s idx ops h).1]

/-- A transaction that commits is exactly the left fold of its operations over the working copy, at
    one index, and returns the concatenation of their results: every operation sees the effects of
    all earlier ones. -/
theorem txn_commit_is_fold (s : State) (idx : Nat) (ops : List TxnOp)
    (h : (txnRW s idx ops).2.2 = []) :
    (txnRW s idx ops).1 = ops.foldl (stepState idx) s ∧ (txnRW s idx ops).2.1 = resultsFrom idx s ops ∧
    ∀ j op, ops[j]? = some op → ∃ r, txnStep (workState idx s (ops.take j)) idx op = .ok r := by
  rw [txnRW_spec] at h ⊢
  split
  · next he =>
    refine ⟨rfl, rfl, ?_⟩
    intro j op hj
    cases hq : txnStep (workState idx s (ops.take j)) idx op with
    | ok r => exact ⟨r, rfl⟩
    | error e =>
      have : (0 + j, e) ∈ errorsFrom idx s ops 0 := (mem_errorsFrom idx ops s 0 (0 + j) e).mpr ⟨j, op, rfl, hj, hq⟩
      rw [List.isEmpty_iff] at he
      rw [he] at this; simp at this
  · next he => simp only [he] at h; exact absurd (by simpa using h) he

/-- The reported errors are exactly the operations that fail on the working copy left by the
    operations before them (the dispatcher keeps going after a failure): position `p` is reported
    with error `e` iff operation `p` fails with `e` on the fold of the first `p` operations. -/
theorem txn_error_positions (s : State) (idx : Nat) (ops : List TxnOp) (p : Nat) (e : Err) :
    (p, e) ∈ (txnRW s idx ops).2.2 ↔
      ∃ op, ops[p]? = some op ∧ txnStep (workState idx s (ops.take p)) idx op = .error e := by
  rw [txnRW_spec]
  have hm := mem_errorsFrom idx ops s 0 p e
  split
  · next he =>
    rw [List.isEmpty_iff] at he
    rw [he] at hm
    simp only [List.not_mem_nil, false_iff] at hm ⊢
    intro ⟨op, h1, h2⟩
    exact hm ⟨p, op, by omega, h1, h2⟩
  · simp only
    rw [hm]
    constructor
    · rintro ⟨j, op, hp, h1, h2⟩
      have : j = p := by omega
      subst this; exact ⟨op, h1, h2⟩
    · rintro ⟨op, h1, h2⟩
      exact ⟨p, op, by omega, h1, h2⟩

/-- Read and guard verbs (KV get / get-or-empty / get-tree / check-session / check-index /
    check-not-exists, node / service / check get) never change the working copy. -/
theorem read_verbs_pure (s s' : State) (idx : Nat) (op : TxnOp) (rs : List TxnRes)
    (hread : op.isRead = true) (hr : txnStep s idx op = .ok (s', rs)) : s' = s :=
  txnStep_read_pure hread hr

/-- A transaction of read verbs leaves the state untouched whether it succeeds or not. -/
theorem read_only_txn_changes_nothing (s : State) (idx : Nat) (ops : List TxnOp)
    (h : ∀ op ∈ ops, op.isRead = true) : (txnRW s idx ops).1 = s := by
  rw [txnRW_spec]
  split
  · exact workState_reads idx s ops h
  · rfl

/-- Read-only transactions never modify state. `TxnRO` hands a memdb READ transaction to the same
    dispatcher: (1) an operation it accepts did not write — the working copy after it is the state
    before it; (2) on the read verbs the HTTP layer routes to it, `TxnRO` answers exactly like
    `TxnRW` (results and error positions), which then changes nothing either. -/
theorem txn_ro_never_writes (s : State) (op : TxnOp) (rs : List TxnRes)
    (h : txnStepRO s op = .ok rs) : txnStep s 0 op = .ok (s, rs) := by
  unfold txnStepRO at h
  split at h
  · simp at h
  · cases hq : txnStep s 0 op with
    | error e => simp [hq] at h
    | ok p =>
      obtain ⟨s', r⟩ := p
      simp only [hq] at h
      split at h
      · next hc => simp at h; rw [hc.1, h]
      · simp at h

theorem txn_ro_is_txn_rw_on_reads (s : State) (ops : List TxnOp) (h : ∀ op ∈ ops, op.isRead = true) :
    txnRO s ops = (txnRW s 0 ops).2 ∧ (txnRW s 0 ops).1 = s := by
  refine ⟨?_, read_only_txn_changes_nothing s 0 ops h⟩
  unfold txnRO txnRW
  rw [txnLoopRO_reads s ops h 0 [] []]
  generalize txnLoopRO s ops 0 [] [] = r
  obtain ⟨rs, es⟩ := r
  simp only
  split <;> rfl

/-- A committed transaction stamps what it changes: every KV row of the resulting state is a row from
    before or carries the transaction's index as modify index (set / cas / lock / unlock writes and
    the releases done by session invalidation alike). -/
theorem txn_changed_kv_rows_carry_index (s : State) (idx : Nat) (ops : List TxnOp) :
    ∀ e' ∈ (txnRW s idx ops).1.kvs, e' ∈ s.kvs ∨ e'.modify = idx := by
  rw [txnRW_spec]
  split
  · suffices h : ∀ (l : List TxnOp) (a : State), KvStamp idx a (workState idx a l) from h ops s
    intro l
    induction l with
    | nil => intro a; exact kvStamp_refl idx a
    | cons op l ih =>
      intro a
      simp only [workState, List.foldl_cons]
      have h1 : KvStamp idx a (stepState idx a op) := by
        unfold stepState
        cases hq : txnStep a idx op with
        | ok p => exact kvStamp_txnStep hq
        | error e => exact kvStamp_refl idx a
      exact kvStamp_trans h1 (ih _)
  · intro e' he'; exact Or.inl he'

/-- Every rejected command of ANY type leaves the state exactly as it was (each FSM handler opens one
    write transaction and commits only without error). -/
theorem rejected_command_leaves_state (s : State) (idx : Nat) (c : Cmd)
    (h : (apply s idx c).2.isErr = true) : (apply s idx c).1 = s := by
  have hS : ∀ r : Except Err State, (liftS s r).2.isErr = true → (liftS s r).1 = s := by
    intro r hr; cases r <;> simp [liftS, Result.isErr] at hr ⊢
  have hB : ∀ r : Except Err (State × Bool), (liftB s r).2.isErr = true → (liftB s r).1 = s := by
    intro r hr; cases r <;> simp [liftB, Result.isErr] at hr ⊢
  cases c with
  | txn ops => exact txn_command_all_or_nothing s idx ops h
  | kvDeleteTree p => simp [apply, Result.isErr] at h
  | reap u => simp [apply, Result.isErr] at h
  | pqDelete id => simp [apply, Result.isErr] at h
  | deregister n sv ck =>
    simp only [apply] at h ⊢
    by_cases h1 : sv ≠ ""
    · rw [if_pos h1] at h ⊢; exact hS _ h
    · rw [if_neg h1] at h ⊢
      by_cases h2 : ck ≠ ""
      · rw [if_pos h2] at h ⊢; exact hS _ h
      · rw [if_neg h2] at h ⊢; exact hS _ h
  | kvSet e => exact hS _ h
  | kvCas e => exact hB _ h
  | kvDelete k => exact hS _ h
  | kvDeleteCas k c => exact hB _ h
  | kvLock e => exact hB _ h
  | kvUnlock e => exact hB _ h
  | sessionCreate r => exact hS _ h
  | sessionDestroy id => exact hS _ h
  | register r => exact hS _ h
  | pqSet a b => exact hS _ h

/-- No transaction ever reports the model-internal `fuel` error at any position (so the error
    positions of the model are errors of the code, never an artefact of the bounded recursion). -/
theorem txn_never_reports_fuel (s : State) (idx : Nat) (ops : List TxnOp) :
    ∀ pe ∈ (txnRW s idx ops).2.2, pe.2 ≠ .fuel := by
  intro pe hpe hc
  obtain ⟨p, e⟩ := pe
  simp only at hc
  subst hc
  obtain ⟨op, -, hstep⟩ := (txn_error_positions s idx ops p .fuel).mp hpe
  exact txnStep_nofuel _ _ _ hstep


/-! ### the layers above the store: RPC endpoint (pre-check, ACLs, Raft, result filter) and HTTP routing -/

/-- All or nothing at the RPC endpoint (`Txn.Apply`): whatever the token may do, if the answer carries
    any error — from the pre-check or from the state store — the WHOLE state is the one before and no
    result is returned. -/
theorem endpoint_all_or_nothing (a : Authz) (s : State) (idx : Nat) (ops : List TxnOp)
    (h : (txnApply a s idx ops).errors ≠ []) :
    (txnApply a s idx ops).state = s ∧ (txnApply a s idx ops).results = [] := by
  unfold txnApply at h ⊢
  cases hp : preCheck a s ops with
  | nil =>
    simp only [hp] at h ⊢
    have h' : (txnRW s idx (ops.map normOp)).2.2 ≠ [] := by
      intro hc; rw [hc] at h; simp at h
    obtain ⟨h1, h2⟩ := txn_all_or_nothing s idx (ops.map normOp) h'
    exact ⟨h1, by rw [h2]; rfl⟩
  | cons p ps => simp

/-- A transaction the pre-check refuses (a permission is missing, a key / node / service name is
    malformed, the key is under a lock delay) never reaches Raft: no log entry, no index consumed,
    state and lock delays untouched, and every reported error is a pre-check error. Conversely a
    transaction that was written to the log had passed the pre-check. -/
theorem endpoint_precheck_blocks_raft (a : Authz) (s : State) (idx : Nat) (ops : List TxnOp) :
    (preCheck a s ops ≠ [] →
      (txnApply a s idx ops).raft = false ∧ (txnApply a s idx ops).state = s ∧
      (txnApply a s idx ops).results = [] ∧ (txnApply a s idx ops).errors ≠ [] ∧
      ∀ pe ∈ (txnApply a s idx ops).errors, ∃ e, pe.2 = .pre e) ∧
    ((txnApply a s idx ops).raft = true → preCheck a s ops = []) := by
  unfold txnApply
  cases hp : preCheck a s ops with
  | nil => simp
  | cons p ps =>
    refine ⟨fun _ => ⟨rfl, rfl, rfl, by simp, ?_⟩, by simp⟩
    exact preCheck_pre_errors_only (p :: ps)

/-- An endpoint transaction without errors passed the pre-check, is exactly the left fold of its
    (normalised) operations at the index of its single Raft entry, and returns the results of that fold
    minus the ones the token may not read — in their original order. -/
theorem endpoint_commit_is_fold (a : Authz) (s : State) (idx : Nat) (ops : List TxnOp)
    (h : (txnApply a s idx ops).errors = []) :
    preCheck a s ops = [] ∧ (txnApply a s idx ops).raft = true ∧
    (txnApply a s idx ops).state = (ops.map normOp).foldl (stepState idx) s ∧
    (txnApply a s idx ops).results = filterResults a (resultsFrom idx s (ops.map normOp)) := by
  unfold txnApply at h ⊢
  cases hp : preCheck a s ops with
  | nil =>
    simp only [hp] at h ⊢
    have h' : (txnRW s idx (ops.map normOp)).2.2 = [] := by simpa using h
    obtain ⟨h1, h2, -⟩ := txn_commit_is_fold s idx (ops.map normOp) h'
    exact ⟨trivial, trivial, h1, by rw [h2]⟩
  | cons p ps => simp [hp] at h

/-- What a token may SEE never changes what a transaction DOES: two callers whose operations both
    pass the pre-check get the same state, the same Raft entry and the same errors; only the returned
    results may differ (each a sub-list of the unfiltered results). -/
theorem endpoint_acl_cannot_change_effect (a b : Authz) (s : State) (idx : Nat) (ops : List TxnOp)
    (ha : preCheck a s ops = []) (hb : preCheck b s ops = []) :
    (txnApply a s idx ops).state = (txnApply b s idx ops).state ∧
    (txnApply a s idx ops).errors = (txnApply b s idx ops).errors ∧
    (txnApply a s idx ops).state = (txnRW s idx (ops.map normOp)).1 := by
  unfold txnApply
  simp [ha, hb]

/-- `FilterTxnResults` only hides: what is returned is a sub-list (order kept) of the transaction's
    results, every returned result is readable with the token, and a token that may read everything
    gets them all. -/
theorem filter_only_hides (a : Authz) (rs : List TxnRes) :
    (filterResults a rs).Sublist rs ∧ (∀ r ∈ filterResults a rs, resVisible a r = true) ∧
    filterResults Authz.all rs = rs := by
  refine ⟨List.filter_sublist, fun r hr => (List.mem_filter.mp hr).2, ?_⟩
  unfold filterResults
  rw [List.filter_eq_self]
  intro r _
  cases r <;> simp [resVisible, Authz.all]

/-- The leader's lock delay is enforced BEFORE Raft: a transaction that tries to lock a key under a
    lock delay is refused by the pre-check at that position, whatever the token. -/
theorem endpoint_lock_under_delay_refused (a : Authz) (s : State) (e : KV) (h : e.key ∈ s.loc.delayKeys) :
    (preCheckOp a s (.kv .lock e)).isSome = true := by
  simp only [preCheckOp, kvPreApply]
  split
  · rfl
  · cases hw : a.keyWrite e.key <;> simp [allow, hw, h]

/-- `Txn.Read` never modifies state: an answer without errors means that every (normalised) operation
    ran as a pure read — on the state before it answered exactly what `TxnRW` answers and left the
    working copy as it was. (An answer with errors returns no results; there is no state to return.) -/
theorem endpoint_read_accepts_only_pure (a : Authz) (s : State) (ops : List TxnOp) (rs : List TxnRes) (f : Bool)
    (h : txnRead a s ops = (rs, [], f)) :
    preCheck a s ops = [] ∧ ∀ op ∈ ops.map normOp, ∃ r, txnStep s 0 op = .ok (s, r) := by
  unfold txnRead at h
  cases hp : preCheck a s ops with
  | nil =>
    simp only [hp] at h
    have he : (txnRO s (ops.map normOp)).2 = [] := by
      have := congrArg (fun t => t.2.1) h
      simpa using this
    refine ⟨rfl, ?_⟩
    intro op hop
    obtain ⟨r, hr⟩ := txnRO_no_errors s (ops.map normOp) he op hop
    exact ⟨r, txn_ro_never_writes s op r hr⟩
  | cons p ps => simp [hp] at h

/-- The HTTP handler sends a request down the read-only route exactly when none of its operations is
    a write verb, i.e. exactly when every operation is one of the model's read verbs (`TxnOp.isRead`).
    This discharges the hypothesis of `txn_ro_is_txn_rw_on_reads` for everything the HTTP layer routes
    to `Txn.Read`: such a request cannot change the state even if it were run as a read-write
    transaction. -/
theorem http_read_route_iff_reads (ops : List TxnOp) :
    (ops.filter TxnOp.httpWrite).length = 0 ↔ ∀ op ∈ ops, op.isRead = true :=
  no_httpWrite_iff_reads ops

theorem http_read_route_is_pure (a : Authz) (s : State) (idx : Nat) (ops : List TxnOp)
    (rs : List TxnRes) (es : List (Nat × EpErr)) (f : Bool) (h : httpTxn a s idx ops = .read rs es f) :
    (∀ op ∈ ops, op.isRead = true) ∧ (txnRW s idx (ops.map normOp)).1 = s ∧
    txnRO s (ops.map normOp) = (txnRW s 0 (ops.map normOp)).2 := by
  unfold httpTxn at h
  split at h
  · simp at h
  · split at h
    · next hw =>
      have hr := (no_httpWrite_iff_reads ops).mp hw
      have hr' : ∀ op ∈ ops.map normOp, op.isRead = true := by
        intro op hop
        obtain ⟨o, ho, rfl⟩ := List.mem_map.mp hop
        rw [isRead_normOp]; exact hr o ho
      exact ⟨hr, read_only_txn_changes_nothing s idx _ hr', (txn_ro_is_txn_rw_on_reads s _ hr').1⟩
    · simp at h

/-- Over HTTP the state changes only when the request was routed to `Txn.Apply`, passed the pre-check,
    was written to Raft and reported no error; an over-long operation list (> 128) is refused outright. -/
theorem http_state_changes_only_by_clean_apply (a : Authz) (s : State) (idx : Nat) (ops : List TxnOp)
    (h : (httpTxn a s idx ops).state s ≠ s) :
    ops.length ≤ maxTxnOps ∧ ∃ o, httpTxn a s idx ops = .apply o ∧ o.errors = [] ∧ o.raft = true := by
  unfold httpTxn at h ⊢
  split
  · next hl => simp [hl, HttpOut.state] at h
  · next hl =>
    refine ⟨by omega, ?_⟩
    split
    · next hw => simp [hl, hw, HttpOut.state] at h
    · next hw =>
      simp only [hl, hw, if_false, HttpOut.state] at h
      refine ⟨_, rfl, ?_⟩
      by_cases he : (txnApply a s idx ops).errors = []
      · exact ⟨he, (endpoint_commit_is_fold a s idx ops he).2.1⟩
      · exact absurd (endpoint_all_or_nothing a s idx ops he).1 h

/-! ### non-vacuity -/

/-- a pre-state with a node, a session with lock delay, a locked key (test state, built by `replay`) -/
def c05Demo : State :=
  replay State.empty
    [(1, .register ⟨⟨"n1", "", "10.0.0.1", 0, 0⟩, none, []⟩),
     (2, .sessionCreate ⟨"aaaaaaaa-0000-0000-0000-000000000001", "n1", "", "release", [], 15⟩),
     (3, .kvLock ⟨[107], "=v", 0, "aaaaaaaa-0000-0000-0000-000000000001", 0, 0, 0⟩)]

/-- DESIGN's witness: `[node delete n1, kv check-index k stale]` — the node delete cascades into the
    session and its lock (which would arm a lock delay), the guard fails at position 1 -/
def c05Witness : List TxnOp :=
  [.node .delete ⟨"n1", "", "", 0, 0⟩, .kv .checkIndex ⟨[107], "=", 0, "", 0, 0, 99⟩]

/- TESTS (`#guard`, evaluated when this file is built; string operations do not reduce in the kernel):
   the witness aborts with exactly one error at position 1, and the state — including the lock-delay
   record — is untouched, while without the guard the same cascade commits, releases the key and arms
   the delay. -/
#guard (txnRW c05Demo 4 c05Witness).2.2.map (·.1) == [1]
#guard (txnRW c05Demo 4 c05Witness).1 == c05Demo
#guard (txnRW c05Demo 4 (c05Witness.take 1)).2.2.isEmpty
#guard (txnRW c05Demo 4 (c05Witness.take 1)).1.loc.delayKeys == [[107]]
#guard (txnRW c05Demo 4 (c05Witness.take 1)).1.kvs.map (fun e => (e.session, e.modify)) == [("", 4)]
#guard (txnRO c05Demo [.kv .get ⟨[107], "=", 0, "", 0, 0, 0⟩]).2.isEmpty
#guard (txnRO c05Demo [.kv .set ⟨[107], "=x", 0, "", 0, 0, 0⟩]).2 == [(0, .readOnly)]


/-- a token that may write under `a/` only (test authorizer) -/
def c05Tok : Authz := { Authz.all with keyWrite := fun k => k.take 2 == [97, 47], nodeWrite := fun _ => false }

/- TESTS for the endpoint layer: a denied operation blocks Raft; the lock on the key under delay is refused
   by the pre-check; a permitted transaction commits; filtering hides the unreadable result only; the HTTP
   routing sends read verbs to the read route and refuses 129 operations. -/
#guard (txnApply c05Tok c05Demo 4 [.kv .set ⟨[107], "=v", 0, "", 0, 0, 0⟩]).raft == false
#guard (txnApply c05Tok c05Demo 4 [.kv .set ⟨[107], "=v", 0, "", 0, 0, 0⟩]).errors == [(0, .pre .denied)]
#guard (txnApply c05Tok c05Demo 4 [.kv .set ⟨[97, 47, 98], "=v", 0, "", 0, 0, 0⟩]).errors == []
#guard (txnApply c05Tok c05Demo 4 [.kv .set ⟨[97, 47, 98], "=v", 0, "", 0, 0, 0⟩]).state != c05Demo
#guard (preCheck Authz.all (txnRW c05Demo 4 (c05Witness.take 1)).1 [.kv .lock ⟨[107], "=v", 0, "aaaaaaaa-0000-0000-0000-000000000001", 0, 0, 0⟩])
         == [(0, .lockDelay)]
#guard (txnApply Authz.all c05Demo 4 c05Witness).errors == [(1, .st .indexCheckFailed)]
#guard (txnApply Authz.all c05Demo 4 c05Witness).raft == true
#guard (txnApply Authz.all c05Demo 4 c05Witness).state == c05Demo
#guard (filterResults { Authz.all with keyRead := fun _ => false } [.kv ⟨[107], "=", 0, "", 0, 0, 0⟩ true, .node ⟨"n1", "", "", 0, 0⟩]).length == 1
#guard (match httpTxn Authz.all c05Demo 4 [.kv .get ⟨[107], "=", 0, "", 0, 0, 0⟩] with | .read _ [] _ => true | _ => false)
#guard (match httpTxn Authz.all c05Demo 4 (List.replicate 129 (.kv .get ⟨[107], "=", 0, "", 0, 0, 0⟩)) with | .tooMany => true | _ => false)
#guard (normOp (.service .set ⟨"n1", "", "web", 80, 0, 0⟩)) == .service .set ⟨"n1", "web", "web", 80, 0, 0⟩
#guard parsesAsUUID "11111111-aaaa-0000-0000-000000000001" && !parsesAsUUID "zz" && !parsesAsUUID "1111111g-aaaa-0000-0000-000000000001"

end CV.Store
