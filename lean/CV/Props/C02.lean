/-
C02 — snapshot and restore reproduce the state exactly, at any point of any history.

Property theorems only; the model is CV/Snap.lean, helper lemmas are in CV/Proofs/Snap.lean.

Three groups:
  A. facts audit over the regenerated CV/Generated/FactsSnap.lean (persist order, persister → message
     type → restorer, schema table coverage, position of the index table in the stream);
  B. the stand-alone instance (index table, kvs, tombstones, sessions + session_checks, peerings,
     trust bundles): `restore (snapshot s) = s` for well-formed states, what the header is, that
     IndexRestore wins over every earlier restorer, and the counterexample for rows restored after it;
  C. the cut-point theorem for any deterministic machine and any snapshot format, exact and up to an
     observational equivalence (the shape `cut_commutes` takes once the shared store model exists);
  E. (round 5) the plain persisted tables CV.SnapG — service-virtual-ips, free-virtual-ips, coordinates, sessions, the five
     ACL tables, kvs, tombstones, prepared queries, autopilot, feature gates, legacy intentions, CA roots / provider
     state / config, config entries, federation states, system metadata, peerings, trust bundles, peering secrets —
     in one ordered map keyed by (table, id): `restore_snapshot_tables`, and the restore-side field audit over the
     regenerated facts (`decode_type_is_persisted_type`, …);
  D. the shared store model CV.Store: `restore_snapshot_store(_partial/_counterexample)`, `cut_commutes_store`, and
     their reachable forms `snap_wf_reachable_partial`, `restore_snapshot_reachable_partial`,
     `cut_commutes_reachable_partial` — for every log that follows the decidable discipline `SnapDisc` and every cut.

Pending the shared store model CV.Store (next round) — full-strength statements kept visible:

  theorem restore_snapshot (h : Store.Reachable s) : Store.restore (Store.snapshot s) = s
  theorem cut_commutes (h : WellIndexed init log) (hk : k ≤ log.length) :
      replay (restore (snapshot (replay init (log.take k)).state)) (log.drop k)
    = replay (replay init (log.take k)).state (log.drop k)              -- same results, same final state

  Both are FALSE for the code as it is (the harness exhibits families of witnesses on the pinned tree:
  usage rows, kind-service-names / mesh-topology / gateway-services rebuilt with other indexes or other
  rows, …); `cut_commutes_exact` / `cut_commutes_obs` below are the parts that do not depend on the store
  model. The one deviation that fell inside the stand-alone instance (`Restore.Peering` overwriting the
  restored index row, finding snap:index:peering) has been repaired in /repo; the pre-repair restorer is
  kept as `restorerBeforeFix` with its counterexample (`peering_overwrite_counterexample`).
-/
import CV.Proofs.Snap
import CV.Proofs.SnapG
import CV.Proofs.StoreSnapCex
import CV.Proofs.StoreSnapReachCex
namespace CV.Snap
open CV.Facts.Snap

/-! ## A. facts audit (regenerated from /repo on every run; every proof is `decide` over the whole table) -/

/-- Reviewed persist order of `persistCE` (agent/consul/fsm/snapshot_ce.go). VIPs first so that
    registrations restored later find their VIP; the index table after every table whose restorer
    computes index rows; peerings, trust bundles, secrets and resources after it. -/
def reviewedPersistOrder : List String :=
  ["persistVirtualIPs", "persistNodes", "persistSessions", "persistACLs", "persistKVs", "persistTombstones",
   "persistPreparedQueries", "persistAutopilot", "persistFeatureGates", "persistLegacyIntentions",
   "persistConnectCA", "persistConnectCAProviderState", "persistConnectCAConfig", "persistConfigEntries",
   "persistFederationStates", "persistSystemMetadata", "persistIndex", "persistPeerings",
   "persistPeeringTrustBundles", "persistPeeringSecrets", "persistResources"]

/-- The persist order is the reviewed one (a persister added, removed or moved breaks this). -/
theorem persist_order_reviewed : persistOrder = reviewedPersistOrder := by decide

/-- Reviewed map: memdb table → (persister, `state.Snapshot` accessor it reads). -/
def persistedTables : List (String × String × String) :=
  [ ("acl-auth-methods", "persistACLs", "ACLAuthMethods"),
    ("autopilot-config", "persistAutopilot", "Autopilot"),
    ("acl-binding-rules", "persistACLs", "ACLBindingRules"),
    ("connect-ca-builtin", "persistConnectCAProviderState", "CAProviderState"),
    ("connect-ca-config", "persistConnectCAConfig", "CAConfig"),       -- Restore.CAConfig drops a blank Provider (issue 4954)
    ("connect-ca-roots", "persistConnectCA", "CARoots"),
    ("checks", "persistNodes", "Checks"),                              -- per node, after its services
    ("config-entries", "persistConfigEntries", "ConfigEntries"),
    ("coordinates", "persistNodes", "Coordinates"),
    ("federation-states", "persistFederationStates", "FederationStates"),
    ("feature-gate-policy", "persistFeatureGates", "FeatureGates"),    -- policy + status in one record
    ("feature-gate-status", "persistFeatureGates", "FeatureGates"),
    ("free-virtual-ips", "persistVirtualIPs", "FreeVirtualIPs"),
    ("index", "persistIndex", "Indexes"),
    ("connect-intentions", "persistLegacyIntentions", "LegacyIntentions"),
    ("kvs", "persistKVs", "KVs"),
    ("nodes", "persistNodes", "Nodes"),                                -- through Node.ToRegisterRequest (dropped Locality until repaired: regression signature snap:nodes:Locality)
    ("peering", "persistPeerings", "Peerings"),
    ("peering-trust-bundles", "persistPeeringTrustBundles", "PeeringTrustBundles"),
    ("peering-secrets", "persistPeeringSecrets", "PeeringSecrets"),
    ("acl-policies", "persistACLs", "ACLPolicies"),
    ("prepared-queries", "persistPreparedQueries", "PreparedQueries"),
    ("acl-roles", "persistACLs", "ACLRoles"),
    ("services", "persistNodes", "Services"),                          -- per node
    ("service-virtual-ips", "persistVirtualIPs", "ServiceVirtualIPs"),
    ("sessions", "persistSessions", "Sessions"),
    ("system-metadata", "persistSystemMetadata", "SystemMetadataEntries"),
    ("acl-tokens", "persistACLs", "ACLTokens"),
    ("tombstones", "persistTombstones", "Tombstones") ]

/-- Audited derived tables: never written to the snapshot, rebuilt by restore. Second component: how. -/
def derivedTables : List (String × String) :=
  [ ("gateway-services",
      "Restore.ConfigEntry → insertConfigEntryWithTxn → updateGatewayServices (idx = entry.ModifyIndex) and Restore.Registration → ensureServiceTxn → checkGatewayWildcardsAndUpdate / checkGatewayAndUpdate (idx = header.LastIndex); differs from the online rows in indexes, ServiceKind, wildcard-vs-explicit precedence and proxy-only services: known findings snap:gateway-services:*"),
    ("kind-service-names",
      "Restore.Registration → ensureServiceTxn → upsertKindServiceName with idx = header.LastIndex (preserveIndexes is not consulted): known finding snap:kind-service-names:RaftIndex:rebuilt-at-header-lastindex; service-defaults destinations through insertConfigEntryWithTxn"),
    ("mesh-topology",
      "Restore.Registration → ensureServiceTxn → updateMeshTopology (idx = header.LastIndex) and gateway config entries → insertGatewayServiceTopologyMapping (idx = entry.ModifyIndex): known findings snap:mesh-topology:*"),
    ("session_checks", "Restore.Session → insertSessionTxn re-inserts one row per Session.CheckIDs() (modelled: deriveChecks)"),
    ("usage",
      "txn.Commit of the restore transaction → updateUsage over the change set, idx==0 branch: every row gets max(index[nodes], index[services], index[kvs]); rows that had dropped to 0 are not recreated: known findings snap:usage:Index:restore-uses-max-of-table-indexes, snap:usage:zero-count-row-not-recreated"),
    ("peering-secret-uuids",
      "Restore.PeeringSecrets re-inserts establishment / pending / active ids (the online dialer path never inserted the active id: known finding snap:peering-secret-uuids:active-secret-added-by-restore)") ]

/-- Deliberately unpersisted tables. -/
def unpersistedTables : List (String × String) :=
  [ ("census_snapshots", "written only by agent/consul/reporting through Store.CensusPut; no FSM command and no persister in CE") ]

/-- Every memdb schema table is persisted by a reviewed persister, or is an audited derived table, or is
    deliberately unpersisted — a new table without persister breaks this. -/
theorem snapshot_table_coverage :
    ∀ t ∈ schemaTables, t ∈ persistedTables.map (·.1) ∨ t ∈ derivedTables.map (·.1) ∨ t ∈ unpersistedTables.map (·.1) := by
  decide

/-- … and the three lists are disjoint and name schema tables only (no stale audit entries). -/
theorem snapshot_table_audit_exact :
    (persistedTables.map (·.1) ++ derivedTables.map (·.1) ++ unpersistedTables.map (·.1)).Nodup ∧
    ∀ t ∈ persistedTables.map (·.1) ++ derivedTables.map (·.1) ++ unpersistedTables.map (·.1), t ∈ schemaTables := by
  decide

/-- The reviewed table → persister/accessor map agrees with what the persisters read in the code:
    each pair is a `s.state.<accessor>()` call inside that persister, and every such call is in the map. -/
theorem persisted_tables_match_reads :
    (∀ e ∈ persistedTables, (e.2.1, e.2.2) ∈ persisterReads) ∧
    (∀ r ∈ persisterReads, r ∈ persistedTables.map (fun e => (e.2.1, e.2.2))) := by
  decide

/-- Message types restored inline by `FSM.Restore` (fsm.go, the `switch` before `restorers[msg]`). -/
def inlineRestored : List String := ["ResourceOperationType"]

/-- Every message type a persister writes has a registered restorer (or is restored inline) — a record
    kind without restorer would make `Restore` fail with "Unrecognized msg type". -/
theorem restorer_for_every_persisted :
    ∀ w ∈ persisterWrites, w.2 ∈ restorers.map (·.1) ∨ w.2 ∈ inlineRestored := by
  decide

/-- … and every persister of the persist order writes at least one record type, every writer is in the order. -/
theorem persisters_and_writers_agree :
    (∀ p ∈ persistOrder, p ∈ persisterWrites.map (·.1)) ∧ (∀ w ∈ persisterWrites, w.1 ∈ persistOrder) := by
  decide

/-- Reviewed index effect of every registered restorer function. -/
def restorerEffect : List (String × IdxEffect) :=
  [ ("restoreRegistration", .rebuild),          -- Restore.Registration → ensureRegistrationTxn(idx = header.LastIndex, preserveIndexes)
    ("restoreKV", .maxMerge),                   -- insertKVTxn(updateMax)
    ("restoreTombstone", .maxMerge),            -- Graveyard.RestoreTxn
    ("restoreSession", .maxMerge),              -- insertSessionTxn(updateMax)
    ("restoreCoordinates", .rebuild),           -- Restore.Coordinates(idx = header.LastIndex)
    ("restorePreparedQuery", .maxMerge),
    ("restoreAutopilot", .none),
    ("restoreFeatureGates", .none),
    ("restoreLegacyIntention", .maxMerge),
    ("restoreConnectCA", .maxMerge),
    ("restoreConnectCAProviderState", .maxMerge),
    ("restoreConnectCAConfig", .none),
    ("restoreIndex", .verbatim),
    ("restoreToken", .maxMerge),                -- aclTokenInsert
    ("restorePolicy", .maxMerge),
    ("restoreConfigEntry", .rebuild),           -- insertConfigEntryWithTxn(idx = entry.ModifyIndex)
    ("restoreRole", .maxMerge),
    ("restoreBindingRule", .maxMerge),
    ("restoreAuthMethod", .maxMerge),
    ("restoreFederationState", .maxMerge),
    ("restoreSystemMetadata", .maxMerge),
    ("restoreServiceVirtualIP", .maxMerge),     -- updateVirtualIPMaxIndexes
    ("restoreFreeVirtualIP", .none),
    ("restorePeering", .maxMerge),              -- indexUpdateMaxTxn (was .overwrite via updatePeeringTableIndexes: repaired finding snap:index:peering)
    ("restorePeeringTrustBundle", .maxMerge),   -- indexUpdateMaxTxn (was .overwrite: repaired finding snap:index:peering-trust-bundles)
    ("restorePeeringSecrets", .none) ]

/-- Every registered restorer has a reviewed index effect (a new restorer must be reviewed). -/
theorem restorer_effects_reviewed : restorers.map (·.2) = restorerEffect.map (·.1) := by decide

def effectOf (f : String) : Option IdxEffect := (restorerEffect.find? (·.1 = f)).map (·.2)

def pos (p : String) : Nat := persistOrder.idxOf p

/-- No restorer that rebuilds index rows through the write path, or plainly overwrites one, runs after
    IndexRestore: its persister precedes `persistIndex`, so whatever it computed is overridden by the
    verbatim rows — "IndexRestore moved before such a restorer" breaks this, and so did `Restore.Peering`
    before its repair (effect `.overwrite`, persisted after the index). -/
theorem no_rebuild_or_overwrite_after_index :
    ∀ w ∈ persisterWrites, ∀ r ∈ restorers, r.1 = w.2 →
      (effectOf r.2 = some .rebuild ∨ effectOf r.2 = some .overwrite) → pos w.1 < pos "persistIndex" := by
  decide

/-- Max-merging restorers either run before IndexRestore (then the verbatim row wins) or belong to the two
    audited late persisters, where max-merge on top of the verbatim row is a no-op as long as the table
    index dominates the rows' ModifyIndex (`LateBounded` below; modelled and proved for the instance). -/
theorem maxmerge_before_index_or_audited :
    ∀ w ∈ persisterWrites, ∀ r ∈ restorers, r.1 = w.2 → effectOf r.2 = some .maxMerge →
      pos w.1 < pos "persistIndex" ∨ w.1 ∈ ["persistPeerings", "persistPeeringTrustBundles"] := by
  decide

/-- The persisters after the index table are exactly the audited four: peerings and trust bundles
    max-merge, secrets write no index row, resources live in the separate storage backend
    (internal/storage/inmem, own restore). -/
theorem late_persisters_audited :
    persistOrder.drop (pos "persistIndex" + 1) =
      ["persistPeerings", "persistPeeringTrustBundles", "persistPeeringSecrets", "persistResources"] ∧
    effectOf "restorePeering" = some .maxMerge ∧ effectOf "restorePeeringTrustBundle" = some .maxMerge ∧
    effectOf "restorePeeringSecrets" = some .none := by
  decide

/-- The persisters of the stand-alone instance appear in the real persist order, in the model's order. -/
theorem instance_persisters_in_order : persisterNames.Sublist persistOrder := by decide

/-! ## B. the stand-alone instance -/

/-- Well-formed states of the instance: tables in id-index order (unique keys), session_checks is the
    derived table, the index table has a row for every non-empty modelled table, and dominates the rows
    of the tables restored after it. -/
structure WF (s : State) : Prop where
  idx   : Sorted idxKey s.index
  kvs   : Sorted kvKey s.kvs
  tombs : Sorted tombKey s.tombs
  sess  : Sorted sessKey s.sessions
  peer  : Sorted lateKey s.peerings
  bund  : Sorted lateKey s.bundles
  sc    : s.sessionChecks = deriveChecks [] s.sessions
  hasS  : s.sessions ≠ [] → ∃ r ∈ s.index, idxKey r = lc kSessions
  hasK  : s.kvs ≠ [] → ∃ r ∈ s.index, idxKey r = lc kKvs
  hasT  : s.tombs ≠ [] → ∃ r ∈ s.index, idxKey r = lc kTombstones
  domP  : LateBounded kPeering s.peerings s.index
  domB  : LateBounded kBundles s.bundles s.index

/-- **Round trip of the instance.** For every well-formed state, restoring the snapshot gives back exactly
    the same state: same rows, same create/modify indexes, same index table, same derived session_checks.
    Unbounded: any number of rows, any keys, any indexes. -/
theorem restore_snapshot_instance (s : State) (h : WF s) : restore (snapshot s) = s := by
  rw [restore_snapshot_eq]
  have hsorted : Sorted idxKey (s.tombs.foldl (fun a t => maxMerge kTombstones t.index a)
            (s.kvs.foldl (fun a e => maxMerge kKvs e.modify a)
              (s.sessions.foldl (fun a x => maxMerge kSessions x.modify a) []))) :=
    foldl_maxMerge_sorted _ _ _ (foldl_maxMerge_sorted _ _ _ (foldl_maxMerge_sorted _ _ _ (sorted_nil _)))
  have h4 := insertAll_cover hsorted h.idx (early_index_covered s h.hasS h.hasK h.hasT)
  simp only [h4]
  rw [late_noop h.idx h.domP, late_noop h.idx h.domB,
    insertAll_nil h.kvs, insertAll_nil h.tombs, insertAll_nil h.sess, insertAll_nil h.peer,
    insertAll_nil h.bund, ← h.sc]

/-- A state as two peering writes leave it (ids 1 < 2; id 2 written at index 9, id 1 at index 16, so the
    table index is 16 but the last row in id order has ModifyIndex 9): the harness witness of the repaired
    finding `snap:index:peering`. -/
def peeringWitness : State :=
  { State.empty with
    index := [⟨kPeering, 16⟩]
    peerings := [⟨[1], "p1", 16⟩, ⟨[2], "p2", 9⟩] }

theorem peeringWitness_wf : WF peeringWitness where
  idx := by decide
  kvs := by decide
  tombs := by decide
  sess := by decide
  peer := by decide
  bund := by decide
  sc := by decide
  hasS := fun h => absurd rfl h
  hasK := fun h => absurd rfl h
  hasT := fun h => absurd rfl h
  domP := fun _ => ⟨⟨kPeering, 16⟩, by decide, by decide, by decide⟩
  domB := fun h => absurd rfl h

/-- **The repaired defect, kept as a theorem about the pre-repair restorer**: on the well-formed
    `peeringWitness`, `Restore.Peering` as it was (plain overwrite of the table index, after IndexRestore)
    moves the "peering" index from 16 back to 9, so the round trip fails; the current restorer gives the
    state back. -/
theorem peering_overwrite_counterexample :
    (restoreBeforeFix (snapshot peeringWitness)).index = [⟨kPeering, 9⟩] ∧
    restoreBeforeFix (snapshot peeringWitness) ≠ peeringWitness ∧
    restore (snapshot peeringWitness) = peeringWitness := by
  decide

/-- The index-dominance hypothesis is needed (and is about ill-formed states, not about the code): if a
    peering row claims a ModifyIndex above its table's index, restore raises the table index. -/
theorem index_dominance_needed :
    let s : State := { State.empty with index := [⟨kPeering, 3⟩], peerings := [⟨[1], "p", 7⟩] }
    (restore (snapshot s)).index = [⟨kPeering, 7⟩] := by
  decide

/-- IndexRestore wins: whatever the restorers before it computed, every index row of the snapshot that is
    not one of the two rows max-merged later comes back verbatim — for ANY state with an ordered index
    table (no assumption on the other tables). -/
theorem index_rows_restored_verbatim (s : State) (hi : Sorted idxKey s.index) (r : IdxRow) (hr : r ∈ s.index)
    (h₁ : idxKey r ≠ lc kPeering) (h₂ : idxKey r ≠ lc kBundles) : r ∈ (restore (snapshot s)).index := by
  rw [restore_snapshot_eq]
  have hsorted : Sorted idxKey (s.tombs.foldl (fun a t => maxMerge kTombstones t.index a)
            (s.kvs.foldl (fun a e => maxMerge kKvs e.modify a)
              (s.sessions.foldl (fun a x => maxMerge kSessions x.modify a) []))) :=
    foldl_maxMerge_sorted _ _ _ (foldl_maxMerge_sorted _ _ _ (foldl_maxMerge_sorted _ _ _ (sorted_nil _)))
  have h4s := insertAll_sorted (k := idxKey) s.index hsorted
  have h4 := (mem_insertAll s.index hsorted hi r).mpr (Or.inl hr)
  exact mem_foldl_maxMerge_of_ne _ _ _ (foldl_maxMerge_sorted _ _ _ h4s)
    (mem_foldl_maxMerge_of_ne _ _ _ h4s h4 h₁) h₂

/-- The derived usage row "kvs" after restore depends on the restored tables only — for well-formed states it
    is the function `usageKvsAfterRestore` of the ORIGINAL state (count = number of keys, index =
    max(index[nodes], index[services], index[kvs]); absent when there is no key). -/
theorem usage_after_restore (s : State) (h : WF s) :
    usageKvsAfterRestore (restore (snapshot s)) = usageKvsAfterRestore s := by
  rw [restore_snapshot_instance s h]

/-- **Known finding in the model** (`snap:usage:Index:restore-uses-max-of-table-indexes`): a key written at
    index 3 and a node registered at index 5 — online the usage row "kvs" is (count 1, index 3), the index
    of the transaction that created the key (harness scenario `usage-index`); after restore it is (1, 5). -/
theorem usage_index_counterexample :
    let s : State := { State.empty with index := [⟨kKvs, 3⟩, ⟨kNodes, 5⟩], kvs := [⟨[97], "v", 3⟩] }
    usageKvsAfterRestore (restore (snapshot s)) = some (1, 5) := by
  decide

/-- **Known finding in the model** (`snap:usage:zero-count-row-not-recreated`): a key set at 3 and deleted at
    4 leaves, online, the usage row "kvs" = (count 0, index 4) (harness scenario `usage-zero-row`); the
    restore transaction sees no kv change and writes no row. -/
theorem usage_zero_row_counterexample :
    let s : State := { State.empty with index := [⟨kKvs, 4⟩, ⟨kTombstones, 4⟩], tombs := [⟨[97], 4⟩] }
    usageKvsAfterRestore (restore (snapshot s)) = none := by
  decide

/-- The header: `LastIndex` of a snapshot is the maximum over the index rows keyed by a schema table. -/
theorem header_is_table_max (s : State) : (snapshot s).last = lastIndex s := rfl

/-- The record stream is the concatenation of the persisters' outputs in persist order. -/
theorem stream_order (s : State) :
    (snapshot s).recs = s.sessions.map Rec.session ++ s.kvs.map Rec.kv ++ s.tombs.map Rec.tomb ++
      s.index.map Rec.index ++ s.peerings.map Rec.peering ++ s.bundles.map Rec.bundle := by
  simp [snapshot, Format.snapshot, fmt, persisters]

/-! ### non-vacuity -/

/-- a state with two keys, a tombstone, a session holding two check links, a peering and a bundle, whose
    index table also carries rows of unmodelled tables -/
def sampleState : State :=
  { index := [⟨kKvs, 7⟩, ⟨[110, 111, 100, 101, 115], 12⟩, ⟨kPeering, 9⟩, ⟨kBundles, 11⟩, ⟨kSessions, 5⟩, ⟨kTombstones, 8⟩]
    kvs := [⟨[97], "x", 7⟩, ⟨[97, 47, 98], "y", 3⟩]
    tombs := [⟨[98], 8⟩]
    sessions := [⟨[1], [110, 49], "s", 5, [[99, 49], [99, 50]]⟩]
    sessionChecks := [⟨[110, 49], [99, 49], [1]⟩, ⟨[110, 49], [99, 50], [1]⟩]
    peerings := [⟨[1], "p", 9⟩]
    bundles := [⟨[112], "b", 11⟩] }

theorem sampleState_wf : WF sampleState where
  idx := by decide
  kvs := by decide
  tombs := by decide
  sess := by decide
  peer := by decide
  bund := by decide
  sc := by decide
  hasS := fun _ => by decide
  hasK := fun _ => by decide
  hasT := fun _ => by decide
  domP := fun _ => ⟨⟨kPeering, 9⟩, by decide, by decide, by decide⟩
  domB := fun _ => ⟨⟨kBundles, 11⟩, by decide, by decide, by decide⟩

/-- the theorem's conclusion on the sample, evaluated by the kernel -/
example : restore (snapshot sampleState) = sampleState := by decide

/-! ## C. cut points -/

variable {S R C Res : Type}

/-- **Cut-point commutation, exact form.** For any deterministic machine and any snapshot format whose
    round trip is the identity on a class of states that contains the state at the cut: running the rest
    of the log from the restored state gives the same results and the same final state as running it from
    the state that took the snapshot, and the whole history decomposes at the cut. Any log, any cut. -/
theorem cut_commutes_exact (m : Machine S C Res) (f : Format S R) (Reach : S → Prop)
    (hrt : ∀ s, Reach s → f.restore (f.snapshot s) = s)
    (init : S) (log : List C) (k : Nat) (hreach : Reach (m.run init (log.take k)).1) :
    let cut := (m.run init (log.take k)).1
    m.run (f.restore (f.snapshot cut)) (log.drop k) = m.run cut (log.drop k) ∧
    (m.run init log).1 = (m.run (f.restore (f.snapshot cut)) (log.drop k)).1 ∧
    (m.run init log).2 = (m.run init (log.take k)).2 ++ (m.run (f.restore (f.snapshot cut)) (log.drop k)).2 := by
  intro cut
  have e : f.restore (f.snapshot cut) = cut := hrt cut hreach
  rw [e]
  have hsplit := m.run_append init (log.take k) (log.drop k)
  rw [List.take_append_drop] at hsplit
  exact ⟨rfl, by rw [hsplit], by rw [hsplit]⟩

/-- **Cut-point commutation up to observation.** When restore reproduces the state only up to a relation `E`
    that the machine respects (related states give equal results and related successors — e.g. "equal
    except for the index carried by usage rows"), the rest of the log still produces exactly the same
    results, and related final states. This is the form `cut_commutes` must take for the code as it is. -/
theorem cut_commutes_obs (m : Machine S C Res) (E : S → S → Prop)
    (hE : ∀ s t c, E s t → E (m.step s c).1 (m.step t c).1 ∧ (m.step s c).2 = (m.step t c).2)
    (s t : S) (h : E s t) (log : List C) :
    (m.run s log).2 = (m.run t log).2 ∧ E (m.run s log).1 (m.run t log).1 := by
  induction log generalizing s t with
  | nil => exact ⟨rfl, h⟩
  | cons c cs ih =>
    obtain ⟨h1, h2⟩ := hE s t c h
    obtain ⟨r1, r2⟩ := ih _ _ h1
    simp only [Machine.run]
    exact ⟨by rw [h2, r1], r2⟩

/-- non-vacuity of the observational form: for `kvMachine` (defined below in full: it reads and writes only
    `kvs` and `index`) the relation "same kvs, same index table" satisfies the congruence hypothesis. -/
example (s t : State) (c : Bytes × Nat × Bool) (h : s.kvs = t.kvs ∧ s.index = t.index) :
    let m : Machine State (Bytes × Nat × Bool) Bool :=
      { step := fun s (key, idx, del) =>
          if del then ({ s with kvs := s.kvs.filter (fun e => e.key ≠ key), index := upsert idxKey ⟨kKvs, idx⟩ s.index }, true)
          else ({ s with kvs := upsert kvKey ⟨key, "v", idx⟩ s.kvs, index := upsert idxKey ⟨kKvs, idx⟩ s.index }, true) }
    ((m.step s c).1.kvs = (m.step t c).1.kvs ∧ (m.step s c).1.index = (m.step t c).1.index) ∧
    (m.step s c).2 = (m.step t c).2 := by
  obtain ⟨key, idx, del⟩ := c
  cases del <;> simp [h.1, h.2]

/-- Instance of the exact form: ANY deterministic machine over the stand-alone state that keeps `WF`
    invariant commutes with snapshot + restore at every cut of every log. -/
theorem cut_commutes_instance (m : Machine State C Res) (init : State) (log : List C) (k : Nat)
    (hinv : ∀ pre, WF (m.run init pre).1) :
    m.run (restore (snapshot (m.run init (log.take k)).1)) (log.drop k) = m.run (m.run init (log.take k)).1 (log.drop k) := by
  rw [restore_snapshot_instance _ (hinv (log.take k))]

/-- non-vacuity of the cut theorem: a two-command KV machine on the instance (set / delete a key, bumping
    the "kvs" index) cut in the middle of a three-entry log -/
def kvMachine : Machine State (Bytes × Nat × Bool) Bool :=
  { step := fun s (key, idx, del) =>
      if del then
        ({ s with kvs := s.kvs.filter (fun e => e.key ≠ key), index := upsert idxKey ⟨kKvs, idx⟩ s.index }, true)
      else
        ({ s with kvs := upsert kvKey ⟨key, "v", idx⟩ s.kvs, index := upsert idxKey ⟨kKvs, idx⟩ s.index }, true) }

example :
    let log : List (Bytes × Nat × Bool) := [([97], 1, false), ([98], 2, false), ([97], 3, true)]
    let cut := (kvMachine.run State.empty (log.take 2)).1
    kvMachine.run (restore (snapshot cut)) (log.drop 2) = kvMachine.run cut (log.drop 2) ∧
    (kvMachine.run State.empty log).1.kvs = [⟨[98], "v", 2⟩] := by
  decide

end CV.Snap

/-! ## E. the plain persisted tables (CV.SnapG) and the restore-side field audit -/

namespace CV.SnapG
open CV CV.Snap CV.Facts.Snap

/-- Well-formed states: the three ordered maps in key order (one row per key), every index row a restorer that runs
    BEFORE IndexRestore computes is keyed like a row of the original index table (`cover`), and every index write of
    a restorer that runs AFTER it is dominated by the original row of that key (`dom`). -/
structure WF (s : State) : Prop where
  idx   : Sorted idxKey s.index
  rows  : Sorted gKey s.rows
  late  : Sorted gKey s.late
  cover : ∀ r ∈ s.rows, ∀ w ∈ writes (lastIndex s) r, ∃ x ∈ s.index, idxKey x = lc w.1
  dom   : ∀ r ∈ s.late, ∀ w ∈ writes (lastIndex s) r, ∃ x ∈ s.index, idxKey x = lc w.1 ∧ w.2 ≤ x.value

/-- **Round trip of the 25 plain tables.** For every well-formed state — any number of rows in any of the tables, any
    keys, any create / modify indexes, any index table — restoring the snapshot gives back exactly the same state:
    every row with its payload and both indexes, and the whole index table. -/
theorem restore_snapshot_tables (s : State) (h : WF s) : restore (snapshot s) = s := by
  rw [restore_snapshot_eq]
  have h1 : Sorted idxKey (applyWrites (allWrites (lastIndex s) s.rows) []) := applyWrites_sorted _ (sorted_nil _)
  have h2 : insertAll idxKey (applyWrites (allWrites (lastIndex s) s.rows) []) s.index = s.index := by
    apply insertAll_cover h1 h.idx
    intro y hy
    rcases mem_applyWrites_imp _ hy with hy | ⟨w, hw, e⟩
    · cases hy
    · obtain ⟨r, hr, hwr⟩ := List.mem_flatMap.mp hw
      obtain ⟨x, hx, ex⟩ := h.cover r hr w hwr
      exact ⟨x, hx, by rw [e, ex]⟩
  have h3 : applyWrites (allWrites (lastIndex s) s.late) s.index = s.index := by
    apply applyWrites_noop _ h.idx
    intro w hw
    obtain ⟨r, hr, hwr⟩ := List.mem_flatMap.mp hw
    exact h.dom r hr w hwr
  simp only [h2, h3, insertAll_nil h.rows, insertAll_nil h.late]

/-- The rows themselves need nothing from the index table: for ANY state whose tables are in key order, every row of
    every table comes back with its payload and indexes. -/
theorem table_rows_restored (s : State) (hr : Sorted gKey s.rows) (hl : Sorted gKey s.late) :
    (restore (snapshot s)).rows = s.rows ∧ (restore (snapshot s)).late = s.late := by
  rw [restore_snapshot_eq]
  exact ⟨insertAll_nil hr, insertAll_nil hl⟩

/-- The record stream: rows of the early tables in (table, key) order, then the index table, then the late tables. -/
theorem stream_order_tables (s : State) :
    (snapshot s).recs = s.rows.map Rec.row ++ s.index.map Rec.index ++ s.late.map Rec.late := by
  simp [snapshot, Format.snapshot, fmt]

/-- `cover` is needed, and shows the index writes of `Restore.ServiceVirtualIP`: a virtual-IP row of a PEERED service in
    a state whose index table lacks "service-virtual-ips.imported" — restore adds that row (value = the row's
    ModifyIndex). Such a state is not produced online (`assignServiceVirtualIP` writes the same three rows). -/
theorem vip_imported_index_needed :
    let s : State := { index := [⟨strB "service-virtual-ips", 7⟩], rows := [⟨0, [119], "vip", 7, 7, true⟩], late := [] }
    (restore (snapshot s)).index = [⟨strB "service-virtual-ips", 7⟩, ⟨strB "service-virtual-ips.imported", 7⟩] := by
  decide

/-- … and of `Restore.Coordinates`: it writes "coordinates" ← header LastIndex (the index of ANOTHER table's last
    write), which only the verbatim index row hides: without that row the restored server reports 9 for a table whose
    rows carry no index at all. -/
theorem coordinates_index_is_header :
    let s : State := { index := [⟨strB "kvs", 9⟩], rows := [⟨2, [110, 49], "coord", 0, 0, false⟩], late := [] }
    (restore (snapshot s)).index = [⟨strB "coordinates", 9⟩, ⟨strB "kvs", 9⟩] := by
  decide

/-- `dom` is needed for the tables persisted after the index table. -/
theorem late_dominance_needed :
    let s : State := { index := [⟨strB "peering", 3⟩], rows := [], late := [⟨22, [1], "p", 3, 7, false⟩] }
    (restore (snapshot s)).index = [⟨strB "peering", 7⟩] := by
  decide

/-- Reviewed: memdb table of CV.SnapG → its persister. The sequence of persisters (in table order) is a sub-sequence of
    the real persist order, the early / late split is the position of `persistIndex`, and every table is a persisted
    schema table — so table numbers really are stream order. A persister moved in `persistCE` breaks this. -/
theorem tables_follow_persist_order :
    (tables.map fun d => ((persistedTables.find? (·.1 = d.name)).map (·.2.1)).getD "?").eraseDups.Sublist persistOrder ∧
    (∀ d ∈ tables, ∃ e ∈ persistedTables, e.1 = d.name ∧ (d.late = decide (pos "persistIndex" < pos e.2.1))) ∧
    (tables.map (·.name)).Nodup := by
  decide

/-- Every persisted schema table is either one of the plain tables of CV.SnapG, or the index table itself, or a catalog
    table restored through `Restore.Registration` (store model CV.Store.Snap). -/
theorem persisted_tables_all_modelled :
    ∀ e ∈ persistedTables, e.1 ∈ tables.map (·.name) ∨ e.1 ∈ ["index", "nodes", "services", "checks"] := by
  decide

/-- non-vacuity: a state with rows in eleven tables (a peered virtual IP, the counter, a coordinate, a token, a policy,
    a key, a tombstone, the autopilot singleton, two config entries, a federation state, a metadata entry; a peering, a
    trust bundle and a secrets row after the index table) and index rows far apart -/
def sampleTables : State :=
  { index := [⟨strB "acl-policies", 12⟩, ⟨strB "acl-tokens", 40⟩, ⟨strB "config-entries", 91⟩, ⟨strB "coordinates", 33⟩,
              ⟨strB "federation-states", 5⟩, ⟨strB "kvs", 77⟩, ⟨strB "nodes", 30⟩, ⟨strB "peering", 60⟩,
              ⟨strB "peering-trust-bundles", 61⟩, ⟨strB "service-virtual-ips", 31⟩, ⟨strB "service-virtual-ips.imported", 31⟩,
              ⟨strB "system-metadata", 2⟩, ⟨strB "tombstones", 78⟩]
    rows := [⟨0, [100, 98], "vip-db", 31, 31, true⟩, ⟨0, [119], "vip-web", 8, 9, false⟩, ⟨1, [1], "counter", 0, 0, false⟩,
             ⟨2, [110, 49], "coord", 0, 0, false⟩, ⟨4, [1], "tok", 10, 40, false⟩, ⟨5, [2], "pol", 12, 12, false⟩,
             ⟨9, [97], "kv", 3, 77, false⟩, ⟨10, [98], "tomb", 78, 78, false⟩, ⟨12, [], "ap", 4, 6, false⟩,
             ⟨19, [1, 0, 119], "ce1", 20, 91, false⟩, ⟨19, [2, 0, 119], "ce2", 21, 21, false⟩, ⟨20, [100, 99, 50], "fs", 5, 5, false⟩,
             ⟨21, [107], "sm", 2, 2, false⟩]
    late := [⟨22, [1], "peer", 50, 60, false⟩, ⟨23, [112], "tb", 61, 61, false⟩, ⟨24, [1], "sec", 0, 0, false⟩] }

theorem sampleTables_wf : WF sampleTables where
  idx := by decide
  rows := by decide
  late := by decide
  cover := by decide
  dom := by decide

example : restore (snapshot sampleTables) = sampleTables ∧ (snapshot sampleTables).last = 91 := by decide

/-- ANY deterministic machine over these tables that keeps `WF` invariant commutes with snapshot + restore at every
    cut of every log. -/
theorem cut_commutes_tables {C Res : Type} (m : Machine State C Res) (init : State) (log : List C) (k : Nat)
    (hinv : ∀ pre, WF (m.run init pre).1) :
    m.run (restore (snapshot (m.run init (log.take k)).1)) (log.drop k) = m.run (m.run init (log.take k)).1 (log.drop k) := by
  rw [restore_snapshot_tables _ (hinv (log.take k))]

/-! ### restore-side field audit (regenerated facts: what the persisters encode, what the restorers decode and build) -/

/-- Reviewed: what the persister's expression denotes, where the fact is not already a type name. -/
def persistedTypeOf : List (String × String) :=
  [ ("call n.ToRegisterRequest", "structs.RegisterRequest"),
    ("elem call s.state.PreparedQueries", "structs.PreparedQuery"),
    ("call s.state.Autopilot", "structs.AutopilotConfig"),
    ("call s.state.FeatureGates", "structs.FeatureGateSnapshot"),
    ("elem call s.state.CARoots", "structs.CARoot"),
    ("call s.state.CAConfig", "structs.CAConfiguration"),
    ("elem call s.state.CAProviderState", "structs.CAConsulProviderState"),
    ("elem call s.state.LegacyIntentions", "structs.Intention"),
    ("elem call s.state.SystemMetadataEntries", "structs.SystemMetadataEntry") ]

def typeOfPersisted (d : String) : String := ((persistedTypeOf.find? (·.1 = d)).map (·.2)).getD d

/-- Every restorer decodes the very type its persister encodes (msgpack / protobuf drop fields the target type does
    not have, silently); the one hand-written decode struct (`restoreServiceVirtualIP`) is audited field by field below. -/
theorem decode_type_is_persisted_type :
    ∀ p ∈ persistedTypes, ∀ r ∈ restorers, r.1 = p.1 → ∀ d ∈ restorerDecodes, d.1 = r.2 →
      typeOfPersisted p.2 = d.2 ∨ (d.2 = "struct" ∧ p.2 = "state.ServiceVirtualIP") := by
  decide

/-- The hand-written decode struct of `restoreServiceVirtualIP` lists every field of `state.ServiceVirtualIP` (it lacked
    `ManualIPs` until the repair acd888a: manually assigned virtual IPs were dropped by restore). -/
theorem vip_decode_struct_lists_every_field :
    ∀ f ∈ structFields, f.1 = "state.ServiceVirtualIP" → ("restoreServiceVirtualIP", f.2) ∈ restorerAnonFields := by
  decide

/-- Rows a restorer builds by hand (`state.Tombstone`, `state.ServiceVirtualIP`) get every field of their type (the CE
    `EnterpriseMeta` is an empty struct). -/
theorem hand_built_rows_complete :
    ∀ f ∈ structFields, f.2 ≠ "EnterpriseMeta" →
      (f.1 = "state.Tombstone" → ("restoreTombstone", f.1, f.2) ∈ restorerAssigns) ∧
      (f.1 = "state.ServiceVirtualIP" → ("restoreServiceVirtualIP", f.1, f.2) ∈ restorerAssigns) := by
  decide

/-- The conversions on the persist / restore path of the catalog read every field of their receiver:
    `Node.ToRegisterRequest` (all but the CE-empty Partition; it dropped Locality until the repair 48c4e1a),
    `ServiceNode.ToNodeService` (every Service* field, peer, meta, both indexes; node-level columns belong to the node
    record), `NodeService.ToServiceNode` (all but the agent-local LocallyRegisteredAsSidecar). -/
theorem conversions_read_every_field :
    (∀ f ∈ structFields, (f.1 = "structs.Node" ∧ f.2 ≠ "Partition") → ("Node.ToRegisterRequest", f.2) ∈ conversionReads) ∧
    (∀ f ∈ structFields, (f.1 = "structs.ServiceNode" ∧
        (["ID", "Node", "Address", "Datacenter", "TaggedAddresses", "NodeMeta", "RaftIndex"].contains f.2) = false) →
        ("ServiceNode.ToNodeService", f.2) ∈ conversionReads) ∧
    (∀ f ∈ structFields, (f.1 = "structs.NodeService" ∧ (["LocallyRegisteredAsSidecar", "RaftIndex"].contains f.2) = false) →
        ("NodeService.ToServiceNode", f.2) ∈ conversionReads) := by
  refine ⟨by decide, by decide, by decide⟩

/-- … and both conversions between the two service shapes carry the create and the modify index. -/
theorem conversions_carry_indexes :
    ("ServiceNode.ToNodeService", "CreateIndex") ∈ conversionReads ∧ ("ServiceNode.ToNodeService", "ModifyIndex") ∈ conversionReads ∧
    ("NodeService.ToServiceNode", "CreateIndex") ∈ conversionReads ∧ ("NodeService.ToServiceNode", "ModifyIndex") ∈ conversionReads := by
  decide

/-- `ensureRegistrationTxn` (what `Restore.Registration` runs) builds the node row with every field of `structs.Node`. -/
theorem registration_builds_every_node_field :
    (∀ f ∈ structFields, (f.1 = "structs.Node" ∧ f.2 ≠ "RaftIndex") → ("ensureRegistrationTxn", f.1, f.2) ∈ registrationAssigns) ∧
    ("ensureRegistrationTxn", "structs.Node", "CreateIndex") ∈ registrationAssigns ∧
    ("ensureRegistrationTxn", "structs.Node", "ModifyIndex") ∈ registrationAssigns := by
  decide

end CV.SnapG

/-! ## D. the shared store model (CV.Store): snapshot / restore of the real tables

`snapshotS` / `restoreS` (CV/Store/Snap.lean) are the persisters and restorers of the covered tables over the
shared `State`: nodes with their services and checks through `Restore.Registration` (preserveIndexes), sessions,
kvs, tombstones, prepared queries, the verbatim index table. -/

namespace CV.Store
open CV

/-- **Exactly what restore reproduces, and what it does not.** For every state with a well-formed catalog
    (`CatWF`) and ordered tables with non-empty kv / tombstone keys — no assumption on `sessChecks`, no
    coverage assumption on the index table — the restore of its snapshot succeeds and
      * nodes, services, checks, sessions, kvs, tombstones and prepared queries come back row for row, with
        the same create / modify indexes;
      * `session_checks` is the table DERIVED from the sessions (whatever the original held);
      * every row of the original index table is restored verbatim (extra rows can only be rows that the
        restorers before `IndexRestore` computed under keys the original table did not have);
      * the leader-local lock-delay map starts empty. -/
theorem restore_snapshot_store_partial (s : State) (w : CatWF s)
    (kvS : TSorted KV.pk keyLt s.kvs) (kvKey : ∀ e ∈ s.kvs, e.key ≠ [])
    (tombS : TSorted Tomb.pk keyLt s.tombs) (tombKey : ∀ t ∈ s.tombs, t.key ≠ [])
    (sessS : TSorted Sess.pk strLt s.sessions) (pqS : TSorted PQ.pk strLt s.queries)
    (idxS : IdxSorted s.index) (idxNorm : ∀ r ∈ s.index, lc r.1 = r.1) :
    ∃ r, restoreS (snapshotS s) = .ok r ∧
      r.nodes = s.nodes ∧ r.svcs = s.svcs ∧ r.chks = s.chks ∧ r.sessions = s.sessions ∧ r.kvs = s.kvs ∧
      r.tombs = s.tombs ∧ r.queries = s.queries ∧ r.sessChecks = deriveSC [] s.sessions ∧
      (∀ x ∈ s.index, x ∈ r.index) ∧ r.loc = {} := by
  obtain ⟨ix, hix, _, _, e⟩ := restore_eval (K := fun _ => True) w kvKey tombKey
    ⟨fun _ => ⟨trivial, trivial⟩, fun _ _ => trivial, fun _ => ⟨trivial, trivial, trivial, trivial⟩,
      fun _ _ => ⟨⟨trivial, trivial, trivial⟩, trivial⟩, fun _ => ⟨trivial, trivial⟩⟩
    (fun _ => trivial) (fun _ => trivial) (fun _ => trivial) (fun _ => trivial)
  refine ⟨_, e, rfl, rfl, rfl, tInsertAll_nil strLt_ord sessS, tInsertAll_nil keyLt_ord kvS,
    tInsertAll_nil keyLt_ord tombS, tInsertAll_nil strLt_ord pqS, rfl, ?_, rfl⟩
  intro x hx
  show x ∈ s.index.foldl (fun a r => idxSet a r.1 r.2) ix
  rw [index_fold_tinsert _ _ idxNorm]
  exact (mem_tInsertAll strLt_ord s.index hix (tsorted_keys_ne strLt_ord idxS) x).mpr (Or.inl hx)

/-- **Round trip over the shared store model.** For every well-formed state (`SnapWF`: additionally
    `session_checks` is the derived table and the index table covers, `IdxCovers`, every key the earlier
    restorers compute) restoring the snapshot gives back exactly the replicated state: every table, every create /
    modify index, the whole index table. Unbounded. -/
theorem restore_snapshot_store (s : State) (w : SnapWF s) : restoreS (snapshotS s) = .ok s.repl := by
  obtain ⟨ix, hix, hks, _, e⟩ := restore_eval (K := HasRow s) w.cat w.kvKey w.tombKey w.idxCover.cat
    w.idxCover.sessions w.idxCover.kvs w.idxCover.tombs w.idxCover.queries
  rw [e]
  have hidx : s.index.foldl (fun a r => idxSet a r.1 r.2) ix = s.index :=
    index_verbatim w.idxS w.idxNorm hix hks
  rw [hidx, tInsertAll_nil strLt_ord w.sessS, tInsertAll_nil keyLt_ord w.kvS, tInsertAll_nil keyLt_ord w.tombS,
    tInsertAll_nil strLt_ord w.pqS, ← w.sc]
  cases s
  rfl

/-- **The full-strength round trip is false for the faithful model** — known mechanism
    `snap:checks:ServiceName:stale-online-copy`. In `SnapCex.stale` (node n1, service id s0 now named "web", check
    c1 bound to s0 whose row still says "api": what `register s0/api + c1; register s0/web` leaves behind) every
    `CatWF` clause holds except the last one (`c.svcName = v.name`); the restore succeeds, reproduces nodes and
    services, and REWRITES the check's service name. -/
theorem restore_snapshot_store_counterexample :
    ∃ r, restoreS (snapshotS SnapCex.stale) = .ok r ∧ r.nodes = SnapCex.stale.nodes ∧ r.svcs = SnapCex.stale.svcs ∧
      r.chks = [{ SnapCex.c1 with svcName := "web" }] ∧ r.chks ≠ SnapCex.stale.chks := by
  obtain ⟨r, e, hn, hv, hc⟩ := SnapCex.stale_restore
  refine ⟨r, e, hn, hv, hc, ?_⟩
  rw [hc]
  simp [SnapCex.stale, SnapCex.c1]

/-- non-vacuity: a state with a node, a key and the index rows their writes leave is well formed, and the
    round-trip theorem applies to it -/
theorem sample_store_round_trip : SnapWF SnapCex.sample ∧ restoreS (snapshotS SnapCex.sample) = .ok SnapCex.sample.repl :=
  ⟨SnapCex.sample_wf, restore_snapshot_store _ SnapCex.sample_wf⟩

/-- no read path of CV/Store/Query.lean looks at the leader-local lock-delay map -/
theorem query_ignores_local (s : State) (q : Query) : q.run s.repl = q.run s := by
  have hrows : ∀ l : List Svc, csnRows s.repl l = csnRows s l := by
    intro l
    induction l with
    | nil => rfl
    | cons v vs ih =>
      show (match csnRow s.repl v, csnRows s.repl vs with
        | some r, some rs => some (r :: rs)
        | _, _ => none) = _
      rw [ih]; rfl
  cases q
  case csn name =>
    show (maxIndexForService s.repl name _ true, csnResult s.repl (svcsNamed s.repl name)) = _
    unfold csnResult
    rw [hrows]; rfl
  all_goals rfl

/-- **Cut-point commutation over the shared store model.** Whenever the state at the cut is well formed,
    the restored server answers the rest of the log with the same results, ends in the same replicated state
    as the server that took the snapshot (and as the uninterrupted history), and every read of
    CV/Store/Query.lean — result AND reported index — is the same on both at the cut. Any log, any cut. -/
theorem cut_commutes_store (init : State) (log : Log) (k : Nat) (w : SnapWF (replay init (log.take k))) :
    ∃ r, restoreS (snapshotS (replay init (log.take k))) = .ok r ∧
      replayResults r (log.drop k) = replayResults (replay init (log.take k)) (log.drop k) ∧
      (replay r (log.drop k)).repl = (replay init log).repl ∧
      replayResults init log = replayResults init (log.take k) ++ replayResults r (log.drop k) ∧
      ∀ q : Query, q.run r = q.run (replay init (log.take k)) := by
  refine ⟨_, restore_snapshot_store _ w, ?_, ?_, ?_, fun q => query_ignores_local _ q⟩
  · exact (replay_repl_agree' (log.drop k) _ _ (repl_repl _)).2
  · have h := (replay_repl_agree' (log.drop k) (replay init (log.take k)).repl (replay init (log.take k)) (repl_repl _)).1
    rw [h, ← replay_append, List.take_append_drop]
  · have h := (replay_repl_agree' (log.drop k) (replay init (log.take k)).repl (replay init (log.take k)) (repl_repl _)).2
    rw [h, ← replayResults_append, List.take_append_drop]

/-! ### reachability: the theorems above hold at every cut of every disciplined history -/

/-- **`SnapWF` is an invariant of the online write paths.** Every state the store model reaches from the empty
    store by a log that follows `SnapDisc` (CV/Proofs/StoreSnapReach.lean; decidable) is well formed in the sense
    of the round-trip theorem: all seven tables in key order with one row per key, non-empty kv / tombstone keys,
    unique node IDs, non-zero node CreateIndex, every service on a stored node (same spelling), every check on a
    stored node with a non-empty status and — when bound — carrying the name of its stored instance,
    `session_checks` equal to the links of the live sessions, the index table sorted, lower-cased and covering
    every row the restorers compute. The discipline excludes: two spellings of one node name (findings
    `snap:case-folding:*`), an instance key re-registered under another service name
    (`snap:checks:ServiceName:stale-online-copy`, `snap:kind-service-names:row-stale-after-service-renamed`;
    `restore_snapshot_store_counterexample`), a session created under the ID of a session that is live at that point
    (`sessNewB`; implied by "no session ID is created twice", `snap_disc_of_distinct_session_ids`), NUL in node names /
    session IDs, Raft index 0. Proof: a closure walk over the 21 primitive writes of the model (CV/Proofs/StoreLadderK.lean). -/
theorem snap_wf_reachable_partial (log : Log) (hd : SnapDisc log) : SnapWF (replay State.empty log) :=
  snapWF_reachable log hd

/-- Restore of the snapshot is the replicated state itself, at the end of every disciplined history. -/
theorem restore_snapshot_reachable_partial (log : Log) (hd : SnapDisc log) :
    restoreS (snapshotS (replay State.empty log)) = .ok (replay State.empty log).repl :=
  restore_snapshot_store _ (snapWF_reachable log hd)

/-- **Cut-point commutation at every cut of every disciplined history** (no well-formedness hypothesis left):
    snapshot at any `k`, restore on a fresh server, replay the rest — same results, same final replicated state,
    same answers (result and index) to every read at the cut. -/
theorem cut_commutes_reachable_partial (log : Log) (hd : SnapDisc log) (k : Nat) :
    ∃ r, restoreS (snapshotS (replay State.empty (log.take k))) = .ok r ∧
      replayResults r (log.drop k) = replayResults (replay State.empty (log.take k)) (log.drop k) ∧
      (replay r (log.drop k)).repl = (replay State.empty log).repl ∧
      replayResults State.empty log = replayResults State.empty (log.take k) ++ replayResults r (log.drop k) ∧
      ∀ q : Query, q.run r = q.run (replay State.empty (log.take k)) :=
  cut_commutes_store State.empty log k (snapWF_reachable _ (hd.take k))

/-- the discipline is closed under prefixes (so the cut may be anywhere) -/
theorem snap_disc_prefix (log : Log) (hd : SnapDisc log) (k : Nat) : SnapDisc (log.take k) := hd.take k

/-- the session clause of the discipline in syntactic form: NUL-free IDs, none created twice -/
theorem snap_disc_of_distinct_session_ids (log : Log) (h : NameDisc log) (hnf : ∀ a ∈ sessIds log, NF a)
    (hnd : ((sessIds log).map lc).Nodup) : SnapDisc log := SnapDisc.ofDistinct h hnf hnd

/-- the history that produces the counterexample state (`store-service-renamed-by-id` in the harness corpus) is
    excluded by the service clause -/
theorem rename_log_excluded : ¬ SnapDisc SnapCex.renameLog := SnapCex.renameLog_undisciplined

/-- non-vacuity: a disciplined log with a registration (node, service, bound check), a session, a key written and
    deleted, a prepared query and a deregistration -/
theorem sample_log_disciplined : SnapDisc SnapCex.sampleLog := SnapCex.sampleLog_disc

end CV.Store
